----------------------------- MODULE Trace_Purity -----------------------------
(***************************************************************************)
(* Code -> spec validation of recorded histories (C18).  A record is one    *)
(* history executed in one interpreter: per step the operation, the         *)
(* fingerprint of its result and the fingerprints of all live objects after *)
(* the step; plus the fingerprints before the first step and, per           *)
(* operation, the canonical result fingerprint (the operation executed      *)
(* alone in a fresh interpreter with another hash seed).  Each step must be *)
(* a step of Session: Det (same operation, same result - within the history *)
(* and with respect to the canonical run) and Frame (no live object         *)
(* changes).  One behaviour per record; the invariant names the first step  *)
(* that is not a Session step.                                              *)
(***************************************************************************)
EXTENDS Integers, Sequences, FiniteSets, TLC, TLCExt, Json, CSV, IOUtils, SequencesExt
TraceRecs == JsonDeserialize(IOEnv.TRACE_FILE)
Canon == JsonDeserialize(IOEnv.CANON_FILE)       \* record: op -> fingerprint
Rej == IOEnv.REJ_FILE
VARIABLES k, i, memo
vars == <<k, i, memo>>
Rec == TraceRecs[k]
Step(j) == Rec.steps[j]
HeapBefore(j) == IF j = 1 THEN Rec.heap0 ELSE Rec.steps[j - 1].heap
DetOK(j) == /\ (Step(j).op \in DOMAIN memo => Step(j).fp = memo[Step(j).op])
            /\ Step(j).fp = Canon[Step(j).op]
FrameOK(j) == \A o \in DOMAIN HeapBefore(j) : o \in DOMAIN Step(j).heap => Step(j).heap[o] = HeapBefore(j)[o]
StepOK(j) == DetOK(j) /\ FrameOK(j)
Init == k \in 1..Len(TraceRecs) /\ i = 0 /\ memo = [o \in {} |-> ""]
Next == /\ i < Len(Rec.steps) /\ StepOK(i + 1)
        /\ i' = i + 1 /\ k' = k
        /\ memo' = [o \in DOMAIN memo \cup {Step(i + 1).op} |-> IF o = Step(i + 1).op THEN Step(i + 1).fp ELSE memo[o]]
Spec == Init /\ [][Next]_vars
Check == (i < Len(Rec.steps) /\ ~StepOK(i + 1)) =>
           CSVWrite("%1$s", <<ToJson([id |-> Rec.id, step |-> i + 1, op |-> Step(i + 1).op,
                                      verdict |-> IF ~DetOK(i + 1) THEN "Det" ELSE "Frame"])>>, Rej)
=============================================================================
