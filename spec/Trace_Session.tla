----------------------------- MODULE Trace_Session -----------------------------
(***************************************************************************)
(* Code -> spec validation of reuse histories for transforms whose values   *)
(* are not exact (C04 relation leg).  A record logs one history              *)
(*   fit(train); reuse(train); reuse(follow-up); reuse(follow-up[sel])       *)
(* (optionally through a pickled spec) with, per output row of the last     *)
(* call, the set of rows of the whole follow-up rebuild it equals (a float  *)
(* predicate evaluated by the harness).  The model requires: self-replay,   *)
(* names identical in all calls, and row-locality - row k of the selected   *)
(* rebuild corresponds to row sel[k] of the whole rebuild.                  *)
(***************************************************************************)
EXTENDS Integers, Sequences, FiniteSets, TLC, TLCExt, Json, CSV, IOUtils, SequencesExt
TraceRecs == JsonDeserialize(IOEnv.TRACE_FILE)
Rej == IOEnv.REJ_FILE
VARIABLE k
Rec == TraceRecs[k]
Verdict(r) ==
  IF ~r.self_replay THEN "self-replay-differs"
  ELSE IF r.names_whole # r.names_fit \/ r.names_part # r.names_fit THEN "column-names-depend-on-the-data"
  ELSE IF ~r.row_local THEN ""
  ELSE IF r.rows_whole # r.m THEN "rows-of-whole-rebuild"
  ELSE IF r.rows_part # Len(r.sel) THEN "rows-of-selected-rebuild"
  ELSE IF Len(r.witness) # Len(r.sel) THEN "row-locality:shape"
  ELSE IF \E i \in DOMAIN r.sel : ~(\E j \in DOMAIN r.witness[i] : r.witness[i][j] = r.sel[i]) THEN "row-locality"
  ELSE ""
Check == LET v == Verdict(Rec) IN (v # "" => CSVWrite("%1$s", <<ToJson([id |-> Rec.id, verdict |-> v])>>, Rej))
Init == k \in 1..Len(TraceRecs)
Next == UNCHANGED k
Spec == Init /\ [][Next]_k
=============================================================================
