------------------------------- MODULE MC_Reuse -------------------------------
(***************************************************************************)
(* C04 / C09: a model spec replays the recorded encoding.                   *)
(* Fit on a training frame records  S = [scoped structure, levels of every  *)
(* categorical factor, kind of every data factor, recorded shift of         *)
(* center()].  Reuse(S, D') re-evaluates the factors on D', checks the      *)
(* recorded kinds, encodes with the recorded levels and structure.          *)
(* Theorems: self-replay, names are a function of S alone, row-locality     *)
(* (any selection/duplication/reordering of follow-up rows yields the       *)
(* corresponding rows), absent levels keep their all-zero columns, unseen   *)
(* levels change no column and are announced, a kind change is an error.    *)
(***************************************************************************)
EXTENDS Integers, Sequences, FiniteSets, TLC, TLCExt, Json, CSV, IOUtils, SequencesExt
CONSTANTS Emit, MaxSel
M == INSTANCE Materialize

NumCol(v, nulls) == [kind |-> "num", num |-> v, cat |-> <<>>, nulls |-> nulls, lv |-> <<>>, declared |-> FALSE]
CatCol(v, nulls, lv, decl) == [kind |-> "cat", num |-> <<>>, cat |-> v, nulls |-> nulls, lv |-> lv, declared |-> decl]
Fr(n, cA, ca) == [n |-> n, cols |-> [c \in {"A", "a"} |-> IF c = "A" THEN cA ELSE ca]]
U4 == <<"w", "x", "y", "z">>        \* universe in sorted order; "w" is never seen at fit time
Train == <<
  Fr(4, CatCol(<<"x", "y", "z", "x">>, {}, U4, FALSE), NumCol(<<1, 3, 5, 7>>, {})),
  Fr(4, CatCol(<<"x", "y", "y", "x">>, {}, U4, FALSE), NumCol(<<2, 2, 4, 4>>, {})),
  Fr(4, CatCol(<<"x", "z", "x", "y">>, {}, <<"z", "x", "y">>, TRUE), NumCol(<<6, 0, 3, 3>>, {})) >>
Follow == <<
  Fr(3, CatCol(<<"y", "y", "x">>, {}, U4, FALSE), NumCol(<<10, 0, 4>>, {})),                 \* a level of the training data is absent
  Fr(4, CatCol(<<"w", "x", "y", "z">>, {}, U4, FALSE), NumCol(<<1, 1, 2, 1>>, {})),          \* unseen level w (and possibly z)
  Fr(3, NumCol(<<1, 2, 3>>, {}), NumCol(<<5, 6, 7>>, {})),                                    \* A arrives numeric
  Fr(3, CatCol(<<"x", "y", "x">>, {}, U4, FALSE), CatCol(<<"p", "q", "p">>, {}, <<"p", "q">>, FALSE)),   \* a arrives as text
  Fr(3, CatCol(<<"x", "", "y">>, {2}, U4, FALSE), NumCol(<<0, 2, 3>>, {1})),              \* nulls
  \* follow-up columns of categorical dtype whose DECLARED categories differ from the recorded levels: the recorded levels win
  Fr(3, CatCol(<<"x", "y", "x">>, {}, <<"x", "y">>, TRUE), NumCol(<<3, 1, 2>>, {})),                       \* fewer categories (unused removed)
  Fr(3, CatCol(<<"x", "y", "z">>, {}, <<"y", "z", "x">>, TRUE), NumCol(<<4, 0, 2>>, {})),                  \* same categories, another order
  Fr(4, CatCol(<<"x", "y", "z", "x">>, {}, <<"w", "x", "y", "z">>, TRUE), NumCol(<<1, 5, 2, 2>>, {})),     \* an extra, unobserved category
  Fr(2, CatCol(<<"y", "y">>, {}, <<"y">>, TRUE), NumCol(<<7, 8>>, {})) >>                                   \* a single declared category
FollowOf(t, u) == IF u = 0 THEN Train[t] ELSE Follow[u]

Num(e, col) == [e |-> e, kind |-> "num", col |-> col, contr |-> "", lit |-> 1, shift |-> 0, forced |-> FALSE, pw |-> 1]
Cat(e, col, contr, forced) == [e |-> e, kind |-> "cat", col |-> col, contr |-> contr, lit |-> 1, shift |-> 0, forced |-> forced, pw |-> 1]
Lit(n) == [e |-> ToString(n), kind |-> "lit", col |-> "", contr |-> "", lit |-> n, shift |-> 0, forced |-> FALSE, pw |-> 1]
a == Num("a", "a")  A == Cat("A", "A", "treatment", FALSE)
CS == Cat("C(A, contr.sum)", "A", "sum", TRUE)  CH == Cat("C(A, contr.helmert)", "A", "helmert", TRUE)
Ctr == Num("center(a)", "a")
Csq == [Num("I(center(a) * center(a))", "a") EXCEPT !.pw = 2]
I1 == <<Lit(1)>>
Formulas == << <<I1, <<A>>>>, <<<<A>>>>, <<I1, <<A>>, <<a>>>>, <<I1, <<A, a>>>>, <<<<A, a>>>>, <<I1, <<CS>>>>, <<I1, <<CH>>, <<Ctr>>>>, <<I1, <<Ctr>>>>, <<I1, <<a>>, <<Lit(2), A>>>>,
              <<I1, <<Csq>>>>, <<I1, <<A>>, <<Csq, A>>>> >>
FormulaText == << "A", "0 + A", "A + a", "A:a", "0 + A:a", "C(A, contr.sum)", "C(A, contr.helmert) + center(a)", "center(a)", "a + 2:A",
                 "I(center(a) * center(a))", "A + I(center(a) * center(a)):A" >>

VARIABLES t, u, fid, sel
vars == <<t, u, fid, sel>>
RECURSIVE SumSeq(_)
SumSeq(q) == IF q = <<>> THEN 0 ELSE Head(q) + SumSeq(Tail(q))
MeanA(frame) == SumSeq(frame.cols["a"].num) \div frame.n        \* training frames are chosen with an integral mean
\* the formula with the statistics recorded at fit time
Fitted(f) == [i \in DOMAIN Formulas[f] |-> [j \in DOMAIN Formulas[f][i] |->
                IF Formulas[f][i][j].e \in {"center(a)", "I(center(a) * center(a))"} THEN [Formulas[f][i][j] EXCEPT !.shift = MeanA(Train[t])] ELSE Formulas[f][i][j]]]
Form == Fitted(fid)
Opts == [full_rank |-> TRUE, na |-> "drop", cluster |-> FALSE]
KeptT == M!Kept(Train[t], M!DropSet(Train[t], <<Form>>, "drop", {}))
Fit == M!BuildOn(Train[t], Form, Opts, KeptT, <<>>, <<>>)
RecLevels == M!LevelsUsed(Train[t], Form, KeptT)
RecKind(f) == Train[t].cols[f.col].kind

\* selection of rows of a frame (subset, duplication, reordering)
Select(frame, r) == IF r = <<>> THEN frame ELSE
  [n |-> Len(r), cols |-> [c \in DOMAIN frame.cols |->
      [frame.cols[c] EXCEPT !.num = IF @ = <<>> THEN <<>> ELSE [i \in DOMAIN r |-> @[r[i]]],
                            !.cat = IF @ = <<>> THEN <<>> ELSE [i \in DOMAIN r |-> @[r[i]]],
                            !.nulls = {i \in DOMAIN r : r[i] \in @}]]]

DataFactors == M!DataFactors(Form)
KindChanged(frame) == \E i \in DOMAIN DataFactors :
   LET f == DataFactors[i] IN ~f.forced /\ frame.cols[f.col].kind # RecKind(f)
Unmodelled(frame) == \E i \in DOMAIN DataFactors : DataFactors[i].forced /\ frame.cols[DataFactors[i].col].kind # "cat"
Reuse(frame) ==       \* [st, names, cells, warn]
  IF Unmodelled(frame) THEN [st |-> "UNMODELLED", names |-> <<>>, cells |-> <<>>, warn |-> FALSE, kept |-> <<>>]
  ELSE IF KindChanged(frame) THEN [st |-> "ENCODING-ERROR", names |-> <<>>, cells |-> <<>>, warn |-> FALSE, kept |-> <<>>]
  ELSE LET kept == M!Kept(frame, M!DropSet(frame, <<Form>>, "drop", {}))
           b == M!BuildOn(frame, Form, Opts, kept, RecLevels, Fit.scoped)
       IN [st |-> "OK", names |-> M!Names(b), cells |-> M!Cells(b, Len(kept)), kept |-> kept, slices |-> M!Slices(b),
           warn |-> \E i \in DOMAIN DataFactors : M!Unseen(frame, DataFactors[i], kept, M!RecFor(RecLevels, DataFactors[i].e))]

Base == FollowOf(t, u)
Whole == Reuse(Base)
Picked == Reuse(Select(Base, sel))

SelfReplay == u = 0 /\ sel = <<>> => Whole.st = "OK" /\ Whole.names = M!Names(Fit) /\ Whole.cells = M!Cells(Fit, Len(KeptT))
NamesFromSpecAlone == Whole.st = "OK" => Whole.names = M!Names(Fit) /\ (Picked.st = "OK" => Picked.names = M!Names(Fit))
\* row-locality: row i of the build on the selected rows is the row of the whole build for the same input row
PosIn(kept, row) == CHOOSE i \in DOMAIN kept : kept[i] = row
RowLocal == (Whole.st = "OK" /\ sel # <<>>) =>
   /\ Picked.st = "OK"
   /\ \A i \in DOMAIN Picked.kept : LET src == sel[Picked.kept[i]] IN
         src \in {Whole.kept[q] : q \in DOMAIN Whole.kept} /\ Picked.cells[i] = Whole.cells[PosIn(Whole.kept, src)]
KindChangeIsAnError == (u \in {3, 4} /\ ~Unmodelled(Base) /\ \E i \in DOMAIN DataFactors : Base.cols[DataFactors[i].col].kind # RecKind(DataFactors[i]) /\ ~DataFactors[i].forced)
                          => Whole.st = "ENCODING-ERROR"
UnseenAnnounced == (u = 2 /\ Whole.st = "OK" /\ \E i \in DOMAIN DataFactors : DataFactors[i].kind = "cat") => Whole.warn


\* ---- ModelSpec.subset(terms): the recorded specification restricted to some of its terms ----
\* `subset` keeps, for the chosen terms (here: positions p of the formula, in formula order), the structure recorded for them and everything
\* else the parent recorded (levels, kinds, transform state); its documentation promises that "columns generated from the subset model
\* spec are guaranteed to match the corresponding columns generated from this parent model spec". Only the factors of the chosen
\* terms are evaluated, so only their kinds are guarded, only their nulls drop rows and only their unseen levels are announced.
\* Variants (design errors TLC must refute): "rescoped" derives the structure of the restricted formula afresh (the documentation warns
\* that this differs: a factor reduced against a term that is no longer there would become full), "relevelled" forgets the recorded
\* levels of the restricted formula's factors (they are re-discovered from the follow-up data).
PosSeqs == {p \in UNION {[1..k -> DOMAIN Form] : k \in 1..Len(Form)} : \A i \in 1..(Len(p) - 1) : p[i] < p[i + 1]}
Pick(q, p) == [i \in DOMAIN p |-> q[p[i]]]
SubFactors(p) == M!DataFactors(Pick(Form, p))
SubKindChanged(frame, p) == \E i \in DOMAIN SubFactors(p) : LET f == SubFactors(p)[i] IN ~f.forced /\ frame.cols[f.col].kind # RecKind(f)
SubUnmodelled(frame, p) == \E i \in DOMAIN SubFactors(p) : SubFactors(p)[i].forced /\ frame.cols[SubFactors(p)[i].col].kind # "cat"
SubsetReuseV(frame, p, variant) ==
  IF SubUnmodelled(frame, p) THEN [st |-> "UNMODELLED", names |-> <<>>, cells |-> <<>>, warn |-> FALSE, kept |-> <<>>]
  ELSE IF SubKindChanged(frame, p) THEN [st |-> "ENCODING-ERROR", names |-> <<>>, cells |-> <<>>, warn |-> FALSE, kept |-> <<>>]
  ELSE LET form == Pick(Form, p)
           kept == M!Kept(frame, M!DropSet(frame, <<form>>, "drop", {}))
           b == M!BuildOn(frame, form, Opts, kept, IF variant = "relevelled" THEN <<>> ELSE RecLevels, IF variant = "rescoped" THEN <<>> ELSE Pick(Fit.scoped, p))
       IN [st |-> "OK", names |-> M!Names(b), cells |-> M!Cells(b, Len(kept)), kept |-> kept,
           warn |-> \E i \in DOMAIN SubFactors(p) : M!Unseen(frame, SubFactors(p)[i], kept, M!RecFor(RecLevels, SubFactors(p)[i].e))]
SubsetReuse(frame, p) == SubsetReuseV(frame, p, "recorded")
\* the columns of the parent's replay that belong to the terms p
SliceOff(sl, k) == SumSeq(SubSeq(sl, 1, k - 1))
ColsOf(sl, p) == M!FlatMapM(LAMBDA k : [j \in 1..sl[k] |-> SliceOff(sl, k) + j], p)
\* the law: whenever the parent's replay answers, so does every restriction, with the parent's names for its terms and, on every row both
\* keep, the parent's cells (a restriction can keep rows the parent drops: it reads fewer columns)
SubsetLaw(variant) == Whole.st = "OK" => \A p \in PosSeqs :
   LET s == SubsetReuseV(Base, p, variant)
       cols == ColsOf(Whole.slices, p)
   IN /\ s.st = "OK"
      /\ s.names = [j \in DOMAIN cols |-> Whole.names[cols[j]]]
      /\ \A r \in DOMAIN Whole.kept : LET row == Whole.kept[r] IN
            /\ row \in {s.kept[q] : q \in DOMAIN s.kept}
            /\ s.cells[PosIn(s.kept, row)] = [j \in DOMAIN cols |-> Whole.cells[r][cols[j]]]
SubsetMatchesParent == SubsetLaw("recorded")
SubsetRescoped == SubsetLaw("rescoped")        \* refuted
SubsetRelevelled == SubsetLaw("relevelled")    \* refuted
\* the whole formula as its own restriction is the parent
SubsetIdentity == LET all == [i \in DOMAIN Form |-> i] s == SubsetReuse(Base, all) IN
   s.st = Whole.st /\ s.names = Whole.names /\ s.cells = Whole.cells /\ s.warn = Whole.warn
FrameOut(f) == [n |-> f.n, cols |-> [c \in DOMAIN f.cols |-> [kind |-> f.cols[c].kind, num |-> f.cols[c].num, cat |-> f.cols[c].cat,
                                   nulls |-> SetToSortSeq(f.cols[c].nulls, <), lv |-> f.cols[c].lv, declared |-> f.cols[c].declared]]]
ROut(r) == [st |-> r.st, names |-> r.names, cells |-> r.cells, warn |-> r.warn, kept |-> r.kept]
SubsetsOut == LET ps == SetToSeq(PosSeqs) IN [i \in DOMAIN ps |-> [pos |-> ps[i], out |-> ROut(SubsetReuse(Base, ps[i]))]]
Out == IOEnv.OUT_FILE
EmitCase == Emit => CSVWrite("%1$s", <<ToJson([t |-> t, u |-> u, formula |-> FormulaText[fid], sel |-> sel,
      train |-> FrameOut(Train[t]), follow |-> FrameOut(Base),
      fit_names |-> M!Names(Fit), fit_cells |-> M!Cells(Fit, Len(KeptT)), levels |-> RecLevels,
      whole |-> ROut(Whole), picked |-> ROut(Picked), subsets |-> IF sel = <<>> THEN SubsetsOut ELSE <<>>])>>, Out)

Init == /\ t \in DOMAIN Train /\ u \in 0..Len(Follow) /\ fid \in DOMAIN Formulas
        /\ sel \in {<<>>} \cup UNION {[1..k -> 1..FollowOf(t, u).n] : k \in 1..MaxSel}
Next == UNCHANGED vars
Spec == Init /\ [][Next]_vars
=============================================================================
