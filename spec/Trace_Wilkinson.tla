--------------------------- MODULE Trace_Wilkinson ---------------------------
(***************************************************************************)
(* Code -> spec validation of recorded parser executions.  Each record of  *)
(* the trace file is one public call                                        *)
(*   DefaultFormulaParser(cfg).get_terms(s) / Formula(s, _parser=...)       *)
(* logged at return: the tokens the real lexer produced for s, the parser   *)
(* configuration, and the observed outcomes.  The specification is          *)
(* re-evaluated on the logged tokens; a record is accepted iff every logged *)
(* observable is the one the specification (Impl and the documented Ref)    *)
(* assigns.  Records are independent, so each is an initial state.          *)
(***************************************************************************)
EXTENDS Integers, Sequences, FiniteSets, TLC, TLCExt, Json, CSV, IOUtils, SequencesExt

W == INSTANCE Wilkinson
Ref == INSTANCE WilkinsonRef

TraceRecs == JsonDeserialize(IOEnv.TRACE_FILE)
Rej == IOEnv.REJ_FILE

VARIABLE k
Rec == TraceRecs[k]

CfgOf(r) == [intercept |-> r.cfg.intercept, flags |-> {r.cfg.flags[i] : i \in DOMAIN r.cfg.flags},
             avail |-> [present |-> r.cfg.present, vars |-> r.cfg.vars]]
TokOf(t) == [k |-> t.k, s |-> t.s, cs |-> t.cs, vars |-> t.vars, num |-> t.num, ival |-> t.ival]
ToksOf(r) == [i \in DOMAIN r.toks |-> TokOf(r.toks[i])]

RECURSIVE Join(_, _)
Join(ss, sep) == IF ss = <<>> THEN "" ELSE IF Len(ss) = 1 THEN ss[1] ELSE ss[1] \o sep \o Join(Tail(ss), sep)
TermStr(t) == Join(W!ExprSeq(t), " & ")      \* injective as long as no factor expression contains " & "
TermsStr(ts) == IF ts = <<>> THEN "{}" ELSE Join([i \in DOMAIN ts |-> TermStr(ts[i])], " + ")
PartsStr(ps) == Join([i \in DOMAIN ps |-> TermsStr(ps[i])], " | ")
ResStr(res) == CASE res.st = "REJECT" -> "R" [] res.st = "UNMODELLED" -> "U" [] res.shape = "tree" -> "tree#" \o W!TreeStr(res.tree)
                 [] OTHER -> res.shape \o "#" \o PartsStr(res.lhs) \o "#" \o PartsStr(res.rhs)

Agree(i, r) ==
  \/ i.st = "UNMODELLED" \/ r.st = "UNMODELLED"
  \/ (i.st = "REJECT" /\ r.st = "REJECT")
  \/ (i.st = "OK" /\ r.st = "OK" /\ i.shape = r.shape /\ i.lhs = r.lhs /\ i.rhs = r.rhs /\ i.tree = r.tree)

AstOf(cfg, toks) == LET m == W!SY!Run(cfg.flags, W!Rewrite(cfg, toks).toks) IN
                    IF m.err # "" THEN "R" ELSE IF m.queue = <<>> THEN "None" ELSE W!AstStr(m.queue[1])

\* verdict: "" = accepted, otherwise the name of the first failing clause
Verdict(r) ==
  LET cfg == CfgOf(r)
      toks == ToksOf(r)
      i == W!Parse(cfg, toks)
      d == Ref!Ref(cfg, toks)
  IN IF i.st = "UNMODELLED" THEN "skip"
     ELSE IF ~(Agree(i, d) \/ (i.st = "REJECT" /\ d.st = "OK")) THEN "model:impl-vs-ref"
     ELSE IF r.r # ResStr(i) /\ ~(ResStr(i) = "R" /\ r.r = "X") THEN "get_terms:" \o ResStr(i)
     ELSE IF r.o # ResStr(W!Ordered(i)) /\ ~(ResStr(i) = "R" /\ r.o = "X") THEN "Formula:" \o ResStr(W!Ordered(i))
     ELSE IF r.ast # "-" /\ i.st = "OK" /\ r.ast # AstOf(cfg, toks) THEN "ast:" \o AstOf(cfg, toks)
     ELSE ""

Check == LET v == Verdict(Rec) IN
         (v # "" => CSVWrite("%1$s", <<ToJson([id |-> Rec.id, verdict |-> v])>>, Rej))

Init == k \in 1..Len(TraceRecs)
Next == UNCHANGED k
Spec == Init /\ [][Next]_k
=============================================================================
