-------------------------------- MODULE Rat --------------------------------
(***************************************************************************)
(* Exact rational arithmetic on normalised pairs <<n, d>> (d > 0, gcd 1).  *)
(* TLC integers are 32-bit: every generator keeps magnitudes small.        *)
(***************************************************************************)
EXTENDS Integers, Sequences

Abs(x) == IF x < 0 THEN -x ELSE x
RECURSIVE Gcd(_, _)
Gcd(a, b) == IF b = 0 THEN a ELSE Gcd(b, a % b)
Norm(n, d) == LET g == Gcd(Abs(n), Abs(d)) s == IF d < 0 THEN -1 ELSE 1
              IN IF n = 0 THEN <<0, 1>> ELSE <<s * (n \div g), s * (d \div g)>>
R(n) == <<n, 1>>
Zero == <<0, 1>>
One == <<1, 1>>
\* addition over the least common denominator and multiplication with cross-cancellation keep the
\* intermediate products small (TLC stops with an overflow error rather than wrapping)
RAdd(a, b) == LET g == Gcd(a[2], b[2]) IN Norm(a[1] * (b[2] \div g) + b[1] * (a[2] \div g), (a[2] \div g) * b[2])
RSub(a, b) == LET g == Gcd(a[2], b[2]) IN Norm(a[1] * (b[2] \div g) - b[1] * (a[2] \div g), (a[2] \div g) * b[2])
RMul(a, b) == IF a[1] = 0 \/ b[1] = 0 THEN <<0, 1>>
              ELSE LET g1 == Gcd(Abs(a[1]), b[2]) g2 == Gcd(Abs(b[1]), a[2]) IN
                   <<(a[1] \div g1) * (b[1] \div g2), (a[2] \div g2) * (b[2] \div g1)>>
RDiv(a, b) == RMul(a, IF b[1] < 0 THEN <<-b[2], -b[1]>> ELSE <<b[2], b[1]>>)         \* b # Zero
RNeg(a) == <<-a[1], a[2]>>
RLt(a, b) == a[1] * b[2] < b[1] * a[2]
RLe(a, b) == a[1] * b[2] <= b[1] * a[2]
IsZero(a) == a[1] = 0

RECURSIVE RSum(_)
RSum(s) == IF s = <<>> THEN Zero ELSE RAdd(Head(s), RSum(Tail(s)))
Dot(u, v) == RSum([i \in DOMAIN u |-> RMul(u[i], v[i])])
=============================================================================
