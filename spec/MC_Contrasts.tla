----------------------------- MODULE MC_Contrasts -----------------------------
EXTENDS Integers, Sequences, FiniteSets, TLC, TLCExt, Json, CSV, IOUtils, SequencesExt
CONSTANTS MaxN, MaxPolyN, Emit
C == INSTANCE Contrasts

O(name, base, rev, sc, bw) == [name |-> name, base |-> base, reverse |-> rev, scale |-> sc, backward |-> bw]
OptsFor(n) == {O("treatment", b, TRUE, FALSE, TRUE) : b \in 0..n} \cup {O("sas", b, TRUE, FALSE, TRUE) : b \in {0, 1}}
              \cup {O("sum", 0, TRUE, FALSE, TRUE)}
              \cup {O("helmert", 0, r, s, TRUE) : r \in BOOLEAN, s \in BOOLEAN}
              \cup {O("diff", 0, TRUE, FALSE, b) : b \in BOOLEAN}
\* TLC integers are 32-bit (TLC reports an overflow instead of wrapping): non-default scores only for small n
ScoreSets(n) == { [i \in 1..n |-> <<i - 1, 1>>] } \cup (IF n <= 3 THEN { [i \in 1..n |-> <<i * i, 1>>] } ELSE {})
                \cup (IF n <= 4 THEN { [i \in 1..n |-> C!Norm(2 * i - 3, 2)] } ELSE {})

\* user-supplied coding matrices (integers), by number of levels
IM(rows) == [i \in DOMAIN rows |-> [j \in DOMAIN rows[i] |-> <<rows[i][j], 1>>]]
Customs == << [n |-> 2, m |-> IM(<< <<1>>, <<-1>> >>)], [n |-> 3, m |-> IM(<< <<1, 0>>, <<0, 1>>, <<-1, -1>> >>)], [n |-> 3, m |-> IM(<< <<1>>, <<2>>, <<3>> >>)],
              [n |-> 2, m |-> IM(<< <<1, 2>>, <<3, 4>> >>)], [n |-> 3, m |-> IM(<< <<2, 0, 0>>, <<0, 2, 0>>, <<0, 0, 2>> >>)] >>
VARIABLES kind, n, o, scores, li
vars == <<kind, n, o, scores, li>>

Laws ==
  /\ (kind = "matrix") => C!Standard(o, n) /\ C!InterpIsLeftInverse(o, n) /\ C!ColumnsSumToZero(o, n)
                          /\ C!NRows(C!Coding(o, n)) = n /\ (n > 1 => C!NCols(C!Coding(o, n)) = n - 1)
  /\ (kind = "poly") => C!PolyOrthogonal(scores)

Out == IOEnv.OUT_FILE
EmitCase == Emit =>
  CASE kind = "matrix" -> CSVWrite("%1$s", <<ToJson([kind |-> kind, n |-> n, o |-> o, coding |-> C!Coding(o, n), interp |-> C!Interp(o, n),
                                      collevels |-> [j \in 1..(n - 1) |-> C!ColLevel(o, n, j)], drop |-> C!DropLevel(o, n), prefix |-> C!Prefix(o)])>>, Out)
    [] kind = "poly" -> CSVWrite("%1$s", <<ToJson([kind |-> kind, n |-> Len(scores), scores |-> scores, monic |-> C!PolyMonic(scores), norm2 |-> C!PolyNorm2(scores)])>>, Out)
    [] kind = "custom" -> CSVWrite("%1$s", <<ToJson([kind |-> kind, n |-> Customs[n].n, mi |-> n, m |-> Customs[n].m, li |-> li, enc |-> C!EncodeCustom(Customs[n].m, li)])>>, Out)
    [] kind = "encode" -> CSVWrite("%1$s", <<ToJson([kind |-> kind, n |-> n, o |-> o, li |-> li, reduced |-> C!EncodeReduced(o, n, li), full |-> C!EncodeFull(n, li),
                                      collevels |-> [j \in 1..(n - 1) |-> C!ColLevel(o, n, j)], prefix |-> C!Prefix(o)])>>, Out)

Init == \/ /\ kind = "custom" /\ n \in DOMAIN Customs /\ o = O("custom", 0, TRUE, FALSE, TRUE) /\ scores = <<>> /\ li \in UNION {[1..m -> 0..Customs[n].n] : m \in 1..3}
        \/ /\ kind = "matrix" /\ n \in 1..MaxN /\ o \in OptsFor(n) /\ scores = <<>> /\ li = <<>>
        \/ /\ kind = "poly" /\ n \in 2..MaxPolyN /\ scores \in ScoreSets(n) /\ o = O("poly", 0, TRUE, FALSE, TRUE) /\ li = <<>>
        \/ /\ kind = "encode" /\ n \in 1..3 /\ o \in OptsFor(n) /\ scores = <<>> /\ li \in UNION {[1..m -> 0..n] : m \in 1..3}
Next == UNCHANGED vars
Spec == Init /\ [][Next]_vars
=============================================================================
