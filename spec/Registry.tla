------------------------------ MODULE Registry ------------------------------
(***************************************************************************)
(* The materializer registry and dispatch (FormulaMaterializerMeta in        *)
(* materializers/base.py) as a state machine.                                *)
(*                                                                           *)
(* Defining a materializer class with a REGISTER_NAME is the only action     *)
(* that changes the state: the name table maps the name to the class (a      *)
(* later class with the same name replaces it) and the class is inserted     *)
(* into the list of every input type it registers, which is kept sorted by   *)
(* descending precedence, ties in registration order (sorted() is stable     *)
(* also with reverse=True).  A replaced class stays in the input lists.      *)
(*                                                                           *)
(* for_data(type, output): explicitly registered classes first (in list      *)
(* order), then every named class whose SUPPORTS_INPUT predicate accepts     *)
(* the data, by descending precedence; without an output the first, else     *)
(* the first that lists the output; NotFound otherwise.                      *)
(*                                                                           *)
(* A class is [id, name, inputs : set, outputs : set, prec, supports : set]. *)
(***************************************************************************)
EXTENDS Integers, Sequences, FiniteSets
VARIABLES names,    \* name -> class (a function on a finite set of names)
          inputs    \* input type -> sequence of classes
NotFound == [id |-> 0, name |-> "", inputs |-> {}, outputs |-> {}, prec |-> 0, supports |-> {}]

RInit(types) == names = <<>> /\ inputs = [t \in types |-> <<>>]

\* position after the last element with precedence >= c.prec
InsertByPrec(lst, c) ==
  LET k == Cardinality({i \in DOMAIN lst : lst[i].prec >= c.prec})
      hi == SelectSeq(lst, LAMBDA x : x.prec >= c.prec)
      lo == SelectSeq(lst, LAMBDA x : x.prec < c.prec)
  IN hi \o <<c>> \o lo
\* names is a sequence of [name, cls] pairs with unique names, in first-registration order
HasName(n) == \E i \in DOMAIN names : names[i].name = n
Register(c) ==
  /\ c.name # ""
  /\ names' = IF HasName(c.name) THEN [i \in DOMAIN names |-> IF names[i].name = c.name THEN [name |-> c.name, cls |-> c] ELSE names[i]]
              ELSE Append(names, [name |-> c.name, cls |-> c])
  /\ inputs' = [t \in DOMAIN inputs |-> IF t \in c.inputs THEN InsertByPrec(inputs[t], c) ELSE inputs[t]]

ForMaterializer(n) == IF HasName(n) THEN names[CHOOSE i \in DOMAIN names : names[i].name = n].cls ELSE NotFound

NamedClasses == {names[i].cls : i \in DOMAIN names}
\* the candidates of the fallback loop: named classes accepting the type by predicate.  The code iterates
\* a set sorted by precedence: among equal precedences the order is unspecified (DetFallback below)
Fallback(t) == {c \in NamedClasses : t \in c.supports}
MaxPrec(S) == CHOOSE c \in S : \A d \in S : d.prec <= c.prec
RECURSIVE ByPrec(_)
ByPrec(S) == IF S = {} THEN <<>> ELSE LET m == MaxPrec(S) IN <<m>> \o ByPrec(S \ {m})

ForData(t, output) ==       \* output = "" means "not requested"
  LET explicit == IF t \in DOMAIN inputs THEN inputs[t] ELSE <<>>
  IN IF output = "" /\ explicit # <<>> THEN explicit[1]
     ELSE LET cands == explicit \o ByPrec(Fallback(t)) IN
          IF cands = <<>> THEN NotFound
          ELSE IF output = "" THEN cands[1]
          ELSE LET ok == SelectSeq(cands, LAMBDA c : output \in c.outputs) IN IF ok = <<>> THEN NotFound ELSE ok[1]

\* the fallback order is a function of the state only when precedences of fallback candidates differ
DetFallback(t) == \A c, d \in Fallback(t) : c # d => c.prec # d.prec

(* laws *)
Accepts(c, t) == t \in c.inputs \/ t \in c.supports
\* what is returned handles the data (and the output when one is requested)
Sound(t, o) == LET r == ForData(t, o) IN r # NotFound => (Accepts(r, t) /\ (o # "" => o \in r.outputs))
\* NotFound only when no registered class can serve the request
Complete(t, o) == ForData(t, o) = NotFound =>
   ~\E c \in NamedClasses \cup UNION {{inputs[x][i] : i \in DOMAIN inputs[x]} : x \in DOMAIN inputs} :
        (t \in c.inputs \/ (c \in NamedClasses /\ t \in c.supports)) /\ (o = "" \/ o \in c.outputs)
\* an explicit registration beats a predicate, and a higher precedence beats a lower one among explicit registrations
Priority(t, o) == LET r == ForData(t, o) IN
   /\ (r # NotFound /\ t \notin r.inputs) => ~\E i \in DOMAIN inputs[t] : (o = "" \/ o \in inputs[t][i].outputs)
   /\ (r # NotFound /\ t \in r.inputs) => \A i \in DOMAIN inputs[t] : (o = "" \/ o \in inputs[t][i].outputs) => inputs[t][i].prec <= r.prec
SortedLists == \A t \in DOMAIN inputs : \A i, j \in DOMAIN inputs[t] : i < j => inputs[t][i].prec >= inputs[t][j].prec
=============================================================================
