------------------------------ MODULE MC_Lexer ------------------------------
(***************************************************************************)
(* Bounded enumeration of CHARACTER strings for C14 / C15:                 *)
(*   - lexer invariants (span order, span faithfulness) on every string    *)
(*   - whitespace insensitivity at every token boundary of every string    *)
(*   - backtick content is verbatim (exactly when it does not end in an    *)
(*     odd run of backslashes)                                             *)
(*   - totality of Lexer o Wilkinson and flag monotonicity                 *)
(*   - emission  string |-> tokens / parse outcome  for the replay legs    *)
(***************************************************************************)
EXTENDS Integers, Sequences, FiniteSets, TLC, TLCExt, Json, CSV, IOUtils, SequencesExt

CONSTANTS MaxLen, AlphaName, Emit, CheckWs

L == INSTANCE Lexer
W == INSTANCE Wilkinson

Alpha20 == << L!Ch("a", "word"), L!Ch("1", "digit"), L!Ch(".", "digit"), L!Ch("_", "word"),
              L!Ch("+", "other"), L!Ch("-", "other"), L!Ch("~", "other"), L!Ch(":", "other"),
              L!Ch("(", "other"), L!Ch(")", "other"), L!Ch("[", "other"), L!Ch("]", "other"),
              L!Ch("{", "other"), L!Ch("}", "other"), L!Ch("`", "other"), L!Ch("'", "other"),
              L!Ch("\"", "other"), L!Ch("%", "other"), L!Ch("\\", "other"), L!Ch(" ", "ws") >>
Alpha27 == Alpha20 \o << L!Ch("b", "word"), L!Ch("0", "digit"), L!Ch("*", "other"), L!Ch("/", "other"),
                         L!Ch("^", "other"), L!Ch("|", "other"), L!Ch(",", "other") >>
Alpha16 == << L!Ch("a", "word"), L!Ch("1", "digit"), L!Ch("0", "digit"), L!Ch(".", "digit"),
              L!Ch("+", "other"), L!Ch("-", "other"), L!Ch("*", "other"), L!Ch(":", "other"), L!Ch("~", "other"), L!Ch("|", "other"),
              L!Ch("(", "other"), L!Ch(")", "other"), L!Ch("{", "other"), L!Ch("}", "other"), L!Ch("`", "other"), L!Ch(" ", "ws") >>
Alpha8 == << L!Ch("(", "other"), L!Ch(")", "other"), L!Ch("[", "other"), L!Ch("]", "other"),
             L!Ch("{", "other"), L!Ch("}", "other"), L!Ch("`", "other"), L!Ch("\"", "other"), L!Ch("a", "word"), L!Ch("\\", "other") >>
Alphabet == CASE AlphaName = "c20" -> Alpha20 [] AlphaName = "c27" -> Alpha27 [] AlphaName = "c16" -> Alpha16 [] AlphaName = "c8" -> Alpha8

VARIABLE str
Chars == [i \in DOMAIN str |-> Alphabet[str[i]]]
Text == [i \in DOMAIN str |-> Alphabet[str[i]].c]

(* ---------------- C15: lexer theorems ---------------- *)
M == L!Lex(Chars)
SpansOK == M.err = "" => /\ L!SpansOrdered(M.out) /\ L!SpansWellFormed(M.out, Len(Chars))
                         /\ \A j \in DOMAIN M.out : L!SpanFaithful(Chars, M.out[j])

\* role of each character: "op" (operator character), "group" (grouping bracket), "pct" (outer % of a quoted
\* operator) or "-" ; computed by running the machine and looking at the rule that consumes the character
RoleAt(m, ch) ==
  IF m.err # "" \/ m.take > 0 THEN "-"
  ELSE IF m.qc # <<>> THEN (IF ch.c = "%" /\ L!Top(m) = "%" /\ Len(m.qc) = 1 THEN "pct" ELSE "-")
  ELSE IF ch.c = "%" THEN "pct"
  ELSE IF ch.c \in {"{", "`"} THEN "-"
  ELSE IF ch.c \in {"(", "["} THEN (IF m.tok.kind \in {"name", "python"} THEN "-" ELSE "group")
  ELSE IF ch.c \in {")", "]"} THEN "group"
  ELSE IF ch.cls = "ws" \/ ch.c \in {"'", "\""} \/ ch.cls \in {"word", "digit"} THEN "-"
  ELSE "op"
RECURSIVE Roles(_, _, _)
Roles(m, chars, i) == IF i >= Len(chars) THEN <<>>
                      ELSE <<RoleAt(m, chars[i + 1])>> \o Roles(L!LexStep(m, chars[i + 1], i), chars, i + 1)
Strip(out) == [j \in DOMAIN out |-> [chars |-> IF out[j].kind = "operator" THEN SelectSeq(out[j].chars, LAMBDA c : TRUE) ELSE out[j].chars,
                                     kind |-> out[j].kind]]
InsertSpace(chars, p) == SubSeq(chars, 1, p) \o <<L!Ch(" ", "ws")>> \o SubSeq(chars, p + 1, Len(chars))
\* a space inserted next to an unquoted operator character or grouping bracket changes nothing;
\* the outer side of a %...% operator counts, its inner side does not
WsInsensitive ==
  CheckWs => LET roles == Roles(L!L0, Chars, 0) IN
    \A p \in 0..Len(Chars) :
      LET before == IF p >= 1 THEN roles[p] ELSE "-"
          after  == IF p < Len(Chars) THEN roles[p + 1] ELSE "-"
          pctOuterBefore == before = "pct" /\ Cardinality({q \in 1..p : roles[q] = "pct"}) % 2 = 0   \* closing %
          pctOuterAfter  == after = "pct" /\ Cardinality({q \in 1..p : roles[q] = "pct"}) % 2 = 0    \* opening %
          boundary == before \in {"op", "group"} \/ after \in {"op", "group"} \/ pctOuterBefore \/ pctOuterAfter
          M2 == L!Lex(InsertSpace(Chars, p))
      IN (boundary /\ M.err = "") => (M2.err = "" /\ Strip(M2.out) = Strip(M.out))

\* backtick-quoted content (no backtick inside) is verbatim iff it does not end in an odd run of backslashes
TrailingBackslashes(cs) == LET n == Len(cs) IN
  IF n = 0 THEN 0 ELSE Cardinality({k \in 1..n : \A j \in k..n : cs[j].c = "\\"})
VerbatimLaw == (\A i \in DOMAIN Chars : Chars[i].c # "`") =>
                 (L!Verbatim(Chars) <=> (Len(Chars) > 0 /\ TrailingBackslashes(Chars) % 2 = 0))

FragmentLaw == L!Balanced(Chars, <<>>, "") => L!FragmentVerbatim(Chars)

(* ---------------- C14: Lexer o Wilkinson ---------------- *)
RECURSIVE JoinC(_)
JoinC(cs) == IF cs = <<>> THEN "" ELSE Head(cs) \o JoinC(Tail(cs))
Digit(c) == c \in {"0", "1", "2", "3", "4", "5", "6", "7", "8", "9"}
DigitVal(c) == CASE c = "0" -> 0 [] c = "1" -> 1 [] c = "2" -> 2 [] c = "3" -> 3 [] c = "4" -> 4 [] c = "5" -> 5
                 [] c = "6" -> 6 [] c = "7" -> 7 [] c = "8" -> 8 [] OTHER -> 9
RECURSIVE IntOf(_, _)
IntOf(cs, acc) == IF cs = <<>> THEN acc ELSE IntOf(Tail(cs), IF acc > 1000 THEN acc ELSE 10 * acc + DigitVal(Head(cs)))
IsNum(cs) == LET dots == {i \in DOMAIN cs : cs[i] = "."} IN
             Cardinality(dots) <= 1 /\ Len(cs) > Cardinality(dots) /\ \A i \in DOMAIN cs : Digit(cs[i]) \/ cs[i] = "."
IVal(cs) == IF cs # <<>> /\ (\A i \in DOMAIN cs : Digit(cs[i])) /\ (cs[1] # "0" \/ \A i \in DOMAIN cs : cs[i] = "0")
            THEN IntOf(cs, 0) ELSE -1
ToParserTok(t) ==
  LET t2 == L!Sanitize(t) IN
  CASE t2.kind = "context" -> W!CtxTok(IF t2.chars[1] \in {"(", "["} THEN "open" ELSE "close", t2.chars[1])
    [] t2.kind = "operator" -> W!OpTok(IF t2.chars = <<"i", "n">> THEN <<"in">> ELSE t2.chars)
    [] t2.kind = "value" -> W!ValTok(JoinC(t2.chars), IsNum(t2.chars), IVal(t2.chars))
    [] t2.kind = "python" -> W!PyTok(JoinC(t2.chars), <<>>)
    [] OTHER -> W!Tok("name", JoinC(t2.chars))
ParserToks == [j \in DOMAIN M.out |-> ToParserTok(M.out[j])]
AllFlags == {"TWOSIDED", "MULTIPART", "MULTISTAGE"}
PCfg(i, fl) == [intercept |-> i, flags |-> fl, avail |-> [present |-> TRUE, vars |-> <<>>]]
PCfgs == << PCfg(TRUE, {"TWOSIDED", "MULTIPART"}), PCfg(FALSE, {}), PCfg(TRUE, AllFlags) >>
Outcome(c) == IF M.err # "" THEN "R" ELSE LET r == W!Parse(c, ParserToks) IN
              CASE r.st = "OK" -> "O" [] r.st = "REJECT" -> "R" [] OTHER -> "U"
\* totality: the composed machine assigns an outcome to every string (TLC would fail to evaluate otherwise),
\* and what a restricted parser accepts the unrestricted one accepts
Total == \A k \in DOMAIN PCfgs : Outcome(PCfgs[k]) \in {"O", "R", "U"}
Monotone == \A k \in DOMAIN PCfgs : Outcome(PCfgs[k]) = "O" => Outcome([PCfgs[k] EXCEPT !.flags = AllFlags]) \in {"O", "U"}

(* ---------------- emission ---------------- *)
TokOut(t) == [x |-> JoinC(t.chars), k |-> t.kind, s |-> t.start, e |-> t.end]
Out == IOEnv.OUT_FILE
EmitCase ==
  Emit => /\ (str = <<>> => CSVWrite("%1$s", <<ToJson([cfgs |-> [k \in DOMAIN PCfgs |->
                              [intercept |-> PCfgs[k].intercept, flags |-> SetToSeq(PCfgs[k].flags)]]])>>, Out))
          /\ CSVWrite("%1$s", <<ToJson([t |-> Text, err |-> M.err,
                                     toks |-> [j \in DOMAIN M.out |-> TokOut(M.out[j])],
                                     oc |-> [k \in DOMAIN PCfgs |-> Outcome(PCfgs[k])],
                                     all |-> [k \in DOMAIN PCfgs |-> Outcome([PCfgs[k] EXCEPT !.flags = AllFlags])]])>>, Out)

Init == str = <<>>
Next == Len(str) < MaxLen /\ \E a \in DOMAIN Alphabet : str' = Append(str, a)
Spec == Init /\ [][Next]_str
=============================================================================
