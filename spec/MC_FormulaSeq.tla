---------------------------- MODULE MC_FormulaSeq ----------------------------
EXTENDS Integers, Sequences, FiniteSets, TLC, TLCExt, Json, CSV, IOUtils, SequencesExt
CONSTANTS MaxOps, Emit
F == INSTANCE FormulaSeq

T(n, d) == [name |-> n, deg |-> d]
Pool == << T("1", 0), T("a", 1), T("b", 1), T("a:b", 2), T("a:b:c", 3), T("2:b", 1) >>
Names == {Pool[i].name : i \in DOMAIN Pool}
Starts == << <<>>, <<Pool[2], Pool[4]>>, <<Pool[1], Pool[3], Pool[2], Pool[5]>> >>

VARIABLES ts, hist, start, last
vars == <<ts, hist, start, last>>
Op(name, i, t) == [op |-> name, i |-> i, t |-> t]

Init == /\ start \in DOMAIN Starts /\ ts = F!StableSort(Starts[start]) /\ hist = <<>> /\ last = "init"
Next == /\ Len(hist) < MaxOps /\ UNCHANGED start
        /\ \/ \E i \in 0..3, p \in DOMAIN Pool : ts' = F!Insert(ts, i, Pool[p]) /\ hist' = Append(hist, Op("insert", i, Pool[p].name)) /\ last' = "ok"
           \/ \E i \in 0..3, p \in DOMAIN Pool : /\ hist' = Append(hist, Op("setitem", i, Pool[p].name))
                 /\ IF F!CanIndex(ts, i) THEN ts' = F!SetItem(ts, i, Pool[p]) /\ last' = "ok" ELSE ts' = ts /\ last' = "IndexError"
           \/ \E i \in 0..3 : /\ hist' = Append(hist, Op("delitem", i, ""))
                 /\ IF F!CanIndex(ts, i) THEN ts' = F!DelItem(ts, i) /\ last' = "ok" ELSE ts' = ts /\ last' = "IndexError"
           \/ \E p \in DOMAIN Pool : ts' = F!AppendT(ts, Pool[p]) /\ hist' = Append(hist, Op("append", 0, Pool[p].name)) /\ last' = "ok"
           \/ /\ hist' = Append(hist, Op("pop", 0, ""))
              /\ IF ts # <<>> THEN ts' = SubSeq(ts, 1, Len(ts) - 1) /\ last' = ts[Len(ts)].name ELSE ts' = ts /\ last' = "IndexError"
           \/ \E p \in DOMAIN Pool : /\ hist' = Append(hist, Op("remove", 0, Pool[p].name))
                 /\ IF F!IndexOf(ts, Pool[p]) >= 0 THEN ts' = F!DelItem(ts, F!IndexOf(ts, Pool[p])) /\ last' = "ok" ELSE ts' = ts /\ last' = "ValueError"
           \/ ts' = F!Extend(ts, <<Pool[4], Pool[1]>>) /\ hist' = Append(hist, Op("extend", 0, "a:b,1")) /\ last' = "ok"
Spec == Init /\ [][Next]_vars

OrderingInvariant == F!Sorted(ts)
\* list semantics on the multiset of terms
MultisetLaw == [][hist' # hist =>
   LET o == hist'[Len(hist')] IN
   \A n \in Names :
     F!Count(ts', n) = F!Count(ts, n)
        + (IF o.op \in {"insert", "append"} /\ o.t = n THEN 1 ELSE 0)
        + (IF o.op = "extend" /\ n \in {"a:b", "1"} THEN 1 ELSE 0)
        + (IF o.op = "setitem" /\ last' = "ok" /\ o.t = n THEN 1 ELSE 0)
        - (IF o.op = "setitem" /\ last' = "ok" /\ ts[o.i + 1].name = n THEN 1 ELSE 0)
        - (IF o.op = "delitem" /\ last' = "ok" /\ ts[o.i + 1].name = n THEN 1 ELSE 0)
        - (IF o.op = "pop" /\ last' = n THEN 1 ELSE 0)
        - (IF o.op = "remove" /\ last' = "ok" /\ o.t = n THEN 1 ELSE 0)]_vars

Out == IOEnv.OUT_FILE
EmitCase == Emit => CSVWrite("%1$s", <<ToJson([start |-> [i \in DOMAIN Starts[start] |-> Starts[start][i].name], hist |-> hist, last |-> last,
                                          terms |-> [i \in DOMAIN ts |-> ts[i].name]])>>, Out)
=============================================================================
