---------------------------- MODULE MC_FormulaSeq ----------------------------
EXTENDS Integers, Sequences, FiniteSets, TLC, TLCExt, Json, CSV, IOUtils, SequencesExt
CONSTANTS MaxOps, Emit
F == INSTANCE FormulaSeq

\* factor ids in string order: literals below 10
FName(id) == CASE id = 1 -> "1" [] id = 2 -> "2" [] id = 11 -> "a" [] id = 12 -> "b" [] id = 13 -> "c"
RECURSIVE Name(_)
Name(t) == IF Len(t) = 1 THEN FName(t[1]) ELSE FName(t[1]) \o ":" \o Name(Tail(t))
Pool == << <<1>>, <<11>>, <<12>>, <<11, 12>>, <<11, 12, 13>>, <<2, 12>>, <<12, 11>> >>
Keys == {F!Key(Pool[i]) : i \in DOMAIN Pool}
Starts == << <<>>, <<Pool[2], Pool[4]>>, <<Pool[1], Pool[3], Pool[2], Pool[5]>>, <<Pool[7], Pool[3], Pool[6], Pool[2]>> >>
Modes == {"none", "degree", "sort"}

VARIABLES ts, hist, start, last, mode
vars == <<ts, hist, start, last, mode>>
Op(name, i, t) == [op |-> name, i |-> i, t |-> t, j |-> 0]

Init == /\ start \in DOMAIN Starts /\ mode \in Modes /\ ts = F!Reorder(mode, Starts[start]) /\ hist = <<>> /\ last = "init"
Next == /\ Len(hist) < MaxOps /\ UNCHANGED <<start, mode>>
        /\ \/ \E i \in 0..3, p \in DOMAIN Pool : ts' = F!Insert(mode, ts, i, Pool[p]) /\ hist' = Append(hist, Op("insert", i, Name(Pool[p]))) /\ last' = "ok"
           \/ \E i \in 0..3, p \in DOMAIN Pool : /\ hist' = Append(hist, Op("setitem", i, Name(Pool[p])))
                 /\ IF F!CanIndex(ts, i) THEN ts' = F!SetItem(mode, ts, i, Pool[p]) /\ last' = "ok" ELSE ts' = ts /\ last' = "IndexError"
           \/ \E i \in 0..3 : /\ hist' = Append(hist, Op("delitem", i, ""))
                 /\ IF F!CanIndex(ts, i) THEN ts' = F!DelItem(ts, i) /\ last' = "ok" ELSE ts' = ts /\ last' = "IndexError"
           \/ \E p \in DOMAIN Pool : ts' = F!AppendT(mode, ts, Pool[p]) /\ hist' = Append(hist, Op("append", 0, Name(Pool[p]))) /\ last' = "ok"
           \/ /\ hist' = Append(hist, Op("pop", 0, ""))
              /\ IF ts # <<>> THEN ts' = SubSeq(ts, 1, Len(ts) - 1) /\ last' = Name(ts[Len(ts)]) ELSE ts' = ts /\ last' = "IndexError"
           \/ \E p \in DOMAIN Pool : /\ hist' = Append(hist, Op("remove", 0, Name(Pool[p])))
                 /\ IF F!IndexOf(ts, Pool[p]) >= 0 THEN ts' = F!DelItem(ts, F!IndexOf(ts, Pool[p])) /\ last' = "ok" ELSE ts' = ts /\ last' = "ValueError"
           \/ ts' = F!Extend(mode, ts, <<Pool[7], Pool[1]>>) /\ hist' = Append(hist, Op("extend", 0, "b:a,1")) /\ last' = "ok"
           \/ \E i \in 0..2, w \in 0..2 : /\ ts' = F!SetSlice(mode, ts, i, i + w, <<Pool[4], Pool[1]>>)
                 /\ hist' = Append(hist, [op |-> "setslice", i |-> i, t |-> "a:b,1", j |-> i + w]) /\ last' = "ok"
           \/ \E i \in 0..2 : ts' = F!DelSlice(ts, i, i + 2) /\ hist' = Append(hist, [op |-> "delslice", i |-> i, t |-> "", j |-> i + 2]) /\ last' = "ok"
Spec == Init /\ [][Next]_vars

OrderingInvariant == F!Sorted(mode, ts)
\* list semantics on the multiset of terms (terms identified as Term.__eq__ does)
MultisetLaw == [][hist' # hist =>
   LET o == hist'[Len(hist')]
       kOf(n) == {F!Key(Pool[p]) : p \in {q \in DOMAIN Pool : Name(Pool[q]) = n}}
   IN
   \A k \in Keys :
     F!Count(ts', k) = F!Count(ts, k)
        + (IF o.op \in {"insert", "append"} /\ k \in kOf(o.t) THEN 1 ELSE 0)
        + (IF o.op \in {"extend", "setslice"} /\ k \in {<<11, 12>>, <<1>>} THEN 1 ELSE 0)
        - (IF o.op \in {"setslice", "delslice"} THEN Cardinality({q \in (F!Clamp(ts, o.i) + 1)..F!Clamp(ts, o.j) : F!Key(ts[q]) = k}) ELSE 0)
        + (IF o.op = "setitem" /\ last' = "ok" /\ k \in kOf(o.t) THEN 1 ELSE 0)
        - (IF o.op = "setitem" /\ last' = "ok" /\ F!Key(ts[o.i + 1]) = k THEN 1 ELSE 0)
        - (IF o.op = "delitem" /\ last' = "ok" /\ F!Key(ts[o.i + 1]) = k THEN 1 ELSE 0)
        - (IF o.op = "pop" /\ ts # <<>> /\ F!Key(ts[Len(ts)]) = k THEN 1 ELSE 0)
        - (IF o.op = "remove" /\ last' = "ok" /\ k \in kOf(o.t) THEN 1 ELSE 0)]_vars
\* with ordering "none" the container is exactly a list: nothing but the addressed position moves
ListLaw == [][(hist' # hist /\ mode = "none") =>
   LET o == hist'[Len(hist')] IN
     /\ (o.op = "setitem" /\ last' = "ok") => \A j \in DOMAIN ts : j # o.i + 1 => ts'[j] = ts[j]
     /\ (o.op = "append") => SubSeq(ts', 1, Len(ts)) = ts]_vars

Out == IOEnv.OUT_FILE
EmitCase == Emit => CSVWrite("%1$s", <<ToJson([start |-> [i \in DOMAIN Starts[start] |-> Name(Starts[start][i])], hist |-> hist, last |-> last, mode |-> mode,
                                          terms |-> [i \in DOMAIN ts |-> Name(ts[i])]])>>, Out)
=============================================================================
