------------------------- MODULE MC_LayeredMapping -------------------------
(* Every operation history up to MaxOps on a LayeredMapping over several      *)
(* initial layer stacks; one state per history (hist is part of the state).   *)
EXTENDS Integers, Sequences, FiniteSets, TLC, TLCExt, Json, CSV, IOUtils, SequencesExt
CONSTANTS MaxOps, Emit
LM == INSTANCE LayeredMapping

Keys == {"p", "q", "r"}
Configs == <<
  [name |-> "", mut |-> <<>>, layers |-> << LM!Dict(<< <<"p", 10>> >>), LM!Dict(<< <<"q", 21>>, <<"p", 20>> >>) >>],
  [name |-> "", mut |-> <<>>, layers |-> << LM!Nested("data", <<>>, << << <<"p", 10>> >> >>),
                                            LM!Nested("context", <<>>, << << <<"q", 21>>, <<"p", 20>> >> >>),
                                            LM!Nested("transforms", <<>>, << << <<"r", 30>>, <<"q", 31>> >> >>) >>],
  [name |-> "top", mut |-> <<>>, layers |-> << LM!Nested("inner", << <<"r", 5>> >>, << << <<"p", 10>> >>, << <<"r", 6>> >> >>), LM!Dict(<< <<"q", 21>> >>) >>],
  [name |-> "", mut |-> <<>>, layers |-> <<>>] >>
Extra == LM!Dict(<< <<"q", 99>>, <<"s", 98>> >>)

VARIABLES s, hist, cfg, last
vars == <<s, hist, cfg, last>>
Op(name, k, v) == [op |-> name, k |-> k, v |-> v]

Init == /\ cfg \in DOMAIN Configs /\ s = Configs[cfg] /\ hist = <<>> /\ last = "init"
Next == /\ Len(hist) < MaxOps
        /\ UNCHANGED cfg
        /\ \/ \E k \in Keys, v \in {1, 2} : s' = LM!SetItem(s, k, v) /\ hist' = Append(hist, Op("set", k, v)) /\ last' = "ok"
           \/ \E k \in Keys : /\ hist' = Append(hist, Op("del", k, 0))
                              /\ IF LM!CanDel(s, k) THEN s' = LM!DelItem(s, k) /\ last' = "ok" ELSE s' = s /\ last' = "KeyError"
           \/ \E pre \in BOOLEAN : s' = LM!WithLayer(s, Extra, pre) /\ hist' = Append(hist, Op("with", IF pre THEN "prepend" ELSE "append", 0)) /\ last' = "ok"
Spec == Init /\ [][Next]_vars

AllKeys == Keys \cup {"s", "zz"}
Laws == LM!TopFirstMerge(s) /\ LM!LenConsistent(s) /\ LM!LookupConsistent(s, AllKeys) /\ LM!SourceConsistent(s, AllKeys)
\* writes are confined to the private layer: set/del never change the supplied layers
FrameLaw == [][(hist' # hist /\ hist'[Len(hist')].op \in {"set", "del"}) => s'.layers = s.layers]_vars

Out == IOEnv.OUT_FILE
EmitCase ==
  Emit => CSVWrite("%1$s", <<ToJson([cfg |-> cfg, hist |-> hist, last |-> last,
            items |-> LM!Items(s), len |-> LM!LenOf(s),
            src |-> [k \in AllKeys |-> LET g == LM!GetWithLayerName(s, k) IN IF g = <<>> THEN <<"MISSING", "">> ELSE <<ToString(g[1]), g[2]>>],
            named |-> SetToSeq(LM!NamedLayers(s))])>>, Out)
=============================================================================
