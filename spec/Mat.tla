-------------------------------- MODULE Mat --------------------------------
(* Small exact matrices over Rat: sequences of rows of normalised rationals. *)
EXTENDS Integers, Sequences, Rat
NRows(A) == Len(A)
NCols(A) == IF A = <<>> THEN 0 ELSE Len(A[1])
Mk(n, m, F(_, _)) == [i \in 1..n |-> [j \in 1..m |-> F(i, j)]]
Identity(n) == Mk(n, n, LAMBDA i, j : IF i = j THEN One ELSE Zero)
MatMul(A, B) == Mk(NRows(A), NCols(B), LAMBDA i, j : RSum([k \in 1..NCols(A) |-> RMul(A[i][k], B[k][j])]))
Transpose(A) == Mk(NCols(A), NRows(A), LAMBDA i, j : A[j][i])
HCat(A, B) == [i \in 1..NRows(A) |-> A[i] \o B[i]]
OnesCol(n) == Mk(n, 1, LAMBDA i, j : One)
ColSum(A, j) == RSum([i \in 1..NRows(A) |-> A[i][j]])
ColDot(A, j, k) == RSum([i \in 1..NRows(A) |-> RMul(A[i][j], A[i][k])])
=============================================================================
