--------------------------- MODULE WilkinsonRef ---------------------------
(***************************************************************************)
(* Independent reference reading of the DOCUMENTED Wilkinson grammar       *)
(* (docs/guides/grammar.md): a character-level rewriting of the operator   *)
(* stream followed by a precedence-climbing recursive-descent evaluator.   *)
(* It shares only the term algebra (TermAlgebra) with the implementation-  *)
(* shaped model in Wilkinson.tla: no token objects, no operator stack, no  *)
(* candidate lists.                                                        *)
(*                                                                         *)
(* Input tokens are the same records [k, s, cs, vars] the lexer delivers.  *)
(***************************************************************************)
EXTENDS Integers, Sequences, FiniteSets, TermAlgebra

Signs == {"+", "-"}
E(k, s) == [k |-> k, s |-> s, vars |-> <<>>, num |-> s = "1", ival |-> IF s = "1" THEN 1 ELSE -1]
EV(t) == [k |-> t.k, s |-> t.s, vars |-> t.vars, num |-> t.num, ival |-> t.ival]

(* 1. flatten operator runs to a stream of operator characters; `in` and `.` are atoms *)
RECURSIVE Flatten(_)
Flatten(toks) ==
  IF toks = <<>> THEN <<>>
  ELSE LET t == Head(toks) IN
       (IF t.k = "op"
        THEN IF t.cs = <<"in">> THEN <<E("op", "in")>>
             ELSE IF t.cs = <<".">> THEN <<E("dot", ".")>>
             ELSE [i \in DOMAIN t.cs |-> E("opc", t.cs[i])]
        ELSE IF t.k = "value" /\ t.s = "0" THEN <<E("opc", "-"), E("value", "1")>>        \* the literal 0 is "- 1"
        ELSE <<EV(t)>>) \o Flatten(Tail(toks))

(* 2. documented intercept rewriting on the character stream *)
RECURSIVE TopTilde(_, _, _)
TopTilde(f, i, ctx) ==        \* position of the first top-level `~`, 0 if none
  IF i > Len(f) THEN 0
  ELSE LET t == f[i] IN
       IF t.k = "open" THEN TopTilde(f, i + 1, Append(ctx, t.s))
       ELSE IF t.k = "close"
            THEN IF ctx = <<>> \/ ctx[Len(ctx)] # (IF t.s = ")" THEN "(" ELSE "[") THEN 0
                 ELSE TopTilde(f, i + 1, SubSeq(ctx, 1, Len(ctx) - 1))
       ELSE IF ctx = <<>> /\ t.k = "opc" /\ t.s = "~" THEN i
       ELSE TopTilde(f, i + 1, ctx)

RECURSIVE InsertOnes(_, _, _)
InsertOnes(f, i, top) ==
  IF i > Len(f) THEN <<>>
  ELSE LET t == f[i]
           hit == t.k = "opc" /\ (t.s = "~" \/ (t.s = "|" /\ i > top))
       IN <<t>> \o (IF hit THEN <<E("value", "1")>> \o (IF i < Len(f) THEN <<E("opc", "+")>> ELSE <<>>) ELSE <<>>)
              \o InsertOnes(f, i + 1, top)

WithIntercept(f) ==
  LET top == TopTilde(f, 1, <<>>)
      body == InsertOnes(f, 1, top)
  IN IF top > 0 THEN body ELSE IF f = <<>> THEN <<E("value", "1")>> ELSE <<E("value", "1"), E("opc", "+")>> \o body

LhsVars(f) == LET top == TopTilde(f, 1, <<>>) IN FlatMap(LAMBDA t : t.vars, SubSeq(f, 1, top))

(* 3. canonical splitting of maximal runs of operator characters *)
RECURSIVE Canon(_)
Canon(f) ==
  IF f = <<>> THEN <<>>
  ELSE LET t == Head(f) IN
       IF t.k # "opc" THEN <<t>> \o Canon(Tail(f))
       ELSE IF t.s \in Signs
            THEN LET n == CHOOSE k \in 1..Len(f) :
                            (\A i \in 1..k : f[i].k = "opc" /\ f[i].s \in Signs)
                            /\ (k = Len(f) \/ ~(f[k + 1].k = "opc" /\ f[k + 1].s \in Signs))
                     minus == Cardinality({i \in 1..n : f[i].s = "-"})
                 IN <<E("op", IF minus % 2 = 1 THEN "-" ELSE "+")>> \o Canon(SubSeq(f, n + 1, Len(f)))
            ELSE IF t.s = "*" /\ Len(f) >= 2 /\ f[2].k = "opc" /\ f[2].s = "*"
                 THEN <<E("op", "**")>> \o Canon(SubSeq(f, 3, Len(f)))
                 ELSE <<E("op", t.s)>> \o Canon(Tail(f))

(* 4. grammar *)
Prec(o) == CASE o \in {"+", "-"} -> 100 [] o \in {"*", "/", "in"} -> 200 [] o = ":" -> 300 [] o \in {"**", "^"} -> 500 [] OTHER -> -1
RightAssoc(o) == o \in {"**", "^"}
Binary == {"+", "-", "*", "/", "in", ":", "**", "^"}

R(v, i, err) == [v |-> v, i |-> i, err |-> err]

PowerArg(r) == IF Len(r) = 1 /\ Len(r[1]) = 1 /\ r[1][1].m = "literal" /\ r[1][1].ival >= 1 THEN r[1][1].ival ELSE 0
MaxPower == 6

\* the documented meaning of each operator
Meaning(o, l, r) ==
  CASE o = "+" -> [ok |-> TRUE, v |-> Union(l, r)]
    [] o = "-" -> [ok |-> TRUE, v |-> Diff(l, r)]
    [] o = ":" -> [ok |-> TRUE, v |-> Cross(l, r)]
    [] o = "*" -> [ok |-> TRUE, v |-> Union(Union(l, DedupTerms(r, {})), Cross(l, r))]
    [] o = "/" -> [ok |-> l # <<>>, v |-> IF l = <<>> THEN <<>> ELSE Nest(l, r)]
    [] o = "in" -> [ok |-> r # <<>>, v |-> IF r = <<>> THEN <<>> ELSE Nest(r, l)]
    [] OTHER -> LET n == PowerArg(r) IN [ok |-> n > 0, v |-> IF n > 0 /\ n <= MaxPower THEN Power(l, n) ELSE <<>>]

Method(k) == CASE k = "name" -> "lookup" [] k = "python" -> "python" [] OTHER -> "literal"

\* f[a..b] is an integer literal as written, possibly wrapped in parentheses
RECURSIVE LiteralOperand(_, _, _)
LiteralOperand(f, a, b) ==
  IF a > b THEN FALSE
  ELSE IF a = b THEN f[a].k = "value"
  ELSE f[a].k = "open" /\ f[a].s = "(" /\ f[b].k = "close" /\ f[b].s = ")" /\ LiteralOperand(f, a + 1, b - 1)
RECURSIVE ParseE(_, _, _, _)
RECURSIVE ParseLoop(_, _, _, _, _)
\* env == [dot : term list denoted by `.`, dotok : BOOLEAN]
ParseE(f, i, minp, env) ==
  IF i > Len(f) THEN R(<<>>, i, "operand-expected")
  ELSE LET t == f[i] IN
       IF t.k = "op" /\ t.s \in Signs
       THEN IF Prec("+") < minp THEN R(<<>>, i, "prefix-sign-not-allowed-here")
            ELSE LET a == ParseE(f, i + 1, Prec("+") + 1, env) IN
                 IF a.err # "" THEN a
                 ELSE ParseLoop(f, IF t.s = "+" THEN a.v ELSE <<>>, a.i, minp, env)
       ELSE IF t.k = "open"
       THEN LET a == ParseE(f, i + 1, 0, env) IN
            IF a.err # "" THEN a
            ELSE IF a.i > Len(f) \/ f[a.i].k # "close" \/ f[a.i].s # (IF t.s = "(" THEN ")" ELSE "]")
                 THEN R(<<>>, a.i, "unbalanced")
                 ELSE ParseLoop(f, a.v, a.i + 1, minp, env)
       ELSE IF t.k \in {"name", "value", "python"}
       THEN ParseLoop(f, << <<IF t.k = "value" THEN LitFac(t.s, t.num, t.ival) ELSE Fac(t.s, Method(t.k))>> >>, i + 1, minp, env)
       ELSE IF t.k = "dot"
       THEN IF env.dotok THEN ParseLoop(f, env.dot, i + 1, minp, env) ELSE R(<<>>, i, "dot-needs-context")
       ELSE R(<<>>, i, "operand-expected")

ParseLoop(f, left, i, minp, env) ==
  IF i > Len(f) THEN R(left, i, "")
  ELSE LET t == f[i] IN
       IF t.k # "op" \/ t.s \notin Binary \/ Prec(t.s) < minp THEN R(left, i, "")
       ELSE LET b == ParseE(f, i + 1, IF RightAssoc(t.s) THEN Prec(t.s) ELSE Prec(t.s) + 1, env) IN
            IF b.err # "" THEN b
            ELSE IF t.s \in {"**", "^"} /\ ~LiteralOperand(f, i + 1, b.i - 1) THEN R(<<>>, i, "operand-outside-domain")
            ELSE LET mv == Meaning(t.s, left, b.v) IN
                 IF ~mv.ok THEN R(<<>>, i, "operand-outside-domain")
                 ELSE ParseLoop(f, mv.v, b.i, minp, env)

\* side := expr ( '|' expr )*
RECURSIVE ParseSide(_, _, _, _)
ParseSide(f, i, env, multipart) ==
  LET a == ParseE(f, i, 0, env) IN
  IF a.err # "" THEN [parts |-> <<>>, i |-> a.i, err |-> a.err]
  ELSE IF a.i <= Len(f) /\ f[a.i].k = "op" /\ f[a.i].s = "|"
       THEN IF ~multipart THEN [parts |-> <<>>, i |-> a.i, err |-> "multipart-disabled"]
            ELSE LET rest == ParseSide(f, a.i + 1, env, multipart) IN
                 IF rest.err # "" THEN rest ELSE [parts |-> <<a.v>> \o rest.parts, i |-> rest.i, err |-> ""]
       ELSE [parts |-> <<a.v>>, i |-> a.i, err |-> ""]

(* 5. literals other than 1 only scale; a term may not occur with two scalings *)
WellFormed(ts) ==
  /\ \A i \in DOMAIN ts : LET t == ts[i] IN
        /\ ~(Len(t) = 1 /\ IsLiteral(t[1]) /\ t[1].e # "1")
        /\ \A j \in DOMAIN t : IsLiteral(t[j]) => t[j].num
  /\ \A i, j \in DOMAIN ts : i # j =>
        ExprSeq(SelectSeq(ts[i], LAMBDA x : ~IsLiteral(x))) # ExprSeq(SelectSeq(ts[j], LAMBDA x : ~IsLiteral(x)))

NoTree == [err |-> "", t |-> "leaf", ts |-> <<>>, items |-> <<>>, keys |-> <<>>, vals |-> <<>>]
Reject(why) == [st |-> "REJECT", why |-> why, shape |-> "root", lhs |-> <<>>, rhs |-> <<>>, tree |-> NoTree]
Accept(shape, l, r) == [st |-> "OK", why |-> "", shape |-> shape, lhs |-> l, rhs |-> r, tree |-> NoTree]
Unmodelled == [st |-> "UNMODELLED", why |-> "", shape |-> "root", lhs |-> <<>>, rhs |-> <<>>, tree |-> NoTree]

BigPower(f) == \E i \in DOMAIN f : f[i].k = "value" /\ f[i].ival > MaxPower
UsesMultistage(f) == \E i \in DOMAIN f : f[i].k = "open" /\ f[i].s = "[" /\
                        \E j \in DOMAIN f : j > i /\ f[j].k = "op" /\ f[j].s = "~"

Finish(shape, l, r) ==
  IF (\A i \in DOMAIN l : WellFormed(l[i])) /\ (\A i \in DOMAIN r : WellFormed(r[i]))
  THEN Accept(shape, l, r) ELSE Reject("ill-formed-literal")

Ref(cfg, toks) ==
  LET f0 == Flatten(toks)
      f1 == IF cfg.intercept THEN WithIntercept(f0) ELSE f0
      f  == Canon(f1)
      used == Range(LhsVars(f0))
      av == SelectSeq(cfg.avail.vars, LAMBDA v : v \notin used)
      env == [dotok |-> cfg.avail.present, dot |-> OSet([i \in DOMAIN av |-> <<Fac(av[i], "lookup")>>])]
      multipart == "MULTIPART" \in cfg.flags
  IN IF f = <<>> THEN Accept("root", <<>>, << <<>> >>)
     ELSE IF ("MULTISTAGE" \in cfg.flags /\ UsesMultistage(f)) \/ BigPower(f) THEN Unmodelled
     ELSE IF f[1].k = "op" /\ f[1].s = "~"
          THEN LET r == ParseSide(f, 2, env, multipart) IN
               IF r.err # "" THEN Reject(r.err)
               ELSE IF r.i <= Len(f) THEN Reject("trailing-input")
               ELSE Finish("root", <<>>, r.parts)
          ELSE LET l == ParseSide(f, 1, env, multipart) IN
               IF l.err # "" THEN Reject(l.err)
               ELSE IF l.i > Len(f) THEN Finish("root", <<>>, l.parts)
               ELSE IF f[l.i].k = "op" /\ f[l.i].s = "~"
                    THEN IF "TWOSIDED" \notin cfg.flags THEN Reject("twosided-disabled")
                         ELSE LET r == ParseSide(f, l.i + 1, env, multipart) IN
                              IF r.err # "" THEN Reject(r.err)
                              ELSE IF r.i <= Len(f) THEN Reject("trailing-input")
                              ELSE Finish("two", l.parts, r.parts)
                    ELSE Reject("trailing-input")
=============================================================================
