----------------------------- MODULE MC_Calculus -----------------------------
EXTENDS Integers, Sequences, FiniteSets, TLC, TLCExt, Json, CSV, IOUtils, SequencesExt
CONSTANTS MaxTerms, Emit,
          Alphabet,     \* "plain" | "shadow" | "pair": which factors the terms are built from (below)
          MaxParts,     \* 1: simple formulas; > 1: structured formulas of up to MaxParts parts
          Variant,      \* "spec", or a design error of Calculus.tla that TLC must refute ("required", "consumed", "reordered")
          MaxWrt,       \* the longest tuple of differentiation variables (<= 2)
          Ordering      \* "degree" | "none" | "sort": the ordering mode the formula is built with (Calculus.tla)
K == INSTANCE Calculus

(* The factors.  "plain": four data columns of different lengths (a variable is matched as a whole name), each term optionally     *)
(* scaled by the literal 2.  "shadow": factors that the formula does NOT report among the variables it requires - a column called  *)
(* like a transform (scale: the name may resolve without data, so it is not reported), a python factor (I(x1): the formula reports *)
(* x1, the factor is I(x1)) - and a quoted name (`my var`: the factor is the bare name).  To the calculus they are factors like     *)
(* any other.  "pair": one plain and one shadowed column, for the structured formulas.                                             *)
FacSeq == CASE Alphabet = "plain"  -> <<K!Fac("x1", "lookup"), K!Fac("yy", "lookup"), K!Fac("z", "lookup"), K!Fac("w", "lookup")>>
            [] Alphabet = "shadow" -> <<K!Fac("scale", "lookup"), K!Fac("I(x1)", "python"), K!Fac("my var", "lookup")>>
            [] Alphabet = "pair"   -> <<K!Fac("x1", "lookup"), K!Fac("scale", "lookup")>>
Vars == [i \in DOMAIN FacSeq |-> FacSeq[i].e]
Absent == IF Alphabet = "shadow" THEN "C" ELSE "v0"       \* occurs in no term ("C" is called like a transform, too)
WrtVars == Append(Vars, Absent)
\* the names a factor makes the formula report as required (Formula.required_variables): what the "required" design error keys on
Req(f) == IF f.m = "python" THEN {"x1"} ELSE IF f.e \in {"scale", "C"} THEN {} ELSE {f.e}
Required(ts) == UNION {UNION {Req(ts[i][j]) : j \in {j \in DOMAIN ts[i] : ~K!IsLiteral(ts[i][j])}} : i \in DOMAIN ts}
\* candidate terms: non-empty subsets of Vars in the order of Vars, optionally scaled by the literal 2
SubsetTerm(S, scaled) == (IF scaled THEN <<K!LitFac("2", TRUE, 2)>> ELSE <<>>) \o SelectSeq(FacSeq, LAMBDA f : f.e \in S)
TermPool == {SubsetTerm(S, sc) : S \in (SUBSET K!Range(Vars)) \ {{}}, sc \in IF Alphabet = "plain" THEN BOOLEAN ELSE {FALSE}}
Rows == CASE Alphabet = "plain"  -> << [x1 |-> 2, yy |-> 3, z |-> -1, w |-> 5, v0 |-> 7], [x1 |-> 0, yy |-> -2, z |-> 4, w |-> 1, v0 |-> 1], [x1 |-> 3, yy |-> 3, z |-> 2, w |-> -3, v0 |-> 0] >>
          [] Alphabet = "shadow" -> << ("scale" :> 2 @@ "I(x1)" :> -1 @@ "my var" :> 5 @@ "C" :> 7),
                                       ("scale" :> 0 @@ "I(x1)" :> 4 @@ "my var" :> 1 @@ "C" :> 1),
                                       ("scale" :> 3 @@ "I(x1)" :> 2 @@ "my var" :> -3 @@ "C" :> 0) >>
          [] Alphabet = "pair"   -> << [x1 |-> 2, scale |-> 3, v0 |-> 7], [x1 |-> 0, scale |-> -2, v0 |-> 1], [x1 |-> 3, scale |-> 5, v0 |-> 0] >>

VARIABLES terms, wrt, icpt,
          closed        \* the parts before the one being written (<<>> throughout when MaxParts = 1)
vars == <<terms, wrt, icpt, closed>>

\* the order of python strings on the factor expressions of the terms ("sort" mode; plain alphabet and the literals)
Rank(e) == CASE e = "0" -> 0 [] e = "1" -> 1 [] e = "2" -> 2 [] e = "w" -> 3 [] e = "x1" -> 4 [] e = "yy" -> 5 [] e = "z" -> 6
ASSUME Ordering = "sort" => Alphabet = "plain"
FormulaOf(ts) == K!Ordered(Ordering, Rank, (IF icpt THEN <<K!OneTerm>> ELSE <<>>) \o ts)
Formula == FormulaOf(terms)
Parts == [k \in 1..(Len(closed) + 1) |-> FormulaOf(Append(closed, terms)[k])]
DerivParts == LET d == K!DStructuredV(Variant, Parts, wrt, [k \in DOMAIN Parts |-> Required(Parts[k])])
              IN [k \in DOMAIN d |-> K!Reordered(Variant, Ordering, Rank, d[k])]
Deriv == DerivParts[Len(Parts)]           \* MaxParts = 1: the derivative of the formula

Laws == LET P == Parts  DP == DerivParts IN        \* (evaluated once per state)
        /\ Len(DP[Len(P)]) = Len(P[Len(P)])
        /\ \A k \in DOMAIN P : \A i \in DOMAIN P[k] : \A vi \in DOMAIN Vars : \A r \in DOMAIN Rows : \A h \in {1, 2} :
              K!FiniteDifference(P[k][i], Vars[vi], Rows[r], h)
        /\ \A k \in DOMAIN P : \A i \in DOMAIN P[k] : \A u, v \in {WrtVars[j] : j \in DOMAIN WrtVars} : K!Compositional(P[k][i], u, v)
        \* the formula level: the same parts, and every part's output is what the property says of it
        /\ Len(DP) = Len(P)
        /\ \A k \in DOMAIN P : K!OutputLaw(P[k], DP[k], wrt, Rows)

TermOut(t) == [j \in DOMAIN t |-> t[j].e]
ColsOut(ts) == [i \in DOMAIN ts |-> [r \in DOMAIN Rows |-> K!ColAt(ts[i], Rows[r])]]
Out == IOEnv.OUT_FILE
EmitCase ==
  Emit => CSVWrite("%1$s", <<ToJson(
     LET F == Formula  D == Deriv IN
     IF MaxParts = 1
     THEN [terms |-> [i \in DOMAIN terms |-> TermOut(terms[i])], icpt |-> icpt, wrt |-> wrt, ordering |-> Ordering,
           f |-> [i \in DOMAIN F |-> TermOut(F[i])],
           d |-> [i \in DOMAIN D |-> TermOut(D[i])],
           cols |-> ColsOut(D),
           orig |-> ColsOut(F)]
     ELSE [icpt |-> icpt, wrt |-> wrt,
           parts |-> [k \in DOMAIN Parts |-> [terms |-> LET ts == Append(closed, terms)[k] IN [i \in DOMAIN ts |-> TermOut(ts[i])],
                                              f |-> [i \in DOMAIN Parts[k] |-> TermOut(Parts[k][i])],
                                              d |-> [i \in DOMAIN DerivParts[k] |-> TermOut(DerivParts[k][i])],
                                              cols |-> ColsOut(DerivParts[k]),
                                              orig |-> ColsOut(Parts[k])]]])>>, Out)

Init == /\ terms = <<>> /\ icpt \in BOOLEAN /\ closed = <<>>
        /\ wrt \in {<<>>} \cup {<<WrtVars[a]>> : a \in DOMAIN WrtVars} \cup {<<WrtVars[a], WrtVars[b]>> : a, b \in DOMAIN WrtVars}
        /\ Len(wrt) <= MaxWrt
RECURSIVE SumLens(_)
SumLens(ps) == IF ps = <<>> THEN 0 ELSE Len(Head(ps)) + SumLens(Tail(ps))
Written == Len(terms) + SumLens(closed)
Next == /\ Written < MaxTerms
        /\ \E t \in TermPool :
             \/ /\ \A i \in DOMAIN terms : K!Exprs(terms[i]) # K!Exprs(t) /\ K!NonLitExprs(terms[i]) # K!NonLitExprs(t)
                /\ terms' = Append(terms, t) /\ closed' = closed
             \/ /\ terms # <<>> /\ Len(closed) + 1 < MaxParts         \* t opens the next part (the terms of different parts are unrelated)
                /\ closed' = Append(closed, terms) /\ terms' = <<t>>
        /\ UNCHANGED <<wrt, icpt>>
Spec == Init /\ [][Next]_vars
=============================================================================
