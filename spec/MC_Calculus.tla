----------------------------- MODULE MC_Calculus -----------------------------
EXTENDS Integers, Sequences, FiniteSets, TLC, TLCExt, Json, CSV, IOUtils, SequencesExt
CONSTANTS MaxTerms, Emit
K == INSTANCE Calculus

Vars == <<"x1", "yy", "z", "w">>        \* names of different lengths: a variable is matched as a whole name
WrtVars == <<"x1", "yy", "z", "w", "v0">>      \* "v0" occurs in no term
\* candidate terms: non-empty subsets of Vars in the order of Vars, optionally scaled by the literal 2
SubsetTerm(S, scaled) == (IF scaled THEN <<K!LitFac("2", TRUE, 2)>> ELSE <<>>) \o
                         LET vs == SelectSeq(Vars, LAMBDA v : v \in S) IN [i \in DOMAIN vs |-> K!Fac(vs[i], "lookup")]
TermPool == {SubsetTerm(S, sc) : S \in (SUBSET {"x1", "yy", "z", "w"}) \ {{}}, sc \in BOOLEAN}
Rows == << [x1 |-> 2, yy |-> 3, z |-> -1, w |-> 5, v0 |-> 7], [x1 |-> 0, yy |-> -2, z |-> 4, w |-> 1, v0 |-> 1], [x1 |-> 3, yy |-> 3, z |-> 2, w |-> -3, v0 |-> 0] >>

VARIABLES terms, wrt, icpt
vars == <<terms, wrt, icpt>>

Formula == K!SortByDegree((IF icpt THEN <<K!OneTerm>> ELSE <<>>) \o terms)
Deriv == K!DFormula(Formula, wrt)

Laws == /\ Len(Deriv) = Len(Formula)
        /\ \A i \in DOMAIN Formula : \A vi \in DOMAIN Vars : \A r \in DOMAIN Rows : \A h \in {1, 2} :
              K!FiniteDifference(Formula[i], Vars[vi], Rows[r], h)
        /\ \A i \in DOMAIN Formula : \A u, v \in {WrtVars[j] : j \in DOMAIN WrtVars} : K!Compositional(Formula[i], u, v)

TermOut(t) == [j \in DOMAIN t |-> t[j].e]
Out == IOEnv.OUT_FILE
EmitCase ==
  Emit => CSVWrite("%1$s", <<ToJson([terms |-> [i \in DOMAIN terms |-> TermOut(terms[i])], icpt |-> icpt, wrt |-> wrt,
             f |-> [i \in DOMAIN Formula |-> TermOut(Formula[i])],
             d |-> [i \in DOMAIN Deriv |-> TermOut(Deriv[i])],
             cols |-> [i \in DOMAIN Deriv |-> [r \in DOMAIN Rows |-> K!ColAt(Deriv[i], Rows[r])]],
             orig |-> [i \in DOMAIN Formula |-> [r \in DOMAIN Rows |-> K!ColAt(Formula[i], Rows[r])]]])>>, Out)

Init == /\ terms = <<>> /\ icpt \in BOOLEAN
        /\ wrt \in {<<>>} \cup {<<WrtVars[a]>> : a \in DOMAIN WrtVars} \cup {<<WrtVars[a], WrtVars[b]>> : a, b \in DOMAIN WrtVars}
Next == /\ Len(terms) < MaxTerms
        /\ \E t \in TermPool : (\A i \in DOMAIN terms : K!Exprs(terms[i]) # K!Exprs(t) /\ K!NonLitExprs(terms[i]) # K!NonLitExprs(t)) /\ terms' = Append(terms, t)
        /\ UNCHANGED <<wrt, icpt>>
Spec == Init /\ [][Next]_vars
=============================================================================
