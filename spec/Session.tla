------------------------------- MODULE Session -------------------------------
(***************************************************************************)
(* C18: histories of builds and spec reuses over shared objects.            *)
(* In the specification every operation is a FUNCTION of its arguments: the *)
(* model has no hidden state, so                                            *)
(*   Det   : an operation instance always returns the same result,          *)
(*   Frame : no operation changes the fingerprint of any live object        *)
(*           (input frames, the formula, the un-materialised spec, specs    *)
(*           obtained earlier),                                              *)
(* hold of the model by construction; any history dependence of the code is *)
(* a refinement failure, found by validating recorded histories             *)
(* (Trace_Purity) against these two action properties.                      *)
(* Operation instances (the harness mirrors them):                          *)
(*  B1 B2  model_matrix(formula text, d1 / d2)                               *)
(*  F1     formula_object.get_model_matrix(d1)                               *)
(*  U1 U2  unmaterialised_spec.get_model_matrix(d1 / d2)   (ONE shared spec) *)
(*  R      spec(B1).get_model_matrix(d2)                                     *)
(*  S      spec(B1).subset(["A"]).get_model_matrix(d1)                       *)
(*  P      pickle round trip of spec(B1), then .get_model_matrix(d2)         *)
(*  UPD    spec(B1).update(output="numpy").get_model_matrix(d2)              *)
(*  MF MN  materializer(d2).get_model_matrix(formula text), pandas / sparse  *)
(*  MR     materializer(d2).get_model_matrix(spec(B1))   (ONE shared         *)
(*         materializer instance for MF, MN, MR)                             *)
(***************************************************************************)
EXTENDS Integers, Sequences, FiniteSets
Ops == {"B1", "B2", "F1", "U1", "U2", "R", "S", "P", "UPD", "MF", "MN", "MR"}
Objects == {"d1", "d2", "formula", "uspec", "spec1", "context"}      \* context: the caller's mapping and the objects in it
\* abstract results and fingerprints: symbolic constants
ResultOf(op) == op
Fp0(obj) == obj

VARIABLES hist, memo, heap, last
vars == <<hist, memo, heap, last>>
Init == hist = <<>> /\ memo = [o \in {} |-> ""] /\ heap = [o \in Objects |-> Fp0(o)] /\ last = ""
Do(op) == /\ hist' = Append(hist, op)
          /\ last' = ResultOf(op)
          /\ memo' = [o \in DOMAIN memo \cup {op} |-> IF o = op THEN ResultOf(op) ELSE memo[o]]
          /\ heap' = heap                       \* pure: nothing live is modified
Det == [][\A op \in Ops : (hist' = Append(hist, op) /\ op \in DOMAIN memo) => last' = memo[op]]_vars
Frame == [][\A o \in Objects : heap'[o] = heap[o]]_vars
=============================================================================
