------------------------------- MODULE Session -------------------------------
(***************************************************************************)
(* C18: histories of builds and spec reuses over shared objects.            *)
(* In the specification every operation is a FUNCTION of its arguments: the *)
(* model has no hidden state, so                                            *)
(*   Det   : an operation instance always returns the same result,          *)
(*   Frame : no operation changes the fingerprint of any live object        *)
(*           (input frames, the formula, the un-materialised spec, specs    *)
(*           obtained earlier),                                              *)
(* hold of the model by construction; any history dependence of the code is *)
(* a refinement failure, found by validating recorded histories             *)
(* (Trace_Purity) against these two action properties.                      *)
(* Operation instances (the harness mirrors them):                          *)
(*  B1 B2  model_matrix(formula text, d1 / d2)                               *)
(*  F1     formula_object.get_model_matrix(d1)                               *)
(*  U1 U2  unmaterialised_spec.get_model_matrix(d1 / d2)   (ONE shared spec) *)
(*  R      spec(B1).get_model_matrix(d2)                                     *)
(*  S      spec(B1).subset(["A"]).get_model_matrix(d1)                       *)
(*  P      pickle round trip of spec(B1), then .get_model_matrix(d2)         *)
(*  UPD    spec(B1).update(output="numpy").get_model_matrix(d2)              *)
(*  MF MN  materializer(d2).get_model_matrix(formula text), pandas / sparse  *)
(*  MR     materializer(d2).get_model_matrix(spec(B1))   (ONE shared         *)
(*         materializer instance for MF, MN, MR)                             *)
(*                                                                          *)
(* The CONTEXT is an argument too.  A formula calls NAMES (center, scale,   *)
(* tf, ns.tf); what a name denotes is decided per call, per phase (fit /    *)
(* reuse), by the environment of THAT phase: the caller's context shadows   *)
(* the built-in transforms.  Two contexts of one caller bind the same names *)
(* to different KINDS of callable (Env below): a stateful transform gets    *)
(* and records state, a plain function does not.  Family "contexts":        *)
(*  G1 H1  model_matrix(xformula text, d1, context c / x)                    *)
(*  GR HR  the same build, its spec reused at once on d2 under the same      *)
(*         context (what was recorded at the fit becomes observable)        *)
(*  B1 R   as above (their formula calls the built-in center and scale)      *)
(* An operation's outcome is the kind every called name resolves to in      *)
(* every phase.  In the specification (Variant "pure") it is a function of  *)
(* the operation alone, hence Indep: every call returns what it returns     *)
(* when it is the only call of the process.  Variant "memo_by_name" is the  *)
(* design error of remembering per NAME (process-wide) what kind of         *)
(* callable it denotes - the first resolution wins for all later calls,     *)
(* whatever their context; TLC must refute Indep for it (it cannot refute   *)
(* Det: first-wins makes every REPETITION agree with the first occurrence,  *)
(* which is why recorded histories are also held against the canonical      *)
(* single-operation run).                                                    *)
(*                                                                          *)
(* The DATA is an argument too.  What KIND a factor is (categorical /       *)
(* numerical) is not said by the formula; it is decided per call by the     *)
(* column of the frame of THAT call (ColKind below).  Two frames of one     *)
(* caller hold under the same names columns of different kinds: d1 has      *)
(* strings in A and numbers in V, d3 numbers in A and strings in V.         *)
(* Family "kinds" (formula A + V + x):                                      *)
(*  KB1 KB3  model_matrix(kformula text, d1 / d3)     (parsed per call)      *)
(*  KF1 KF3  kformula_object.get_model_matrix(d1 / d3)  (ONE shared Formula) *)
(*  KU1 KU3  kuspec.get_model_matrix(d1 / d3)  (ONE shared un-materialised   *)
(*           ModelSpec)                                                      *)
(* A "name" of this family is a factor of a formula OBJECT, <<object,       *)
(* column>>; the outcome of an operation is the kind every factor is        *)
(* encoded as.  Variant "kind_on_formula" is the design error of writing    *)
(* the kind inferred from the data back onto the factor of the (shared)     *)
(* formula object: the first build wins for every later build with that     *)
(* object (coerced to categorical, or refused, in the code) and the formula *)
(* object itself changes; TLC must refute Indep AND Frame for it.           *)
(***************************************************************************)
EXTENDS Integers, Sequences, FiniteSets
CONSTANTS Family,       \* "objects": histories over shared objects | "contexts": histories over two contexts | "kinds": histories over two frames whose columns differ in kind
          Variant       \* "pure" | "memo_by_name" (to be refuted) | "kind_on_formula" (to be refuted)
ObjOps == {"B1", "B2", "F1", "U1", "U2", "R", "S", "P", "UPD", "MF", "MN", "MR"}
CtxOps == {"B1", "R", "G1", "H1", "GR", "HR"}
KindOps == {"KB1", "KB3", "KF1", "KF3", "KU1", "KU3"}
Ops == IF Family = "contexts" THEN CtxOps ELSE IF Family = "kinds" THEN KindOps ELSE ObjOps
Objects == {"d1", "d2", "formula", "uspec", "spec1", "context", "xcontext", "d3", "kformula", "kuspec"}      \* context, xcontext: the caller's mappings and the objects in them
\* what the two contexts of the caller (layered over the built-in transforms) make of the names formulas call
Env == [c |-> [center |-> "stateful", scale |-> "stateful", tf |-> "plain", nstf |-> "plain"],          \* built-ins; the user's plain tf and ns.tf
        x |-> [center |-> "plain", scale |-> "plain", tf |-> "stateful", nstf |-> "stateful"]]          \* the user's own center / scale (plain); tf, ns.tf decorated as stateful transforms
\* what the two frames of the family "kinds" hold under the names the formula A + V + x refers to
ColKind == [d1 |-> [A |-> "categorical", V |-> "numerical", x |-> "numerical"],
            d3 |-> [A |-> "numerical", V |-> "categorical", x |-> "numerical"]]
\* the formula object whose factors a "kinds" operation evaluates: the shared Formula, the formula of the shared un-materialised spec, or
\* (text builds) an object parsed for the call - named after the operation: nothing else can ever hold it
FormulaOf(op) == CASE op \in {"KF1", "KF3"} -> "kformula" [] op \in {"KU1", "KU3"} -> "kuspec" [] OTHER -> op
Calls(op) == IF op \in KindOps THEN {<<FormulaOf(op), c>> : c \in {"A", "V", "x"}}
             ELSE IF op \in {"G1", "H1", "GR", "HR"} THEN {"center", "scale", "tf", "nstf"} ELSE {"center", "scale"}
Phases(op) == CASE op = "H1" -> <<"x">> [] op = "HR" -> <<"x", "x">> [] op = "GR" -> <<"c", "c">>
              [] op \in {"KB1", "KF1", "KU1"} -> <<"d1">> [] op \in {"KB3", "KF3", "KU3"} -> <<"d3">> [] OTHER -> <<"c">>
\* what the name n denotes in phase p: the kind of callable the context of p binds it to / the kind of the column of the frame of p
Denotes(p, n) == IF Family = "kinds" THEN ColKind[p][n[2]] ELSE Env[p][n]
FirstWins == Variant \in {"memo_by_name", "kind_on_formula"}
NoNames == [n \in {} |-> ""]
\* memo_by_name: names already met keep their first kind; the others are resolved (and remembered) in the first phase of the operation
\* kind_on_formula: the same first-wins rule, the memory being the factors of the formula objects
Remember(op, sn) == [n \in DOMAIN sn \cup Calls(op) |-> IF n \in DOMAIN sn THEN sn[n] ELSE Denotes(Phases(op)[1], n)]
Outcome(op, sn) == [p \in DOMAIN Phases(op) |-> [n \in Calls(op) |-> IF FirstWins THEN Remember(op, sn)[n] ELSE Denotes(Phases(op)[p], n)]]
\* abstract results and fingerprints: symbolic constants
ResultOf(op, sn) == <<op, Outcome(op, sn)>>
Alone(op) == ResultOf(op, NoNames)           \* the operation as the only call of a fresh process
Fp0(obj) == obj

VARIABLES hist, memo, heap, last, seen       \* seen: hidden state of the erroneous variant only (name -> kind); empty for ever in the specification
vars == <<hist, memo, heap, last, seen>>
Init == hist = <<>> /\ memo = [o \in {} |-> <<>>] /\ heap = [o \in Objects |-> Fp0(o)] /\ last = <<>> /\ seen = NoNames
Do(op) == /\ hist' = Append(hist, op)
          /\ last' = ResultOf(op, seen)
          /\ memo' = [o \in DOMAIN memo \cup {op} |-> IF o = op THEN ResultOf(op, seen) ELSE memo[o]]
          /\ heap' = IF Variant = "kind_on_formula" /\ FormulaOf(op) \in Objects /\ Remember(op, seen) # seen
                     THEN [heap EXCEPT ![FormulaOf(op)] = "kinds written"]      \* the erroneous variant writes into the live formula object
                     ELSE heap                  \* pure: nothing live is modified
          /\ seen' = IF FirstWins THEN Remember(op, seen) ELSE seen
Det == [][\A op \in Ops : (hist' = Append(hist, op) /\ op \in DOMAIN memo) => last' = memo[op]]_vars
Indep == [][\A op \in Ops : hist' = Append(hist, op) => last' = Alone(op)]_vars
Frame == [][\A o \in Objects : heap'[o] = heap[o]]_vars
=============================================================================
