------------------------------- MODULE Session -------------------------------
(***************************************************************************)
(* C18: histories of builds and spec reuses over shared objects.            *)
(* In the specification every operation is a FUNCTION of its arguments: the *)
(* model has no hidden state, so                                            *)
(*   Det   : an operation instance always returns the same result,          *)
(*   Frame : no operation changes the fingerprint of any live object        *)
(*           (input frames, the formula, the un-materialised spec, specs    *)
(*           obtained earlier),                                              *)
(* hold of the model by construction; any history dependence of the code is *)
(* a refinement failure, found by validating recorded histories             *)
(* (Trace_Purity) against these two action properties.                      *)
(* Operation instances (the harness mirrors them):                          *)
(*  B1 B2  model_matrix(formula text, d1 / d2)                               *)
(*  F1     formula_object.get_model_matrix(d1)                               *)
(*  U1 U2  unmaterialised_spec.get_model_matrix(d1 / d2)   (ONE shared spec) *)
(*  R      spec(B1).get_model_matrix(d2)                                     *)
(*  S      spec(B1).subset(["A"]).get_model_matrix(d1)                       *)
(*  P      pickle round trip of spec(B1), then .get_model_matrix(d2)         *)
(*  UPD    spec(B1).update(output="numpy").get_model_matrix(d2)              *)
(*  MF MN  materializer(d2).get_model_matrix(formula text), pandas / sparse  *)
(*  MR     materializer(d2).get_model_matrix(spec(B1))   (ONE shared         *)
(*         materializer instance for MF, MN, MR)                             *)
(*                                                                          *)
(* The CONTEXT is an argument too.  A formula calls NAMES (center, scale,   *)
(* tf, ns.tf); what a name denotes is decided per call, per phase (fit /    *)
(* reuse), by the environment of THAT phase: the caller's context shadows   *)
(* the built-in transforms.  Two contexts of one caller bind the same names *)
(* to different KINDS of callable (Env below): a stateful transform gets    *)
(* and records state, a plain function does not.  Family "contexts":        *)
(*  G1 H1  model_matrix(xformula text, d1, context c / x)                    *)
(*  GR HR  the same build, its spec reused at once on d2 under the same      *)
(*         context (what was recorded at the fit becomes observable)        *)
(*  B1 R   as above (their formula calls the built-in center and scale)      *)
(* An operation's outcome is the kind every called name resolves to in      *)
(* every phase.  In the specification (Variant "pure") it is a function of  *)
(* the operation alone, hence Indep: every call returns what it returns     *)
(* when it is the only call of the process.  Variant "memo_by_name" is the  *)
(* design error of remembering per NAME (process-wide) what kind of         *)
(* callable it denotes - the first resolution wins for all later calls,     *)
(* whatever their context; TLC must refute Indep for it (it cannot refute   *)
(* Det: first-wins makes every REPETITION agree with the first occurrence,  *)
(* which is why recorded histories are also held against the canonical      *)
(* single-operation run).                                                    *)
(***************************************************************************)
EXTENDS Integers, Sequences, FiniteSets
CONSTANTS Family,       \* "objects": histories over shared objects | "contexts": histories over two contexts
          Variant       \* "pure" | "memo_by_name" (to be refuted)
ObjOps == {"B1", "B2", "F1", "U1", "U2", "R", "S", "P", "UPD", "MF", "MN", "MR"}
CtxOps == {"B1", "R", "G1", "H1", "GR", "HR"}
Ops == IF Family = "contexts" THEN CtxOps ELSE ObjOps
Objects == {"d1", "d2", "formula", "uspec", "spec1", "context", "xcontext"}      \* context, xcontext: the caller's mappings and the objects in them
\* what the two contexts of the caller (layered over the built-in transforms) make of the names formulas call
Env == [c |-> [center |-> "stateful", scale |-> "stateful", tf |-> "plain", nstf |-> "plain"],          \* built-ins; the user's plain tf and ns.tf
        x |-> [center |-> "plain", scale |-> "plain", tf |-> "stateful", nstf |-> "stateful"]]          \* the user's own center / scale (plain); tf, ns.tf decorated as stateful transforms
Calls(op) == IF op \in {"G1", "H1", "GR", "HR"} THEN {"center", "scale", "tf", "nstf"} ELSE {"center", "scale"}
Phases(op) == CASE op = "H1" -> <<"x">> [] op = "HR" -> <<"x", "x">> [] op = "GR" -> <<"c", "c">> [] OTHER -> <<"c">>
NoNames == [n \in {} |-> ""]
\* memo_by_name: names already met keep their first kind; the others are resolved (and remembered) in the first phase of the operation
Remember(op, sn) == [n \in DOMAIN sn \cup Calls(op) |-> IF n \in DOMAIN sn THEN sn[n] ELSE Env[Phases(op)[1]][n]]
Outcome(op, sn) == [p \in DOMAIN Phases(op) |-> [n \in Calls(op) |-> IF Variant = "memo_by_name" THEN Remember(op, sn)[n] ELSE Env[Phases(op)[p]][n]]]
\* abstract results and fingerprints: symbolic constants
ResultOf(op, sn) == <<op, Outcome(op, sn)>>
Alone(op) == ResultOf(op, NoNames)           \* the operation as the only call of a fresh process
Fp0(obj) == obj

VARIABLES hist, memo, heap, last, seen       \* seen: hidden state of the erroneous variant only (name -> kind); empty for ever in the specification
vars == <<hist, memo, heap, last, seen>>
Init == hist = <<>> /\ memo = [o \in {} |-> <<>>] /\ heap = [o \in Objects |-> Fp0(o)] /\ last = <<>> /\ seen = NoNames
Do(op) == /\ hist' = Append(hist, op)
          /\ last' = ResultOf(op, seen)
          /\ memo' = [o \in DOMAIN memo \cup {op} |-> IF o = op THEN ResultOf(op, seen) ELSE memo[o]]
          /\ heap' = heap                       \* pure: nothing live is modified
          /\ seen' = IF Variant = "memo_by_name" THEN Remember(op, seen) ELSE seen
Det == [][\A op \in Ops : (hist' = Append(hist, op) /\ op \in DOMAIN memo) => last' = memo[op]]_vars
Indep == [][\A op \in Ops : hist' = Append(hist, op) => last' = Alone(op)]_vars
Frame == [][\A o \in Objects : heap'[o] = heap[o]]_vars
=============================================================================
