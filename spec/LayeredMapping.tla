--------------------------- MODULE LayeredMapping ---------------------------
(***************************************************************************)
(* utils/layered_mapping.py: a stack of mappings searched top first with a  *)
(* private mutation layer on top.  Supplied layers are never written.       *)
(* A plain mapping is a sequence of <<key, value>> pairs (python dicts are  *)
(* insertion ordered, and iteration order is observable).                    *)
(* A layer is [kind |-> "dict", name |-> "", mut |-> <<>>, maps |-> <<m>>]   *)
(*         or [kind |-> "lm", name, mut, maps]  (a nested LayeredMapping of  *)
(*            plain mappings with its own private layer).                    *)
(* State of the mapping under test: [name, mut, layers].                     *)
(***************************************************************************)
EXTENDS Integers, Sequences, FiniteSets

KeysOf(m) == [i \in DOMAIN m |-> m[i][1]]
Has(m, k) == \E i \in DOMAIN m : m[i][1] = k
Val(m, k) == m[CHOOSE i \in DOMAIN m : m[i][1] = k][2]
Put(m, k, v) == IF Has(m, k) THEN [i \in DOMAIN m |-> IF m[i][1] = k THEN <<k, v>> ELSE m[i]] ELSE Append(m, <<k, v>>)
Remove(m, k) == SelectSeq(m, LAMBDA p : p[1] # k)

Dict(m) == [kind |-> "dict", name |-> "", mut |-> <<>>, maps |-> <<m>>]
Nested(name, mut, maps) == [kind |-> "lm", name |-> name, mut |-> mut, maps |-> maps]

\* the mappings a layer is searched through, top first
Stack(layer) == IF layer.kind = "dict" THEN layer.maps ELSE <<layer.mut>> \o layer.maps
RECURSIVE FlatStack(_)
FlatStack(layers) == IF layers = <<>> THEN <<>> ELSE Stack(Head(layers)) \o FlatStack(Tail(layers))
AllMaps(s) == <<s.mut>> \o FlatStack(s.layers)

\* __getitem__ / __contains__
RECURSIVE FirstWith(_, _)
FirstWith(maps, k) == IF maps = <<>> THEN <<>> ELSE IF Has(Head(maps), k) THEN <<Val(Head(maps), k)>> ELSE FirstWith(Tail(maps), k)
Lookup(s, k) == FirstWith(AllMaps(s), k)          \* <<v>> or <<>> (KeyError)

\* __iter__: keys in order of first appearance, mutations first
RECURSIVE IterKeys(_, _)
IterKeys(maps, seen) ==
  IF maps = <<>> THEN <<>>
  ELSE LET new == SelectSeq(KeysOf(Head(maps)), LAMBDA k : k \notin seen) IN
       new \o IterKeys(Tail(maps), seen \cup {new[i] : i \in DOMAIN new})
Iter(s) == IterKeys(AllMaps(s), {})
Items(s) == [i \in DOMAIN Iter(s) |-> <<Iter(s)[i], Lookup(s, Iter(s)[i])[1]>>]
LenOf(s) == Cardinality(UNION {{KeysOf(AllMaps(s)[j])[i] : i \in DOMAIN AllMaps(s)[j]} : j \in DOMAIN AllMaps(s)})

\* __setitem__ / __delitem__: only the private layer is ever written
SetItem(s, k, v) == [s EXCEPT !.mut = Put(@, k, v)]
CanDel(s, k) == Has(s.mut, k)
DelItem(s, k) == [s EXCEPT !.mut = Remove(@, k)]
\* with_layers(layer, prepend, inplace=True)
WithLayer(s, layer, prepend) == [s EXCEPT !.layers = IF prepend THEN <<layer>> \o @ ELSE Append(@, layer), !.name = ""]

\* get_with_layer_name: value and the name of the (closest named) layer it came from; "" = None
JoinName(a, b) == IF a = "" THEN b ELSE IF b = "" THEN a ELSE a \o ":" \o b
RECURSIVE Source(_, _, _)
Source(layers, k, name) ==     \* <<value, name>> or <<>>
  IF layers = <<>> THEN <<>>
  ELSE LET l == Head(layers) IN
       IF \E j \in DOMAIN Stack(l) : Has(Stack(l)[j], k)
       THEN <<FirstWith(Stack(l), k)[1], IF l.kind = "lm" THEN JoinName(name, l.name) ELSE name>>
       ELSE Source(Tail(layers), k, name)
GetWithLayerName(s, k) == IF Has(s.mut, k) THEN <<Val(s.mut, k), s.name>> ELSE Source(s.layers, k, s.name)

\* named_layers: names reachable (first occurrence wins)
NamedLayers(s) == {s.layers[i].name : i \in {j \in DOMAIN s.layers : s.layers[j].kind = "lm" /\ s.layers[j].name # ""}}
                  \cup (IF s.name # "" THEN {s.name} ELSE {})

(* laws *)
TopFirstMerge(s) == \A i \in DOMAIN Items(s) : Items(s)[i][2] = FirstWith(AllMaps(s), Items(s)[i][1])[1]
LenConsistent(s) == LenOf(s) = Len(Iter(s)) /\ \A i, j \in DOMAIN Iter(s) : i # j => Iter(s)[i] # Iter(s)[j]
LookupConsistent(s, keys) == \A k \in keys : (Lookup(s, k) # <<>>) <=> (\E i \in DOMAIN Iter(s) : Iter(s)[i] = k)
SourceConsistent(s, keys) == \A k \in keys : Lookup(s, k) # <<>> => GetWithLayerName(s, k)[1] = Lookup(s, k)[1]
=============================================================================
