------------------------------ MODULE Oracle_Spline ------------------------------
(***************************************************************************)
(* Oracle round trip (C12): the inputs are chosen by the code - knot        *)
(* vectors and bounds recorded in a transform's state after a call with     *)
(* `df`, converted to exact fractions by the harness - and the values are   *)
(* computed here from the same definitions as MC_Spline.  Floats never      *)
(* enter TLC.                                                               *)
(***************************************************************************)
EXTENDS Integers, Sequences, FiniteSets, TLC, TLCExt, Json, CSV, IOUtils, SequencesExt
S == INSTANCE Spline
Cases == JsonDeserialize(IOEnv.TRACE_FILE)
Out == IOEnv.OUT_FILE
VARIABLE k
C == Cases[k]
Q(p) == S!Norm(p[1], p[2])
QS(s) == [i \in DOMAIN s |-> Q(s[i])]
Emit ==
  IF C.kind = "bs"
  THEN CSVWrite("%1$s", <<ToJson([id |-> C.id, rows |-> [g \in DOMAIN C.x |->
          LET r == S!BsRow(Q(C.lo), QS(C.inner), Q(C.hi), C.degree, C.intercept, C.mode, Q(C.x[g])) IN [st |-> r.st, row |-> r.row]]])>>, Out)
  ELSE CSVWrite("%1$s", <<ToJson([id |-> C.id, rows |-> [g \in DOMAIN C.x |-> S!CubicRow(QS(C.knots), C.cyclic, Q(C.x[g]))]])>>, Out)
Init == k \in 1..Len(Cases)
Next == UNCHANGED k
Spec == Init /\ [][Next]_k
=============================================================================
