-------------------------------- MODULE Spline --------------------------------
(***************************************************************************)
(* Spline bases in exact rationals (transforms/basis_spline.py,             *)
(* cubic_spline.py).                                                        *)
(*  B-splines: the Cox-de Boor definition on a knot vector t (0/0 := 0;     *)
(*  degree-0 pieces half-open, the last non-degenerate one closed on the    *)
(*  right) and the five documented extrapolation modes.                     *)
(*  Natural / cyclic cubic regression splines: the cardinal basis through   *)
(*  the knots, from the second-derivative system of Wood (2006, pp. 145-    *)
(*  147) solved exactly; the module validates its OWN basis against the     *)
(*  characterisation (interpolation, C1 at the knots, end conditions).      *)
(* Knots and bounds are rationals; x is a rational.                         *)
(***************************************************************************)
EXTENDS Integers, Sequences, FiniteSets, Rat

(* ------------------------------ B-splines ------------------------------ *)
\* padded knot vector: lo repeated d+1 times, inner knots, hi repeated d+1 times
Padded(lo, inner, hi, d) == [i \in 1..(d + 1) |-> lo] \o inner \o [i \in 1..(d + 1) |-> hi]
Alpha(t, i, j, x) == IF t[i + j] = t[i] THEN Zero ELSE RDiv(RSub(x, t[i]), RSub(t[i + j], t[i]))
\* degree-0 indicator of piece i (1-based); `last` = index of the last non-degenerate piece's right end
Piece0(t, d, i, x, extend) ==
  LET n == Len(t)
      closedRight == (i + 1 = n - d)          \* the piece whose right end is the (first copy of the) upper bound
      openLeft == extend /\ i = d + 1          \* extend: the first / last non-degenerate piece continue to infinity
      openRight == extend /\ closedRight
      ge == openLeft \/ RLe(t[i], x)
      lt == openRight \/ (IF closedRight THEN RLe(x, t[i + 1]) ELSE RLt(x, t[i + 1]))
  IN IF ge /\ lt THEN One ELSE Zero
RECURSIVE B(_, _, _, _, _, _)
B(t, d, i, j, x, extend) ==
  IF j = 0 THEN Piece0(t, d, i, x, extend)
  ELSE RAdd(RMul(Alpha(t, i, j, x), B(t, d, i, j - 1, x, extend)),
            RMul(RSub(One, Alpha(t, i + 1, j, x)), B(t, d, i + 1, j - 1, x, extend)))
\* one row of the design matrix; mode \in {"raise","clip","na","zero","extend"}; result [st, row]
Clip(x, lo, hi) == IF RLt(x, lo) THEN lo ELSE IF RLt(hi, x) THEN hi ELSE x
Outside(x, lo, hi) == RLt(x, lo) \/ RLt(hi, x)
BsRow(lo, inner, hi, d, intercept, mode, x) ==
  LET t == Padded(lo, inner, hi, d)
      ncol == Len(t) - d - 1
      first == IF intercept THEN 1 ELSE 2
      row(y, ext) == [c \in first..ncol |-> B(t, d, c, d, y, ext)]
      shift(r) == [c \in 1..(ncol - first + 1) |-> r[c + first - 1]]
  IN IF Outside(x, lo, hi)
     THEN CASE mode = "raise" -> [st |-> "ERROR", row |-> <<>>]
            [] mode = "clip"  -> [st |-> "OK", row |-> shift(row(Clip(x, lo, hi), FALSE))]
            [] mode = "na"    -> [st |-> "NA", row |-> <<>>]
            [] mode = "zero"  -> [st |-> "OK", row |-> [c \in 1..(ncol - first + 1) |-> Zero]]
            [] OTHER          -> [st |-> "OK", row |-> shift(row(x, TRUE))]
     ELSE [st |-> "OK", row |-> shift(row(x, mode = "extend"))]
NCols(inner, d, intercept) == Len(inner) + d + 1 - (IF intercept THEN 0 ELSE 1)

(* laws of the B-spline basis inside the bounds *)
NonNegative(r) == \A c \in DOMAIN r : ~RLt(r[c], Zero)
PartitionOfUnity(lo, inner, hi, d, x) == ~Outside(x, lo, hi) => RSum(BsRow(lo, inner, hi, d, TRUE, "raise", x).row) = One

(* ------------------------- vectors with nulls -------------------------- *)
\* A vector is a sequence xs of values and a set `nulls` of positions holding a null (the value written there is immaterial).  A null is a
\* missing ROW in every mode.  It is not a value outside the bounds: no extrapolation mode applies to it, and 'raise' - a verdict on the
\* whole vector - is decided by the other positions alone (a null neither triggers the error nor shields an out-of-range value from it).
NullRow == [st |-> "NA", row |-> <<>>]
VecOutcome(rows, nulls) ==          \* rows[g] = BsRow(.., xs[g]); result [st, rows]: st = "ERROR" iff the call raises
  LET rs == [g \in DOMAIN rows |-> IF g \in nulls THEN NullRow ELSE rows[g]]
  IN [st |-> IF \E g \in DOMAIN rs : rs[g].st = "ERROR" THEN "ERROR" ELSE "OK", rows |-> rs]
BsVec(lo, inner, hi, d, intercept, mode, xs, nulls) == VecOutcome([g \in DOMAIN xs |-> BsRow(lo, inner, hi, d, intercept, mode, xs[g])], nulls)
\* The 'raise' guard as an algorithm on the whole vector.  "mask": some position holds a value that compares below lo or above hi (every
\* comparison with a null is false).  "minmax" (a design error TLC must refute): min(xs) < lo or max(xs) > hi with the reductions of an
\* array library, where one null makes min and max null and the two comparisons false.  "notin" (the opposite error, refuted too): some
\* position is not known to lie inside, ~(lo <= x <= hi), which a null satisfies.
RaiseGuard(variant, lo, hi, xs, nulls) ==
  CASE variant = "minmax" -> (DOMAIN xs \cap nulls = {}) /\ \E g \in DOMAIN xs : Outside(xs[g], lo, hi)
    [] variant = "notin"  -> \E g \in DOMAIN xs : g \in nulls \/ Outside(xs[g], lo, hi)
    [] OTHER              -> \E g \in DOMAIN xs \ nulls : Outside(xs[g], lo, hi)

(* ---------------------- cubic regression splines ---------------------- *)
RowScale(r, f) == [j \in DOMAIN r |-> RDiv(r[j], f)]
RowSubMul(r, p, f) == [j \in DOMAIN r |-> RSub(r[j], RMul(f, p[j]))]
RECURSIVE GJ(_, _, _)
GJ(M, c, n) ==        \* Gauss-Jordan on an augmented matrix with n rows
  IF c > n THEN M
  ELSE LET piv == CHOOSE r \in c..n : ~IsZero(M[r][c]) /\ \A q \in c..(r - 1) : IsZero(M[q][c])
           M1 == [M EXCEPT ![c] = M[piv], ![piv] = M[c]]
           prow == RowScale(M1[c], M1[c][c])
           M2 == [r \in 1..n |-> IF r = c THEN prow ELSE RowSubMul(M1[r], prow, M1[r][c])]
       IN GJ(M2, c + 1, n)
Solve(A, D) == LET n == Len(A) G == GJ([i \in 1..n |-> A[i] \o D[i]], 1, n) IN [i \in 1..n |-> SubSeq(G[i], n + 1, Len(G[i]))]

H(k, i) == RSub(k[i + 1], k[i])
Inv(q) == RDiv(One, q)
\* natural: n knots, second derivatives M = F y with M_1 = M_n = 0
NatF(k) ==
  LET n == Len(k)
      A == [i \in 1..n |-> [j \in 1..n |->
              IF i = 1 \/ i = n THEN (IF i = j THEN One ELSE Zero)
              ELSE IF j = i - 1 THEN RDiv(H(k, i - 1), R(6)) ELSE IF j = i THEN RDiv(RAdd(H(k, i - 1), H(k, i)), R(3))
              ELSE IF j = i + 1 THEN RDiv(H(k, i), R(6)) ELSE Zero]]
      D == [i \in 1..n |-> [j \in 1..n |->
              IF i = 1 \/ i = n THEN Zero
              ELSE IF j = i - 1 THEN Inv(H(k, i - 1)) ELSE IF j = i THEN RNeg(RAdd(Inv(H(k, i - 1)), Inv(H(k, i))))
              ELSE IF j = i + 1 THEN Inv(H(k, i)) ELSE Zero]]
  IN Solve(A, D)
\* cyclic: n = Len(k) - 1 free values on the circle; coincident neighbours are SUMMED (DOC: the pinned code overwrote them)
Wrap(i, n) == ((i - 1 + n) % n) + 1
CycF(k) ==
  LET n == Len(k) - 1
      hh(i) == H(k, Wrap(i, n))
      A == [i \in 1..n |-> [j \in 1..n |->
              RAdd(RAdd(IF j = Wrap(i - 1, n) THEN RDiv(hh(i - 1), R(6)) ELSE Zero, IF j = i THEN RDiv(RAdd(hh(i - 1), hh(i)), R(3)) ELSE Zero),
                   IF j = Wrap(i + 1, n) THEN RDiv(hh(i), R(6)) ELSE Zero)]]
      D == [i \in 1..n |-> [j \in 1..n |->
              RAdd(RAdd(IF j = Wrap(i - 1, n) THEN Inv(hh(i - 1)) ELSE Zero, IF j = i THEN RNeg(RAdd(Inv(hh(i - 1)), Inv(hh(i)))) ELSE Zero),
                   IF j = Wrap(i + 1, n) THEN Inv(hh(i)) ELSE Zero)]]
  IN Solve(A, D)

\* x wrapped into [lo, hi] on the circle
RECURSIVE WrapX(_, _, _)
WrapX(x, lo, hi) == IF RLt(hi, x) THEN WrapX(RSub(x, RSub(hi, lo)), lo, hi) ELSE IF RLt(x, lo) THEN WrapX(RAdd(x, RSub(hi, lo)), lo, hi) ELSE x
\* interval index j (1-based) with k[j] < x <= k[j+1]; j = 1 left of the knots, j = n-1 right of them
IntervalOf(k, x) == LET n == Len(k) c == {j \in 1..(n - 1) : RLt(k[j], x) /\ RLe(x, k[j + 1])} IN
                    IF c # {} THEN CHOOSE j \in c : TRUE ELSE IF RLe(x, k[1]) THEN 1 ELSE n - 1
Cube(q) == RMul(q, RMul(q, q))
CubicRow(k, cyclic, x0) ==
  LET n == Len(k)
      ncol == IF cyclic THEN n - 1 ELSE n
      x == IF cyclic THEN WrapX(x0, k[1], k[n]) ELSE x0
      F == IF cyclic THEN CycF(k) ELSE NatF(k)
      j == IntervalOf(k, x)
      j1 == IF cyclic /\ j + 1 = n THEN 1 ELSE j + 1
      h == H(k, j)
      xm == RSub(k[j + 1], x)
      xp == RSub(x, k[j])
      am == RDiv(xm, h)
      ap == RDiv(xp, h)
      \* the cubic part is dropped outside the knots: the natural spline continues linearly
      cm == RSub(IF RLt(k[n], x) THEN Zero ELSE RDiv(Cube(xm), RMul(R(6), h)), RDiv(RMul(h, xm), R(6)))
      cp == RSub(IF RLt(x, k[1]) THEN Zero ELSE RDiv(Cube(xp), RMul(R(6), h)), RDiv(RMul(h, xp), R(6)))
  IN [c \in 1..ncol |-> RAdd(RAdd(IF c = j THEN am ELSE Zero, IF c = j1 THEN ap ELSE Zero),
                            RAdd(RMul(cm, F[j][c]), RMul(cp, F[j1][c])))]

(* self-validation of the cubic bases *)
Cardinal(k, cyclic) == \A i \in 1..(IF cyclic THEN Len(k) - 1 ELSE Len(k)) :
   CubicRow(k, cyclic, k[i]) = [c \in 1..(IF cyclic THEN Len(k) - 1 ELSE Len(k)) |-> IF c = i THEN One ELSE Zero]
\* first derivative of basis function c at the right end of interval j and at the left end of interval j
YAt(k, cyclic, c, i) == IF (IF cyclic /\ i = Len(k) THEN 1 ELSE i) = c THEN One ELSE Zero
MAt(k, cyclic, F, c, i) == F[IF cyclic /\ i = Len(k) THEN 1 ELSE i][c]
DRight(k, cyclic, F, c, j) == RAdd(RDiv(RSub(YAt(k, cyclic, c, j + 1), YAt(k, cyclic, c, j)), H(k, j)),
                                   RMul(RDiv(H(k, j), R(6)), RAdd(MAt(k, cyclic, F, c, j), RMul(R(2), MAt(k, cyclic, F, c, j + 1)))))
DLeft(k, cyclic, F, c, j) == RSub(RDiv(RSub(YAt(k, cyclic, c, j + 1), YAt(k, cyclic, c, j)), H(k, j)),
                                  RMul(RDiv(H(k, j), R(6)), RAdd(RMul(R(2), MAt(k, cyclic, F, c, j)), MAt(k, cyclic, F, c, j + 1))))
C1AtInnerKnots(k, cyclic) ==
  LET F == IF cyclic THEN CycF(k) ELSE NatF(k) ncol == IF cyclic THEN Len(k) - 1 ELSE Len(k) IN
  \A c \in 1..ncol : \A j \in 1..(Len(k) - 2) : DRight(k, cyclic, F, c, j) = DLeft(k, cyclic, F, c, j + 1)
NaturalEnds(k) == LET F == NatF(k) IN \A c \in 1..Len(k) : IsZero(F[1][c]) /\ IsZero(F[Len(k)][c])
PeriodicWrap(k) == LET F == CycF(k) n == Len(k) IN \A c \in 1..(n - 1) : DRight(k, TRUE, F, c, n - 1) = DLeft(k, TRUE, F, c, 1)
=============================================================================
