---------------------------- MODULE MC_Structured ----------------------------
(* All Structured trees of a bounded shape family (C19): laws + emission.     *)
EXTENDS Integers, Sequences, FiniteSets, TLC, TLCExt, Json, CSV, IOUtils, SequencesExt
CONSTANTS Emit, Family, Variant
S == INSTANCE Structured

L == S!Leaf(<<0>>)
\* level 0: a leaf, small tuples (including a tuple nested directly in a tuple), a root-only Structured
V0 == { L, S!Tup(<<L>>), S!Tup(<<L, L>>), S!Tup(<<S!Tup(<<L>>), L>>), S!St(<<"root">>, <<L>>), S!St(<<"a">>, <<L>>) }
V0s == { L, S!Tup(<<L, L>>), S!Tup(<<S!Tup(<<L>>), L>>), S!St(<<"root">>, <<L>>) }
\* level 1
V1 == V0 \cup { S!Tup(<<x>>) : x \in V0s } \cup { S!Tup(<<x, y>>) : x \in V0s, y \in V0s }
         \cup { S!St(<<k>>, <<x>>) : k \in {"root", "a"}, x \in V0 } \cup { S!St(<<"root", "b">>, <<x, y>>) : x \in V0s, y \in V0s }
KeySeqs == { <<"root">>, <<"a">>, <<"root", "a">>, <<"a", "root">>, <<"a", "b">>, <<"root", "a", "b">> }
Pool == IF Family = "small" THEN V0 ELSE V1
\* trivial wrappers (a Structured holding nothing but a non-tuple root), one and two deep, around a Structured that has a root AND
\* further structure (other keys before / after the root, a tuple root): the wrappers go, the structure below them - root, keys,
\* tuple - stays, and no leaf is lost.  The wrapped object stands at the top, under a key, as the root beside a key and inside a
\* tuple (where `_simplify` recurses into it).  In both families: the small pool has no Structured with a root and another key.
Rich == { S!St(<<"root", "a">>, <<L, L>>), S!St(<<"a", "root">>, <<L, L>>), S!St(<<"root", "a", "b">>, <<L, L, L>>),
          S!St(<<"root">>, <<S!Tup(<<L, L>>)>>), S!St(<<"root", "a">>, <<S!Tup(<<L>>), L>>), S!St(<<"root", "a">>, <<S!St(<<"root">>, <<L>>), L>>) }
W(x) == S!St(<<"root">>, <<x>>)
Wrapped == { W(x) : x \in Rich } \cup { W(W(x)) : x \in Rich }
WrapTops == Wrapped \cup { S!St(<<"a">>, <<w>>) : w \in Wrapped } \cup { S!St(<<"root", "b">>, <<w, L>>) : w \in Wrapped }
                    \cup { S!St(<<"a", "root">>, <<S!Tup(<<w, L>>), L>>) : w \in Wrapped }
Tops == UNION { { S!St(ks, vs) : vs \in [1..Len(ks) -> IF Len(ks) = 3 THEN V0s ELSE Pool] } : ks \in KeySeqs } \cup WrapTops

\* label the leaves 1..n in (documented) flatten order so that visiting order is observable
RECURSIVE Label(_, _)
RECURSIVE LabelSeq(_, _)
Label(n, next) ==      \* returns [n, next]
  CASE n.t = "leaf" -> [n |-> S!Leaf(<<next>>), next |-> next + 1]
    [] n.t = "tup" -> LET r == LabelSeq(n.items, next) IN [n |-> S!Tup(r.s), next |-> r.next]
    [] OTHER -> LET r == LabelSeq(n.vals, next) IN [n |-> S!St(n.keys, r.s), next |-> r.next]
LabelSeq(s, next) == IF s = <<>> THEN [s |-> <<>>, next |-> next]
                     ELSE LET h == Label(Head(s), next) r == LabelSeq(Tail(s), h.next) IN [s |-> <<h.n>> \o r.s, next |-> r.next]

VARIABLE tree
T == Label(tree, 1).n

Laws == /\ S!MapVisitsInFlattenOrder(T) /\ S!MapPreservesShape(T) /\ S!PathsMatchLeaves(T)
        /\ S!SimplifyIdempotent(T) /\ S!SimplifyLeafPreserving(T)
        /\ S!Flatten(T) = [i \in 1..S!CountLeaves(T) |-> <<i>>]
        /\ S!UpdateKeys(T, <<>>, <<>>) = S!Ctor(T.keys, T.vals) /\ S!MapAppliesOnce(T)
        /\ S!Flatten(S!Merge(<<T, T>>, TRUE)) # <<>> \/ S!Merge(<<T, T>>, TRUE).t = "err" \/ S!CountLeaves(T) = 0

RECURSIVE J(_)
J(n) == CASE n.t = "leaf" -> [t |-> "leaf", v |-> n.v]
          [] n.t = "tup" -> [t |-> "tup", items |-> [i \in DOMAIN n.items |-> J(n.items[i])]]
          [] n.t = "st" -> [t |-> "st", keys |-> n.keys, vals |-> [i \in DOMAIN n.vals |-> J(n.vals[i])]]
          [] OTHER -> [t |-> "err"]
Other == S!St(<<"a", "c">>, <<S!Leaf(<<91>>), S!Tup(<<S!Leaf(<<92>>)>>)>>)
Out == IOEnv.OUT_FILE
EmitCase ==
  Emit => CSVWrite("%1$s", <<ToJson([tree |-> J(T),
            flat |-> S!Flatten(T), paths |-> S!Paths(T, <<>>),
            mapped |-> J(S!MapTree(LAMBDA v : Append(v, 0), T)),
            simp |-> J(S!Simplify(T)),
            upd |-> J(S!UpdateKeys(T, <<"b", "root">>, <<S!Leaf(<<77>>), S!Tup(<<S!Leaf(<<78>>)>>)>>)),
            \* replacement values that are falsy in python (an empty list, an empty tuple) are values like any other
            upd_empty |-> J(S!UpdateKeys(T, <<"root">>, <<S!Leaf(<<>>)>>)),
            upd_empty_tuple |-> J(S!UpdateKeys(T, <<"a", "root">>, <<S!Leaf(<<>>), S!Tup(<<>>)>>)),
            merge_self |-> J(S!Merge(<<T, T>>, TRUE)),
            merge_other |-> J(S!Merge(<<T, Other>>, TRUE)),
            merge_leaf |-> J(S!Merge(<<T, S!Leaf(<<93>>)>>, TRUE)),
            iter |-> [i \in DOMAIN S!IterTop(T) |-> J(S!IterTop(T)[i])] ])>>, Out)

Init == tree \in Tops
Next == UNCHANGED tree
Spec == Init /\ [][Next]_tree
=============================================================================
