------------------------------ MODULE ReuseHistory ------------------------------
(***************************************************************************)
(* C04: histories of replays of ONE spec object ("all follow-up data sets,  *)
(* any sequence of them").  MC_Reuse judges a single replay; here the spec  *)
(* object lives through a sequence of calls.                                *)
(* The fit records  S = [lo, hi, mean, levels]  (bounds of the spline       *)
(* transforms bs/cr/cc, the centre of center/scale/standardize/poly, the    *)
(* levels of a categorical factor).  An output row is modelled as the pair  *)
(* <<input row, state used>> restricted to what the transform family reads: *)
(* "each output row depends only on the corresponding input row and the     *)
(* recorded state" says that the state used is the one the fit recorded, on *)
(* every call of every history, whatever the earlier calls were given.      *)
(* The training families are chosen so that each recorded statistic is      *)
(* exactly zero in one of them (minimum 0, maximum 0, mean 0): the value    *)
(* that "is there a recorded value?" tests written as truthiness confuse    *)
(* with "nothing recorded".                                                 *)
(* Variant = "recorded"      : a replay reads S and never writes it.        *)
(* Variant = "refresh-falsy" : seeded design error - a recorded statistic   *)
(*    equal to zero is taken for a missing one, re-derived from the data of *)
(*    the call and written back into the (shared) spec                      *)
(*    (`state.get(k) or derive(data)`); TLC must refute HistoryFree.        *)
(* Variant = "relearn"       : seeded design error - state recomputed from  *)
(*    the data of every call instead of reused (nothing written back);      *)
(*    TLC must refute HistoryFree as well.                                  *)
(* Follow-up frames are row sequences of the training frame (subset,        *)
(* duplication, reordering; without the rows at a bound; a single level;    *)
(* only the rows at the bounds), so that the expected rows are rows of the  *)
(* matrix of the fit: the emitted  eq[k][i]  is the set of rows of the fit  *)
(* that row i of call k equals.  pk: the spec is pickled and restored       *)
(* before call pk (0 = never; PkMin..MaxCalls otherwise - a spec pickled     *)
(* before its first call is what MC_Reuse replays) - a parameter that does  *)
(* not occur in the definition of any result (Pickle is the identity on     *)
(* behaviour).                                                              *)
(***************************************************************************)
EXTENDS Integers, Sequences, FiniteSets, TLC, TLCExt, Json, CSV, IOUtils, SequencesExt
CONSTANTS Variant, MaxCalls, PkMin, Emit

Base == <<4, 0, 6, 2, 5, 1, 0, 6>>          \* both bounds occur twice, not at the ends of the frame; sum 24 = 3 * 8
Shifts == <<0, 0 - 6, 0 - 3, 1>>            \* minimum 0 / maximum 0 / mean 0 / no statistic is zero
Lv == <<"x", "y", "z">>
N == Len(Base)
\* which recorded components a transform family reads (the driver holds the spellings of each family)
Families == << <<"bounds">>, <<"centre">>, <<"levels">>, <<"bounds", "levels">>, <<"centre", "levels">>, <<"bounds", "centre">> >>

VARIABLES tr, fam, pk, state, hist
vars == <<tr, fam, pk, state, hist>>
Train == [i \in 1..N |-> [a |-> Base[i] + Shifts[tr], A |-> Lv[((i - 1) % 3) + 1]]]
Uses == {Families[fam][i] : i \in DOMAIN Families[fam]}

RECURSIVE SumA(_)
SumA(rows) == IF rows = <<>> THEN 0 ELSE Head(rows).a + SumA(Tail(rows))
Vals(rows) == {rows[i].a : i \in DOMAIN rows}
MinOf(S) == CHOOSE x \in S : \A y \in S : x <= y
MaxOf(S) == CHOOSE x \in S : \A y \in S : x >= y
\* the mean as an integer: 2520 = lcm(1..9) times the mean (a frame has at most N + 1 = 9 rows)
Stats(rows) == [lo |-> MinOf(Vals(rows)), hi |-> MaxOf(Vals(rows)), mean |-> (SumA(rows) * 2520) \div Len(rows), levels |-> {rows[i].A : i \in DOMAIN rows}]
Fit == Stats(Train)

Proj(S) == [lo |-> IF "bounds" \in Uses THEN S.lo ELSE 0, hi |-> IF "bounds" \in Uses THEN S.hi ELSE 0,
            mean |-> IF "centre" \in Uses THEN S.mean ELSE 0, levels |-> IF "levels" \in Uses THEN S.levels ELSE {}]
RowOut(S, row) == [a |-> IF Uses \cap {"bounds", "centre"} # {} THEN row.a ELSE 0, A |-> IF "levels" \in Uses THEN row.A ELSE "", S |-> Proj(S)]
\* extrapolation='raise' (the default of bs/cr/cc): a value outside the bounds in use is an error
Apply(S, rows) == [st |-> IF "bounds" \in Uses /\ \E i \in DOMAIN rows : rows[i].a < S.lo \/ rows[i].a > S.hi THEN "ERROR" ELSE "OK",
                   rows |-> [i \in DOMAIN rows |-> RowOut(S, rows[i])]]
FitOut == Apply(Fit, Train)

\* the follow-up frames of a training frame, as row sequences
Idx == [i \in 1..N |-> i]
Pick(Test(_)) == SelectSeq(Idx, Test)
Selections == { Idx,
                Pick(LAMBDA i : Train[i].a # Fit.lo), Pick(LAMBDA i : Train[i].a # Fit.hi),          \* without the rows at the lower / upper bound
                Pick(LAMBDA i : Train[i].a \notin {Fit.lo, Fit.hi}),                                  \* interior rows only
                Pick(LAMBDA i : Train[i].a \in {Fit.lo, Fit.hi}),                                     \* only the rows at the bounds
                Pick(LAMBDA i : Train[i].A = Train[1].A),                                             \* a single level: the other levels are absent
                <<N>> \o [i \in 1..N |-> N + 1 - i] }                                                 \* reordered, with a duplicate
Rows(sel) == [i \in DOMAIN sel |-> Train[sel[i]]]

Refresh(S, d) == [lo |-> IF S.lo = 0 THEN d.lo ELSE S.lo, hi |-> IF S.hi = 0 THEN d.hi ELSE S.hi,
                  mean |-> IF S.mean = 0 THEN d.mean ELSE S.mean, levels |-> IF S.levels = {} THEN d.levels ELSE S.levels]
Call(sel) == LET rows == Rows(sel)
                 used == CASE Variant = "refresh-falsy" -> Refresh(state, Stats(rows)) [] Variant = "relearn" -> Stats(rows) [] OTHER -> state
                 out == Apply(used, rows)
             IN /\ state' = IF Variant = "relearn" THEN state ELSE used
                /\ hist' = Append(hist, [sel |-> sel, st |-> out.st, rows |-> out.rows])
                /\ UNCHANGED <<tr, fam, pk>>
Init == tr \in DOMAIN Shifts /\ fam \in DOMAIN Families /\ pk \in {0} \cup PkMin..MaxCalls /\ state = Fit /\ hist = <<>>
Next == Len(hist) < MaxCalls /\ \E s \in Selections : Call(s)
Spec == Init /\ [][Next]_vars

\* ---- laws
Frozen == state = Fit                                   \* Reuse does not change S
\* every call returns what the recorded state prescribes for its own rows: no call depends on the calls before it
HistoryFree == \A k \in DOMAIN hist : hist[k].st = "OK" /\ hist[k].rows = Apply(Fit, Rows(hist[k].sel)).rows
Eq(k, i) == {j \in 1..N : FitOut.rows[j] = hist[k].rows[i]}
\* ... which are the corresponding rows of the matrix of the fit
RowsOfTheFit == \A k \in DOMAIN hist : \A i \in DOMAIN hist[k].sel : hist[k].sel[i] \in Eq(k, i)
\* the family is not vacuous: every statistic is zero in some training frame, and some follow-up frame lacks a bound / a level
Covering == /\ \E t \in DOMAIN Shifts : MinOf({Base[i] + Shifts[t] : i \in 1..N}) = 0
            /\ \E t \in DOMAIN Shifts : MaxOf({Base[i] + Shifts[t] : i \in 1..N}) = 0
            /\ \E t \in DOMAIN Shifts : SumA([i \in 1..N |-> [a |-> Base[i] + Shifts[t]]]) = 0
            /\ \E s \in Selections : Stats(Rows(s)).lo # Fit.lo
            /\ \E s \in Selections : Stats(Rows(s)).hi # Fit.hi
            /\ \E s \in Selections : Stats(Rows(s)).levels # Fit.levels
            /\ Cardinality(Selections) = 7

Out == IOEnv.OUT_FILE
EmitCase == Emit => CSVWrite("%1$s", <<ToJson([tr |-> tr, family |-> Families[fam], pk |-> pk,
      a |-> [i \in 1..N |-> Train[i].a], A |-> [i \in 1..N |-> Train[i].A],
      calls |-> [k \in DOMAIN hist |-> [sel |-> hist[k].sel, st |-> hist[k].st,
                                        eq |-> [i \in DOMAIN hist[k].sel |-> SetToSortSeq(Eq(k, i), <)]]]])>>, Out)
=============================================================================
