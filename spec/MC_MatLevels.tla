----------------------------- MODULE MC_MatLevels -----------------------------
(***************************************************************************)
(* C02: the levels of a categorical factor and the STORAGE of its column.   *)
(* A column of text values can be held as plain objects or in a categorical *)
(* dtype that declares the levels in an order of its own; the levels the    *)
(* encoding uses can be named in the formula (C(A, levels=[...])) or be     *)
(* the ones recorded by an earlier build (the spec attached to a matrix,    *)
(* applied again).  Whenever the levels are GIVEN, the column e[l] is the   *)
(* indicator of the VALUE l: the order in which the dtype happens to list   *)
(* its categories (its integer codes) plays no role.                        *)
(* Family: 2 value sequences (all levels observed / a null and an           *)
(* unobserved level) x 5 storages of A (objects, 4 declared orders) x       *)
(* 5 targets (none, 4 orders of x y z named in the formula) x               *)
(* 5 formulas x intercept x rank reduction x re-application of the attached *)
(* spec to the same rows held in the next storage (or none).                *)
(* Variant "levels" is the specification (Materialize).  Variant "codes"    *)
(* is a design error TLC must refute: a column that already has a           *)
(* categorical dtype over the same SET of levels keeps its integer codes,   *)
(* which are then read against the target levels.                           *)
(***************************************************************************)
EXTENDS Integers, Sequences, FiniteSets, TLC, TLCExt, Json, CSV, IOUtils, SequencesExt
CONSTANTS Emit, Variant
M == INSTANCE Materialize

NumCol(v, nulls) == [kind |-> "num", num |-> v, cat |-> <<>>, nulls |-> nulls, lv |-> <<>>, declared |-> FALSE]
CatCol(v, nulls, lv, decl) == [kind |-> "cat", num |-> <<>>, cat |-> v, nulls |-> nulls, lv |-> lv, declared |-> decl]
XYZ == <<"x", "y", "z">>
Orders == << XYZ, <<"z", "x", "y">>, <<"y", "x", "z">>, <<"z", "y", "x">>, <<"y", "z", "x">>, <<"x", "z", "y">> >>
NSto == 5                                      \* storage 0 = objects, 1..4 = categorical dtype declaring Orders[s]
TgtOrders == <<1, 2, 4, 5>>                    \* the orders a formula names (two of them are no storage order: 2000 cases keep the quick tier cheap)
Values == << [n |-> 5, A |-> <<"y", "x", "z", "x", "z">>, nulls |-> {}, a |-> <<2, 3, -1, 5, 4>>, B |-> <<"p", "q", "q", "p", "q">>],
             [n |-> 4, A |-> <<"x", "", "y", "x">>, nulls |-> {2}, a |-> <<3, 1, 2, -2>>, B |-> <<"q", "p", "p", "q">>] >>
Fr(v, s) == [n |-> Values[v].n, cols |-> [c \in {"A", "a", "B"} |->
               CASE c = "A" -> CatCol(Values[v].A, Values[v].nulls, IF s = 0 THEN XYZ ELSE Orders[s], s # 0)
                 [] c = "a" -> NumCol(Values[v].a, {})
                 [] OTHER -> CatCol(Values[v].B, {}, <<"p", "q">>, FALSE)]]

VARIABLES vid, sto, tgt, fid, icpt, fullrank, sto2
vars == <<vid, sto, tgt, fid, icpt, fullrank, sto2>>
NONE == 9                                      \* sto2 = NONE: no re-application

Target == Orders[TgtOrders[tgt]]
LevelsArg == "levels=['" \o Target[1] \o "', '" \o Target[2] \o "', '" \o Target[3] \o "']"
F == [e |-> IF tgt = 0 THEN "A" ELSE "C(A, " \o LevelsArg \o ")", kind |-> "cat", col |-> "A", contr |-> "treatment", lit |-> 1]
FS == [e |-> IF tgt = 0 THEN "C(A, contr.sum)" ELSE "C(A, contr.sum, " \o LevelsArg \o ")", kind |-> "cat", col |-> "A", contr |-> "sum", lit |-> 1]
a == [e |-> "a", kind |-> "num", col |-> "a", contr |-> "", lit |-> 1]
B == [e |-> "B", kind |-> "cat", col |-> "B", contr |-> "treatment", lit |-> 1]
Icpt == <<[e |-> "1", kind |-> "lit", col |-> "", contr |-> "", lit |-> 1]>>
Templates == << <<<<F>>>>, <<<<F>>, <<F, a>>>>, <<<<a, F>>>>, <<<<F, B>>>>, <<<<FS>>, <<FS, a>>>> >>      \* written in degree order already
Written == Templates[fid]
Formula == (IF icpt THEN <<Icpt>> ELSE <<>>) \o Written
TheCat == IF fid = 5 THEN FS ELSE F            \* the factor over A of this formula
Opts == [full_rank |-> fullrank, na |-> "drop", cluster |-> FALSE]

\* Variant "codes": the integer codes of a categorical dtype over the same set of levels are kept and read against the target
Relabel(frame, target) ==
  LET c == frame.cols["A"] IN
  IF Variant = "codes" /\ c.declared /\ target # <<>> /\ M!Range(c.lv) = M!Range(target)
  THEN [frame EXCEPT !.cols["A"].cat = [i \in DOMAIN c.cat |-> IF i \in c.nulls THEN c.cat[i] ELSE target[M!IndexIn(c.lv, c.cat[i])]]]
  ELSE frame

Build(s) ==       \* the first build, on the frame held in storage s: named levels act exactly like recorded ones
  LET given == IF tgt = 0 THEN <<>> ELSE Target
      frame == Relabel(Fr(vid, s), given)
      kept == M!Kept(frame, M!DropSet(frame, <<Formula>>, "drop", {}))
      rec == IF tgt = 0 THEN <<>> ELSE [e \in {TheCat.e} |-> Target]
  IN [b |-> M!BuildOn(frame, Formula, Opts, kept, rec, <<>>), kept |-> kept,
      used |-> [e \in DOMAIN M!LevelsUsed(frame, Formula, kept) |-> IF e = TheCat.e /\ tgt # 0 THEN Target ELSE M!LevelsUsed(frame, Formula, kept)[e]]]
Fit == Build(sto)
\* the spec attached to the first matrix (structure and levels recorded) applied to the same rows held in storage sto2
AgainOf(fit) == LET frame == Relabel(Fr(vid, sto2), fit.used[TheCat.e])
                    kept == M!Kept(frame, M!DropSet(frame, <<Formula>>, "drop", {}))
                IN [b |-> M!BuildOn(frame, Formula, Opts, kept, fit.used, fit.b.scoped), kept |-> kept]
Mat(x) == [names |-> M!Names(x.b), cells |-> M!Cells(x.b, Len(x.kept))]

(* ---------------- model-level theorems (fit is passed so that TLC evaluates the build once per law) ---------------- *)
\* with rank reduction off the term of the lone categorical factor is one indicator per level, in level order, of the VALUE
IndicatorsOf(fit) == (~fullrank /\ Len(Written[1]) = 1) =>
   LET cols == fit.b.percol[IF icpt THEN 2 ELSE 1]
       lv == fit.used[TheCat.e] IN
   /\ Len(cols) = Len(lv)
   /\ \A j \in DOMAIN cols : /\ cols[j].name = TheCat.e \o "[" \o lv[j] \o "]"
                             /\ \A r \in DOMAIN fit.kept : cols[j].vals[r] = IF Values[vid].A[fit.kept[r]] = lv[j] THEN 1 ELSE 0
\* once the levels are named, every storage of the same values gives the same matrix
StorageIrrelevantOf(fit) == (tgt # 0 /\ sto # 0) => Mat(fit) = Mat(Build(0))
\* the attached spec applied to the same rows in another storage reproduces the matrix
ReapplyStableOf(fit) == sto2 # NONE => Mat(AgainOf(fit)) = Mat(fit)
Indicators == IndicatorsOf(Fit)
StorageIrrelevant == StorageIrrelevantOf(Fit)
ReapplyStable == ReapplyStableOf(Fit)
Laws == LET fit == Fit IN IndicatorsOf(fit) /\ StorageIrrelevantOf(fit) /\ ReapplyStableOf(fit)

FrameOut(f) == [n |-> f.n, cols |-> [c \in DOMAIN f.cols |-> [kind |-> f.cols[c].kind, num |-> f.cols[c].num, cat |-> f.cols[c].cat,
                                   nulls |-> SetToSortSeq(f.cols[c].nulls, <), lv |-> f.cols[c].lv, declared |-> f.cols[c].declared]]]
Out == IOEnv.OUT_FILE
EmitCase == Emit => LET m1 == Mat(Fit)  m2 == IF sto2 = NONE THEN [names |-> <<>>, cells |-> <<>>] ELSE Mat(AgainOf(Fit)) IN CSVWrite("%1$s", <<ToJson(
   [written |-> [i \in DOMAIN Written |-> [k \in DOMAIN Written[i] |-> Written[i][k].e]], icpt |-> icpt, full_rank |-> fullrank,
    vid |-> vid, sto |-> sto, tgt |-> tgt, sto2 |-> sto2, reapply |-> sto2 # NONE, reordered |-> (tgt # 0 /\ sto # 0 /\ Target # Orders[sto]),
    frame |-> FrameOut(Fr(vid, sto)), frame2 |-> FrameOut(Fr(vid, IF sto2 = NONE THEN sto ELSE sto2)),
    names |-> m1.names, cells |-> m1.cells, kept |-> Fit.kept, names2 |-> m2.names, cells2 |-> m2.cells])>>, Out)

Init == /\ vid \in DOMAIN Values /\ sto \in 0..(NSto - 1) /\ tgt \in 0..Len(TgtOrders) /\ fid \in DOMAIN Templates
        /\ icpt \in BOOLEAN /\ fullrank \in BOOLEAN
        /\ sto2 \in {NONE, (sto + 1) % NSto}
Next == UNCHANGED vars
Spec == Init /\ [][Next]_vars
=============================================================================
