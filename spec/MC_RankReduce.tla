----------------------------- MODULE MC_RankReduce -----------------------------
(***************************************************************************)
(* C03: the greedy reduced/full assignment over the whole lattice of term   *)
(* sets.  State = a sequence of distinct terms over 3 categorical and 2     *)
(* numerical factors (every non-empty subset is a term), with or without    *)
(* intercept and clustering.  Theorem: after scoping, the pure-interaction  *)
(* pieces spanned by the emitted scoped terms partition P(terms) - for the  *)
(* whole sequence and hence, the sequence being built term by term, for     *)
(* every prefix.  By the lemma of DESIGN 5/C03 this is: linearly            *)
(* independent columns, same span as the unreduced matrix.                  *)
(***************************************************************************)
EXTENDS Integers, Sequences, FiniteSets, TLC, TLCExt, Json, CSV, IOUtils, SequencesExt
CONSTANTS MaxTerms, Emit, Slice, SliceMod
M == INSTANCE Materialize

Num(e) == [e |-> e, kind |-> "num", col |-> e, contr |-> "", lit |-> 1]
Cat(e) == [e |-> e, kind |-> "cat", col |-> e, contr |-> "treatment", lit |-> 1]
Lit(n) == [e |-> ToString(n), kind |-> "lit", col |-> "", contr |-> "", lit |-> n]
Pool == << Cat("A"), Cat("B"), Cat("D"), Num("a"), Num("b") >>
Icpt == <<Lit(1)>>
TermOf(S) == SelectSeq(Pool, LAMBDA f : f.e \in S)
AllTerms == {TermOf(S) : S \in (SUBSET {"A", "B", "D", "a", "b"}) \ {{}}}

VARIABLES terms, icpt, cluster
vars == <<terms, icpt, cluster>>
Degree(t) == Len(SelectSeq(t, LAMBDA f : f.kind # "lit"))
RECURSIVE InsDeg(_, _)
InsDeg(sorted, t) == IF sorted = <<>> THEN <<t>> ELSE IF Degree(Head(sorted)) <= Degree(t) THEN <<Head(sorted)>> \o InsDeg(Tail(sorted), t) ELSE <<t>> \o sorted
RECURSIVE SortDeg(_)
SortDeg(ts) == IF ts = <<>> THEN <<>> ELSE InsDeg(SortDeg(SubSeq(ts, 1, Len(ts) - 1)), ts[Len(ts)])

\* "unsorted": the terms exactly as the user supplied them (Formula(..., _ordering="none")): the order matters to the greedy rule
Formula == (IF icpt THEN <<Icpt>> ELSE <<>>) \o terms
Clustered == M!Cluster(Formula, cluster)
Scoped == M!ScopeAll(Clustered, {}, TRUE)

Pieces(st, term) ==
  LET full == {st.fs[i].f : i \in {k \in DOMAIN st.fs : ~st.fs[k].red /\ M!FactorByExpr(term, st.fs[k].f).kind = "cat"}}
      base == {st.fs[i].f : i \in DOMAIN st.fs} \ full
  IN {base \cup U : U \in SUBSET full}
TermPieces(term) ==
  LET cats == {term[i].e : i \in {k \in DOMAIN term : term[k].kind = "cat"}}
      nums == {term[i].e : i \in {k \in DOMAIN term : term[k].kind = "num"}}
  IN {nums \cup U : U \in SUBSET cats}
PartitionOf(scoped, ts) ==
   LET em == UNION {{<<t, q>> : q \in DOMAIN scoped[t]} : t \in DOMAIN scoped}
       pc(x) == Pieces(scoped[x[1]][x[2]], ts[x[1]])
   IN /\ \A x, y \in em : x # y => pc(x) \cap pc(y) = {}
      /\ UNION {pc(x) : x \in em} = UNION {TermPieces(ts[t]) : t \in DOMAIN ts}
PartitionOK == PartitionOf(Scoped, Clustered)
\* every emitted scoped term of a term uses exactly that term's factors or a subset, reduced only for categoricals
WellScoped == \A t \in DOMAIN Scoped : \A q \in DOMAIN Scoped[t] : \A s \in DOMAIN Scoped[t][q].fs :
   LET sf == Scoped[t][q].fs[s] IN
   (\E i \in DOMAIN Clustered[t] : Clustered[t][i].e = sf.f) /\ (sf.red => M!FactorByExpr(Clustered[t], sf.f).kind = "cat")

TermOut(t) == [i \in DOMAIN t |-> t[i].e]
ScopedOut == [t \in DOMAIN Scoped |-> [q \in DOMAIN Scoped[t] |-> [s \in DOMAIN Scoped[t][q].fs |-> <<Scoped[t][q].fs[s].f, IF Scoped[t][q].fs[s].red THEN "reduced" ELSE "full">>]]]
\* a slice number that spreads the sequences evenly: position-weighted codes of the factors of every term
FCode(e) == CASE e = "A" -> 1 [] e = "B" -> 2 [] e = "D" -> 4 [] e = "a" -> 8 [] OTHER -> 16
RECURSIVE TCode(_)
TCode(t) == IF t = <<>> THEN 0 ELSE FCode(Head(t).e) + TCode(Tail(t))
RECURSIVE FoldCode(_, _)
FoldCode(q, w) == IF q = <<>> THEN 0 ELSE w * TCode(Head(q)) + FoldCode(Tail(q), w * 31 % 1009)
Hash == FoldCode(terms, 1) + (IF icpt THEN 5 ELSE 0) + (IF cluster THEN 3 ELSE 0)
Out == IOEnv.OUT_FILE
EmitCase == (Emit /\ Hash % SliceMod = Slice) =>
   CSVWrite("%1$s", <<ToJson([terms |-> [i \in DOMAIN terms |-> TermOut(terms[i])], icpt |-> icpt, cluster |-> cluster,
                              clustered |-> [i \in DOMAIN Clustered |-> TermOut(Clustered[i])], scoped |-> ScopedOut])>>, Out)

Init == terms = <<>> /\ icpt \in BOOLEAN /\ cluster \in BOOLEAN
Next == /\ Len(terms) < MaxTerms
        /\ \E t \in AllTerms : (\A i \in DOMAIN terms : terms[i] # t) /\ terms' = Append(terms, t)
        /\ UNCHANGED <<icpt, cluster>>
Spec == Init /\ [][Next]_vars
=============================================================================
