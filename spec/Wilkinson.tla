----------------------------- MODULE Wilkinson -----------------------------
(***************************************************************************)
(* Implementation-shaped model of DefaultFormulaParser: token rewriting     *)
(* (get_tokens_from_formula), operator table and resolution                *)
(* (DefaultOperatorResolver), the shunting-yard machine, evaluation of the *)
(* AST in the term algebra, check_terms and the final ordering.            *)
(*                                                                         *)
(* cfg == [intercept : BOOLEAN, flags : SUBSET Flags,                      *)
(*         avail : [present : BOOLEAN, vars : Seq(STRING)]]                *)
(***************************************************************************)
EXTENDS Integers, Sequences, FiniteSets, TermAlgebra

Flags == {"TWOSIDED", "MULTIPART", "MULTISTAGE"}
Signs == {"+", "-"}

Tok(k, s) == [k |-> k, s |-> s, cs |-> <<>>, vars |-> IF k = "name" THEN <<s>> ELSE <<>>, num |-> FALSE, ival |-> -1]
\* a literal token: num = "is a number" (str.isnumeric after removing one "."), ival = value of an integer literal or -1
ValTok(s, num, ival) == [k |-> "value", s |-> s, cs |-> <<>>, vars |-> <<>>, num |-> num, ival |-> ival]
PyTok(s, vars) == [k |-> "python", s |-> s, cs |-> <<>>, vars |-> vars, num |-> FALSE, ival |-> -1]
OpTok(cs) == [k |-> "op", s |-> "", cs |-> cs, vars |-> <<>>, num |-> FALSE, ival |-> -1]
CtxTok(k, s) == [k |-> k, s |-> s, cs |-> <<>>, vars |-> <<>>, num |-> FALSE, ival |-> -1]
One == ValTok("1", TRUE, 1)
Plus == OpTok(<<"+">>)
Minus == OpTok(<<"-">>)

(* ------------------------------------------------------------------ *)
(* operator table (A.3)                                                *)
(* ------------------------------------------------------------------ *)
Cand(sym, id, arity, prec, assoc, fix, ctx, flag) ==
  [sym |-> sym, id |-> id, arity |-> arity, prec |-> prec, assoc |-> assoc, fix |-> fix, ctx |-> ctx, flag |-> flag]

Symbols == {"~", "|", "+", "-", "*", "/", "in", ":", "**", "^", "."}
Table ==
  [s \in Symbols |->
    CASE s = "~" -> << Cand("~", "twosided", 2, -100, "none", "infix", "top", "TWOSIDED"),
                       Cand("~", "multistage", 2, -100, "none", "infix", "ms", "MULTISTAGE"),
                       Cand("~", "onesided", 1, -100, "none", "prefix", "top", "") >>
      [] s = "|" -> << Cand("|", "part", 2, -50, "none", "infix", "part", "MULTIPART") >>
      [] s = "+" -> << Cand("+", "add", 2, 100, "left", "infix", "any", ""),
                       Cand("+", "pos", 1, 100, "right", "prefix", "any", "") >>
      [] s = "-" -> << Cand("-", "sub", 2, 100, "left", "infix", "any", ""),
                       Cand("-", "neg", 1, 100, "right", "prefix", "any", "") >>
      [] s = "*" -> << Cand("*", "star", 2, 200, "left", "infix", "any", "") >>
      [] s = "/" -> << Cand("/", "nest", 2, 200, "left", "infix", "any", "") >>
      [] s = "in" -> << Cand("in", "in", 2, 200, "left", "infix", "any", "") >>
      [] s = ":" -> << Cand(":", "interact", 2, 300, "left", "infix", "any", "") >>
      [] s = "**" -> << Cand("**", "power", 2, 500, "right", "infix", "any", "") >>
      [] s = "^" -> << Cand("^", "power", 2, 500, "right", "infix", "any", "") >>
      [] s = "." -> << Cand(".", "dot", 0, 1000, "none", "postfix", "any", "") >> ]

(* DefaultOperatorResolver.resolve.  DOC: every maximal run of two or more signs is      *)
(* replaced by the single sign of its parity, keeping what precedes and follows it.      *)
RECURSIVE CollapseSigns(_)
CollapseSigns(cs) ==
  IF cs = <<>> THEN <<>>
  ELSE IF Head(cs) \notin Signs THEN <<Head(cs)>> \o CollapseSigns(Tail(cs))
  ELSE LET n == CHOOSE k \in 1..Len(cs) : (\A i \in 1..k : cs[i] \in Signs) /\ (k = Len(cs) \/ cs[k + 1] \notin Signs)
           minus == Cardinality({i \in 1..n : cs[i] = "-"})
       IN <<IF minus % 2 = 1 THEN "-" ELSE "+">> \o CollapseSigns(SubSeq(cs, n + 1, Len(cs)))

ResolveRun(cs) ==
  IF Len(cs) = 1 THEN cs
  ELSE IF cs = <<"*", "*">> THEN <<"**">>
  ELSE LET col == CollapseSigns(cs) IN
       IF col = <<"*", "*">> THEN <<"**">> ELSE col      \* a single symbol, or one operator per character

SY == INSTANCE ShuntingYard WITH Table <- Table, Symbols <- Symbols, ResolveRun <- ResolveRun

(* ------------------------------------------------------------------ *)
(* token rewriting (A.2)                                               *)
(* ------------------------------------------------------------------ *)
RECURSIVE ReplaceZero(_)
ReplaceZero(toks) ==
  IF toks = <<>> THEN <<>>
  ELSE (IF Head(toks).k = "value" /\ Head(toks).s = "0" THEN <<Minus, One>> ELSE <<Head(toks)>>) \o ReplaceZero(Tail(toks))

Has(cs, sym) == \E i \in DOMAIN cs : cs[i] = sym

RECURSIVE SplitAfter(_, _, _)
SplitAfter(cs, sym, acc) ==
  IF cs = <<>> THEN (IF acc = <<>> THEN <<>> ELSE <<acc>>)
  ELSE IF Head(cs) = sym THEN <<Append(acc, sym)>> \o SplitAfter(Tail(cs), sym, <<>>)
  ELSE SplitAfter(Tail(cs), sym, Append(acc, Head(cs)))

NeedsJoin(next) == next.k # "op" \/ (next.cs # <<"+">> /\ next.cs # <<"-">>)

\* insert_tokens_after(tokens, sym, [1], kind=OPERATOR, join_operator="+", no_join_for_operators={"+","-"})
RECURSIVE InsertPieces(_, _, _, _)
InsertPieces(pieces, j, sym, following) ==      \* following: <<next token>> or <<>>
  IF j > Len(pieces) THEN <<>>
  ELSE LET p == pieces[j]
           nxt == IF j < Len(pieces) THEN <<OpTok(pieces[j + 1])>> ELSE following
           ins == IF p[Len(p)] = sym
                  THEN <<One>> \o (IF nxt # <<>> /\ NeedsJoin(nxt[1]) THEN <<Plus>> ELSE <<>>)
                  ELSE <<>>
       IN <<OpTok(p)>> \o ins \o InsertPieces(pieces, j + 1, sym, following)

RECURSIVE InsertAfter(_, _, _)
InsertAfter(toks, i, sym) ==
  IF i > Len(toks) THEN <<>>
  ELSE LET t == toks[i] IN
       (IF t.k = "op" /\ Has(t.cs, sym)
        THEN InsertPieces(SplitAfter(t.cs, sym, <<>>), 1, sym, IF i < Len(toks) THEN <<toks[i + 1]>> ELSE <<>>)
        ELSE <<t>>) \o InsertAfter(toks, i + 1, sym)

\* find_rhs_index: index (1-based) of the first top-level token whose text is exactly "~", or 0
RECURSIVE FindTilde(_, _, _)
FindTilde(toks, i, ctx) ==
  IF i > Len(toks) THEN 0
  ELSE LET t == toks[i] IN
       IF t.k = "open" THEN FindTilde(toks, i + 1, Append(ctx, t.s))
       ELSE IF t.k = "close"
            THEN IF ctx = <<>> \/ ctx[Len(ctx)] # (IF t.s = ")" THEN "(" ELSE "[") THEN 0
                 ELSE FindTilde(toks, i + 1, SubSeq(ctx, 1, Len(ctx) - 1))
       ELSE IF ctx # <<>> THEN FindTilde(toks, i + 1, ctx)
       ELSE IF t.k = "op" /\ t.cs = <<"~">> THEN i
       ELSE FindTilde(toks, i + 1, ctx)

\* merge_operator_tokens(tokens, symbols={"+","-"})
RECURSIVE MergeOps(_, _)
MergeOps(toks, pool) ==        \* pool: <<>> or <<operator token>>
  IF toks = <<>> THEN pool
  ELSE LET t == Head(toks) IN
       IF t.k # "op" \/ t.cs[1] \notin Signs
       THEN pool \o <<t>> \o MergeOps(Tail(toks), <<>>)
       ELSE IF pool # <<>>
            THEN LET merged == OpTok(pool[1].cs \o t.cs) IN
                 IF merged.cs[Len(merged.cs)] \notin Signs
                 THEN <<merged>> \o MergeOps(Tail(toks), <<>>)
                 ELSE MergeOps(Tail(toks), <<merged>>)
            ELSE MergeOps(Tail(toks), <<t>>)

VarsOf(toks) == FlatMap(LAMBDA t : t.vars, toks)
\* every operator token split after each occurrence of sym (Token.split(sym, after=True))
SplitToks(toks, sym) ==
  FlatMap(LAMBDA t : IF t.k = "op" THEN LET ps == SplitAfter(t.cs, sym, <<>>) IN [j \in DOMAIN ps |-> OpTok(ps[j])] ELSE <<t>>, toks)

\* DOC: the variables used on the left-hand side are recorded whether or not an intercept
\* is inserted (the pinned code recorded them only when it inserted intercepts, so `.`
\* escaped with a KeyError under include_intercept=False).
Rewrite(cfg, toks0) ==
  LET t1 == ReplaceZero(toks0) IN
  IF ~cfg.intercept
  THEN LET sp == SplitToks(t1, "~")
            r0 == FindTilde(sp, 1, <<>>) IN
       [toks |-> MergeOps(t1, <<>>), lhsvars |-> VarsOf(SubSeq(sp, 1, r0))]
  ELSE LET t2 == InsertAfter(t1, 1, "~")
           r  == FindTilde(t2, 1, <<>>)
           head == IF r > 0 THEN SubSeq(t2, 1, r) ELSE IF t2 # <<>> THEN <<One, Plus>> ELSE <<One>>
           t3 == head \o InsertAfter(SubSeq(t2, r + 1, Len(t2)), 1, "|")
       IN [toks |-> MergeOps(t3, <<>>), lhsvars |-> VarsOf(SubSeq(t3, 1, r))]

(* ------------------------------------------------------------------ *)
(* evaluation (A.5)                                                    *)
(* ------------------------------------------------------------------ *)
(* Values are the trees Structured.tla describes, with term lists as leaves:              *)
(*   leaf  an OrderedSet of terms;  tup  a python tuple;  st  a Structured (keys in order).  *)
(* Structural operators ('~' in its three roles, '|') build structure themselves; every     *)
(* other operator is applied through Structured._merge, which pairs the operands key by key *)
(* (a bare operand counts as the root) and leaves a key that only one operand has untouched *)
(* - so a unary operator never reaches the leaves of a structured operand.                  *)
TLeaf(ts) == [err |-> "", t |-> "leaf", ts |-> ts, items |-> <<>>, keys |-> <<>>, vals |-> <<>>]
TTup(items) == [err |-> "", t |-> "tup", ts |-> <<>>, items |-> items, keys |-> <<>>, vals |-> <<>>]
TSt(keys, vals) == [err |-> "", t |-> "st", ts |-> <<>>, items |-> <<>>, keys |-> keys, vals |-> vals]
VErr(e) == [err |-> e, t |-> "leaf", ts |-> <<>>, items |-> <<>>, keys |-> <<>>, vals |-> <<>>]
VSet(ts) == TLeaf(ts)
\* Structured(root, **structure): the keyword dictionary first, "root" added last
TCtor(keys, vals) ==
  LET idx == [i \in DOMAIN keys |-> i]
      ord == SelectSeq(idx, LAMBDA i : keys[i] # "root") \o SelectSeq(idx, LAMBDA i : keys[i] = "root")
  IN TSt([j \in DOMAIN ord |-> keys[ord[j]]], [j \in DOMAIN ord |-> vals[ord[j]]])

Method(k) == CASE k = "name" -> "lookup" [] k = "python" -> "python" [] OTHER -> "literal"
LeafTerms(tok) == << <<IF tok.k = "value" THEN LitFac(tok.s, tok.num, tok.ival) ELSE Fac(tok.s, Method(tok.k))>> >>

\* DOC: the right operand of ** / ^ is a single positive integer literal (0 = invalid)
PowerArg(r) == IF Len(r) = 1 /\ Len(r[1]) = 1 /\ r[1][1].m = "literal" /\ r[1][1].ival >= 1 THEN r[1][1].ival ELSE 0
MaxPower == 6     \* larger exponents are outside the modelled domain

DotTerms(cfg, lhsvars) ==
  LET used == Range(lhsvars)
      av == SelectSeq(cfg.avail.vars, LAMBDA v : v \notin used)
  IN OSet([i \in DOMAIN av |-> <<Fac(av[i], "lookup")>>])

Apply(id, l, r) ==      \* non-structural binary operators on plain term lists
  CASE id = "add" -> VSet(Union(l, r))
    [] id = "sub" -> VSet(Diff(l, r))
    [] id = "interact" -> VSet(Cross(l, r))
    [] id = "star" -> VSet(Star(l, r))
    [] id = "nest" -> IF l = <<>> THEN VErr("empty-parent-set") ELSE VSet(Nest(l, r))      \* DOC
    [] id = "in" -> IF r = <<>> THEN VErr("empty-parent-set") ELSE VSet(Nest(r, l))        \* DOC
    [] id = "power" -> LET n == PowerArg(r) IN IF n = 0 THEN VErr("bad-power")
                       ELSE IF n > MaxPower THEN VErr("unmodelled") ELSE VSet(Power(l, n))   \* DOC
    [] OTHER -> VErr("unmodelled")
Apply1(id, l) == IF id = "pos" THEN VSet(l) ELSE VSet(<<>>)
\* the merger of an operator on a sequence of leaf operands
MergerOn(id, ls) == IF Len(ls) = 1 THEN Apply1(id, ls[1].ts) ELSE Apply(id, ls[1].ts, ls[2].ts)

RECURSIVE FlatMapV(_, _)
FlatMapV(F(_), sq) == IF sq = <<>> THEN <<>> ELSE F(Head(sq)) \o FlatMapV(F, Tail(sq))
FirstErr(vs) == LET bad == {i \in DOMAIN vs : vs[i].err # ""} IN
                IF bad = {} THEN "" ELSE IF \E i \in bad : vs[i].err = "unmodelled" THEN "unmodelled"
                ELSE vs[CHOOSE i \in bad : \A j \in bad : i <= j].err
RECURSIVE KeyOrderV(_, _)
KeyOrderV(objs, seen) ==
  IF objs = <<>> THEN <<>>
  ELSE LET ks == IF Head(objs).t = "st" THEN Head(objs).keys ELSE <<"root">>
           new == SelectSeq(ks, LAMBDA k : k \notin seen)
       IN new \o KeyOrderV(Tail(objs), seen \cup Range(new))
ValuesForV(objs, k) ==
  FlatMapV(LAMBDA o : IF o.t = "st" THEN FlatMapV(LAMBDA i : IF o.keys[i] = k THEN <<o.vals[i]>> ELSE <<>>, [i \in DOMAIN o.keys |-> i])
                      ELSE IF k = "root" THEN <<o>> ELSE <<>>, objs)
\* Structured._merge(*objs, merger = the operator id)
RECURSIVE MergeV(_, _, _)
MergeV(id, objs, top) ==
  IF \A i \in DOMAIN objs : objs[i].t = "tup"
  THEN LET m == TTup(FlatMapV(LAMBDA o : o.items, objs)) IN IF top THEN TCtor(<<"root">>, <<m>>) ELSE m
  ELSE IF \E i \in DOMAIN objs : objs[i].t = "tup" THEN VErr("escape:ValueError")      \* "Substructures ... are not aligned"
  ELSE IF \A i \in DOMAIN objs : objs[i].t = "leaf" THEN MergerOn(id, objs)
  ELSE LET ks == KeyOrderV(objs, {})
           vs == [j \in DOMAIN ks |-> LET vals == ValuesForV(objs, ks[j]) IN
                                       IF Len(vals) = 1 THEN vals[1] ELSE MergeV(id, vals, FALSE)]
       IN IF FirstErr(vs) # "" THEN VErr(FirstErr(vs)) ELSE TCtor(ks, vs)

\* the fitted-value terms of a stage: one lookup factor "<term>_hat" per left-hand term
RECURSIVE JoinColon(_)
JoinColon(es) == IF Len(es) = 1 THEN es[1] ELSE es[1] \o ":" \o JoinColon(Tail(es))
\* str(term) joins repr(factor) with ":", and repr(factor) puts a name that itself contains ":" back between backticks.  TLC cannot
\* look inside a string, so the names with a colon that the alphabets and the trace generator use are listed here.
ColonNames == {"a:b", "b:a", "b:c:a"}
ReprF(e) == IF e \in ColonNames THEN "`" \o e \o "`" ELSE e
HatTerms(ts) == OSet([i \in DOMAIN ts |-> <<Fac(JoinColon([j \in DOMAIN ts[i] |-> ReprF(ts[i][j].e)]) \o "_hat", "lookup")>>])

RECURSIVE Eval(_, _, _)
Eval(node, cfg, lhsvars) ==
  IF node.n = "leaf" THEN TLeaf(LeafTerms(node.tok))
  ELSE LET c == node.c
           a == [i \in DOMAIN node.args |-> Eval(node.args[i], cfg, lhsvars)]
       IN IF FirstErr(a) # "" THEN VErr(FirstErr(a))
          ELSE CASE c.id = "dot" -> IF cfg.avail.present THEN TLeaf(DotTerms(cfg, lhsvars)) ELSE VErr("dot-needs-context")
                 [] c.id = "onesided" -> a[1]
                 [] c.id = "twosided" -> TSt(<<"lhs", "rhs">>, <<a[1], a[2]>>)
                 \* DOC: a stage whose left-hand side is itself structured is rejected (the code escapes with
                 \* NotImplementedError, which its own test suite demands: known finding D33)
                 [] c.id = "multistage" -> IF a[1].t # "leaf" THEN VErr("nested-multistage-lhs")
                                           ELSE IF \E i \in DOMAIN a[1].ts : Len(a[1].ts[i]) = 0 THEN VErr("unmodelled")
                                           ELSE TCtor(<<"root", "deps">>, <<TLeaf(HatTerms(a[1].ts)), TTup(<<TSt(<<"lhs", "rhs">>, <<a[1], a[2]>>)>>)>>)
                 [] c.id = "part" -> TTup((IF a[1].t = "tup" THEN a[1].items ELSE <<a[1]>>) \o (IF a[2].t = "tup" THEN a[2].items ELSE <<a[2]>>))
                 \* DOC: the exponent is an integer literal as written (possibly in parentheses) - an expression that merely evaluates to
                 \* one literal term ("2 + 2", "2 * 2", "2 ** 2" all collapse to the term 2) is not an exponent
                 [] c.id = "power" /\ node.args[2].n # "leaf" -> VErr("bad-power")
                 [] OTHER -> MergeV(c.id, a, TRUE)

\* all leaves, depth first
RECURSIVE Leaves(_)
Leaves(v) == CASE v.t = "leaf" -> <<v.ts>> [] v.t = "tup" -> FlatMapV(Leaves, v.items) [] OTHER -> FlatMapV(Leaves, v.vals)
RECURSIVE MapLeaves(_, _)
MapLeaves(F(_), v) == CASE v.t = "leaf" -> TLeaf(F(v.ts))
                        [] v.t = "tup" -> TTup([i \in DOMAIN v.items |-> MapLeaves(F, v.items[i])])
                        [] OTHER -> TSt(v.keys, [i \in DOMAIN v.vals |-> MapLeaves(F, v.vals[i])])
\* Structured._simplify(): a Structured holding only a root that is not a tuple is that root
RECURSIVE SimplifyV(_)
SimplifyV(v) ==
  CASE v.t = "leaf" -> v
    [] v.t = "tup" -> TTup([i \in DOMAIN v.items |-> SimplifyV(v.items[i])])
    [] OTHER -> IF v.keys = <<"root">> /\ v.vals[1].t # "tup" THEN SimplifyV(v.vals[1])
                ELSE TSt(v.keys, [i \in DOMAIN v.vals |-> SimplifyV(v.vals[i])])
\* flat shapes: a term list, a tuple of term lists, or lhs/rhs of those
IsParts(v) == v.t = "leaf" \/ (v.t = "tup" /\ \A i \in DOMAIN v.items : v.items[i].t = "leaf")
PartsOf(v) == IF v.t = "leaf" THEN <<v.ts>> ELSE [i \in DOMAIN v.items |-> v.items[i].ts]
RootOf(v) == IF v.t = "st" /\ v.keys = <<"root">> THEN v.vals[1] ELSE v

(* check_terms *)
NonLit(t) == ExprSeq(SelectSeq(t, LAMBDA f : ~IsLiteral(f)))
RECURSIVE CheckFrom(_, _)
CheckFrom(ts, seen) ==
  IF ts = <<>> THEN TRUE
  ELSE LET t == Head(ts)
           single_bad == Len(t) = 1 /\ IsLiteral(t[1]) /\ t[1].e # "1"
           string_lit == Len(t) # 1 /\ \E i \in DOMAIN t : IsLiteral(t[i]) /\ ~t[i].num
           h == NonLit(t)
       IN ~single_bad /\ ~string_lit /\ h \notin seen /\ CheckFrom(Tail(ts), seen \cup {h})
CheckTerms(ts) == CheckFrom(ts, {})

(* result: what get_terms returns, and what Formula(...) holds after ordering.  shape is    *)
(* "root" (parts in rhs), "two" (lhs/rhs parts) or "tree" (anything nested: the simplified   *)
(* value in tree).                                                                            *)
NoTree == TLeaf(<<>>)
Reject(why) == [st |-> "REJECT", why |-> why, shape |-> "root", lhs |-> <<>>, rhs |-> <<>>, tree |-> NoTree]
Unmodelled == [st |-> "UNMODELLED", why |-> "", shape |-> "root", lhs |-> <<>>, rhs |-> <<>>, tree |-> NoTree]
Accept(shape, l, r) == [st |-> "OK", why |-> "", shape |-> shape, lhs |-> l, rhs |-> r, tree |-> NoTree]
AcceptTree(v) == [st |-> "OK", why |-> "", shape |-> "tree", lhs |-> <<>>, rhs |-> <<>>, tree |-> v]

Classify(v0) ==
  LET v == RootOf(v0) IN
  IF IsParts(v) THEN Accept("root", <<>>, PartsOf(v))
  ELSE IF v.t = "st" /\ v.keys = <<"lhs", "rhs">> /\ IsParts(RootOf(v.vals[1])) /\ IsParts(RootOf(v.vals[2]))
       THEN Accept("two", PartsOf(RootOf(v.vals[1])), PartsOf(RootOf(v.vals[2])))
  ELSE AcceptTree(SimplifyV(IF v0.t = "st" THEN v0 ELSE TSt(<<"root">>, <<v0>>)))      \* get_terms_from_ast wraps a bare value

Parse(cfg, toks0) ==
  LET rw == Rewrite(cfg, toks0)
      m  == SY!Run(cfg.flags, rw.toks)
  IN IF m.err # "" THEN Reject(m.err)
     ELSE IF m.queue = <<>> THEN Accept("root", <<>>, << <<>> >>)
     ELSE LET v == Eval(m.queue[1], cfg, rw.lhsvars) IN
          IF v.err = "unmodelled" THEN Unmodelled
          ELSE IF v.err # "" THEN Reject(v.err)
          ELSE IF \E i \in DOMAIN Leaves(v) : ~CheckTerms(Leaves(v)[i]) THEN Reject("check-terms")
          ELSE Classify(v)

Ordered(res) ==      \* Formula(...): every leaf sorted stably by degree
  IF res.st # "OK" THEN res
  ELSE [res EXCEPT !.lhs = [i \in DOMAIN @ |-> SortByDegree(@[i])], !.rhs = [i \in DOMAIN @ |-> SortByDegree(@[i])],
                   !.tree = MapLeaves(SortByDegree, @)]

\* canonical rendering of a tree value (keys in alphabetical order; the key order is C19's matter)
RECURSIVE JoinS(_, _)
JoinS(ss, sep) == IF ss = <<>> THEN "" ELSE IF Len(ss) = 1 THEN ss[1] ELSE ss[1] \o sep \o JoinS(Tail(ss), sep)
RECURSIVE TreeStr(_)
TreeStr(v) ==
  CASE v.t = "leaf" -> "[" \o JoinS([i \in DOMAIN v.ts |-> JoinS(ExprSeq(v.ts[i]), " & ")], " + ") \o "]"
    [] v.t = "tup" -> "(" \o JoinS([i \in DOMAIN v.items |-> TreeStr(v.items[i])], ", ") \o ")"
    [] OTHER -> LET ks == SelectSeq(<<"deps", "lhs", "rhs", "root", "x", "y", "z">>, LAMBDA k : k \in Range(v.keys))
                    val(k) == v.vals[CHOOSE i \in DOMAIN v.keys : v.keys[i] = k]
                IN "<" \o JoinS([j \in DOMAIN ks |-> ks[j] \o "=" \o TreeStr(val(ks[j]))], ", ") \o ">"

\* prefix rendering of the AST, for the trace leg
RECURSIVE AstStr(_)
RECURSIVE JoinArgs(_)
JoinArgs(args) == IF args = <<>> THEN "" ELSE " " \o AstStr(Head(args)) \o JoinArgs(Tail(args))
AstStr(node) == IF node.n = "leaf" THEN node.tok.s ELSE "(" \o node.c.sym \o JoinArgs(node.args) \o ")"
=============================================================================
