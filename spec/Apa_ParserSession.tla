------------------------- MODULE Apa_ParserSession -------------------------
(* Inductive proof obligation for Apalache: CacheCoherent is an inductive invariant of the    *)
(* parser-object machine of ParserSession.tla (actions without the history bookkeeping), for   *)
(* histories of any length:  IndInit => IndInv  and  IndInv /\ Next => IndInv'.                 *)
EXTENDS Integers, Sequences, FiniteSets

Slots == {1, 2}
AllFlags == {"TWOSIDED", "MULTIPART", "MULTISTAGE"}
DefaultFlags == {"TWOSIDED", "MULTIPART"}
FlagChoices == SUBSET AllFlags
Variant == "code"
NForms == 1

VARIABLE
  \* @type: Int -> { alive: Bool, intercept: Bool, pflags: Set(Str), rflags: Set(Str), cached: Bool, tflags: Set(Str) };
  obj

PS == INSTANCE ParserSession

Next ==
  \/ \E s \in Slots, i \in BOOLEAN, f \in FlagChoices : PS!New(s, i, f)
  \/ \E s \in Slots, f \in FlagChoices : PS!SetFlags(s, f)
  \/ \E s \in Slots, b \in BOOLEAN : PS!SetIntercept(s, b)
  \/ \E s \in Slots : PS!Parse(s)
  \/ \E s \in Slots, d \in Slots : PS!Clone(s, d)

IndInv ==
  /\ obj \in [Slots -> [alive : BOOLEAN, intercept : BOOLEAN, pflags : SUBSET AllFlags, rflags : SUBSET AllFlags, cached : BOOLEAN, tflags : SUBSET AllFlags]]
  /\ PS!CacheCoherent
IndInit == IndInv
Init == obj = [s \in Slots |-> PS!Dead]
=============================================================================
