------------------------------ MODULE Metadata ------------------------------
(***************************************************************************)
(* C10: what a model spec says about its columns, derived from the         *)
(* structure alone - for formulas whose factors are python expressions.    *)
(*                                                                         *)
(* A python factor is an expression                                        *)
(*   e ::= V(column) | N(int) | None | Bin(op, e, e)                       *)
(*       | Fn(name, <<e..>>, <<Kw(name, e)..>>)          a function call   *)
(*       | Meth(e, name, <<e..>>, <<Kw(name, e)..>>)     a method call     *)
(* evaluated row by row on the data (exact integers).  A data column can   *)
(* reach the cells of a factor through FOUR syntactic positions: operand   *)
(* of an operator, positional argument, keyword argument, receiver of a    *)
(* method call.  Reads(e) is the syntactic walk that finds the columns     *)
(* (utils/variables.py), Eval(e, ..) the meaning; NonInterference (in      *)
(* MC_Metadata) ties the two: a column whose term does not read v keeps    *)
(* every cell when v changes - so "the columns of the terms using v" is a   *)
(* truthful index only if the walk visits every position.                  *)
(*                                                                         *)
(* center(.) is the stateful transform: the statistic (mean over the data  *)
(* the spec was fitted on) is recorded under the PRINTED CALL ITSELF, not  *)
(* under the factor that contains the call (transforms/base.py: the key is *)
(* the source text of the stateful call).  A call whose key is missing     *)
(* from the state is fitted afresh on whatever data arrives.               *)
(*                                                                         *)
(* Spec  S = [formula, structure, levels, state, opts]                     *)
(*   Fit(D, formula, opts)   records structure / levels / statistics       *)
(*   Build(S, D')            replays them on D'                            *)
(*   Subset(S, pick)         the chosen terms, their structure rows and    *)
(*                           the WHOLE recorded state                      *)
(*                                                                         *)
(* Variant = "code" is the implementation.  The other variants are design  *)
(* errors TLC must refute (MC_Metadata):                                   *)
(*   "skip-keywords" the walk does not descend into keyword arguments      *)
(*   "prune-state"   Subset keeps only the state entries whose key is a    *)
(*                   factor expression of a chosen term                    *)
(***************************************************************************)
EXTENDS Integers, Sequences, FiniteSets, TLC
CONSTANT Variant

M == INSTANCE Materialize

V(c) == [k |-> "var", c |-> c]
N(n) == [k |-> "int", n |-> n]
None == [k |-> "none"]
Bin(op, l, r) == [k |-> "bin", op |-> op, l |-> l, r |-> r]
Kw(name, e) == [name |-> name, e |-> e]
Fn(fn, args, kws) == [k |-> "call", fn |-> fn, recv |-> <<>>, args |-> args, kws |-> kws]
Meth(recv, fn, args, kws) == [k |-> "call", fn |-> fn, recv |-> <<recv>>, args |-> args, kws |-> kws]

\* sub-expressions with the syntactic position they occupy
Kids(e) ==
  CASE e.k = "bin" -> << <<"operand", e.l>>, <<"operand", e.r>> >>
    [] e.k = "call" -> [i \in DOMAIN e.recv |-> <<"receiver", e.recv[i]>>] \o [i \in DOMAIN e.args |-> <<"positional", e.args[i]>>]
                       \o [i \in DOMAIN e.kws |-> <<"keyword", e.kws[i].e>>]
    [] OTHER -> <<>>
Walked(e) == IF Variant = "skip-keywords" THEN SelectSeq(Kids(e), LAMBDA p : p[1] # "keyword") ELSE Kids(e)

\* the walk: every column read, with the position of the read (a factor that is just a column reads it "whole")
RECURSIVE ReadsAt(_, _)
ReadsAt(e, pos) == IF e.k = "var" THEN << <<e.c, pos>> >> ELSE M!FlatMapM(LAMBDA p : ReadsAt(p[2], p[1]), Walked(e))
Reads(e) == {p[1] : p \in M!Range(ReadsAt(e, "whole"))}

\* canonical text (what the parser keeps as the factor's expression); a name that is not an identifier is written in backticks
Quoted(c) == IF c = "n 1" THEN "`n 1`" ELSE c
RECURSIVE Text(_)
Text(e) ==
  CASE e.k = "var" -> Quoted(e.c)
    [] e.k = "int" -> ToString(e.n)
    [] e.k = "none" -> "None"
    [] e.k = "bin" -> Text(e.l) \o " " \o e.op \o " " \o Text(e.r)
    [] e.k = "call" -> (IF e.recv = <<>> THEN "" ELSE Text(e.recv[1]) \o ".") \o e.fn \o "("
                       \o M!JoinS([i \in DOMAIN e.args |-> Text(e.args[i])] \o [i \in DOMAIN e.kws |-> e.kws[i].name \o "=" \o Text(e.kws[i].e)], ", ") \o ")"

\* the stateful calls of an expression, innermost first
RECURSIVE Calls(_)
Calls(e) == M!FlatMapM(LAMBDA p : Calls(p[2]), Kids(e)) \o (IF e.k = "call" /\ e.fn = "center" THEN <<e>> ELSE <<>>)

Max(x, y) == IF x >= y THEN x ELSE y
RECURSIVE SumSeq(_)
SumSeq(q) == IF q = <<>> THEN 0 ELSE Head(q) + SumSeq(Tail(q))
KwArg(e, name) == e.kws[CHOOSE i \in DOMAIN e.kws : e.kws[i].name = name].e

\* meaning of an expression on row r of a frame; st : printed stateful call -> recorded statistic
RECURSIVE Eval(_, _, _, _)
RECURSIVE MeanOn(_, _, _)
Eval(e, frame, r, st) ==
  CASE e.k = "var" -> frame.cols[e.c].num[r]
    [] e.k = "int" -> e.n
    [] e.k = "bin" -> LET x == Eval(e.l, frame, r, st)  y == Eval(e.r, frame, r, st)
                      IN (CASE e.op = "+" -> x + y [] e.op = "-" -> x - y [] e.op = "*" -> x * y)
    [] e.k = "call" ->
         LET arg(i) == Eval(e.args[i], frame, r, st)
             kw(n) == Eval(KwArg(e, n), frame, r, st)
             self == Eval(e.recv[1], frame, r, st)
         IN CASE e.fn = "I" -> arg(1)
              [] e.fn = "np.add" -> arg(1) + arg(2)
              [] e.fn = "np.multiply" -> arg(1) * arg(2)
              [] e.fn = "np.maximum" -> Max(arg(1), arg(2))
              [] e.fn = "np.clip" -> Max(arg(1), kw("a_min"))               \* a_max=None: no upper bound
              [] e.fn = "add" -> self + arg(1)                               \* Series.add(other)
              [] e.fn = "clip" -> Max(self, kw("lower"))                     \* Series.clip(lower=..)
              [] e.fn = "center" -> arg(1) - (IF Text(e) \in DOMAIN st THEN st[Text(e)] ELSE MeanOn(e.args[1], frame, st))
\* the statistic of center(): the mean of its argument over the rows it is fitted on (MC_Metadata!StatsIntegral: the training frames
\* of the family have integral means, so \div is exact wherever the statistic is RECORDED)
MeanOn(e, frame, st) == SumSeq([r \in 1..frame.n |-> Eval(e, frame, r, st)]) \div frame.n

(* ------------------------------------------------------------------ *)
(* factors, frames with the python factors evaluated                    *)
(* ------------------------------------------------------------------ *)
\* a Materialize factor carrying its expression: python factors are numeric factors reading a derived column of their own name
Py(x) == [e |-> Text(x), kind |-> "num", col |-> Text(x), contr |-> "", lit |-> 1, expr |-> x, py |-> TRUE]
NumF(c) == [e |-> c, kind |-> "num", col |-> c, contr |-> "", lit |-> 1, expr |-> V(c), py |-> FALSE]
CatF(c) == [e |-> c, kind |-> "cat", col |-> c, contr |-> "treatment", lit |-> 1, expr |-> V(c), py |-> FALSE]
LitF(n) == [e |-> ToString(n), kind |-> "lit", col |-> "", contr |-> "", lit |-> n, expr |-> N(n), py |-> FALSE]

PyFactors(formula) == SelectSeq(M!FactorsOf(formula), LAMBDA f : f.py)
Evaluated(frame, formula, st) ==
  LET pf == PyFactors(formula)
      der == {pf[i].e : i \in DOMAIN pf}
  IN [n |-> frame.n, cols |-> [c \in DOMAIN frame.cols \cup der |->
        IF c \in der THEN [kind |-> "num", num |-> [r \in 1..frame.n |-> Eval(pf[CHOOSE i \in DOMAIN pf : pf[i].e = c].expr, frame, r, st)],
                           cat |-> <<>>, nulls |-> {}, lv |-> <<>>, declared |-> FALSE]
        ELSE frame.cols[c]]]
AllRows(frame) == [i \in 1..frame.n |-> i]

(* ------------------------------------------------------------------ *)
(* fit, replay, subset                                                  *)
(* ------------------------------------------------------------------ *)
FitState(frame, formula) ==
  LET cs == M!FlatMapM(LAMBDA f : Calls(f.expr), M!DataFactors(formula))
  IN [key \in {Text(cs[i]) : i \in DOMAIN cs} |-> MeanOn(cs[CHOOSE i \in DOMAIN cs : Text(cs[i]) = key].args[1], frame, <<>>)]
Fit(frame, formula, opts) ==
  LET st == FitState(frame, formula)
      fr == Evaluated(frame, formula, st)
      b == M!BuildOn(fr, formula, opts, AllRows(frame), <<>>, <<>>)
  IN [formula |-> formula, structure |-> b.scoped, levels |-> M!LevelsUsed(fr, formula, AllRows(frame)), state |-> st, opts |-> opts]
Build(S, frame) == M!BuildOn(Evaluated(frame, S.formula, S.state), S.formula, S.opts, AllRows(frame), S.levels, S.structure)

FactorExprs(terms) == LET fs == M!FactorsOf(terms) IN {fs[i].e : i \in DOMAIN fs}
Subset(S, pick) ==
  LET terms == [i \in DOMAIN pick |-> S.formula[pick[i]]]
  IN [S EXCEPT !.formula = terms, !.structure = [i \in DOMAIN pick |-> S.structure[pick[i]]],
               !.state = IF Variant = "prune-state" THEN [key \in DOMAIN S.state \cap FactorExprs(terms) |-> S.state[key]] ELSE @]

(* ------------------------------------------------------------------ *)
(* the indexes                                                          *)
(* ------------------------------------------------------------------ *)
TermReads(term) == UNION {Reads(term[i].expr) : i \in {k \in DOMAIN term : term[k].kind # "lit"}}
\* 1-based first column of term t, and its range
RECURSIVE SumTo(_, _)
SumTo(sl, t) == IF t = 0 THEN 0 ELSE sl[t] + SumTo(sl, t - 1)
TermRange(b, t) == LET sl == M!Slices(b) IN (SumTo(sl, t - 1) + 1)..SumTo(sl, t)
\* variable -> columns: exactly the columns of the terms that read the variable
VarIdx(b, v) == UNION {TermRange(b, t) : t \in {k \in DOMAIN b.terms : v \in TermReads(b.terms[k])}}
=============================================================================
