------------------------------- MODULE MC_Spline -------------------------------
EXTENDS Integers, Sequences, FiniteSets, TLC, TLCExt, Json, CSV, IOUtils, SequencesExt
CONSTANTS Emit, MaxInner, MaxDegree
S == INSTANCE Spline

\* integer knot vectors on 0..6: bounds 0 and 6 (or 5), strictly increasing or tied inner knots
InnerSets == {<<>>} \cup {<<a>> : a \in 1..5} \cup {<<a, b>> : a \in 1..5, b \in 1..5} \cup {<<1, 3, 4>>, <<2, 2, 5>>, <<1, 2, 3, 5>>}
             \cup {<<6>>, <<0>>, <<0, 3>>, <<3, 6>>, <<6, 6>>}          \* inner knots tied with a bound (df-derived knots do this on tied data)
SortedNonDecr(q) == \A i \in 1..(Len(q) - 1) : q[i] <= q[i + 1]
Grid == [i \in 1..19 |-> <<i - 4, 2>>]          \* the half-integer grid -3/2 .. 15/2 (incl. out-of-range points)
Modes == {"raise", "clip", "na", "zero", "extend"}

VARIABLES kind, inner, d, icpt, mode, cyclic
vars == <<kind, inner, d, icpt, mode, cyclic>>
Lo == S!R(0)  Hi == S!R(6)
RInner == [i \in DOMAIN inner |-> S!R(inner[i])]
Knots == <<Lo>> \o RInner \o <<Hi>>
StrictKnots == \A i \in 1..(Len(Knots) - 1) : S!RLt(Knots[i], Knots[i + 1])

BsLaws == kind = "bs" =>
   \A g \in DOMAIN Grid : LET x == S!Norm(Grid[g][1], Grid[g][2]) r == S!BsRow(Lo, RInner, Hi, d, TRUE, "zero", x) IN
      /\ S!NonNegative(r.row)
      /\ S!PartitionOfUnity(Lo, RInner, Hi, d, x)
      /\ Len(r.row) = S!NCols(RInner, d, TRUE)
      /\ Len(S!BsRow(Lo, RInner, Hi, d, FALSE, "zero", x).row) = S!NCols(RInner, d, FALSE)
      /\ Len(S!Padded(Lo, RInner, Hi, d)) = S!NCols(RInner, d, TRUE) + d + 1
CubicLaws == kind = "cubic" =>
   /\ S!Cardinal(Knots, cyclic) /\ S!C1AtInnerKnots(Knots, cyclic)
   /\ (~cyclic => S!NaturalEnds(Knots)) /\ (cyclic => S!PeriodicWrap(Knots))

RowOut(r) == [st |-> r.st, row |-> r.row]
Out == IOEnv.OUT_FILE
EmitCase == Emit =>
  IF kind = "bs"
  THEN CSVWrite("%1$s", <<ToJson([kind |-> kind, inner |-> inner, degree |-> d, intercept |-> icpt, mode |-> mode, lo |-> 0, hi |-> 6,
          knots |-> S!Padded(Lo, RInner, Hi, d), x |-> [g \in DOMAIN Grid |-> S!Norm(Grid[g][1], Grid[g][2])],
          rows |-> [g \in DOMAIN Grid |-> RowOut(S!BsRow(Lo, RInner, Hi, d, icpt, mode, S!Norm(Grid[g][1], Grid[g][2])))]])>>, Out)
  ELSE CSVWrite("%1$s", <<ToJson([kind |-> kind, inner |-> inner, cyclic |-> cyclic, lo |-> 0, hi |-> 6,
          x |-> [g \in DOMAIN Grid |-> S!Norm(Grid[g][1], Grid[g][2])],
          rows |-> [g \in DOMAIN Grid |-> S!CubicRow(Knots, cyclic, S!Norm(Grid[g][1], Grid[g][2]))]])>>, Out)

Init == \/ /\ kind = "bs" /\ inner \in {q \in InnerSets : SortedNonDecr(q) /\ Len(q) <= MaxInner} /\ d \in 0..MaxDegree
           /\ icpt \in BOOLEAN /\ mode \in Modes /\ cyclic = FALSE /\ (d >= 4 => Len(inner) <= 1)
        \/ /\ kind = "cubic" /\ inner \in {q \in InnerSets : SortedNonDecr(q) /\ Len(q) <= MaxInner /\ (\A i \in 1..(Len(q) - 1) : q[i] < q[i + 1]) /\ (\A i \in DOMAIN q : q[i] >= 1 /\ q[i] <= 5)}
           /\ cyclic \in BOOLEAN /\ (cyclic => Len(inner) >= 1) /\ d = 3 /\ icpt = FALSE /\ mode = "extend"
Next == UNCHANGED vars
Spec == Init /\ [][Next]_vars
=============================================================================
