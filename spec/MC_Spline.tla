------------------------------- MODULE MC_Spline -------------------------------
EXTENDS Integers, Sequences, FiniteSets, TLC, TLCExt, Json, CSV, IOUtils, SequencesExt
CONSTANTS Emit, MaxInner, MaxDegree, GuardVariant          \* GuardVariant: "mask" (the design); "minmax" / "notin" are refuted by GuardLaw
S == INSTANCE Spline

\* integer knot vectors on 0..6: bounds 0 and 6 (or 5), strictly increasing or tied inner knots
InnerSets == {<<>>} \cup {<<a>> : a \in 1..5} \cup {<<a, b>> : a \in 1..5, b \in 1..5} \cup {<<1, 3, 4>>, <<2, 2, 5>>, <<1, 2, 3, 5>>}
             \cup {<<6>>, <<0>>, <<0, 3>>, <<3, 6>>, <<6, 6>>}          \* inner knots tied with a bound (df-derived knots do this on tied data)
SortedNonDecr(q) == \A i \in 1..(Len(q) - 1) : q[i] <= q[i + 1]
Grid == [i \in 1..19 |-> <<i - 4, 2>>]          \* the half-integer grid -3/2 .. 15/2 (incl. out-of-range points)
Modes == {"raise", "clip", "na", "zero", "extend"}

VARIABLES kind, inner, d, icpt, mode, cyclic
vars == <<kind, inner, d, icpt, mode, cyclic>>
Lo == S!R(0)  Hi == S!R(6)
RInner == [i \in DOMAIN inner |-> S!R(inner[i])]
Knots == <<Lo>> \o RInner \o <<Hi>>
StrictKnots == \A i \in 1..(Len(Knots) - 1) : S!RLt(Knots[i], Knots[i + 1])

BsLaws == kind = "bs" =>
   \A g \in DOMAIN Grid : LET x == S!Norm(Grid[g][1], Grid[g][2]) r == S!BsRow(Lo, RInner, Hi, d, TRUE, "zero", x) IN
      /\ S!NonNegative(r.row)
      /\ S!PartitionOfUnity(Lo, RInner, Hi, d, x)
      /\ Len(r.row) = S!NCols(RInner, d, TRUE)
      /\ Len(S!BsRow(Lo, RInner, Hi, d, FALSE, "zero", x).row) = S!NCols(RInner, d, FALSE)
      /\ Len(S!Padded(Lo, RInner, Hi, d)) = S!NCols(RInner, d, TRUE) + d + 1
\* Vectors with nulls (C12 quantifies over "all real vectors x (with ties, out-of-range values, nulls)"): selections of grid positions -
\* inside the bounds (both bounds included); a value below, first; a value above, last; one below and one above in the middle; ties and
\* the first point above - crossed with where the nulls sit: nowhere, on the first / second / last position, on the first and the last.  So
\* a null accompanies an out-of-range value at either side of it, REPLACES it (then nothing is out of range), or stands among in-range values.
Sels == <<<<5, 9, 16, 4, 12>>, <<2, 9, 12>>, <<9, 12, 18>>, <<9, 1, 19, 12>>, <<10, 10, 17>>>>
NVecs == 5 * Len(Sels)
Sel(i) == Sels[((i - 1) \div 5) + 1]
Nulls(i) == LET n == Len(Sel(i)) IN <<{}, {1}, {2}, {n}, {1, n}>>[((i - 1) % 5) + 1]
XS(i) == [p \in DOMAIN Sel(i) |-> S!Norm(Grid[Sel(i)[p]][1], Grid[Sel(i)[p]][2])]
\* the 'raise' verdict on a vector is the guard algorithm's: holds for "mask"; TLC must refute "minmax" (a null shields the values next to
\* it) and "notin" (a null alone raises) on this family - which is what makes the emitted verdicts below discriminate between them
GuardLaw == kind = "bs" /\ mode = "raise" =>
   \A i \in 1..NVecs : S!RaiseGuard(GuardVariant, Lo, Hi, XS(i), Nulls(i)) <=> (S!BsVec(Lo, RInner, Hi, d, icpt, mode, XS(i), Nulls(i)).st = "ERROR")
CubicLaws == kind = "cubic" =>
   /\ S!Cardinal(Knots, cyclic) /\ S!C1AtInnerKnots(Knots, cyclic)
   /\ (~cyclic => S!NaturalEnds(Knots)) /\ (cyclic => S!PeriodicWrap(Knots))

RowOut(r) == [st |-> r.st, row |-> r.row]
GridRows == [g \in DOMAIN Grid |-> RowOut(S!BsRow(Lo, RInner, Hi, d, icpt, mode, S!Norm(Grid[g][1], Grid[g][2])))]
Out == IOEnv.OUT_FILE
EmitCase == Emit =>
  IF kind = "bs"
  THEN LET GR == <<>> \o GridRows IN          \* concatenation makes the tuple explicit: the rows are computed once per case, not once per use below
       CSVWrite("%1$s", <<ToJson([kind |-> kind, inner |-> inner, degree |-> d, intercept |-> icpt, mode |-> mode, lo |-> 0, hi |-> 6,
          knots |-> S!Padded(Lo, RInner, Hi, d), x |-> [g \in DOMAIN Grid |-> S!Norm(Grid[g][1], Grid[g][2])],
          rows |-> GR,
          \* a vector's rows are by definition (Spline!BsVec) the per-value outcomes, i.e. the grid rows above at the selected positions, with
          \* the null positions missing: emitted are the selection, the null mask, the verdict of the call and the status of every row
          vecs |-> [i \in 1..NVecs |-> LET o == S!VecOutcome([p \in DOMAIN Sel(i) |-> GR[Sel(i)[p]]], Nulls(i)) IN
                      [sel |-> Sel(i), null |-> [p \in DOMAIN Sel(i) |-> p \in Nulls(i)], st |-> o.st, rst |-> [p \in DOMAIN o.rows |-> o.rows[p].st]]]])>>, Out)
  ELSE CSVWrite("%1$s", <<ToJson([kind |-> kind, inner |-> inner, cyclic |-> cyclic, lo |-> 0, hi |-> 6,
          x |-> [g \in DOMAIN Grid |-> S!Norm(Grid[g][1], Grid[g][2])],
          rows |-> [g \in DOMAIN Grid |-> S!CubicRow(Knots, cyclic, S!Norm(Grid[g][1], Grid[g][2]))]])>>, Out)

Init == \/ /\ kind = "bs" /\ inner \in {q \in InnerSets : SortedNonDecr(q) /\ Len(q) <= MaxInner} /\ d \in 0..MaxDegree
           /\ icpt \in BOOLEAN /\ mode \in Modes /\ cyclic = FALSE /\ (d >= 4 => Len(inner) <= 1)
        \/ /\ kind = "cubic" /\ inner \in {q \in InnerSets : SortedNonDecr(q) /\ Len(q) <= MaxInner /\ (\A i \in 1..(Len(q) - 1) : q[i] < q[i + 1]) /\ (\A i \in DOMAIN q : q[i] >= 1 /\ q[i] <= 5)}
           /\ cyclic \in BOOLEAN /\ (cyclic => Len(inner) >= 1) /\ d = 3 /\ icpt = FALSE /\ mode = "extend"
Next == UNCHANGED vars
Spec == Init /\ [][Next]_vars
=============================================================================
