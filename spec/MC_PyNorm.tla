----------------------------- MODULE MC_PyNorm -----------------------------
(* every call expression over the atom pool with <= 2 arguments, one of which may itself be a call *)
EXTENDS Integers, Sequences, FiniteSets, TLC, TLCExt, Json, CSV, IOUtils, SequencesExt
CONSTANTS Emit, Variant, Depth
P == INSTANCE PyNorm
Atoms == << P!Id(<<"a">>), P!Id(<<"a", "b">>), P!Id(<<"e", "x", "p">>),
            P!Q(<<"a">>), P!Q(<<"x">>), P!Q(<<"a", " ", "b">>), P!Q(<<"a", "+", "b">>), P!Q(<<"a", "_", "b">>), P!Q(<<"1", "a">>), P!Q(<<"f", "o">>),
            P!Str(<<"a">>), P!Str(<<"a", " ", "b">>), P!Str(<<"x">>),
            \* names holding quote characters, literals ending in a backslash or holding a backtick
            P!Q(<<"i", "'", "x">>), P!Q(<<"1", "\"">>), P!Str(<<"a", "\\">>), P!Str(<<"`", "x">>),
            \* names holding backslashes (a\b, a\\b, x\1, a\+b): data to whoever restores them, not a replacement template (which a\+b alone
            \* survives); a\b also collides with `a b`, `a+b`, `a_b` after sanitisation.  (No name ENDS in a backslash: known finding D15.)
            P!Q(<<"a", "\\", "b">>), P!Q(<<"a", "\\", "\\", "b">>), P!Q(<<"x", "\\", "1">>), P!Q(<<"a", "\\", "+", "b">>) >>
Funs == << <<"e", "x", "p">>, <<"g">>, <<"m", "a", "x">> >>
Calls1 == {P!Call(Funs[f], <<Atoms[i]>>) : f \in DOMAIN Funs, i \in DOMAIN Atoms}
             \cup {P!Call(Funs[f], <<Atoms[i], Atoms[j]>>) : f \in DOMAIN Funs, i \in DOMAIN Atoms, j \in DOMAIN Atoms}
Calls2 == {P!Call(Funs[f], <<c, Atoms[j]>>) : f \in {1, 2}, c \in {P!Call(Funs[g], <<Atoms[i]>>) : g \in {2, 3}, i \in DOMAIN Atoms}, j \in DOMAIN Atoms}
\* three and four quoted names whose sanitised spellings collide pairwise (a b, a+b, a-b, a_b)
Coll == << P!Q(<<"a", " ", "b">>), P!Q(<<"a", "+", "b">>), P!Q(<<"a", "-", "b">>), P!Q(<<"a", "_", "b">>) >>
Calls3 == {P!Call(Funs[2], <<Coll[i], Coll[j], Coll[k]>>) : i \in DOMAIN Coll, j \in DOMAIN Coll, k \in DOMAIN Coll}
             \cup {P!Call(Funs[2], <<Coll[p[1]], Coll[p[2]], Coll[p[3]], Coll[p[4]]>>) : p \in {q \in [1..4 -> 1..4] : \A u, v \in 1..4 : u # v => q[u] # q[v]}}
\* keyword operators over atoms: the places where a quoted name stands next to a word (tight spelling: not`a b`, x if`a b`else 'a');
\* the operands are names that are / are not identifiers, a name that is also an identifier of the expression, a literal
KwAtoms == << P!Id(<<"x">>), P!Q(<<"x">>), P!Q(<<"a", " ", "b">>), P!Q(<<"1", "a">>), P!Str(<<"a">>) >>
KwWords == << <<"i", "n">>, <<"a", "n", "d">>, <<"o", "r">> >>
KwExprs == {P!Kw(<<"n", "o", "t">>, <<KwAtoms[i]>>) : i \in DOMAIN KwAtoms}
             \cup {P!Kw(KwWords[w], <<KwAtoms[i], KwAtoms[j]>>) : w \in DOMAIN KwWords, i \in DOMAIN KwAtoms, j \in DOMAIN KwAtoms}
             \cup {P!IfElse(KwAtoms[i], KwAtoms[j], KwAtoms[k]) : i \in DOMAIN KwAtoms, j \in DOMAIN KwAtoms, k \in DOMAIN KwAtoms}
Calls4 == {P!Call(Funs[2], <<k>>) : k \in KwExprs}
\* literals (and, for contrast, a name) holding a RUN of blanks: data, whatever the formatter does with blanks between tokens
Wide == << P!Str(<<"a", " ", " ", "b">>), P!Str(<<" ", " ", " ">>), P!Q(<<"a", " ", " ", "b">>) >>
Calls5 == {P!Call(Funs[f], <<Wide[s]>>) : f \in DOMAIN Funs, s \in DOMAIN Wide}
             \cup {P!Call(Funs[2], <<Wide[s], Atoms[i]>>) : s \in DOMAIN Wide, i \in DOMAIN Atoms}
             \cup {P!Call(Funs[2], <<Atoms[i], Wide[s]>>) : s \in DOMAIN Wide, i \in DOMAIN Atoms}
Exprs == (IF Depth = 1 THEN Calls1 \cup Calls3 ELSE Calls1 \cup Calls2 \cup Calls3) \cup Calls4 \cup Calls5

VARIABLE e
Init == e \in Exprs
Next == UNCHANGED e
Spec == Init /\ [][Next]_e

Faithful == P!Faithful(e)
ScanOK == P!ScanOK(e)
ScanLossless == P!ScanLossless(e)
TemplateLaw == P!TemplateLaw(e)
SqueezeLaw == P!SqueezeLaw(e)
SanitizeLexOK == P!SanitizeLexOK(e)
RECURSIVE Cat(_)
Cat(cs) == IF cs = <<>> THEN "" ELSE Head(cs) \o Cat(Tail(cs))
Out == IOEnv.OUT_FILE
EmitCase == Emit => CSVWrite("%1$s", <<ToJson([text |-> Cat(P!NormalForm(e)), tight |-> Cat(P!Tight(e)), nq |-> Len(P!QNames(e)), qn |-> [i \in DOMAIN P!QNames(e) |-> Cat(P!QNames(e)[i])]])>>, Out)
=============================================================================
