---------------------------- MODULE MC_Wilkinson ----------------------------
(***************************************************************************)
(* Bounded enumeration of token strings for C01/C14:                        *)
(*  - refinement theorem  Impl = Ref  (Wilkinson vs WilkinsonRef)            *)
(*  - machine invariants of the shunting-yard on every prefix               *)
(*  - emission of  case |-> expected outcome  for the spec->code replay     *)
(* One state per token string (the string is extended one token per step).  *)
(***************************************************************************)
EXTENDS Integers, Sequences, FiniteSets, TLC, TLCExt, Json, CSV, IOUtils, SequencesExt

CONSTANTS MaxLen,        \* maximal number of tokens
          AlphaName,     \* "core" | "full" | "signs"
          CfgName,       \* "quick" | "all"
          Emit           \* TRUE: write cases to IOEnv.OUT_FILE

W == INSTANCE Wilkinson
Ref == INSTANCE WilkinsonRef

(* alphabet: abstract token + the text it is rendered as (tokens are joined by one space) *)
A(tok, text) == [tok |-> tok, text |-> text]
OpC(c) == A(W!OpTok(<<c>>), c)
Names == << A(W!Tok("name", "a"), "a"), A(W!Tok("name", "b"), "b") >>
Lits == << A(W!ValTok("0", TRUE, 0), "0"), A(W!ValTok("1", TRUE, 1), "1"), A(W!ValTok("2", TRUE, 2), "2") >>
OpChars == << OpC("+"), OpC("-"), OpC("*"), OpC("/"), OpC(":"), OpC("^"), OpC("~"), OpC("|") >>
Parens == << A(W!CtxTok("open", "("), "("), A(W!CtxTok("close", ")"), ")") >>
Brackets == << A(W!CtxTok("open", "["), "["), A(W!CtxTok("close", "]"), "]") >>
InOp == << A(W!OpTok(<<"in">>), "%in%") >>
Extra == << A(W!Tok("name", "c"), "c"),
            A(W!Tok("name", "x y"), "`x y`"),
            A(W!Tok("name", "a:b"), "`a:b`"),          \* a quoted name that prints like an interaction
            A(W!PyTok("f(a)", <<"f", "a">>), "f(a)"),
            A(W!ValTok("\"s\"", FALSE, -1), "\"s\""),
            A(W!OpTok(<<".">>), "."),
            OpC("@") >>

Alphabet ==
  CASE AlphaName = "core" -> Names \o Lits \o OpChars \o InOp \o Parens
    [] AlphaName = "full" -> Names \o Lits \o OpChars \o InOp \o Parens \o Brackets \o Extra
    \* quoted names that print like interactions: term identity must be the SET of factor expressions, not a joined string
    [] AlphaName = "colon" -> << Names[1], Names[2], A(W!Tok("name", "a:b"), "`a:b`"), A(W!Tok("name", "b:a"), "`b:a`"), OpC("+"), OpC("-"), OpC(":"), OpC("*") >>
    \* multistage formulas: stages combined with the other operators, nested stages, stages in parts and sides
    [] AlphaName = "stage" -> << Names[1], Names[2], OpC("~"), OpC("+"), Brackets[1], Brackets[2] >>
    [] AlphaName = "stage2" -> << Names[1], Names[2], OpC("~"), OpC("+"), OpC("-"), OpC(":"), OpC("|"), Brackets[1], Brackets[2] >>
    \* the '.' wildcard next to signs and '~': which variables count as used on the left-hand side
    [] AlphaName = "dot" -> << Names[1], Names[2], Lits[2], OpC("+"), OpC("-"), OpC("~"), Extra[6] >>
    \* quoted tokens that print like literals: `0`, `1` are columns and {0} is python code - none of them is the literal
    [] AlphaName = "quoted" -> << Names[1], Lits[1], Lits[2], A(W!Tok("name", "0"), "`0`"), A(W!Tok("name", "1"), "`1`"), A(W!PyTok("0", <<>>), "{0}"), A(W!Tok("name", "."), "`.`"), A(W!Tok("name", "~"), "`~`"),
                                  OpC("+"), OpC("-"), OpC(":"), OpC("~") >>
    [] AlphaName = "signs" -> << Names[1], Names[2], Lits[1], Lits[2], OpC("+"), OpC("-"), OpC("~"), OpC("|"), OpC(":"), OpC("*") >>

AllFlags == {"TWOSIDED", "MULTIPART", "MULTISTAGE"}
Avail(p, v) == [present |-> p, vars |-> v]
Cfg(i, fl, av) == [intercept |-> i, flags |-> fl, avail |-> av]
Default == {"TWOSIDED", "MULTIPART"}
Cfgs ==
  CASE CfgName = "quick" -> << Cfg(TRUE, Default, Avail(TRUE, <<"c", "a", "b">>)),
                               Cfg(FALSE, Default, Avail(TRUE, <<"a", "b", "c">>)),
                               Cfg(TRUE, {}, Avail(FALSE, <<>>)),
                               Cfg(FALSE, AllFlags, Avail(TRUE, <<>>)) >>
    [] CfgName = "all" ->
         LET fls == << {}, {"TWOSIDED"}, {"MULTIPART"}, {"MULTISTAGE"}, Default, {"TWOSIDED", "MULTISTAGE"},
                       {"MULTIPART", "MULTISTAGE"}, AllFlags >>
             avs == << Avail(TRUE, <<"c", "a", "b">>), Avail(FALSE, <<>>) >>
         IN [k \in 1..32 |-> Cfg(((k - 1) \div 16) = 0, fls[(((k - 1) \div 2) % 8) + 1], avs[((k - 1) % 2) + 1])]
    [] CfgName = "stage" -> << Cfg(TRUE, AllFlags, Avail(FALSE, <<>>)), Cfg(FALSE, AllFlags, Avail(FALSE, <<>>)),
                               Cfg(FALSE, {"MULTISTAGE"}, Avail(FALSE, <<>>)) >>
    [] CfgName = "default" -> << Cfg(TRUE, Default, Avail(TRUE, <<"c", "a", "b">>)) >>

VARIABLE str     \* the string: sequence of alphabet indices
svars == <<str>>

(* what the lexer delivers for the rendered string: adjacent operator characters form one run *)
RECURSIVE Lex(_, _)
Lex(idx, run) ==
  IF idx = <<>> THEN (IF run = <<>> THEN <<>> ELSE <<W!OpTok(run)>>)
  ELSE LET t == Alphabet[Head(idx)].tok IN
       IF t.k = "op" /\ t.cs # <<"in">> /\ t.cs # <<".">>
       THEN Lex(Tail(idx), run \o t.cs)
       ELSE (IF run = <<>> THEN <<>> ELSE <<W!OpTok(run)>>) \o <<t>> \o Lex(Tail(idx), <<>>)

Toks == Lex(str, <<>>)
Text == [i \in DOMAIN str |-> Alphabet[str[i]].text]

Strs(res) == [st |-> res.st, why |-> res.why, shape |-> res.shape,
              lhs |-> [i \in DOMAIN res.lhs |-> W!TermStrs(res.lhs[i])],
              rhs |-> [i \in DOMAIN res.rhs |-> W!TermStrs(res.rhs[i])]]

Impl(c) == W!Parse(c, Toks)
RefR(c) == Ref!Ref(c, Toks)

(* Liberal-rejection class LR1 (DESIGN section 6.16): the implementation rejects a string  *)
(* the reference reads; never the other way round and never a different term set.          *)
Agree(i, r) ==
  \/ i.st = "UNMODELLED" \/ r.st = "UNMODELLED"
  \/ (i.st = "REJECT" /\ r.st = "REJECT")
  \/ (i.st = "OK" /\ r.st = "OK" /\ i.shape = r.shape /\ i.lhs = r.lhs /\ i.rhs = r.rhs /\ i.tree = r.tree)

LiberalReject(i, r) == i.st = "REJECT" /\ r.st = "OK"

Refines == \A k \in DOMAIN Cfgs : LET i == Impl(Cfgs[k]) r == RefR(Cfgs[k]) IN Agree(i, r) \/ LiberalReject(i, r)
NoSilentMisread == \A k \in DOMAIN Cfgs : LET i == Impl(Cfgs[k]) r == RefR(Cfgs[k]) IN
                      ~(i.st = "OK" /\ r.st = "REJECT") /\ ~(i.st = "OK" /\ r.st = "OK" /\ ~Agree(i, r))

\* flag monotonicity (C14): what a restricted parser accepts, the unrestricted one accepts identically
FlagMonotone == \A k \in DOMAIN Cfgs :
   LET c == Cfgs[k] i == Impl(c) j == Impl([c EXCEPT !.flags = AllFlags]) IN
   i.st = "OK" => (j.st = "UNMODELLED" \/ (j.st = "OK" /\ j.shape = i.shape /\ j.lhs = i.lhs /\ j.rhs = i.rhs /\ j.tree = i.tree))

\* shunting-yard machine invariants on the rewritten token stream of every configuration
MachineOK == \A k \in DOMAIN Cfgs :
   LET m == W!SY!RunFrom(W!SY!Init0(Cfgs[k].flags), W!Rewrite(Cfgs[k], Toks).toks) IN
   W!SY!StackIdxMonotone(m) /\ W!SY!StackIdxBounded(m)

(* compact rendering of outcomes for the replay leg *)
RECURSIVE Join(_, _)
Join(ss, sep) == IF ss = <<>> THEN "" ELSE IF Len(ss) = 1 THEN ss[1] ELSE ss[1] \o sep \o Join(Tail(ss), sep)
TermStr(t) == Join(W!ExprSeq(t), " & ")      \* injective as long as no factor expression contains " & "
TermsStr(ts) == IF ts = <<>> THEN "{}" ELSE Join([i \in DOMAIN ts |-> TermStr(ts[i])], " + ")
PartsStr(ps) == Join([i \in DOMAIN ps |-> TermsStr(ps[i])], " | ")
ResStr(res) == CASE res.st = "REJECT" -> "R" [] res.st = "UNMODELLED" -> "U" [] res.shape = "tree" -> "tree#" \o W!TreeStr(res.tree)
                 [] OTHER -> res.shape \o "#" \o PartsStr(res.lhs) \o "#" \o PartsStr(res.rhs)

Out == IOEnv.OUT_FILE
EmitCase ==
  Emit =>
    /\ (str = <<>> => CSVWrite("%1$s", <<ToJson([cfgs |-> [k \in DOMAIN Cfgs |->
                         [intercept |-> Cfgs[k].intercept, flags |-> SetToSeq(Cfgs[k].flags),
                          present |-> Cfgs[k].avail.present, vars |-> Cfgs[k].avail.vars]]])>>, Out))
    /\ CSVWrite("%1$s", <<ToJson([t |-> Text,
            o |-> [k \in DOMAIN Cfgs |-> ResStr(W!Ordered(Impl(Cfgs[k])))],
            r |-> [k \in DOMAIN Cfgs |-> LET i == Impl(Cfgs[k]) IN IF W!Ordered(i) = i THEN "=" ELSE ResStr(i)],
            lr |-> [k \in DOMAIN Cfgs |-> IF LiberalReject(Impl(Cfgs[k]), RefR(Cfgs[k])) THEN 1 ELSE 0]])>>, Out)

Init == str = <<>>
Next == Len(str) < MaxLen /\ \E a \in DOMAIN Alphabet : str' = Append(str, a)
Spec == Init /\ [][Next]_svars
=============================================================================
