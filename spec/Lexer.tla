------------------------------- MODULE Lexer -------------------------------
(***************************************************************************)
(* The tokenizer of parser/algos/tokenize.py as a character-level state    *)
(* machine (one pure step per character, first matching rule wins), plus   *)
(* sanitize_tokens, plus declarative statements about the token stream     *)
(* (C15): spans are ordered and non-overlapping and delimit the token      *)
(* text, backtick-quoted content is taken verbatim.                        *)
(*                                                                         *)
(* A character is a record [c |-> 1-character string, cls |-> class] with  *)
(* cls in {"ws", "word", "digit", "other"}: "digit" = matches [0-9.] (and  *)
(* is a word character), "word" = matches [\w_] but not [0-9.].  Special   *)
(* characters ( ) [ ] { } ` % ' " \ are recognised by c itself.            *)
(*                                                                         *)
(* Machine state m: [qc, take, tok, out, err]                              *)
(*   qc   stack of expected closing characters (quote_context)             *)
(*   tok  the ONE mutable token record of the code:                        *)
(*        [chars, kind, start, end] with kind "" = None, start -1 = None   *)
(*   out  emitted tokens                                                   *)
(* DOC marks where the specification states the documented behaviour and   *)
(* the pinned code deviated.                                               *)
(***************************************************************************)
EXTENDS Integers, Sequences, FiniteSets

Ch(c, cls) == [c |-> c, cls |-> cls]
Fresh == [chars |-> <<>>, kind |-> "", start |-> -1, end |-> -1]
NewTok(kind, i) == [chars |-> <<>>, kind |-> kind, start |-> i, end |-> i]
NonEmpty(t) == t.chars # <<>>

Upd(t, c, i, kind) == [chars |-> Append(t.chars, c),
                       kind  |-> IF kind # "" THEN kind ELSE t.kind,
                       start |-> IF t.start = -1 THEN i ELSE t.start,
                       end   |-> i]

L0 == [qc |-> <<>>, take |-> 0, tok |-> Fresh, out |-> <<>>, err |-> ""]
Top(m) == m.qc[Len(m.qc)]
PopQ(m) == [m EXCEPT !.qc = SubSeq(@, 1, Len(@) - 1)]
Flush(m) == IF NonEmpty(m.tok) THEN [m EXCEPT !.out = Append(@, m.tok), !.tok = Fresh] ELSE m
\* "if token: yield token" WITHOUT resetting (used where the code assigns a new token right after)
Yield(m) == IF NonEmpty(m.tok) THEN [m EXCEPT !.out = Append(@, m.tok)] ELSE m

Closer(c) == CASE c = "(" -> ")" [] c = "[" -> "]" [] c = "{" -> "}" [] OTHER -> c

LexStep(m, ch, i) ==
  LET c == ch.c IN
  IF m.err # "" THEN m
  \* 1. characters taken verbatim after a backslash
  ELSE IF m.take > 0 THEN [m EXCEPT !.tok = Upd(@, c, i, ""), !.take = @ - 1]
  \* 2. backslash inside a quote context
  ELSE IF m.qc # <<>> /\ c = "\\" THEN [m EXCEPT !.tok = Upd(@, c, i, ""), !.take = 1]
  \* 3. closing } ` % : the delimiter is not part of the token
  ELSE IF m.qc # <<>> /\ Top(m) \in {"}", "`", "%"} /\ c = Top(m)
       THEN LET m1 == PopQ(m) IN
            IF NonEmpty(m1.tok)
            THEN IF m1.qc # <<>> THEN [m1 EXCEPT !.tok = Upd(@, c, i, "")]
                 ELSE [m1 EXCEPT !.out = Append(@, m1.tok), !.tok = Fresh]
            \* DOC: an empty quoted token leaves no trace (the pinned code kept the stale
            \* kind and start of the empty token in its mutable record)
            ELSE IF m1.qc = <<>> THEN [m1 EXCEPT !.tok = Fresh] ELSE m1
  \* 4. closing ) ] ' "
  ELSE IF m.qc # <<>> /\ c = Top(m) THEN PopQ([m EXCEPT !.tok = Upd(@, c, i, "")])
  \* 5. anything else inside a quote context; ` ( [ and (DOC) { ' " nest inside } ) ]
  \*    (the pinned code did not track braces and string literals inside python fragments)
  ELSE IF m.qc # <<>>
       THEN LET m1 == IF c \in {"`", "(", "[", "{", "'", "\""} /\ Top(m) \in {"}", ")", "]"} THEN [m EXCEPT !.qc = Append(@, Closer(c))] ELSE m
            IN [m1 EXCEPT !.tok = Upd(@, c, i, "")]
  \* 6-8. openers of quoted tokens
  ELSE IF c = "%" THEN [Yield(m) EXCEPT !.tok = NewTok("operator", i), !.qc = Append(@, "%")]
  ELSE IF c = "{" THEN [Yield(m) EXCEPT !.tok = NewTok("python", i), !.qc = Append(@, "}")]
  ELSE IF c = "`" THEN [Yield(m) EXCEPT !.tok = NewTok("name", i), !.qc = Append(@, "`")]
  \* 9. ( [ : call bracket after a name/python token, else a grouping (context) token
  ELSE IF c \in {"(", "["}
       THEN IF m.tok.kind \in {"name", "python"}
            THEN [m EXCEPT !.tok = Upd(@, c, i, "python"), !.qc = Append(@, Closer(c))]
            ELSE LET m1 == Flush(m) IN [m1 EXCEPT !.out = Append(@, Upd(Fresh, c, i, "context"))]
  \* 10. ) ]
  ELSE IF c \in {")", "]"} THEN LET m1 == Flush(m) IN [m1 EXCEPT !.out = Append(@, Upd(Fresh, c, i, "context"))]
  \* 11. whitespace ends every token except an operator run
  ELSE IF ch.cls = "ws" THEN IF NonEmpty(m.tok) /\ m.tok.kind # "operator" THEN Flush(m) ELSE m
  \* 12. string literal
  ELSE IF c \in {"'", "\""}
       THEN LET m1 == IF NonEmpty(m.tok) /\ m.tok.kind = "operator" THEN Flush(m) ELSE m IN
            IF ~NonEmpty(m1.tok) THEN [m1 EXCEPT !.tok = Upd(@, c, i, "value"), !.qc = Append(@, c)]
            ELSE [m1 EXCEPT !.err = "quote-after-token"]
  \* 13. word characters
  ELSE IF ch.cls \in {"word", "digit"}
       THEN LET m1 == IF NonEmpty(m.tok) /\ m.tok.kind \in {"operator", "python"} THEN Flush(m) ELSE m IN
            IF m1.tok.kind \notin {"", "value", "name"} THEN [m1 EXCEPT !.err = "unexpected-token-kind"]
            ELSE [m1 EXCEPT !.tok = Upd(@, c, i, IF ch.cls = "digit" /\ m1.tok.kind \in {"", "value"} THEN "value" ELSE "name")]
  \* 14. operator characters
  ELSE LET m1 == IF NonEmpty(m.tok) /\ m.tok.kind # "operator" THEN Flush(m) ELSE m IN
       [m1 EXCEPT !.tok = Upd(@, c, i, "operator")]

LexEnd(m) == IF m.err # "" THEN m
             ELSE IF m.qc # <<>> THEN [m EXCEPT !.err = "unterminated-quote"]
             ELSE Flush(m)

RECURSIVE LexFrom(_, _, _)
LexFrom(m, chars, i) == IF i >= Len(chars) THEN m ELSE LexFrom(LexStep(m, chars[i + 1], i), chars, i + 1)   \* i is 0-based
Lex(chars) == LexEnd(LexFrom(L0, chars, 0))

\* sanitize_tokens: "." is an operator (python normalisation is not modelled: opaque text)
Sanitize(t) == IF t.chars = <<".">> THEN [t EXCEPT !.kind = "operator"] ELSE t
Tokens(chars) == LET m == Lex(chars) IN [i \in DOMAIN m.out |-> Sanitize(m.out[i])]

(* ------------------------------------------------------------------ *)
(* declarative statements                                              *)
(* ------------------------------------------------------------------ *)
\* spans are ordered and non-overlapping
SpansOrdered(out) == \A j \in 1..(Len(out) - 1) : out[j].end < out[j + 1].start
SpansWellFormed(out, n) == \A j \in DOMAIN out : 0 <= out[j].start /\ out[j].start <= out[j].end /\ out[j].end < n

\* a span delimits the token's text: removing unquoted whitespace (inside operator runs) and
\* the quoting delimiters { } ` % from the source slice leaves exactly the token's characters
Delims(kind) == CASE kind = "python" -> {"{", "}"} [] kind = "name" -> {"`"} [] kind = "operator" -> {"%"} [] OTHER -> {}
SliceOf(chars, t) == SubSeq(chars, t.start + 1, t.end + 1)
Strip(slice, t) ==
  LET n == Len(slice)
      inner == IF n >= 1 /\ slice[1].c \in Delims(t.kind) /\ t.kind # "python" THEN SubSeq(slice, 2, n)
               ELSE IF n >= 1 /\ t.kind = "python" /\ slice[1].c = "{" THEN SubSeq(slice, 2, n)
               ELSE slice
      noWs == IF t.kind = "operator" /\ ~(n >= 1 /\ slice[1].c = "%") THEN SelectSeq(inner, LAMBDA x : x.cls # "ws") ELSE inner
  IN [j \in DOMAIN noWs |-> noWs[j].c]
SpanFaithful(chars, t) == Strip(SliceOf(chars, t), t) = t.chars

\* `content` between backticks is one name token holding the content verbatim
Verbatim(content) ==
  LET bt == Ch("`", "other")
      m == Lex(<<bt>> \o content \o <<bt>>)
  IN m.err = "" /\ Len(m.out) = 1 /\ m.out[1].kind = "name" /\ m.out[1].chars = [j \in DOMAIN content |-> content[j].c]

\* An independent, textbook reading of "balanced python fragment": brackets ( [ { match outside
\* string literals and backtick-quoted names, string literals are closed (a backslash escapes the
\* next character inside them), no backslash outside a string literal.
RECURSIVE Balanced(_, _, _)
Balanced(cs, st, mode) ==
  IF cs = <<>> THEN st = <<>> /\ mode = ""
  ELSE LET c == Head(cs).c IN
       IF mode \in {"'", "\""}
       THEN IF c = "\\" THEN Len(cs) >= 2 /\ Balanced(Tail(Tail(cs)), st, mode)
            ELSE Balanced(Tail(cs), st, IF c = mode THEN "" ELSE mode)
       ELSE IF mode = "`"
       THEN c # "\\" /\ Balanced(Tail(cs), st, IF c = "`" THEN "" ELSE "`")
       ELSE IF c \in {"'", "\"", "`"} THEN Balanced(Tail(cs), st, c)
       ELSE IF c \in {"(", "[", "{"} THEN Balanced(Tail(cs), Append(st, Closer(c)), "")
       ELSE IF c \in {")", "]", "}"} THEN st # <<>> /\ st[Len(st)] = c /\ Balanced(Tail(cs), SubSeq(st, 1, Len(st) - 1), "")
       ELSE c # "\\" /\ Balanced(Tail(cs), st, "")

\* a balanced fragment is taken verbatim as ONE python token, brace-quoted or call-style
FragmentVerbatim(content) ==
  LET cs == [j \in DOMAIN content |-> content[j].c]
      b == Lex(<<Ch("{", "other")>> \o content \o <<Ch("}", "other")>>)
      f == Lex(<<Ch("f", "word"), Ch("(", "other")>> \o content \o <<Ch(")", "other")>>)
  IN /\ b.err = "" /\ (content # <<>> => Len(b.out) = 1 /\ b.out[1].kind = "python" /\ b.out[1].chars = cs)
     /\ f.err = "" /\ Len(f.out) = 1 /\ f.out[1].kind = "python" /\ f.out[1].chars = <<"f", "(">> \o cs \o <<")">>
=============================================================================
