---------------------------- MODULE MC_Registry ----------------------------
(* every sequence of up to MaxOps class definitions from a pool, then every query *)
EXTENDS Integers, Sequences, FiniteSets, TLC, TLCExt, Json, CSV, IOUtils, SequencesExt
CONSTANTS MaxOps, Emit
Types == {"T1", "T2", "T3"}
Outputs == {"o1", "o2"}
C(id, n, ins, outs, p, sup) == [id |-> id, name |-> n, inputs |-> ins, outputs |-> outs, prec |-> p, supports |-> sup]
Pool == << C(1, "alpha", {"T1"}, {"o1", "o2"}, 100, {}),
           C(2, "beta", {"T1", "T2"}, {"o1"}, 100, {}),
           C(3, "gamma", {}, {"o2"}, 50, {"T1", "T2", "T3"}),         \* a fallback by predicate
           C(4, "alpha", {"T2"}, {"o2"}, 200, {}),                     \* replaces the name alpha
           C(5, "delta", {"T1"}, {"o2"}, 150, {"T3"}),
           C(6, "", {"T3"}, {"o1"}, 300, {"T3"}),                      \* no REGISTER_NAME: not registered at all
           C(7, "eps", {"T2"}, {"o1", "o2"}, 100, {"T3"}) >>

VARIABLES names, inputs, hist
R == INSTANCE Registry
vars == <<names, inputs, hist>>
Init == R!RInit(Types) /\ hist = <<>>
Next == /\ Len(hist) < MaxOps
        /\ \E p \in DOMAIN Pool :
             /\ hist' = Append(hist, p)
             /\ IF Pool[p].name = "" THEN UNCHANGED <<names, inputs>> ELSE R!Register(Pool[p])
Spec == Init /\ [][Next]_vars

Queries == Types \X (Outputs \cup {""})
Laws == /\ R!SortedLists
        /\ \A q \in Queries : R!DetFallback(q[1]) => (R!Sound(q[1], q[2]) /\ R!Complete(q[1], q[2]) /\ R!Priority(q[1], q[2]))
\* defining one more class never makes a served request unserved
Monotone == [][\A q \in Queries : (R!DetFallback(q[1]) /\ R!ForData(q[1], q[2]) # R!NotFound) => (R!ForData(q[1], q[2]) # R!NotFound)']_vars

Out == IOEnv.OUT_FILE
QSeq == SetToSeq(Queries)
EmitCase == Emit => CSVWrite("%1$s", <<ToJson([hist |-> hist,
     q |-> [i \in DOMAIN QSeq |-> [t |-> QSeq[i][1], o |-> QSeq[i][2], det |-> R!DetFallback(QSeq[i][1]), r |-> R!ForData(QSeq[i][1], QSeq[i][2]).id]],
     byname |-> [n \in {"alpha", "beta", "gamma", "delta", "eps", "zeta"} |-> R!ForMaterializer(n).id]])>>, Out)
=============================================================================
