--------------------------- MODULE Trace_Materialize ---------------------------
(***************************************************************************)
(* Code -> spec validation of recorded model_matrix executions on random    *)
(* frames and formulas (C02 / C05 / C06 trace leg).  A record logs, at the   *)
(* return of one public call, the abstract frame (integer-valued numeric     *)
(* columns, categorical columns with their level universe in encoding order, *)
(* null positions), the parsed formula (factor kinds and contrasts), the     *)
(* options, the caller's drop set before the call and the observables:       *)
(* column names, cells, the caller's drop set afterwards, or an exception.    *)
(* The specification (Materialize) is re-evaluated on the logged inputs; the *)
(* record is accepted iff every observable is the one the specification      *)
(* assigns.                                                                   *)
(***************************************************************************)
EXTENDS Integers, Sequences, FiniteSets, TLC, TLCExt, Json, CSV, IOUtils, SequencesExt
M == INSTANCE Materialize
TraceRecs == JsonDeserialize(IOEnv.TRACE_FILE)
Rej == IOEnv.REJ_FILE
VARIABLE k
Rec == TraceRecs[k]

SetOf(q) == {q[i] : i \in DOMAIN q}
ColOf(c) == [kind |-> c.kind, num |-> c.num, cat |-> c.cat, nulls |-> SetOf(c.nulls), lv |-> c.lv, declared |-> c.declared]
FrameOf(r) == [n |-> r.frame.n, cols |-> [c \in DOMAIN r.frame.cols |-> ColOf(r.frame.cols[c])]]
FactorOf(f) == [e |-> f.e, kind |-> f.kind, col |-> f.col, contr |-> f.contr, lit |-> f.lit]
FormulaOf(r) == [t \in DOMAIN r.formula |-> [i \in DOMAIN r.formula[t] |-> FactorOf(r.formula[t][i])]]

Verdict(r) ==
  LET frame == FrameOf(r)
      form == FormulaOf(r)
      opts == [full_rank |-> r.full_rank, na |-> r.na, cluster |-> r.cluster]
      drop0 == SetOf(r.drop0)
      fails == M!RaiseFails(frame, <<form>>, r.na)
      drop1 == M!DropSet(frame, <<form>>, r.na, drop0)
      kept == M!Kept(frame, drop1)
  IN IF fails THEN (IF r.st = "EXC" THEN "" ELSE "raise-policy-must-fail")
     ELSE IF r.st # "OK" THEN "unexpected-exception"
     ELSE IF SetOf(r.drop1) # drop1 THEN "caller-drop-set"
     ELSE IF r.nrows # Len(kept) THEN "number-of-rows"
     ELSE IF kept = <<>> THEN ""
     ELSE LET b == M!BuildOn(frame, form, opts, kept, <<>>, <<>>) IN
          IF r.names # M!Names(b) THEN "column-names"
          ELSE IF r.cells # M!Cells(b, Len(kept)) THEN "cells"
          ELSE IF r.index # [i \in DOMAIN kept |-> r.labels[kept[i]]] THEN "index-labels"
          ELSE ""
Check == LET v == Verdict(Rec) IN (v # "" => CSVWrite("%1$s", <<ToJson([id |-> Rec.id, verdict |-> v])>>, Rej))
Init == k \in 1..Len(TraceRecs)
Next == UNCHANGED k
Spec == Init /\ [][Next]_k
=============================================================================
