----------------------------- MODULE Constraints -----------------------------
(***************************************************************************)
(* Linear-constraint specifications (utils/constraints.py).                *)
(*  ImplC : the same shunting-yard machine as the formula parser with the   *)
(*          constraint operator table; values are finite maps               *)
(*          factor |-> rational with the constant under key "#1".           *)
(*  RefC  : the ordinary arithmetic meaning of the written expression,      *)
(*          evaluated at a point by precedence climbing (independent of     *)
(*          the machine), plus the syntactic linearity criterion.           *)
(* Tokens: [k, s, cs, q] with q the rational value of a numeric literal     *)
(* (isq = FALSE for a non-numeric literal).                                 *)
(***************************************************************************)
EXTENDS Integers, Sequences, FiniteSets, Rat

\* SignRule selects how a run of adjacent sign characters is resolved: "parity" (the code, and the only rule that
\* agrees with arithmetic) or the design error "anyminus" (a run is a minus as soon as it contains one: right for every
\* run of one or two signs except "--", wrong for every even number of minuses), which TLC must refute against RefC.
CONSTANT SignRule

CTok(k, s) == [k |-> k, s |-> s, cs |-> <<>>, q |-> Zero, isq |-> FALSE]
CVal(s, q) == [k |-> "value", s |-> s, cs |-> <<>>, q |-> q, isq |-> TRUE]
COp(cs) == [k |-> "op", s |-> "", cs |-> cs, q |-> Zero, isq |-> FALSE]

Cand(sym, id, arity, prec, assoc, fix, ctx) ==
  [sym |-> sym, id |-> id, arity |-> arity, prec |-> prec, assoc |-> assoc, fix |-> fix, ctx |-> ctx, flag |-> ""]
Symbols == {",", "=", "+", "-", "*", "/"}
Table ==
  [s \in Symbols |->
    CASE s = "," -> << Cand(",", "join", 2, -200, "none", "infix", "commas") >>
      [] s = "=" -> << Cand("=", "eq", 2, -100, "none", "infix", "any") >>
      [] s = "+" -> << Cand("+", "add", 2, 100, "left", "infix", "any"), Cand("+", "pos", 1, 100, "right", "prefix", "any") >>
      [] s = "-" -> << Cand("-", "sub", 2, 100, "left", "infix", "any"), Cand("-", "neg", 1, 100, "right", "prefix", "any") >>
      [] s = "*" -> << Cand("*", "mul", 2, 200, "left", "infix", "any") >>
      [] s = "/" -> << Cand("/", "div", 2, 200, "left", "infix", "any") >> ]
\* DOC: adjacent operator characters are read one by one, a run of signs as the single sign of its parity ("x = -1", "2 * -x",
\* "x - -y" are specifications over the allowed symbols).  The pinned code looked the whole run up as one symbol and rejected them.
Signs == {"+", "-"}
RECURSIVE CollapseSigns(_)
CollapseSigns(cs) ==
  IF cs = <<>> THEN <<>>
  ELSE IF Head(cs) \notin Signs THEN <<Head(cs)>> \o CollapseSigns(Tail(cs))
  ELSE LET n == CHOOSE k \in 1..Len(cs) : (\A i \in 1..k : cs[i] \in Signs) /\ (k = Len(cs) \/ cs[k + 1] \notin Signs)
           minus == Cardinality({i \in 1..n : cs[i] = "-"})
       IN <<IF (IF SignRule = "anyminus" THEN minus > 0 ELSE minus % 2 = 1) THEN "-" ELSE "+">> \o CollapseSigns(SubSeq(cs, n + 1, Len(cs)))
ResolveRun(cs) == IF Len(cs) = 1 THEN cs ELSE CollapseSigns(cs)

(* the "," operator accepts a context in which every stacked OPERATOR of precedence <= -200 is a "," *)
(* (context tokens are ignored), which the generic machine expresses as ctx = "commas"              *)
SYC == INSTANCE ShuntingYard WITH Table <- Table, Symbols <- Symbols, ResolveRun <- ResolveRun

(* ---------------- values: finite maps ---------------- *)
K1 == "#1"
Single(key, q) == [x \in {key} |-> q]
Get(m, x) == IF x \in DOMAIN m THEN m[x] ELSE Zero
MAdd(a, b) == [x \in DOMAIN a \cup DOMAIN b |-> RAdd(Get(a, x), Get(b, x))]
MNeg(a) == [x \in DOMAIN a |-> RNeg(a[x])]
MSub(a, b) == MAdd(a, MNeg(b))
\* mul_terms / div_terms: all pairs; a pair of two non-constant factors is an error even when a scale is zero
MulOK(a, b) == \A x \in (DOMAIN a), y \in (DOMAIN b) : x = K1 \/ y = K1
MMul(a, b) == LET keys == {IF p[1] = K1 THEN p[2] ELSE p[1] : p \in (DOMAIN a) \X (DOMAIN b)} IN
              [z \in keys |-> IF z = K1 THEN RMul(a[K1], b[K1])
                              ELSE RAdd(IF z \in DOMAIN a /\ K1 \in DOMAIN b THEN RMul(a[z], b[K1]) ELSE Zero,
                                        IF K1 \in DOMAIN a /\ z \in DOMAIN b THEN RMul(a[K1], b[z]) ELSE Zero)]
DivOK(a, b) == DOMAIN b = {K1} /\ ~IsZero(b[K1])
MDiv(a, b) == [x \in DOMAIN a |-> RDiv(a[x], b[K1])]

VOk(rows) == [err |-> "", rows |-> rows]          \* rows: sequence of maps (a tuple of constraints), one map = one row
VErr(e) == [err |-> e, rows |-> <<>>]

RECURSIVE EvalC(_)
EvalC(node) ==
  IF node.n = "leaf"
  THEN LET t == node.tok IN
       IF t.k = "value" THEN (IF t.isq THEN VOk(<<Single(K1, t.q)>>) ELSE VErr("non-numeric-literal"))
       ELSE VOk(<<Single(t.s, One)>>)
  ELSE LET c == node.c
           a == [i \in DOMAIN node.args |-> EvalC(node.args[i])]
       IN IF \E i \in DOMAIN a : a[i].err = "unmodelled" THEN VErr("unmodelled")
          ELSE IF \E i \in DOMAIN a : a[i].err # "" THEN VErr("reject")
          ELSE IF c.id = "join" THEN VOk(a[1].rows \o a[2].rows)
          ELSE IF \E i \in DOMAIN a : Len(a[i].rows) # 1 THEN VErr("unmodelled")    \* a tuple inside an arithmetic operator
          ELSE LET l == a[1].rows[1] r == IF Len(a) >= 2 THEN a[2].rows[1] ELSE l IN
               CASE c.id = "eq" -> VOk(<<MSub(l, r)>>)
                 [] c.id = "add" -> VOk(<<MAdd(l, r)>>)
                 [] c.id = "sub" -> VOk(<<MSub(l, r)>>)
                 [] c.id = "pos" -> VOk(<<l>>)
                 [] c.id = "neg" -> VOk(<<MNeg(l)>>)
                 [] c.id = "mul" -> IF MulOK(l, r) THEN VOk(<<MMul(l, r)>>) ELSE VErr("nonlinear-product")
                 [] c.id = "div" -> IF DivOK(l, r) THEN VOk(<<MDiv(l, r)>>) ELSE VErr("bad-division")

\* rows as (coefficients in `names` order, value b = -constant); a factor outside `names` is an error
Row(m, names) == [coef |-> [i \in DOMAIN names |-> Get(m, names[i])], b |-> RNeg(Get(m, K1))]
Known(m, names) == \A x \in DOMAIN m : x = K1 \/ \E i \in DOMAIN names : names[i] = x

CommaInsideBrackets(toks) ==
  \E i \in DOMAIN toks : toks[i].k = "op" /\ toks[i].cs = <<",">> /\
     (Cardinality({j \in 1..i : toks[j].k = "open"}) > Cardinality({j \in 1..i : toks[j].k = "close"}))

ImplC(toks, names) ==
  IF CommaInsideBrackets(toks) THEN [st |-> "UNMODELLED", rows |-> <<>>]
  ELSE LET m == SYC!Run({}, toks) IN
  IF m.err # "" THEN [st |-> "REJECT", rows |-> <<>>]
  ELSE IF m.queue = <<>> THEN [st |-> "OK", rows |-> <<>>]
  ELSE LET v == EvalC(m.queue[1]) IN
       IF v.err = "unmodelled" THEN [st |-> "UNMODELLED", rows |-> <<>>]
       ELSE IF v.err # "" THEN [st |-> "REJECT", rows |-> <<>>]
       ELSE IF \E i \in DOMAIN v.rows : ~Known(v.rows[i], names) THEN [st |-> "REJECT", rows |-> <<>>]
       ELSE [st |-> "OK", rows |-> [i \in DOMAIN v.rows |-> Row(v.rows[i], names)]]

(* ---------------- reference: arithmetic meaning at a point ---------------- *)
\* point: function name -> rational.  Result [ok, v, i, lin] : value, next index, and whether the
\* sub-expression read so far is variable-free (vf) - used for the linearity criterion.
RR(ok, v, i, vf, lin) == [ok |-> ok, v |-> v, i |-> i, vf |-> vf, lin |-> lin]
Bad(i) == RR(FALSE, Zero, i, TRUE, TRUE)
PrecC(o) == CASE o \in {"+", "-"} -> 100 [] o \in {"*", "/"} -> 200 [] OTHER -> -1
IsOp(t, o) == t.k = "op" /\ t.cs = <<o>>

RECURSIVE ArE(_, _, _, _)
RECURSIVE ArLoop(_, _, _, _, _)
ArE(f, i, minp, pt) ==
  IF i > Len(f) THEN Bad(i)
  ELSE LET t == f[i] IN
       IF t.k = "op" /\ Len(t.cs) = 1 /\ t.cs[1] \in {"+", "-"}
       \* a sign may prefix an operand at the start, after "(", "=", "," and after a binary or another prefix sign
       \* ("x - -y", "--x": the signs are applied one after the other, innermost first - no notion of a "run" here).
       \* After "*" or "/" (minp = 201) it stays outside the reference: "x / -2 * 3" has two defensible readings and
       \* the code rejects such strings anyway (interpretation 9).
       THEN IF 101 < minp THEN Bad(i)
            ELSE LET a == ArE(f, i + 1, 101, pt) IN
                 IF ~a.ok THEN a ELSE ArLoop(f, [a EXCEPT !.v = IF t.cs[1] = "-" THEN RNeg(a.v) ELSE a.v], a.i, minp, pt)
       ELSE IF t.k = "open"
       THEN LET a == ArE(f, i + 1, 0, pt) IN
            IF ~a.ok THEN a
            ELSE IF a.i > Len(f) \/ f[a.i].k # "close" \/ f[a.i].s # (IF t.s = "(" THEN ")" ELSE "]") THEN Bad(a.i)
            ELSE ArLoop(f, [a EXCEPT !.i = a.i + 1], a.i + 1, minp, pt)
       ELSE IF t.k = "value" THEN (IF t.isq THEN ArLoop(f, RR(TRUE, t.q, i + 1, TRUE, TRUE), i + 1, minp, pt) ELSE Bad(i))
       ELSE IF t.k \in {"name", "python"}
       THEN IF t.s \in DOMAIN pt THEN ArLoop(f, RR(TRUE, pt[t.s], i + 1, FALSE, TRUE), i + 1, minp, pt) ELSE Bad(i)
       ELSE Bad(i)

ArLoop(f, left, i, minp, pt) ==
  IF i > Len(f) THEN [left EXCEPT !.i = i]
  ELSE LET t == f[i] IN
       IF t.k # "op" \/ Len(t.cs) # 1 \/ PrecC(t.cs[1]) < 0 \/ PrecC(t.cs[1]) < minp THEN [left EXCEPT !.i = i]
       ELSE LET o == t.cs[1]
                b == ArE(f, i + 1, PrecC(o) + 1, pt) IN
            IF ~b.ok THEN b
            ELSE IF o = "/" /\ IsZero(b.v) /\ b.vf THEN Bad(i)            \* division by the constant zero
            ELSE LET v == CASE o = "+" -> RAdd(left.v, b.v) [] o = "-" -> RSub(left.v, b.v)
                            [] o = "*" -> RMul(left.v, b.v) [] OTHER -> IF IsZero(b.v) THEN Zero ELSE RDiv(left.v, b.v)
                     lin == left.lin /\ b.lin /\ (o = "*" => (left.vf \/ b.vf)) /\ (o = "/" => b.vf)
                 IN ArLoop(f, RR(TRUE, v, b.i, left.vf /\ b.vf, lin), b.i, minp, pt)

\* constraint := expr [ '=' expr ] ; value = lhs - rhs
Constraint(f, i, pt) ==
  LET l == ArE(f, i, 0, pt) IN
  IF ~l.ok THEN l
  ELSE IF l.i <= Len(f) /\ IsOp(f[l.i], "=")
       THEN LET r == ArE(f, l.i + 1, 0, pt) IN
            IF ~r.ok THEN r ELSE RR(TRUE, RSub(l.v, r.v), r.i, l.vf /\ r.vf, l.lin /\ r.lin)
       ELSE l

RECURSIVE SpecRows(_, _, _)
SpecRows(f, i, pt) ==      \* [ok, vals (sequence of values), lin]
  LET c == Constraint(f, i, pt) IN
  IF ~c.ok THEN [ok |-> FALSE, vals |-> <<>>, lin |-> TRUE]
  ELSE IF c.i > Len(f) THEN [ok |-> TRUE, vals |-> <<c.v>>, lin |-> c.lin]
  ELSE IF IsOp(f[c.i], ",")
       THEN LET rest == SpecRows(f, c.i + 1, pt) IN
            IF ~rest.ok THEN rest ELSE [ok |-> TRUE, vals |-> <<c.v>> \o rest.vals, lin |-> c.lin /\ rest.lin]
       ELSE [ok |-> FALSE, vals |-> <<>>, lin |-> TRUE]

PointZero(names) == [x \in {names[i] : i \in DOMAIN names} |-> Zero]
PointUnit(names, j) == [x \in {names[i] : i \in DOMAIN names} |-> IF x = names[j] THEN One ELSE Zero]
\* a generic point used only to decide grammaticality/linearity without hitting a zero divisor by accident
PointGeneric(names) == [x \in {names[i] : i \in DOMAIN names} |-> <<7 + 4 * (CHOOSE i \in DOMAIN names : names[i] = x), 3>>]

\* The reference reads the written characters: an operator token that carries a run of adjacent characters ("=-", "--",
\* ",+-") is the sequence of its characters.  (Before, a run was simply ungrammatical for the reference, so the rows the
\* machine derives for "x - -y" or "x = --2" were compared with nothing.)
RECURSIVE Flat(_)
Flat(toks) == IF toks = <<>> THEN <<>>
              ELSE LET t == Head(toks) IN (IF t.k = "op" THEN [i \in DOMAIN t.cs |-> COp(<<t.cs[i]>>)] ELSE <<t>>) \o Flat(Tail(toks))

RefC(toks, names) ==       \* [gram : grammatical and defined, lin : linear]
  LET r == SpecRows(Flat(toks), 1, PointGeneric(names)) IN [gram |-> toks = <<>> \/ r.ok, lin |-> r.lin]

\* the affine identity on the n+1 affinely independent points 0, e_1 .. e_n
AffineAgrees(rows, toks, names) ==
  toks # <<>> =>
  \A j \in 0..Len(names) :
    LET pt == IF j = 0 THEN PointZero(names) ELSE PointUnit(names, j)
        r == SpecRows(Flat(toks), 1, pt)
        x == [i \in DOMAIN names |-> pt[names[i]]]
    IN r.ok => /\ Len(r.vals) = Len(rows)
               /\ \A q \in DOMAIN rows : RSub(Dot(rows[q].coef, x), rows[q].b) = r.vals[q]
=============================================================================
