------------------------------ MODULE PolyScale ------------------------------
(***************************************************************************)
(* scale / center / standardize and poly (transforms/scale.py, poly.py) in  *)
(* exact rationals.  Statistics are recorded at fit time and applied        *)
(* unchanged to new data (state first).  The orthogonal polynomials are     *)
(* obtained by Gram-Schmidt on the raw powers with explicit coefficient     *)
(* vectors - independently of the three-term recurrence the code uses - so  *)
(* that the recorded polynomials can be evaluated on new data.              *)
(* Values the code normalises by a square root are carried as               *)
(* (numerator, squared denominator); the harness takes the root.            *)
(***************************************************************************)
EXTENDS Integers, Sequences, FiniteSets, Rat

RVec(xs) == [i \in DOMAIN xs |-> R(xs[i])]
Mean(v) == RDiv(RSum(v), R(Len(v)))
Centered(v, c) == [i \in DOMAIN v |-> RSub(v[i], c)]
SS(v) == RSum([i \in DOMAIN v |-> RMul(v[i], v[i])])
\* scale(): state = [center (or none), scale2 = SS(centered)/(n - ddof) (or none), ddof]
ScaleFit(x, docenter, doscale, ddof) ==
  LET c == IF docenter THEN Mean(x) ELSE Zero
      xc == Centered(x, c)
  IN [center |-> c, hascenter |-> docenter, hasscale |-> doscale, ddof |-> ddof,
      scale2 |-> IF doscale THEN RDiv(SS(xc), R(Len(x) - ddof)) ELSE One]
\* applied value of row y: (y - center) / sqrt(scale2), returned as <<numerator, scale2>>
ScaleApply(st, y) == [i \in DOMAIN y |-> <<RSub(y[i], IF st.hascenter THEN st.center ELSE Zero), st.scale2>>]

(* polynomials as coefficient vectors <<c0, c1, ..., ck>> *)
RECURSIVE PowR(_, _)
PowR(x, k) == IF k = 0 THEN One ELSE RMul(x, PowR(x, k - 1))
EvalPoly(p, x) == RSum([k \in DOMAIN p |-> RMul(p[k], PowR(x, k - 1))])
PolyVec(p, xs) == [i \in DOMAIN xs |-> EvalPoly(p, xs[i])]
VDot(u, v) == RSum([i \in DOMAIN u |-> RMul(u[i], v[i])])
PAdd(p, q) == [k \in 1..(IF Len(p) > Len(q) THEN Len(p) ELSE Len(q)) |-> RAdd(IF k <= Len(p) THEN p[k] ELSE Zero, IF k <= Len(q) THEN q[k] ELSE Zero)]
PScale(p, s) == [k \in DOMAIN p |-> RMul(p[k], s)]
Monomial(k) == [j \in 1..(k + 1) |-> IF j = k + 1 THEN One ELSE Zero]
\* monic orthogonal polynomial of degree k w.r.t. the inner product on the training points xs
RECURSIVE MonicPoly(_, _)
RECURSIVE SubProj(_, _, _, _)
MonicPoly(xs, k) == IF k = 0 THEN <<One>> ELSE SubProj(xs, Monomial(k), k, k - 1)
SubProj(xs, p, k, m) ==
  IF m < 0 THEN p
  ELSE LET pm == MonicPoly(xs, m)
           coef == RDiv(VDot(PolyVec(Monomial(k), xs), PolyVec(pm, xs)), VDot(PolyVec(pm, xs), PolyVec(pm, xs)))
       IN SubProj(xs, PAdd(p, PScale(pm, RNeg(coef))), k, m - 1)
Norm2(xs, k) == LET v == PolyVec(MonicPoly(xs, k), xs) IN VDot(v, v)
\* poly(x, degree): column k of row y is p_k(y) / sqrt(norm2_k): <<numerator, norm2>>
PolyApply(xs, degree, ys) == [i \in DOMAIN ys |-> [k \in 1..degree |-> <<EvalPoly(MonicPoly(xs, k), ys[i]), Norm2(xs, k)>>]]

(* laws *)
CenteredSumsToZero(x) == RSum(Centered(x, Mean(x))) = Zero
UnitVariance(x, ddof) == LET st == ScaleFit(x, TRUE, TRUE, ddof) IN
   IsZero(st.scale2) \/ RDiv(SS(Centered(x, st.center)), st.scale2) = R(Len(x) - ddof)      \* sum of squares of the scaled data = n - ddof
PolyOrthogonal(xs, degree) ==
   /\ \A k \in 1..degree : RSum(PolyVec(MonicPoly(xs, k), xs)) = Zero
   /\ \A j, k \in 1..degree : j # k => VDot(PolyVec(MonicPoly(xs, j), xs), PolyVec(MonicPoly(xs, k), xs)) = Zero
   /\ \A k \in 1..degree : MonicPoly(xs, k)[k + 1] = One            \* monic: same span as the raw powers, degree by degree
Distinct(xs) == Cardinality({xs[i] : i \in DOMAIN xs})

RECURSIVE IPow(_, _)
IPow(b, k) == IF k = 0 THEN 1 ELSE b * IPow(b, k - 1)

(* elementwise functions preloaded into every formula (transforms/__init__.py: exp10, exp2, log10, log2) on INTEGER arguments of either  *)
(* sign: b^k is the exact rational b^k (k >= 0) or 1 / b^-k (k < 0) - never "the power taken in the argument's own integer type", which   *)
(* has no value for k < 0 and wraps for large k.  Exp is defined up to 32-bit magnitudes; beyond them b^k is carried as the sequence of   *)
(* factors b^c (|c| <= chunk, all of the sign of k, exponents summing to k) whose product - taken by the harness in unbounded integers -  *)
(* is the value; the decomposition is licensed by the homomorphism law ExpHom.                                                           *)
Exp(b, k) == IF k >= 0 THEN <<IPow(b, k), 1>> ELSE <<1, IPow(b, -k)>>
RECURSIVE ExpChunks(_, _)
ExpChunks(k, chunk) == IF Abs(k) <= chunk THEN <<k>> ELSE LET c == IF k > 0 THEN chunk ELSE -chunk IN <<c>> \o ExpChunks(k - c, chunk)
ExpFactors(b, k, chunk) == LET ch == ExpChunks(k, chunk) IN [i \in DOMAIN ch |-> Exp(b, ch[i])]
\* the logarithm to base b as the inverse by search: the k with b^k = r (unique because Exp is strictly increasing: ExpMonotone)
LogB(b, r, bound) == CHOOSE k \in -bound..bound : Exp(b, k) = r
RECURSIVE ISum(_)
ISum(s) == IF s = <<>> THEN 0 ELSE Head(s) + ISum(Tail(s))
ExpHom(b, k, bound) == \A j \in -bound..bound : Abs(j + k) <= bound => Exp(b, j + k) = RMul(Exp(b, j), Exp(b, k))
ExpReciprocal(b, k) == Exp(b, -k) = RDiv(One, Exp(b, k))
ExpMonotone(b, k) == RLt(Exp(b, k), Exp(b, k + 1)) /\ RMul(Exp(b, k), R(b)) = Exp(b, k + 1)
ChunksSound(k, chunk) == LET ch == ExpChunks(k, chunk) IN ISum(ch) = k /\ \A i \in DOMAIN ch : Abs(ch[i]) <= chunk /\ (ch[i] < 0 <=> k < 0) /\ (ch[i] = 0 => k = 0)
=============================================================================
