----------------------------- MODULE Materialize -----------------------------
(***************************************************************************)
(* The materializer pipeline (materializers/base.py, pandas.py,            *)
(* transforms/contrasts.py) on abstract data with exact integer cells.     *)
(*                                                                         *)
(* Frame  : [n, cols] ; cols : column name -> [kind, num, cat, nulls, lv]  *)
(*   kind  "num" | "cat"                                                   *)
(*   num   sequence of integers (numeric column)                           *)
(*   cat   sequence of level names (categorical column)                    *)
(*   nulls set of (1-based) row positions holding a null                   *)
(*   lv    the level universe in encoding order (sorted order for text,    *)
(*         declared order for a categorical dtype); declared = TRUE means  *)
(*         all of lv are levels even when unobserved                       *)
(* Factor : [e, kind, col, contr, lit]                                     *)
(*   e     expression text (also the column-name stem)                     *)
(*   kind  "num" | "cat" | "lit"                                           *)
(*   col   data column read; contr in {"treatment","sas","sum","helmert"}  *)
(*   lit   integer value of a literal factor                               *)
(* Term   : sequence of factors ; formula : sequence of terms              *)
(* Options: [full_rank, na \in {"drop","raise","ignore"}, cluster]         *)
(* DOC marks documented behaviour where the pinned code deviated.          *)
(***************************************************************************)
EXTENDS Integers, Sequences, FiniteSets

NAN == -7777777                      \* the null cell (only under na = "ignore")
Mul(a, b) == IF a = NAN \/ b = NAN THEN NAN ELSE a * b

Range(s) == {s[i] : i \in DOMAIN s}
RECURSIVE FlatMapM(_, _)
FlatMapM(F(_), s) == IF s = <<>> THEN <<>> ELSE F(Head(s)) \o FlatMapM(F, Tail(s))
RECURSIVE JoinS(_, _)
JoinS(ss, sep) == IF ss = <<>> THEN "" ELSE IF Len(ss) = 1 THEN ss[1] ELSE ss[1] \o sep \o JoinS(Tail(ss), sep)
SeqOfSet(S, order) == SelectSeq(order, LAMBDA x : x \in S)      \* the elements of S in the order of `order`

(* ------------------------------------------------------------------ *)
(* rows: null discovery and the drop set (C06)                         *)
(* ------------------------------------------------------------------ *)
FactorsOf(formula) == FlatMapM(LAMBDA t : t, formula)
DataFactors(formula) == SelectSeq(FactorsOf(formula), LAMBDA f : f.kind # "lit")
NullsOf(frame, f) == frame.cols[f.col].nulls
AllNulls(frame, formulas) == UNION {NullsOf(frame, f) : f \in UNION {Range(DataFactors(formulas[i])) : i \in DOMAIN formulas}}
\* drop set after evaluation (1-based positions): caller's rows plus, under "drop", every null row of every evaluated factor
DropSet(frame, formulas, na, drop0) == IF na = "drop" THEN drop0 \cup AllNulls(frame, formulas) ELSE drop0
Kept(frame, drop) == SelectSeq([i \in 1..frame.n |-> i], LAMBDA i : i \notin drop)
RaiseFails(frame, formulas, na) == na = "raise" /\ AllNulls(frame, formulas) # {}

(* ------------------------------------------------------------------ *)
(* encoding of one factor on the kept rows                             *)
(* ------------------------------------------------------------------ *)
\* levels: recorded ones when a spec is reused (rec # <<>>); else declared, or the universe filtered to the
\* values observed on the KEPT rows
Levels(frame, f, kept, rec) ==
  LET c == frame.cols[f.col] IN
  IF rec # <<>> THEN rec
  ELSE IF c.declared THEN c.lv
  ELSE SelectSeq(c.lv, LAMBDA l : \E i \in DOMAIN kept : kept[i] \notin c.nulls /\ c.cat[kept[i]] = l)

IndexIn(s, x) == IF \E i \in DOMAIN s : s[i] = x THEN CHOOSE i \in DOMAIN s : s[i] = x ELSE 0

\* coding matrix entry for level index i (1..n) and reduced column j (1..n-1); integers only
Coding(contr, n, i, j) ==
  CASE contr = "treatment" -> IF i = j + 1 THEN 1 ELSE 0
    [] contr = "sas"       -> IF i = j THEN 1 ELSE 0
    [] contr = "sum"       -> IF i = n THEN -1 ELSE IF i = j THEN 1 ELSE 0
    [] contr = "helmert"   -> IF i <= j THEN -1 ELSE IF i = j + 1 THEN j ELSE 0
ReducedLevelName(contr, levels, j) ==
  CASE contr = "treatment" -> levels[j + 1]
    [] contr = "sas"       -> levels[j]
    [] contr = "sum"       -> levels[j]
    [] contr = "helmert"   -> levels[j + 1]
Prefix(contr) == CASE contr \in {"treatment", "sas"} -> "T." [] contr = "sum" -> "S." [] contr = "helmert" -> "H."

\* one encoded column: [name, vals] with vals over the kept rows
Col(name, vals) == [name |-> name, vals |-> vals]

\* a stateful numeric transform with a recorded shift (center): the recorded statistic is part of the factor
ShiftOf(f) == IF "shift" \in DOMAIN f THEN f.shift ELSE 0
\* a python factor multiplying the same stateful call with itself (I(center(a) * center(a))): every
\* occurrence of the call shares the one recorded statistic
PowOf(f) == IF "pw" \in DOMAIN f THEN f.pw ELSE 1
RECURSIVE IPow(_, _)
IPow(x, n) == IF n = 0 THEN 1 ELSE x * IPow(x, n - 1)
EncodeNum(frame, f, kept) ==
  LET c == frame.cols[f.col] IN
  << Col(f.e, [i \in DOMAIN kept |-> IF kept[i] \in c.nulls THEN NAN ELSE IPow(c.num[kept[i]] - ShiftOf(f), PowOf(f))]) >>

\* a null (or unseen) value is the all-zero row of the indicator matrix
EncodeCat(frame, f, kept, reduced, rec) ==
  LET c == frame.cols[f.col]
      lv == Levels(frame, f, kept, rec)
      n == Len(lv)
      li(r) == IF kept[r] \in c.nulls THEN 0 ELSE IndexIn(lv, c.cat[kept[r]])
  IN IF ~reduced
     THEN [j \in 1..n |-> Col(f.e \o "[" \o lv[j] \o "]", [r \in DOMAIN kept |-> IF li(r) = j THEN 1 ELSE 0])]
     ELSE IF n <= 1 THEN <<>>
     ELSE [j \in 1..(n - 1) |-> Col(f.e \o "[" \o Prefix(f.contr) \o ReducedLevelName(f.contr, lv, j) \o "]",
                                    [r \in DOMAIN kept |-> IF li(r) = 0 THEN 0 ELSE Coding(f.contr, n, li(r), j)])]

Encode(frame, f, kept, reduced, rec) ==
  IF f.kind = "num" THEN EncodeNum(frame, f, kept) ELSE EncodeCat(frame, f, kept, reduced, rec)

\* levels unseen at fit time present in the (kept) new data: announced with a DataMismatchWarning
Unseen(frame, f, kept, rec) ==
  f.kind = "cat" /\ rec # <<>> /\
  \E i \in DOMAIN kept : kept[i] \notin frame.cols[f.col].nulls /\ IndexIn(rec, frame.cols[f.col].cat[kept[i]]) = 0

(* row-wise Kronecker product: first factor varies fastest, names joined by ":" *)
RECURSIVE Kron(_, _)
Kron(encs, nrows) ==        \* encs: sequence of encoded factors (each a sequence of columns)
  IF encs = <<>> THEN << Col("", [r \in 1..nrows |-> 1]) >>
  ELSE LET rest == Kron(Tail(encs), nrows)
           first == Head(encs)
       IN FlatMapM(LAMBDA rc : [k \in DOMAIN first |->
                        Col(IF rc.name = "" THEN first[k].name ELSE first[k].name \o ":" \o rc.name,
                            [r \in 1..nrows |-> Mul(first[k].vals[r], rc.vals[r])])], rest)

(* ------------------------------------------------------------------ *)
(* rank reduction (C03): _get_scoped_terms and friends                 *)
(* ------------------------------------------------------------------ *)
SF(f, red) == [f |-> f, red |-> red]                   \* scoped factor: factor expression + reduced flag
ST(fs, scale) == [fs |-> fs, scale |-> scale]          \* scoped term
KeyOf(st) == {<<st.fs[i].f, st.fs[i].red>> : i \in DOMAIN st.fs}

RECURSIVE ProdLits(_)
ProdLits(fs) == IF fs = <<>> THEN 1 ELSE (IF Head(fs).kind = "lit" THEN Head(fs).lit ELSE 1) * ProdLits(Tail(fs))

\* all sub-terms spanned by a term: product over its factors of {reduced, absent} (categorical) / {full} (numerical);
\* first factor slowest, "present" before "absent"; duplicates (by key) dropped
RECURSIVE SpanChoices(_)
SpanChoices(fs) ==
  IF fs = <<>> THEN << <<>> >>
  ELSE LET rest == SpanChoices(Tail(fs)) f == Head(fs) IN
       IF f.kind = "lit" THEN rest
       ELSE IF f.kind = "cat" THEN [i \in DOMAIN rest |-> <<SF(f.e, TRUE)>> \o rest[i]] \o rest
       ELSE [i \in DOMAIN rest |-> <<SF(f.e, FALSE)>> \o rest[i]]
RECURSIVE DedupST(_, _)
DedupST(sts, seen) == IF sts = <<>> THEN <<>>
                      ELSE IF KeyOf(Head(sts)) \in seen THEN DedupST(Tail(sts), seen)
                      ELSE <<Head(sts)>> \o DedupST(Tail(sts), seen \cup {KeyOf(Head(sts))})
DedupFs(fs) == LET idx == SelectSeq([i \in DOMAIN fs |-> i], LAMBDA i : \A j \in 1..(i - 1) : fs[j] # fs[i]) IN [k \in DOMAIN idx |-> fs[idx[k]]]
Span(term) == LET sc == ProdLits(term) IN DedupST([i \in DOMAIN SpanChoices(term) |-> ST(DedupFs(SpanChoices(term)[i]), sc)], {})

\* stable sort by number of factors
RECURSIVE InsBySize(_, _)
InsBySize(sorted, st) == IF sorted = <<>> THEN <<st>>
                         ELSE IF Len(Head(sorted).fs) <= Len(st.fs) THEN <<Head(sorted)>> \o InsBySize(Tail(sorted), st) ELSE <<st>> \o sorted
RECURSIVE SortBySize(_)
SortBySize(sts) == IF sts = <<>> THEN <<>> ELSE InsBySize(SortBySize(SubSeq(sts, 1, Len(sts) - 1)), sts[Len(sts)])

\* the greedy rule  (x):(reduced) + (x)  |->  (x):(full), re-simplifying the whole list after every application.
\* DOC: the recombined term carries the literal scale of the term once (the pinned code multiplied the two scales).
RECURSIVE Simplify(_)
RECURSIVE SimplifyFold(_, _)
Simplify(sts) == SimplifyFold(<<>>, SortBySize(sts))
SimplifyFold(terms, todo) ==
  IF todo = <<>> THEN terms
  ELSE LET st == Head(todo)
           \* existing terms that differ from st by exactly one factor of st, and that factor is a reduced one
           cands == SelectSeq([i \in DOMAIN terms |-> i], LAMBDA i :
                       /\ Cardinality(KeyOf(st)) - 1 = Cardinality(KeyOf(terms[i]))
                       /\ Cardinality(KeyOf(st) \ KeyOf(terms[i])) = 1
                       /\ \A p \in KeyOf(st) \ KeyOf(terms[i]) : p[2])
       IN IF cands = <<>> THEN SimplifyFold(Append(terms, st), Tail(todo))
          ELSE LET e == terms[cands[1]]
                   new == CHOOSE p \in KeyOf(st) \ KeyOf(e) : TRUE
                   merged == ST([i \in DOMAIN st.fs |-> IF st.fs[i].f = new[1] /\ st.fs[i].red THEN SF(new[1], FALSE) ELSE st.fs[i]], st.scale)
                   others == SelectSeq(terms, LAMBDA x : KeyOf(x) # KeyOf(e))
               IN SimplifyFold(Simplify(Append(others, merged)), Tail(todo))

\* one step of _get_scoped_terms for a term, given the set of keys already spanned
ScopeTerm(term, spanned, full_rank) ==
  IF ~full_rank
  THEN [sts |-> << ST(DedupFs([i \in DOMAIN SelectSeq(term, LAMBDA f : f.kind # "lit") |->
                                   SF(SelectSeq(term, LAMBDA f : f.kind # "lit")[i].e, FALSE)]), ProdLits(term)) >>,      \* DOC: scale applied
        spanned |-> spanned]
  ELSE LET new == SelectSeq(Span(term), LAMBDA st : KeyOf(st) \notin spanned) IN
       [sts |-> Simplify(new), spanned |-> spanned \cup {KeyOf(new[i]) : i \in DOMAIN new}]

RECURSIVE ScopeAll(_, _, _)
ScopeAll(terms, spanned, full_rank) ==
  IF terms = <<>> THEN <<>>
  ELSE LET r == ScopeTerm(Head(terms), spanned, full_rank) IN <<r.sts>> \o ScopeAll(Tail(terms), r.spanned, full_rank)

\* cluster_by = "numerical_factors": terms grouped by their tuple of numerical factors, clusters in first-appearance order
NumKey(term) == [i \in DOMAIN SelectSeq(term, LAMBDA f : f.kind = "num") |-> SelectSeq(term, LAMBDA f : f.kind = "num")[i].e]
RECURSIVE ClusterKeys(_, _)
ClusterKeys(terms, seen) == IF terms = <<>> THEN <<>>
                            ELSE IF NumKey(Head(terms)) \in seen THEN ClusterKeys(Tail(terms), seen)
                            ELSE <<NumKey(Head(terms))>> \o ClusterKeys(Tail(terms), seen \cup {NumKey(Head(terms))})
Cluster(terms, on) == IF ~on THEN terms
                      ELSE FlatMapM(LAMBDA k : SelectSeq(terms, LAMBDA t : NumKey(t) = k), ClusterKeys(terms, {}))

(* ------------------------------------------------------------------ *)
(* columns of a term; the whole matrix                                 *)
(* ------------------------------------------------------------------ *)
FactorByExpr(term, e) == term[CHOOSE i \in DOMAIN term : term[i].e = e]
\* recorded levels of a factor when a spec is reused: function expression -> levels, <<>> when building afresh
RecFor(rec, e) == IF e \in DOMAIN rec THEN rec[e] ELSE <<>>

ScopedCols(frame, term, st, kept, rec) ==
  IF st.fs = <<>> THEN << Col("Intercept", [r \in DOMAIN kept |-> st.scale]) >>
  ELSE LET encs == [i \in DOMAIN st.fs |-> Encode(frame, FactorByExpr(term, st.fs[i].f), kept, st.fs[i].red, RecFor(rec, st.fs[i].f))]
           k == Kron(encs, Len(kept))
       IN [j \in DOMAIN k |-> Col(k[j].name, [r \in DOMAIN kept |-> Mul(st.scale, k[j].vals[r])])]

TermCols(frame, term, sts, kept, rec) == FlatMapM(LAMBDA st : ScopedCols(frame, term, st, kept, rec), sts)

\* Build one matrix: formula (sequence of terms), on the kept rows
BuildOn(frame, formula, opts, kept, rec, structure) ==
  LET terms == Cluster(formula, opts.cluster)
      scoped == IF structure # <<>> THEN structure ELSE ScopeAll(terms, {}, opts.full_rank)
      percol == [t \in DOMAIN terms |-> TermCols(frame, terms[t], scoped[t], kept, rec)]
  IN [terms |-> terms, scoped |-> scoped, percol |-> percol]

Names(b) == FlatMapM(LAMBDA cols : [j \in DOMAIN cols |-> cols[j].name], b.percol)
Cells(b, nrows) == LET cols == FlatMapM(LAMBDA c : c, b.percol) IN [r \in 1..nrows |-> [j \in DOMAIN cols |-> cols[j].vals[r]]]
Slices(b) == [t \in DOMAIN b.percol |-> Len(b.percol[t])]
ScopedOut(b) == [t \in DOMAIN b.scoped |-> [q \in DOMAIN b.scoped[t] |->
                   [s \in DOMAIN b.scoped[t][q].fs |-> <<b.scoped[t][q].fs[s].f, IF b.scoped[t][q].fs[s].red THEN "reduced" ELSE "full">>]]]
LevelsUsed(frame, formula, kept) ==       \* what a spec records for its categorical factors
  LET fs == SelectSeq(FactorsOf(formula), LAMBDA f : f.kind = "cat") IN
  [e \in {fs[i].e : i \in DOMAIN fs} |-> Levels(frame, fs[CHOOSE i \in DOMAIN fs : fs[i].e = e], kept, <<>>)]
=============================================================================
