---------------------------- MODULE LayeredHeap ----------------------------
(***************************************************************************)
(* LayeredMapping.tla treats a layer as a *value*: the stack under test is  *)
(* the only object that ever changes.  In the library a layer is a           *)
(* *reference*: `parent.with_layers(d)` and `LayeredMapping(d, parent)` hold *)
(* the parent object itself, so the child is the top-first merge of what its *)
(* layers hold *when it is read* - also after the parent was written to, or  *)
(* grown in place, or after the owner of a plain dict changed it.            *)
(* This module is the object graph: a heap (sequence of objects, the index   *)
(* is the identity) of plain dicts and layered mappings whose layers are     *)
(* heap indices.                                                              *)
(*   dict : [kind |-> "dict", mut |-> its content, ...]                      *)
(*   lm   : [kind |-> "lm", name, mut |-> private layer,                     *)
(*           given  |-> the layers it was handed (ghost: what the law is     *)
(*                      stated over),                                        *)
(*           layers |-> what __filter_layers stored (what the code reads)]   *)
(* Variant = "code"   : __filter_layers keeps the references (layers=given). *)
(* Variant = "splice" : seeded design error that TLC must refute: an unnamed *)
(*   nested mapping without local writes is replaced by its own layers at    *)
(*   construction ("keep lookup chains shallow"), i.e. snapshotted.          *)
(* The heap is acyclic by construction (an object only ever receives older   *)
(* objects or fresh plain dicts), so the recursions below terminate.         *)
(***************************************************************************)
EXTENDS Integers, Sequences, FiniteSets
CONSTANT Variant
LM == INSTANCE LayeredMapping

DictObj(m) == [kind |-> "dict", name |-> "", mut |-> m, given |-> <<>>, layers |-> <<>>]
LmObj(name, mut, given, layers) == [kind |-> "lm", name |-> name, mut |-> mut, given |-> given, layers |-> layers]
IsLm(h, i) == h[i].kind = "lm"

\* LayeredMapping.__filter_layers (None layers are a matter of the caller: the driver interleaves them)
RECURSIVE Filter(_, _)
Filter(h, ids) ==
  IF ids = <<>> THEN <<>>
  ELSE LET o == h[Head(ids)] IN
       (IF Variant = "splice" /\ o.kind = "lm" /\ o.name = "" /\ o.mut = <<>> THEN o.layers ELSE <<Head(ids)>>) \o Filter(h, Tail(ids))
New(h, name, ids) == LmObj(name, <<>>, ids, Filter(h, ids))

\* what the code searches: [self._mutations, *self._layers], nested mappings searched the same way
RECURSIVE FlatMaps(_, _), FlatAll(_, _)
FlatMaps(h, id) == IF h[id].kind = "dict" THEN <<h[id].mut>> ELSE <<h[id].mut>> \o FlatAll(h, h[id].layers)
FlatAll(h, ids) == IF ids = <<>> THEN <<>> ELSE FlatMaps(h, Head(ids)) \o FlatAll(h, Tail(ids))

\* top-first dictionary merge of plain mappings, keys in order of first appearance
Merge(maps) == LET ks == LM!IterKeys(maps, {}) IN [i \in DOMAIN ks |-> <<ks[i], LM!FirstWith(maps, ks[i])[1]>>]
CodeItems(h, id) == Merge(FlatMaps(h, id))                        \* items() as __iter__ / __getitem__ compute them
CodeLen(h, id) == LET ms == FlatMaps(h, id) IN Cardinality(UNION {{LM!KeysOf(ms[j])[i] : i \in DOMAIN ms[j]} : j \in DOMAIN ms})
CodeLookup(h, id, k) == LM!FirstWith(FlatMaps(h, id), k)

\* the law: a mapping IS the top-first merge of its private layer and of what each layer it was given holds now
RECURSIVE LawItems(_, _)
LawItems(h, id) ==
  IF h[id].kind = "dict" THEN h[id].mut
  ELSE Merge(<<h[id].mut>> \o [i \in DOMAIN h[id].given |-> LawItems(h, h[id].given[i])])

(* operations; o, a, b, d are heap indices *)
SetItem(h, o, k, v) == [h EXCEPT ![o].mut = LM!Put(@, k, v)]      \* lm[k] = v  and, on a dict, its owner's d[k] = v
CanDel(h, o, k) == LM!Has(h[o].mut, k)
DelItem(h, o, k) == [h EXCEPT ![o].mut = LM!Remove(@, k)]
\* child = h[o].with_layers(extra, prepend, name)  /  LayeredMapping(extra, h[o], name): a fresh dict and the child are allocated
Derive(h, o, extra, mode, name) ==
  LET h1 == Append(h, DictObj(extra))
      d == Len(h1) IN
  Append(h1, New(h1, name, IF mode = "append" THEN <<o, d>> ELSE <<d, o>>))
\* LayeredMapping(h[a], h[b])
Join(h, a, b) == Append(h, New(h, "", <<a, b>>))
\* h[o].with_layers(extra, prepend, inplace=True): a fresh dict is allocated, o keeps its identity (and loses its name)
Grow(h, o, extra, prepend) ==
  LET h1 == Append(h, DictObj(extra))
      d == Len(h1) IN
  [h1 EXCEPT ![o].given = IF prepend THEN <<d>> \o @ ELSE Append(@, d),
             ![o].layers = IF prepend THEN Filter(h1, <<d>>) \o @ ELSE @ \o Filter(h1, <<d>>),
             ![o].name = ""]

(* laws *)
MergeLaw(h) == \A id \in DOMAIN h : IsLm(h, id) =>
   LET ci == CodeItems(h, id) IN
   /\ ci = LawItems(h, id)
   /\ CodeLen(h, id) = Len(ci)
   /\ Cardinality({ci[i][1] : i \in DOMAIN ci}) = Len(ci)                  \* no key is iterated twice
LookupLaw(h, keys) == \A id \in DOMAIN h : IsLm(h, id) =>
   LET li == LawItems(h, id)
       ms == FlatMaps(h, id) IN
   \A k \in keys : LET hit == {i \in DOMAIN li : li[i][1] = k} IN
                    LM!FirstWith(ms, k) = IF hit = {} THEN <<>> ELSE <<li[CHOOSE i \in hit : TRUE][2]>>
\* the recursions above terminate: a layer is an older object, or a plain dict (which has no layers)
WellFounded(h) == \A id \in DOMAIN h : \A f \in {"given", "layers"} : \A i \in DOMAIN h[id][f] :
   h[id][f][i] \in DOMAIN h /\ (h[id][f][i] < id \/ h[h[id][f][i]].kind = "dict")
=============================================================================
