--------------------------- MODULE MC_ContrastsOrder ---------------------------
(***************************************************************************)
(* C11, the order clauses: "the matrices equal the standard definitions"   *)
(* row by row (row i belongs to level i, also when the scores of a         *)
(* polynomial coding are not written in increasing order) and "honouring   *)
(* the chosen reference level and explicit level lists" also when the data *)
(* arrive in a carrier that has a category order of its own.               *)
(* Two families, enumerated exhaustively within the bounds:                *)
(*   polyorder : every score set of MC_Contrasts (and unevenly spaced      *)
(*               ones) in EVERY order of writing                           *)
(*   carrier   : every coding x every arrangement of every non-empty       *)
(*               subset of the nominated levels as the carrier's own       *)
(*               category list x two code vectors (every category; null)   *)
(* Variant = "code" is the specification; "sorted-scores" and              *)
(* "trust-carrier" are design errors (Contrasts.tla) that TLC must refute  *)
(* on these very families - otherwise the families are vacuous.            *)
(* A module of its own: MC_Contrasts is also run by C05, whose cfg cannot  *)
(* name a new constant.                                                    *)
(***************************************************************************)
EXTENDS Integers, Sequences, FiniteSets, TLC, TLCExt, Json, CSV, IOUtils, SequencesExt
CONSTANTS MaxN, MaxPolyN, Emit, Variant
C == INSTANCE Contrasts
M == INSTANCE MC_Contrasts WITH kind <- "none", n <- 0, o <- 0, scores <- <<>>, li <- <<>>      \* its option / score families, not its state

Injective(s) == \A i, j \in DOMAIN s : i # j => s[i] # s[j]
Perms(k) == {s \in [1..k -> 1..k] : Injective(s)}
Arrangements(k) == {s \in UNION {[1..m -> 1..k] : m \in 1..k} : Injective(s)}
\* unevenly spaced scores: sorting them is not a re-labelling symmetry of the matrix (for equidistant scores reversal only flips signs of odd columns)
BaseScores(k) == M!ScoreSets(k) \cup (IF k = 3 THEN { <<C!R(0), C!R(1), C!R(3)>> } ELSE {}) \cup (IF k = 4 THEN { <<C!R(1), C!R(2), C!R(4), C!R(8)>> } ELSE {})

\* every category of the carrier once and a null; and every category in descending order with a repeat (all data vectors over the levels are in MC_Contrasts)
CodeVectors(L) == { [i \in 1..(L + 1) |-> IF i <= L THEN i ELSE 0], [i \in 1..(L + 1) |-> IF i <= L THEN L + 1 - i ELSE L] }
VARIABLES kind, n, o, scores, own, codes      \* polyorder: own = the order of writing (a permutation of the positions of `scores`)
vars == <<kind, n, o, scores, own, codes>>
Written == [i \in DOMAIN scores |-> scores[own[i]]]

PolyOrderLaws == (kind = "polyorder") =>
  /\ C!PolyOrthogonal(Written)
  /\ C!PolyLinearIsCentred(Variant, Written)
  /\ C!PolyRowsFollowScores(Variant, scores, own)
CarrierLaws == (kind = "carrier") =>
  /\ C!CarrierOrderIrrelevant(Variant, o, n, own, codes)
  /\ C!CarrierReferenceLevel(Variant, o, n, own, codes)

Out == IOEnv.OUT_FILE
EmitCase == Emit =>
  CASE kind = "polyorder" -> CSVWrite("%1$s", <<ToJson([kind |-> "poly", n |-> Len(scores), scores |-> Written, monic |-> C!PolyMonicV(Variant, Written), norm2 |-> C!PolyNorm2(Written)])>>, Out)
    [] kind = "carrier" -> CSVWrite("%1$s", <<ToJson([kind |-> kind, n |-> n, o |-> o, own |-> own, codes |-> codes, li |-> C!CarrierLevels(own, codes),
                                      reduced |-> C!EncodeCarrierReduced(Variant, o, n, own, codes), full |-> C!EncodeCarrierFull(Variant, n, own, codes),
                                      collevels |-> [j \in 1..(n - 1) |-> C!ColLevel(o, n, j)], prefix |-> C!Prefix(o)])>>, Out)

Init == \/ /\ kind = "polyorder" /\ n \in 2..MaxPolyN /\ scores \in BaseScores(n) /\ own \in Perms(n) /\ o = M!O("poly", 0, TRUE, FALSE, TRUE) /\ codes = <<>>
        \/ /\ kind = "carrier" /\ n \in 1..MaxN /\ o \in M!OptsFor(n) /\ scores = <<>> /\ own \in Arrangements(n) /\ codes \in CodeVectors(Len(own))
Next == UNCHANGED vars
Spec == Init /\ [][Next]_vars
=============================================================================
