------------------------------ MODULE Calculus ------------------------------
(***************************************************************************)
(* Term-wise differentiation of formulas (utils/calculus.py, without       *)
(* sympy): each term is a product of distinct factors; d/dv removes the    *)
(* factor v, gives the literal term 0 when v does not occur and the        *)
(* literal term 1 when nothing remains; several variables are applied      *)
(* successively; the number and order of terms is preserved.               *)
(***************************************************************************)
EXTENDS Integers, Sequences, FiniteSets, TermAlgebra

ZeroTerm == <<LitFac("0", TRUE, 0)>>
OneTerm == <<LitFac("1", TRUE, 1)>>

RECURSIVE DFactors(_, _)
DFactors(fs, wrt) ==       \* [zero : BOOLEAN, fs : remaining factors]
  IF wrt = <<>> THEN [zero |-> FALSE, fs |-> fs]
  ELSE IF \E i \in DOMAIN fs : fs[i].e = Head(wrt)
       THEN DFactors(SelectSeq(fs, LAMBDA f : f.e # Head(wrt)), Tail(wrt))
       ELSE [zero |-> TRUE, fs |-> <<>>]

DTerm(t, wrt) == LET r == DFactors(t, wrt) IN
                 IF r.zero THEN ZeroTerm ELSE IF r.fs = <<>> THEN OneTerm ELSE r.fs
DFormula(ts, wrt) == [i \in DOMAIN ts |-> DTerm(ts[i], wrt)]

(* the numeric meaning of a multilinear term on a row of integer data *)
RECURSIVE ColAt(_, _)
ColAt(t, row) ==           \* row: function name -> Int
  IF t = <<>> THEN 1
  ELSE (IF IsLiteral(Head(t)) THEN Head(t).ival ELSE row[Head(t).e]) * ColAt(Tail(t), row)

\* exact finite-difference law for a variable that occurs in the term
FiniteDifference(t, v, row, h) ==
  (\E i \in DOMAIN t : t[i].e = v) =>
     h * ColAt(DTerm(t, <<v>>), row) = ColAt(t, [row EXCEPT ![v] = @ + h]) - ColAt(t, row)
Compositional(t, u, v) == DTerm(t, <<u, v>>) = DTerm(DTerm(t, <<u>>), <<v>>)

(***************************************************************************)
(* The FORMULA level (SimpleFormula.differentiate, StructuredFormula.      *)
(* differentiate).  A structured formula is a sequence of parts, each a    *)
(* term list (lhs ~ rhs, a | b | c, keyword parts); its derivative keeps   *)
(* the parts and differentiates every part with respect to the SAME tuple. *)
(* A factor is matched by its expression alone: neither its eval method    *)
(* (a python factor I(x) is a factor like any other) nor what the formula  *)
(* reports as the variables it requires from the data plays a role.        *)
(* Design errors TLC must refute (OutputLaw fails under them):             *)
(*   "required": a fast path - if some differentiation variable is not     *)
(*               among the variables the formula requires (req), every     *)
(*               term is 0.  Wrong, because the required variables leave   *)
(*               out names that may resolve without data (a column called  *)
(*               like a transform) and hold the names INSIDE python        *)
(*               factors, not the factors.                                 *)
(*   "consumed": the tuple of variables is an iterator shared by the       *)
(*               parts - the part visited first exhausts it, the others    *)
(*               are differentiated with respect to nothing.               *)
(***************************************************************************)
Occurs(t, v) == \E i \in DOMAIN t : t[i].e = v
DFormulaV(variant, ts, wrt, req) ==        \* req: the set of names the formula reports as required
  IF variant = "required" /\ ~(Range(wrt) \subseteq req) THEN [i \in DOMAIN ts |-> ZeroTerm] ELSE DFormula(ts, wrt)
DStructuredV(variant, parts, wrt, reqs) == \* reqs[k]: required names of part k
  [k \in DOMAIN parts |-> DFormulaV(variant, parts[k], IF variant = "consumed" /\ k > 1 THEN <<>> ELSE wrt, reqs[k])]

(***************************************************************************)
(* The ORDERING MODE of a formula (SimpleFormula(_ordering=...)): "degree" *)
(* (default: stable sort by degree), "none" (as written) and "sort" (the   *)
(* factors of every term sorted by expression, the terms by degree and     *)
(* then by their sorted factor lists).  The mode decides the order of the  *)
(* terms of the FORMULA; the derivative is the term-wise derivative IN     *)
(* THAT ORDER, whatever the mode: term i of the derivative belongs to term *)
(* i of the formula (a derivative holds repeated terms - several 0s - and  *)
(* its degrees differ from the original's, so ordering it anew breaks the  *)
(* correspondence).  Rank(_): the position of a factor expression in the   *)
(* order of strings (TLC has no order on strings; the module that fixes    *)
(* the alphabet supplies it).                                              *)
(* Design error TLC must refute (OutputLaw fails under it):                *)
(*   "reordered": the derivative is put in the order of the formula's mode *)
(*               again (Reordered below).                                  *)
(***************************************************************************)
\* stable sort of a sequence by a strict weak order on its INDICES
SortIdx(s, Less(_, _)) ==
  LET n == Len(s)
      pos == [i \in 1..n |-> 1 + Cardinality({j \in 1..n : Less(j, i) \/ (~Less(i, j) /\ j < i)})]
  IN [p \in 1..n |-> s[CHOOSE i \in 1..n : pos[i] = p]]
LexLess(a, b) == \E k \in 1..(Len(a) + 1) :
                   /\ k <= Len(b) /\ \A j \in 1..(k - 1) : a[j] = b[j]
                   /\ (k > Len(a) \/ a[k] < b[k])
FactorSorted(Rank(_), t) == SortIdx(t, LAMBDA i, j : Rank(t[i].e) < Rank(t[j].e))
Ordered(mode, Rank(_), ts) ==
  CASE mode = "degree" -> SortByDegree(ts)
    [] mode = "none"   -> ts
    [] mode = "sort"   ->
         LET fs == [i \in DOMAIN ts |-> FactorSorted(Rank, ts[i])]
             deg == [i \in DOMAIN ts |-> Degree(fs[i])]
             key == [i \in DOMAIN ts |-> [j \in DOMAIN fs[i] |-> Rank(fs[i][j].e)]]
         IN SortIdx(fs, LAMBDA i, j : deg[i] < deg[j] \/ (deg[i] = deg[j] /\ LexLess(key[i], key[j])))
Reordered(variant, mode, Rank(_), d) == IF variant = "reordered" THEN Ordered(mode, Rank, d) ELSE d

(* what the property says about the OUTPUT D of differentiating the term list F with respect to wrt (<= 2 variables), in terms of  *)
(* the output alone: same number of terms; term i is 0 as soon as some variable does not occur in F[i] (or is taken twice: after   *)
(* the first step it no longer occurs); with respect to nothing it is F[i]; for one occurring variable it is the exact finite      *)
(* difference on integer rows; for two, the two steps in either order give it (each step judged by the clauses before).            *)
OutputLaw(F, D, wrt, rows) ==
  /\ Len(D) = Len(F)
  /\ \A i \in DOMAIN F :
       /\ wrt = <<>> => D[i] = F[i]
       /\ ((\E j \in DOMAIN wrt : ~Occurs(F[i], wrt[j])) \/ (Len(wrt) = 2 /\ wrt[1] = wrt[2])) => D[i] = ZeroTerm
       /\ (Len(wrt) = 1 /\ Occurs(F[i], wrt[1])) => \A r \in DOMAIN rows : \A h \in {1, 2} :
             h * ColAt(D[i], rows[r]) = ColAt(F[i], [rows[r] EXCEPT ![wrt[1]] = @ + h]) - ColAt(F[i], rows[r])
       /\ (Len(wrt) = 2 /\ wrt[1] # wrt[2] /\ Occurs(F[i], wrt[1]) /\ Occurs(F[i], wrt[2])) =>
             /\ D[i] # ZeroTerm
             /\ \A r \in DOMAIN rows : \A h \in {1, 2} :     \* the mixed second difference of a multilinear term
                  LET a == wrt[1]  b == wrt[2]  row == rows[r]
                      ra == [row EXCEPT ![a] = @ + h]  rb == [row EXCEPT ![b] = @ + h]  rab == [ra EXCEPT ![b] = @ + h] IN
                  h * h * ColAt(D[i], row) = ColAt(F[i], rab) - ColAt(F[i], ra) - ColAt(F[i], rb) + ColAt(F[i], row)
=============================================================================
