------------------------------ MODULE Calculus ------------------------------
(***************************************************************************)
(* Term-wise differentiation of formulas (utils/calculus.py, without       *)
(* sympy): each term is a product of distinct factors; d/dv removes the    *)
(* factor v, gives the literal term 0 when v does not occur and the        *)
(* literal term 1 when nothing remains; several variables are applied      *)
(* successively; the number and order of terms is preserved.               *)
(***************************************************************************)
EXTENDS Integers, Sequences, FiniteSets, TermAlgebra

ZeroTerm == <<LitFac("0", TRUE, 0)>>
OneTerm == <<LitFac("1", TRUE, 1)>>

RECURSIVE DFactors(_, _)
DFactors(fs, wrt) ==       \* [zero : BOOLEAN, fs : remaining factors]
  IF wrt = <<>> THEN [zero |-> FALSE, fs |-> fs]
  ELSE IF \E i \in DOMAIN fs : fs[i].e = Head(wrt)
       THEN DFactors(SelectSeq(fs, LAMBDA f : f.e # Head(wrt)), Tail(wrt))
       ELSE [zero |-> TRUE, fs |-> <<>>]

DTerm(t, wrt) == LET r == DFactors(t, wrt) IN
                 IF r.zero THEN ZeroTerm ELSE IF r.fs = <<>> THEN OneTerm ELSE r.fs
DFormula(ts, wrt) == [i \in DOMAIN ts |-> DTerm(ts[i], wrt)]

(* the numeric meaning of a multilinear term on a row of integer data *)
RECURSIVE ColAt(_, _)
ColAt(t, row) ==           \* row: function name -> Int
  IF t = <<>> THEN 1
  ELSE (IF IsLiteral(Head(t)) THEN Head(t).ival ELSE row[Head(t).e]) * ColAt(Tail(t), row)

\* exact finite-difference law for a variable that occurs in the term
FiniteDifference(t, v, row, h) ==
  (\E i \in DOMAIN t : t[i].e = v) =>
     h * ColAt(DTerm(t, <<v>>), row) = ColAt(t, [row EXCEPT ![v] = @ + h]) - ColAt(t, row)
Compositional(t, u, v) == DTerm(t, <<u, v>>) = DTerm(DTerm(t, <<u>>), <<v>>)
=============================================================================
