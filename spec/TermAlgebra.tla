--------------------------- MODULE TermAlgebra ---------------------------
(***************************************************************************)
(* The Wilkinson term algebra of formulaic (docs/guides/grammar.md and     *)
(* parser/types/term.py, ordered_set.py).                                  *)
(*                                                                         *)
(* A factor is a record [e |-> expression string, m |-> eval method, ...]; *)
(* two factors are the same factor iff their expressions are equal.  A     *)
(* term is a sequence of factors without repeated expressions, in order of *)
(* first appearance; its identity is the SET of its factor expressions.    *)
(* A term list is a sequence of terms without repeated identities          *)
(* ("ordered set").                                                        *)
(***************************************************************************)
EXTENDS Integers, Sequences, FiniteSets

Range(s) == {s[i] : i \in DOMAIN s}

\* num: the literal is a number; ival: its value when it is an integer literal, else -1
Fac(e, m) == [e |-> e, m |-> m, num |-> FALSE, ival |-> -1]
LitFac(e, num, ival) == [e |-> e, m |-> "literal", num |-> num, ival |-> ival]
Exprs(t) == {t[i].e : i \in DOMAIN t}           \* identity of a term
ExprSeq(t) == [i \in DOMAIN t |-> t[i].e]
NonLitExprs(t) == {t[i].e : i \in {j \in DOMAIN t : t[j].m # "literal"}}

RECURSIVE DedupFactors(_, _)
DedupFactors(fs, seen) ==
  IF fs = <<>> THEN <<>>
  ELSE IF Head(fs).e \in seen THEN DedupFactors(Tail(fs), seen)
       ELSE <<Head(fs)>> \o DedupFactors(Tail(fs), seen \cup {Head(fs).e})

MkTerm(fs) == DedupFactors(fs, {})               \* Term.__init__: dict.fromkeys(factors)
TMul(t, u) == MkTerm(t \o u)                     \* Term.__mul__
IsLiteral(f) == f.m = "literal"
Degree(t) == Cardinality({i \in DOMAIN t : ~IsLiteral(t[i])})

Keys(ts) == {Exprs(ts[i]) : i \in DOMAIN ts}

RECURSIVE DedupTerms(_, _)
DedupTerms(ts, seen) ==
  IF ts = <<>> THEN <<>>
  ELSE IF Exprs(Head(ts)) \in seen THEN DedupTerms(Tail(ts), seen)
       ELSE <<Head(ts)>> \o DedupTerms(Tail(ts), seen \cup {Exprs(Head(ts))})

OSet(ts) == DedupTerms(ts, {})                   \* OrderedSet(iterable of terms)
Union(a, b) == a \o DedupTerms(b, Keys(a))       \* a | b (a is already an ordered set)
Diff(a, b) == SelectSeq(a, LAMBDA t : Exprs(t) \notin Keys(b))   \* a - b

RECURSIVE FlatMap(_, _)
FlatMap(F(_), s) == IF s = <<>> THEN <<>> ELSE F(Head(s)) \o FlatMap(F, Tail(s))

\* all products l*r, l outer loop, r inner loop (itertools.product order)
Cross(a, b) == OSet(FlatMap(LAMBDA l : [j \in DOMAIN b |-> TMul(l, b[j])], a))

RECURSIVE ProdAll(_)
ProdAll(ts) == IF ts = <<>> THEN <<>> ELSE TMul(Head(ts), ProdAll(Tail(ts)))   \* reduce(mul, ts)

Star(a, b) == Union(OSet(a \o b), Cross(a, b))   \* a * b
\* a / b  (nested_product_expansion(parents = a, nested = b)); requires a # <<>>
Nest(a, b) == LET common == ProdAll(a) IN Union(a, OSet([j \in DOMAIN b |-> TMul(common, b[j])]))

RECURSIVE Power(_, _)
Power(a, n) == IF n = 1 THEN OSet(a) ELSE OSet(FlatMap(LAMBDA l : LET rest == Power(a, n - 1) IN
                                                   [j \in DOMAIN rest |-> TMul(l, rest[j])], a))

\* stable sort by degree (SimpleFormula._reorder with the default ordering)
RECURSIVE InsertByDegree(_, _)
InsertByDegree(sorted, t) ==
  IF sorted = <<>> THEN <<t>>
  ELSE IF Degree(Head(sorted)) <= Degree(t) THEN <<Head(sorted)>> \o InsertByDegree(Tail(sorted), t)
       ELSE <<t>> \o sorted
RECURSIVE SortByDegree(_)
SortByDegree(ts) == IF ts = <<>> THEN <<>>
                    ELSE InsertByDegree(SortByDegree(SubSeq(ts, 1, Len(ts) - 1)), ts[Len(ts)])

TermStrs(ts) == [i \in DOMAIN ts |-> ExprSeq(ts[i])]
TermMeths(ts) == [i \in DOMAIN ts |-> [j \in DOMAIN ts[i] |-> ts[i][j].m]]
=============================================================================
