------------------------------ MODULE Contrasts ------------------------------
(***************************************************************************)
(* The built-in contrast codings, each defined twice and independently:     *)
(*   Coding : the textbook coding matrix (closed formula in i, j, n)        *)
(*   Interp : the textbook interpretation, i.e. the rows of the coefficient *)
(*            matrix (what each regression coefficient estimates)           *)
(* "Standard" means the two are mutually inverse: [1 | Coding] . Interp = I *)
(* - decided by TLC in exact rationals, not assumed.                         *)
(* opts == [name, base (1-based level index, 0 = default), reverse, scale,   *)
(*          backward]                                                        *)
(***************************************************************************)
EXTENDS Integers, Sequences, FiniteSets, Rat, Mat

B2I(b) == IF b THEN 1 ELSE 0
BaseOf(o, n) == IF o.name = "sas" THEN (IF o.base = 0 THEN n ELSE o.base) ELSE (IF o.base = 0 THEN 1 ELSE o.base)
\* the level a reduced treatment column stands for
TLevel(o, n, j) == IF j < BaseOf(o, n) THEN j ELSE j + 1

Coding(o, n) ==      \* n x (n-1)
  Mk(n, n - 1, LAMBDA i, j :
    CASE o.name \in {"treatment", "sas"} -> R(B2I(i = TLevel(o, n, j)))
      [] o.name = "sum" -> IF i = n THEN R(-1) ELSE R(B2I(i = j))
      [] o.name = "helmert" ->
           IF o.reverse
           THEN LET v == IF i <= j THEN R(-1) ELSE IF i = j + 1 THEN R(j) ELSE Zero IN IF o.scale THEN RDiv(v, R(j + 1)) ELSE v
           ELSE LET v == IF i = j THEN R(n - j) ELSE IF i > j THEN R(-1) ELSE Zero IN IF o.scale THEN RDiv(v, R(n - j + 1)) ELSE v
      [] o.name = "diff" ->
           LET v == RSub(Norm(j, n), R(B2I(i <= j))) IN IF o.backward THEN v ELSE RNeg(v))

MeanRow(n, lo, hi) == [k \in 1..n |-> IF k >= lo /\ k <= hi THEN Norm(1, hi - lo + 1) ELSE Zero]
E(n, l) == [k \in 1..n |-> R(B2I(k = l))]
VSub(u, v) == [k \in DOMAIN u |-> RSub(u[k], v[k])]
VScale(u, q) == [k \in DOMAIN u |-> RMul(u[k], q)]

Interp(o, n) ==      \* n x n : row 1 is the intercept's meaning, row j+1 the meaning of reduced column j
  [r \in 1..n |->
    IF r = 1
    THEN (IF o.name \in {"treatment", "sas"} THEN E(n, BaseOf(o, n)) ELSE MeanRow(n, 1, n))
    ELSE LET j == r - 1 IN
      CASE o.name \in {"treatment", "sas"} -> VSub(E(n, TLevel(o, n, j)), E(n, BaseOf(o, n)))
        [] o.name = "sum" -> VSub(E(n, j), MeanRow(n, 1, n))
        [] o.name = "helmert" ->
             IF o.reverse
             THEN LET d == VSub(E(n, j + 1), MeanRow(n, 1, j)) IN IF o.scale THEN d ELSE VScale(d, Norm(1, j + 1))
             ELSE LET d == VSub(E(n, j), MeanRow(n, j + 1, n)) IN IF o.scale THEN d ELSE VScale(d, Norm(1, n - j + 1))
        [] o.name = "diff" -> IF o.backward THEN VSub(E(n, j + 1), E(n, j)) ELSE VSub(E(n, j), E(n, j + 1))]

\* names of the reduced columns, as level indices; drop field; name prefix
ColLevel(o, n, j) ==
  CASE o.name \in {"treatment", "sas"} -> TLevel(o, n, j)
    [] o.name = "sum" -> j
    [] o.name = "helmert" -> IF o.reverse THEN j + 1 ELSE j
    [] o.name = "diff" -> IF o.backward THEN j + 1 ELSE j
DropLevel(o, n) == IF o.name \in {"treatment", "sas"} THEN BaseOf(o, n) ELSE 1      \* full coding: level whose column is dropped
Prefix(o) == CASE o.name \in {"treatment", "sas"} -> "T." [] o.name = "sum" -> "S." [] o.name = "helmert" -> "H." [] o.name = "diff" -> "D."

(* laws *)
Standard(o, n) == MatMul(HCat(OnesCol(n), Coding(o, n)), Interp(o, n)) = Identity(n)
InterpIsLeftInverse(o, n) == MatMul(Interp(o, n), HCat(OnesCol(n), Coding(o, n))) = Identity(n)
ColumnsSumToZero(o, n) == o.name \in {"sum", "helmert", "diff"} => \A j \in 1..(n - 1) : ColSum(Coding(o, n), j) = Zero

(* polynomial contrasts: monic orthogonal polynomials of the scores by Gram-Schmidt on the raw powers *)
RECURSIVE Pow(_, _)
Pow(x, k) == IF k = 0 THEN One ELSE RMul(x, Pow(x, k - 1))
VDot(u, v) == RSum([i \in DOMAIN u |-> RMul(u[i], v[i])])
RECURSIVE Monic(_, _)
Monic(scores, k) ==       \* the vector p_k(scores), p_0 = 1
  IF k = 0 THEN [i \in DOMAIN scores |-> One]
  ELSE LET raw == [i \in DOMAIN scores |-> Pow(scores[i], k)]
           proj(m) == LET pm == Monic(scores, m) IN VScale(pm, RDiv(VDot(raw, pm), VDot(pm, pm)))
           RECURSIVE Sub(_, _)
           Sub(v, m) == IF m < 0 THEN v ELSE Sub(VSub(v, proj(m)), m - 1)
       IN Sub(raw, k - 1)
PolyMonic(scores) == Mk(Len(scores), Len(scores) - 1, LAMBDA i, j : Monic(scores, j)[i])
PolyNorm2(scores) == [j \in 1..(Len(scores) - 1) |-> VDot(Monic(scores, j), Monic(scores, j))]
PolyOrthogonal(scores) == LET P == PolyMonic(scores) IN
   /\ \A j \in 1..NCols(P) : ColSum(P, j) = Zero
   /\ \A j, k \in 1..NCols(P) : j # k => ColDot(P, j, k) = Zero
   /\ \A j \in 1..NCols(P) : ~IsZero(PolyNorm2(scores)[j])

(* encoding data: indicator matrix times coding; li = level index of each row (0 = null / unseen / absent) *)
EncodeReduced(o, n, li) == [r \in DOMAIN li |-> [j \in 1..(n - 1) |-> IF li[r] = 0 THEN Zero ELSE Coding(o, n)[li[r]][j]]]
EncodeFull(n, li) == [r \in DOMAIN li |-> [j \in 1..n |-> R(B2I(li[r] = j))]]
\* a user-supplied coding matrix (CustomContrasts): the row of the level, whatever the rank requested; a null / unseen value is the zero row
EncodeCustom(M, li) == [r \in DOMAIN li |-> [j \in DOMAIN M[1] |-> IF li[r] = 0 THEN Zero ELSE M[li[r]][j]]]

(* order: row i of a coding belongs to level i of the NOMINATED list, whatever order the scores are written in and      *)
(* whatever order the carrier of the data brings along.  `variant` selects the algorithm: "code" is the specification, *)
(* the others are design errors the bounded families of MC_ContrastsOrder must be able to refute.                       *)
\* the monic orthogonal polynomial of degree 1 is the centred score: a second, independent definition of the linear column
CentredScores(scores) == LET mean == RDiv(RSum(scores), R(Len(scores))) IN [i \in DOMAIN scores |-> RSub(scores[i], mean)]
RECURSIVE InsertScore(_, _)
InsertScore(x, s) == IF s = <<>> THEN <<x>> ELSE IF RLe(x, Head(s)) THEN <<x>> \o s ELSE <<Head(s)>> \o InsertScore(x, Tail(s))
RECURSIVE SortScores(_)
SortScores(s) == IF s = <<>> THEN <<>> ELSE InsertScore(Head(s), SortScores(Tail(s)))
\* "sorted-scores": the scores pass through a sorting de-duplication and the sorted vector is used from there on
PolyMonicV(variant, scores) == PolyMonic(IF variant = "sorted-scores" THEN SortScores(scores) ELSE scores)
PolyLinearIsCentred(variant, scores) == \A i \in DOMAIN scores : PolyMonicV(variant, scores)[i][1] = CentredScores(scores)[i]
\* re-ordering the scores by p re-orders the rows by p (p a permutation of the positions) and nothing else
PolyRowsFollowScores(variant, scores, p) == PolyMonicV(variant, [i \in DOMAIN scores |-> scores[p[i]]]) = [i \in DOMAIN scores |-> PolyMonicV(variant, scores)[p[i]]]

\* a carrier of categorical data (a categorical dtype) has its own category list `own` - level indices of the nominated list, any
\* arrangement of any subset - and holds codes into it (0 = null).  The labels decide, not the codes:
CarrierLevels(own, codes) == [r \in DOMAIN codes |-> IF codes[r] = 0 THEN 0 ELSE own[codes[r]]]
\* "trust-carrier": the re-coding is skipped when the carrier's categories are the nominated levels as a set
CarrierLi(variant, n, own, codes) == IF variant = "trust-carrier" /\ {own[i] : i \in DOMAIN own} = 1..n THEN codes ELSE CarrierLevels(own, codes)
EncodeCarrierReduced(variant, o, n, own, codes) == EncodeReduced(o, n, CarrierLi(variant, n, own, codes))
EncodeCarrierFull(variant, n, own, codes) == EncodeFull(n, CarrierLi(variant, n, own, codes))
\* the same labels carried in the nominated order give the same rows (reduced and full)
CarrierOrderIrrelevant(variant, o, n, own, codes) ==
  LET ident == [i \in 1..n |-> i] labels == CarrierLevels(own, codes) IN
  /\ EncodeCarrierReduced(variant, o, n, own, codes) = EncodeCarrierReduced(variant, o, n, ident, labels)
  /\ EncodeCarrierFull(variant, n, own, codes) = EncodeCarrierFull(variant, n, ident, labels)
\* treatment codings: a row is zero exactly for the reference level OF THE NOMINATED LIST (and for nulls)
CarrierReferenceLevel(variant, o, n, own, codes) == o.name \in {"treatment", "sas"} /\ n > 1 =>
  \A r \in DOMAIN codes : (\A j \in 1..(n - 1) : EncodeCarrierReduced(variant, o, n, own, codes)[r][j] = Zero) <=> CarrierLevels(own, codes)[r] \in {0, BaseOf(o, n)}

(* reuse: ONE contrasts object is a value (a coding rule), "for every n ... every level list" holds for every use of it, whatever it was used *)
(* with before.  Here the object names its reference level by LABEL (o.base = a label of a universe, 0 = default); a level list lv is a        *)
(* sequence of distinct labels; the positional option of Coding/Interp is resolved per use.  MC_ContrastsReuse walks the histories.            *)
PosIn(x, lv) == IF \E i \in DOMAIN lv : lv[i] = x THEN CHOOSE i \in DOMAIN lv : lv[i] = x ELSE 0
\* "memo-position": the position found at the first resolution is kept on the object (memo, 0 = nothing kept yet) and trusted from then on
ResolvedBase(variant, memo, o, lv) == IF o.base = 0 THEN 0 ELSE IF variant = "memo-position" /\ memo # 0 THEN memo ELSE PosIn(o.base, lv)
Positional(variant, memo, o, lv) == [o EXCEPT !.base = ResolvedBase(variant, memo, o, lv)]
\* the label of the reference level of this use: the one named, else the first (treatment) / last (SAS) of THIS list
ReferenceLabel(o, lv) == IF o.base # 0 THEN o.base ELSE IF o.name = "sas" THEN lv[Len(lv)] ELSE lv[1]
\* treatment codings, stated on labels and independently of BaseOf/TLevel: the zero row is the row of the reference label, every other row is the
\* indicator of the column carrying its own label, and the columns carry the other labels in the order of the list
ReuseReferenceByLabel(variant, memo, o, lv) == o.name \in {"treatment", "sas"} =>
  LET n == Len(lv) po == Positional(variant, memo, o, lv) Cm == Coding(po, n) ref == ReferenceLabel(o, lv)
      others == SelectSeq(lv, LAMBDA x : x # ref) IN
  /\ po.base \in 0..n
  /\ [j \in 1..(n - 1) |-> lv[ColLevel(po, n, j)]] = others
  /\ \A i \in 1..n : \A j \in 1..(n - 1) : Cm[i][j] = R(B2I(lv[i] = others[j]))
  /\ lv[DropLevel(po, n)] = ref
\* and every use is a standard coding of its own size (what MC_Contrasts proves of a fresh object)
ReuseStandard(variant, memo, o, lv) == LET n == Len(lv) po == Positional(variant, memo, o, lv) IN
  po.base \in 0..n /\ Standard(po, n) /\ ColumnsSumToZero(po, n) /\ NRows(Coding(po, n)) = n /\ (n > 1 => NCols(Coding(po, n)) = n - 1)
=============================================================================
