----------------------------- MODULE MC_PolyScale -----------------------------
EXTENDS Integers, Sequences, FiniteSets, TLC, TLCExt, Json, CSV, IOUtils, SequencesExt
CONSTANTS MaxLen, LoAbs, Hi, Emit
Lo == -LoAbs
P == INSTANCE PolyScale

Follow == << <<0, 1, 5>>, <<-4, 2>> >>
VARIABLES x, kind, ddof, docenter, doscale, degree
vars == <<x, kind, ddof, docenter, doscale, degree>>
X == P!RVec(x)
NotConstant == P!Distinct(X) >= 2

Laws == /\ (kind = "scale" /\ NotConstant) => P!CenteredSumsToZero(X) /\ P!UnitVariance(X, ddof)
        /\ (kind = "poly" /\ P!Distinct(X) > degree) => P!PolyOrthogonal(X, degree)
        \* state first: applying the recorded state to the training data reproduces the fit; each row is a function of its own input only
        /\ (kind = "scale" /\ NotConstant) => LET st == P!ScaleFit(X, docenter, doscale, ddof) IN
               \A i \in DOMAIN X : P!ScaleApply(st, <<X[i]>>)[1] = P!ScaleApply(st, X)[i]
        /\ (kind = "poly" /\ P!Distinct(X) > degree) => \A i \in DOMAIN X : P!PolyApply(X, degree, <<X[i]>>)[1] = P!PolyApply(X, degree, X)[i]
        \* homogeneity: standardising c.x (c > 0) gives what standardising x gives - the value (num / sqrt(scale2)) is compared through its
        \* sign and its square; licenses the replay of power-of-two multiples of a vector at any magnitude
        /\ (kind = "scale" /\ NotConstant /\ doscale) => \A c \in {<<2, 1>>, <<1, 2>>, <<3, 1>>} :
               LET cx == [i \in DOMAIN X |-> P!RMul(c, X[i])]
                   a == P!ScaleApply(P!ScaleFit(X, docenter, doscale, ddof), X)
                   b == P!ScaleApply(P!ScaleFit(cx, docenter, doscale, ddof), cx)
               IN \A i \in DOMAIN X : /\ P!RDiv(P!RMul(a[i][1], a[i][1]), a[i][2]) = P!RDiv(P!RMul(b[i][1], b[i][1]), b[i][2])
                                       /\ (P!RLt(a[i][1], P!Zero) <=> P!RLt(b[i][1], P!Zero))

Out == IOEnv.OUT_FILE
EmitCase == Emit =>
  CASE kind = "scale" /\ NotConstant ->
         LET st == P!ScaleFit(X, docenter, doscale, ddof) IN
         CSVWrite("%1$s", <<ToJson([kind |-> kind, x |-> x, ddof |-> ddof, center |-> docenter, scale |-> doscale, st_center |-> st.center, st_scale2 |-> st.scale2,
                    fit |-> P!ScaleApply(st, X), follow |-> [f \in DOMAIN Follow |-> [y |-> Follow[f], v |-> P!ScaleApply(st, P!RVec(Follow[f]))]]])>>, Out)
    [] kind = "poly" /\ P!Distinct(X) > degree ->
         CSVWrite("%1$s", <<ToJson([kind |-> kind, x |-> x, degree |-> degree, fit |-> P!PolyApply(X, degree, X),
                    follow |-> [f \in DOMAIN Follow |-> [y |-> Follow[f], v |-> P!PolyApply(X, degree, P!RVec(Follow[f]))]]])>>, Out)
    [] OTHER -> TRUE

Init == /\ x = <<>> /\ kind \in {"scale", "poly"}
        /\ ((kind = "scale" /\ ddof \in {0, 1} /\ docenter \in BOOLEAN /\ doscale \in BOOLEAN /\ degree = 0)
            \/ (kind = "poly" /\ ddof = 0 /\ docenter = TRUE /\ doscale = TRUE /\ degree \in 1..3))
Next == Len(x) < MaxLen /\ \E v \in Lo..Hi : x' = Append(x, v) /\ UNCHANGED <<kind, ddof, docenter, doscale, degree>>
Spec == Init /\ [][Next]_vars
=============================================================================
