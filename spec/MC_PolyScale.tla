----------------------------- MODULE MC_PolyScale -----------------------------
EXTENDS Integers, Sequences, FiniteSets, TLC, TLCExt, Json, CSV, IOUtils, SequencesExt
CONSTANTS MaxLen, LoAbs, Hi, Emit, ElemAbs
Lo == -LoAbs
P == INSTANCE PolyScale

Follow == << <<0, 1, 5>>, <<-4, 2>> >>
VARIABLES x, kind, ddof, docenter, doscale, degree
vars == <<x, kind, ddof, docenter, doscale, degree>>
X == P!RVec(x)
NotConstant == P!Distinct(X) >= 2
\* elementwise family: kind = "elem", x = <<k>>, k an integer exponent of either sign in -ElemAbs..ElemAbs; bases 10 and 2 with the largest
\* exponent whose power is a 32-bit integer (10^9, 2^30) as chunk
Bases == << [b |-> 10, chunk |-> 9], [b |-> 2, chunk |-> 30] >>
ElemLaws(k) == \A n \in DOMAIN Bases : LET b == Bases[n].b c == Bases[n].chunk IN
        /\ P!ChunksSound(k, c)
        /\ P!Abs(k) <= c => /\ P!ExpHom(b, k, c) /\ P!ExpReciprocal(b, k) /\ P!LogB(b, P!Exp(b, k), c) = k       \* log_b is the inverse of b^.
                          /\ (k < c => P!ExpMonotone(b, k))
                          /\ (k < 0 => P!RLt(P!Zero, P!Exp(b, k)) /\ P!RLt(P!Exp(b, k), P!One))      \* a negative exponent has a value, a proper fraction

Laws == /\ kind = "elem" => ElemLaws(x[1])
        /\ (kind = "scale" /\ NotConstant) => P!CenteredSumsToZero(X) /\ P!UnitVariance(X, ddof)
        /\ (kind = "poly" /\ P!Distinct(X) > degree) => P!PolyOrthogonal(X, degree)
        \* state first: applying the recorded state to the training data reproduces the fit; each row is a function of its own input only
        /\ (kind = "scale" /\ NotConstant) => LET st == P!ScaleFit(X, docenter, doscale, ddof) IN
               \A i \in DOMAIN X : P!ScaleApply(st, <<X[i]>>)[1] = P!ScaleApply(st, X)[i]
        /\ (kind = "poly" /\ P!Distinct(X) > degree) => \A i \in DOMAIN X : P!PolyApply(X, degree, <<X[i]>>)[1] = P!PolyApply(X, degree, X)[i]
        \* homogeneity: standardising c.x (c > 0) gives what standardising x gives - the value (num / sqrt(scale2)) is compared through its
        \* sign and its square; licenses the replay of power-of-two multiples of a vector at any magnitude
        /\ (kind = "scale" /\ NotConstant /\ doscale) => \A c \in {<<2, 1>>, <<1, 2>>, <<3, 1>>} :
               LET cx == [i \in DOMAIN X |-> P!RMul(c, X[i])]
                   a == P!ScaleApply(P!ScaleFit(X, docenter, doscale, ddof), X)
                   b == P!ScaleApply(P!ScaleFit(cx, docenter, doscale, ddof), cx)
               IN \A i \in DOMAIN X : /\ P!RDiv(P!RMul(a[i][1], a[i][1]), a[i][2]) = P!RDiv(P!RMul(b[i][1], b[i][1]), b[i][2])
                                       /\ (P!RLt(a[i][1], P!Zero) <=> P!RLt(b[i][1], P!Zero))

Out == IOEnv.OUT_FILE
EmitCase == Emit =>
  CASE kind = "scale" /\ NotConstant ->
         LET st == P!ScaleFit(X, docenter, doscale, ddof) IN
         CSVWrite("%1$s", <<ToJson([kind |-> kind, x |-> x, ddof |-> ddof, center |-> docenter, scale |-> doscale, st_center |-> st.center, st_scale2 |-> st.scale2,
                    fit |-> P!ScaleApply(st, X), follow |-> [f \in DOMAIN Follow |-> [y |-> Follow[f], v |-> P!ScaleApply(st, P!RVec(Follow[f]))]]])>>, Out)
    [] kind = "poly" /\ P!Distinct(X) > degree ->
         CSVWrite("%1$s", <<ToJson([kind |-> kind, x |-> x, degree |-> degree, fit |-> P!PolyApply(X, degree, X),
                    follow |-> [f \in DOMAIN Follow |-> [y |-> Follow[f], v |-> P!PolyApply(X, degree, P!RVec(Follow[f]))]]])>>, Out)
    [] kind = "elem" ->
         CSVWrite("%1$s", <<ToJson([kind |-> kind, k |-> x[1], exp10 |-> P!ExpFactors(10, x[1], 9), exp2 |-> P!ExpFactors(2, x[1], 30)])>>, Out)
    [] OTHER -> TRUE

ElemInit == kind = "elem" /\ x \in {<<k>> : k \in -ElemAbs..ElemAbs} /\ ddof = 0 /\ docenter = TRUE /\ doscale = TRUE /\ degree = 0
VecInit == /\ x = <<>> /\ kind \in {"scale", "poly"}
           /\ ((kind = "scale" /\ ddof \in {0, 1} /\ docenter \in BOOLEAN /\ doscale \in BOOLEAN /\ degree = 0)
               \/ (kind = "poly" /\ ddof = 0 /\ docenter = TRUE /\ doscale = TRUE /\ degree \in 1..3))
Init == VecInit \/ ElemInit
Next == kind # "elem" /\ Len(x) < MaxLen /\ \E v \in Lo..Hi : x' = Append(x, v) /\ UNCHANGED <<kind, ddof, docenter, doscale, degree>>
Spec == Init /\ [][Next]_vars
=============================================================================
