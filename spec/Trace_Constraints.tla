-------------------------- MODULE Trace_Constraints --------------------------
(* Code -> spec validation of recorded LinearConstraints.from_spec calls (C16). *)
EXTENDS Integers, Sequences, FiniteSets, TLC, TLCExt, Json, CSV, IOUtils, SequencesExt

SignRule == "parity"
C == INSTANCE Constraints
TraceRecs == JsonDeserialize(IOEnv.TRACE_FILE)
Rej == IOEnv.REJ_FILE
VARIABLE k
Rec == TraceRecs[k]

TokOf(t) == [k |-> t.k, s |-> t.s, cs |-> t.cs, q |-> <<t.q[1], t.q[2]>>, isq |-> t.isq]
ToksOf(r) == [i \in DOMAIN r.toks |-> TokOf(r.toks[i])]
RowOf(x) == [coef |-> [i \in DOMAIN x.a |-> <<x.a[i][1], x.a[i][2]>>], b |-> <<x.b[1], x.b[2]>>]

Verdict(r) ==
  LET toks == ToksOf(r)
      names == r.names
      i == C!ImplC(toks, names)
      rf == C!RefC(toks, names)
      rows == [q \in DOMAIN r.rows |-> RowOf(r.rows[q])]
  IN IF i.st = "UNMODELLED" THEN "skip"
     ELSE IF i.st = "OK" /\ rf.gram /\ ~C!AffineAgrees(i.rows, toks, names) THEN "model:affine"
     ELSE IF rf.gram /\ ~rf.lin /\ i.st # "REJECT" THEN "model:nonlinear"
     ELSE IF rf.gram /\ ~rf.lin /\ r.st = "OK" THEN "nonlinear-accepted"
     ELSE IF i.st = "OK" /\ r.st # "OK" THEN "model-accepts-code-rejects"
     ELSE IF i.st = "OK" /\ rf.gram /\ rows # i.rows THEN "rows-differ"
     ELSE IF r.st = "OK" /\ rf.gram /\ ~C!AffineAgrees(rows, toks, names) THEN "affine-identity-violated"
     ELSE IF i.st = "REJECT" /\ rf.gram /\ rf.lin /\ r.st # "OK" THEN "diag:liberal-rejection"
     ELSE ""

Check == LET v == Verdict(Rec) IN (v # "" => CSVWrite("%1$s", <<ToJson([id |-> Rec.id, verdict |-> v])>>, Rej))
Init == k \in 1..Len(TraceRecs)
Next == UNCHANGED k
Spec == Init /\ [][Next]_k
=============================================================================
