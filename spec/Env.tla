--------------------------------- MODULE Env ---------------------------------
(***************************************************************************)
(* Name resolution during materialization (materializers/base.py            *)
(* layered_context, utils/variables.py, Formula.required_variables,         *)
(* ModelSpec.variables_by_source).  Three named layers searched in the      *)
(* order data > context > transforms.  A pattern says which of the names    *)
(* of the model live in the data and in the context; the transforms layer   *)
(* is fixed (it contains the callable I).                                   *)
(* A factor is [e, kind \in {"lookup","python"}, reads] with reads a        *)
(* sequence of [name, role \in {"value","callable"}].                       *)
(***************************************************************************)
EXTENDS Integers, Sequences, FiniteSets

Names == {"x", "z", "I", "q"}      \* "q" stands for a column whose name needs quoting (`x y`)
InTransforms(n) == n \in {"I", "np"}      \* ("np": the numpy module, read by the factors that call one of its functions)
\* pattern: [data : SUBSET Names (in column order x, z, I), context : SUBSET Names]
Layer(pat, n) == IF n \in pat.data THEN "data" ELSE IF n \in pat.context THEN "context" ELSE IF InTransforms(n) THEN "transforms" ELSE "MISSING"

\* values (three rows): data and context hold different numbers so that the source of a value is observable
DataVal(n) == CASE n = "x" -> <<1, 2, 3>> [] n = "z" -> <<4, 5, 6>> [] n = "q" -> <<2, 2, 5>> [] n = "r" -> <<3, 1, 4>> [] OTHER -> <<50, 60, 70>>
CtxVal(n) == CASE n = "x" -> <<10, 20, 30>> [] n = "z" -> <<7, 8, 9>> [] n = "q" -> <<11, 12, 13>> [] n = "r" -> <<21, 22, 23>> [] OTHER -> <<0, 0, 0>>
ValueOf(pat, n) == IF Layer(pat, n) = "data" THEN DataVal(n) ELSE CtxVal(n)
\* the callable I: transforms -> identity; context -> a function adding 1000; a data column is not callable
CallableOK(pat) == Layer(pat, "I") \in {"context", "transforms"}
ApplyI(pat, v) == IF Layer(pat, "I") = "context" THEN [i \in DOMAIN v |-> v[i] + 1000] ELSE v

Read(n, role) == [name |-> n, role |-> role]
F(e, kind, reads) == [e |-> e, kind |-> kind, reads |-> reads]
fx == F("x", "lookup", <<Read("x", "value")>>)
fz == F("z", "lookup", <<Read("z", "value")>>)
fIx == F("I(x)", "python", <<Read("I", "callable"), Read("x", "value")>>)
fsum == F("x + z", "python", <<Read("x", "value"), Read("z", "value")>>)
fq == F("q", "lookup", <<Read("q", "value")>>)
fI == F("I", "lookup", <<Read("I", "value")>>)        \* a data column that happens to be named like a transform
\* attribute access of depth two and a method call on a value: what is read is the object z
fzt == F("z.T.T", "python", <<Read("z", "value")>>)
fzc == F("z.T.copy()", "python", <<Read("z", "value")>>)
\* a quoted column inside a python factor
fIq == F("I(`x y`)", "python", <<Read("I", "callable"), Read("q", "value")>>)
\* the same callable twice inside one factor, on different arguments
fII == F("I(x) + I(z)", "python", <<Read("I", "callable"), Read("x", "value"), Read("I", "callable"), Read("z", "value")>>)
\* Two DIFFERENT quoted columns inside one python factor: "r" stands for a second column that needs quoting (`x-y`) and whose
\* identifier-safe placeholder coincides with that of "q" (`x y`, `x-y` -> x_y).  To the model they are simply two names: each
\* is looked up on its own, so either can be missing / come from another layer independently of the other.  The expressions
\* are not symmetric in the two names (a difference), so that one name's value standing in for the other is observable.
fqr == F("`x y` - `x-y`", "python", <<Read("q", "value"), Read("r", "value")>>)
fIrq == F("I(`x-y` - `x y`)", "python", <<Read("I", "callable"), Read("r", "value"), Read("q", "value")>>)
\* Calls that receive names BY KEYWORD: the value of a keyword argument is read like a positional one (the keyword itself names a
\* parameter of the callee and is no variable).  A positional and a keyword name; only keyword names, one of them quoted, nested
\* inside a second call.  np.clip(a, a_min=b, a_max=None) is the elementwise maximum of a and b.
fkw == F("np.clip(x, a_min=z, a_max=None)", "python", <<Read("np", "callable"), Read("x", "value"), Read("z", "value")>>)
fIkw == F("I(np.clip(a=`x y`, a_min=x, a_max=None))", "python", <<Read("I", "callable"), Read("np", "callable"), Read("q", "value"), Read("x", "value")>>)
Max3(a, b) == [i \in 1..3 |-> IF a[i] >= b[i] THEN a[i] ELSE b[i]]
\* the names such a pattern ranges over (the family of the formulas that read "r")
CollidingNames == {"q", "r"}
\* formulas: sequences of terms, a term = sequence of factors (no intercept: 0 + ...)
Formulas == << <<<<fx>>>>, <<<<fx>>, <<fz>>>>, <<<<fIx>>>>, <<<<fsum>>>>, <<<<fx>>, <<fz, fx>>>>, <<<<fIx>>, <<fz>>>>, <<<<fq>>, <<fq, fx>>>>, <<<<fI>>, <<fx>>>>,
              <<<<fzt>>, <<fx>>>>, <<<<fzc>>>>, <<<<fII>>>>, <<<<fIq>>, <<fx>>>>,
              <<<<fqr>>>>, <<<<fIrq>>, <<fq>>>>,
              <<<<fkw>>>>, <<<<fIkw>>>> >>
FormulaText == << "0 + x", "0 + x + z", "0 + I(x)", "0 + {x + z}", "0 + x + z:x", "0 + I(x) + z", "0 + `x y` + `x y`:x", "0 + I + x",
                 "0 + {z.T.T} + x", "0 + {z.T.copy()}", "0 + {I(x) + I(z)}", "0 + I(`x y`) + x",
                 "0 + {`x y` - `x-y`}", "0 + I(`x-y` - `x y`) + `x y`",
                 "0 + np.clip(x, a_min=z, a_max=None)", "0 + I(np.clip(a=`x y`, a_min=x, a_max=None))" >>

RECURSIVE FlatE(_, _)
FlatE(G(_), s) == IF s = <<>> THEN <<>> ELSE G(Head(s)) \o FlatE(G, Tail(s))
FactorsOf(form) == FlatE(LAMBDA t : t, form)
ReadsOf(form) == FlatE(LAMBDA f : f.reads, FactorsOf(form))
\* the formulas that read the second quoted name: their patterns range over CollidingNames, the others over Names
ReadsR(form) == \E i \in DOMAIN ReadsOf(form) : ReadsOf(form)[i].name = "r"

\* the formulas with keyword arguments: their patterns range over the names they read (presence of the others changes nothing)
ReadsKw(form) == \E i \in DOMAIN ReadsOf(form) : ReadsOf(form)[i].name = "np"
KwNames(form) == {ReadsOf(form)[i].name : i \in DOMAIN ReadsOf(form)} \cap Names

\* Formula.required_variables: value-role names that are not names of the transforms namespace
RequiredBefore(form) ==
  LET rs == ReadsOf(form)
      valueNames == {rs[i].name : i \in {j \in DOMAIN rs : rs[j].role = "value"}}
  IN {n \in valueNames : ~InTransforms(n)}

FactorOK(pat, f) == \A i \in DOMAIN f.reads :
   /\ Layer(pat, f.reads[i].name) # "MISSING"
   /\ (f.reads[i].role = "value" => Layer(pat, f.reads[i].name) # "transforms" /\ (f.reads[i].name = "I" => Layer(pat, "I") = "data"))
   /\ (f.reads[i].role = "callable" /\ f.reads[i].name = "I" => CallableOK(pat))      \* (np is always the module of the transforms layer)
Succeeds(pat, form) == \A i \in DOMAIN FactorsOf(form) : FactorOK(pat, FactorsOf(form)[i])

FactorVal(pat, f) ==
  CASE f.e = "x" -> ValueOf(pat, "x")
    [] f.e = "z" -> ValueOf(pat, "z")
    [] f.e = "q" -> ValueOf(pat, "q")
    [] f.e = "I" -> ValueOf(pat, "I")
    [] f.e = "I(x)" -> ApplyI(pat, ValueOf(pat, "x"))
    [] f.e \in {"z.T.T", "z.T.copy()"} -> ValueOf(pat, "z")
    [] f.e = "I(`x y`)" -> ApplyI(pat, ValueOf(pat, "q"))
    [] f.e = "I(x) + I(z)" -> LET a == ApplyI(pat, ValueOf(pat, "x")) b == ApplyI(pat, ValueOf(pat, "z")) IN [i \in 1..3 |-> a[i] + b[i]]
    [] f.e = "x + z" -> [i \in 1..3 |-> ValueOf(pat, "x")[i] + ValueOf(pat, "z")[i]]
    [] f.e = "`x y` - `x-y`" -> [i \in 1..3 |-> ValueOf(pat, "q")[i] - ValueOf(pat, "r")[i]]
    [] f.e = "I(`x-y` - `x y`)" -> ApplyI(pat, [i \in 1..3 |-> ValueOf(pat, "r")[i] - ValueOf(pat, "q")[i]])
    [] f.e = "np.clip(x, a_min=z, a_max=None)" -> Max3(ValueOf(pat, "x"), ValueOf(pat, "z"))
    [] f.e = "I(np.clip(a=`x y`, a_min=x, a_max=None))" -> ApplyI(pat, Max3(ValueOf(pat, "q"), ValueOf(pat, "x")))
RECURSIVE TermVal(_, _)
TermVal(pat, t) == IF t = <<>> THEN <<1, 1, 1>> ELSE LET h == FactorVal(pat, Head(t)) r == TermVal(pat, Tail(t)) IN [i \in 1..3 |-> h[i] * r[i]]
RECURSIVE JoinE(_)
JoinE(fs) == IF Len(fs) = 1 THEN fs[1].e ELSE fs[1].e \o ":" \o JoinE(Tail(fs))
Columns(pat, form) == [t \in DOMAIN form |-> [name |-> JoinE(form[t]), vals |-> TermVal(pat, form[t])]]

\* ModelSpec.variables_by_source after materialization: every name read, with the layer its value came from
Sources(pat, form) == [n \in {ReadsOf(form)[i].name : i \in DOMAIN ReadsOf(form)} |-> Layer(pat, n)]
\* the name reported for a layer: a context supplied as a named LayeredMapping is reported with its own name appended
SourceName(l, cform) == IF l = "context" /\ cform = "lm-named" THEN "context:user" ELSE l
RequiredAfter(pat, form) == {n \in DOMAIN Sources(pat, form) : Sources(pat, form)[n] = "data"}

(* laws *)
Restrict(pat, S) == [pat EXCEPT !.data = @ \cap S]
\* Documented limitation (finding D19): the pre-materialization estimate cannot tell a data column named like a
\* transform from the transform, and leaves it out; sufficiency is claimed for the other formulas.
ReadsTransformNameAsValue(form) == \E i \in DOMAIN ReadsOf(form) : ReadsOf(form)[i].role = "value" /\ InTransforms(ReadsOf(form)[i].name)
Sufficient(pat, form) == (Succeeds(pat, form) /\ ~ReadsTransformNameAsValue(form)) => Succeeds(Restrict(pat, RequiredBefore(form)), form)
\* removing a required data column fails exactly when no lower layer provides the name; otherwise the source moves down
Necessary(pat, form) == \A v \in RequiredBefore(form) \cap pat.data :
   LET p2 == [pat EXCEPT !.data = @ \ {v}] IN
   Succeeds(pat, form) => (Succeeds(p2, form) <=> Layer(p2, v) # "MISSING") /\ (Succeeds(p2, form) => Sources(p2, form)[v] = Layer(p2, v) /\ Layer(p2, v) # "data")

\* Captured context (utils/context.py capture_context, sugar.model_matrix(context=k)): the context is the frame k levels above the
\* caller - its local variables first, then its globals.  stack[i] says whether frame i-1 (0 = the caller) binds the name locally.
CaptureLayer(stack, k, inglobals, indata) ==
  IF indata THEN "data" ELSE IF stack[k + 1] THEN "locals" ELSE IF inglobals THEN "globals" ELSE "MISSING"
\* values: data 1, the local of frame i is 10 * (i + 1), the global 7
CaptureValue(stack, k, inglobals, indata) ==
  LET l == CaptureLayer(stack, k, inglobals, indata) IN CASE l = "data" -> 1 [] l = "locals" -> 10 * (k + 1) [] l = "globals" -> 7 [] OTHER -> -1

\* `.` : the data columns not used on the left-hand side, in data order
DotExpand(cols, lhs) == SelectSeq(cols, LAMBDA c : c \notin lhs)
\* The right-hand side around the `.`: signed items "1" / "0" (the intercept directives) and "." read from the left.  They decide
\* about the intercept only - which columns `.` stands for does not depend on them, nor on how the first item's sign is
\* written (`y ~ -1 + .` : the sign directly follows the `~`).  auto = the parser inserts an intercept by default.
It(sign, item) == [sign |-> sign, item |-> item]
DotRhs == << <<It("+", ".")>>, <<It("+", "0"), It("+", ".")>>, <<It("-", "1"), It("+", ".")>>, <<It("+", "."), It("-", "1")>>,
             <<It("+", "1"), It("+", ".")>>, <<It("+", "."), It("+", "0")>>, <<It("+", ".")>> >>
DotRhsText == << ".", "0 + .", "-1 + .", ". - 1", "1 + .", ". + 0", "+." >>       \* (the first and the last differ in the spelling only: a unary plus)
RECURSIVE HasIntercept(_, _)
HasIntercept(has, items) ==
  IF items = <<>> THEN has
  ELSE LET h == Head(items) IN
       HasIntercept(CASE h.item = "1" -> (h.sign = "+") [] h.item = "0" /\ h.sign = "+" -> FALSE [] OTHER -> has, Tail(items))
\* the terms of the right-hand side (the intercept "1" has degree 0 and is listed first)
DotTerms(cols, lhs, items, auto) == (IF HasIntercept(auto, items) THEN <<"1">> ELSE <<>>) \o DotExpand(cols, lhs)
=============================================================================
