--------------------------- MODULE Trace_RankReduce ---------------------------
(* Code -> spec validation of observed model_spec.structure (C03): the observed   *)
(* reduced/full assignment - whatever it is - must partition the pure-interaction *)
(* pieces of the term set.  Also reports whether it equals the model's greedy one.*)
EXTENDS Integers, Sequences, FiniteSets, TLC, TLCExt, Json, CSV, IOUtils, SequencesExt
MCR == INSTANCE MC_RankReduce WITH MaxTerms <- 0, Emit <- FALSE, Slice <- 0, SliceMod <- 1, terms <- <<>>, icpt <- FALSE, cluster <- FALSE
M == INSTANCE Materialize
TraceRecs == JsonDeserialize(IOEnv.TRACE_FILE)
Rej == IOEnv.REJ_FILE
VARIABLE k
Rec == TraceRecs[k]

FactorOf(x) == [e |-> x.e, kind |-> x.kind, col |-> x.e, contr |-> "treatment", lit |-> x.lit]
TermsOf(r) == [t \in DOMAIN r.terms |-> [i \in DOMAIN r.terms[t] |-> FactorOf(r.terms[t][i])]]
ObsScoped(r) == [t \in DOMAIN r.scoped |-> [q \in DOMAIN r.scoped[t] |->
                   M!ST([s \in DOMAIN r.scoped[t][q] |-> M!SF(r.scoped[t][q][s][1], r.scoped[t][q][s][2] = "reduced")], 1)]]
ModelScoped(r) == M!ScopeAll(TermsOf(r), {}, TRUE)
Same(a, b) == /\ Len(a) = Len(b)
              /\ \A t \in DOMAIN a : Len(a[t]) = Len(b[t]) /\ \A q \in DOMAIN a[t] : a[t][q].fs = b[t][q].fs

Verdict(r) ==
  LET ts == TermsOf(r) obs == ObsScoped(r) IN
  IF Len(obs) # Len(ts) THEN "structure-length"
  ELSE IF ~MCR!PartitionOf(ModelScoped(r), ts) THEN "model:partition"
  ELSE IF ~MCR!PartitionOf(obs, ts) THEN "observed-structure-is-not-a-partition-of-the-interaction-pieces"
  ELSE IF ~Same(obs, ModelScoped(r)) THEN "diag:differs-from-greedy-model"
  ELSE ""
Check == LET v == Verdict(Rec) IN (v # "" => CSVWrite("%1$s", <<ToJson([id |-> Rec.id, verdict |-> v])>>, Rej))
Init == k \in 1..Len(TraceRecs)
Next == UNCHANGED k
Spec == Init /\ [][Next]_k
=============================================================================
