------------------------------ MODULE FormulaSeq ------------------------------
(***************************************************************************)
(* SimpleFormula as a mutable sequence of terms (formula.py).  A term is a  *)
(* sequence of factor ids; ids below 10 are literal factors and the order   *)
(* of ids is the string order of the factor expressions.  Every mutating    *)
(* list operation except a deletion is followed by _reorder(), whose        *)
(* meaning depends on the ordering mode of the formula:                     *)
(*   "none"   nothing;                                                      *)
(*   "degree" stable sort by degree;                                        *)
(*   "sort"   every term's factors are sorted, then the terms are sorted    *)
(*            by (degree, sorted factors).                                  *)
(***************************************************************************)
EXTENDS Integers, Sequences, FiniteSets

Deg(t) == Cardinality({i \in DOMAIN t : t[i] >= 10})

RECURSIVE InsNum(_, _)
InsNum(s, x) == IF s = <<>> THEN <<x>> ELSE IF Head(s) <= x THEN <<Head(s)>> \o InsNum(Tail(s), x) ELSE <<x>> \o s
RECURSIVE SortNum(_)
SortNum(s) == IF s = <<>> THEN <<>> ELSE InsNum(SortNum(Tail(s)), Head(s))
\* Term.__eq__ / __hash__: the sorted factors
Key(t) == SortNum(t)

RECURSIVE LexLess(_, _)
LexLess(a, b) == IF b = <<>> THEN FALSE ELSE IF a = <<>> THEN TRUE
                 ELSE IF Head(a) # Head(b) THEN Head(a) < Head(b) ELSE LexLess(Tail(a), Tail(b))
\* Term.__lt__
TermLess(s, t) == Deg(s) < Deg(t) \/ (Deg(s) = Deg(t) /\ LexLess(Key(s), Key(t)))

\* a stable insertion sort under "not greater than"
LeqIn(mode, s, t) == IF mode = "degree" THEN Deg(s) <= Deg(t) ELSE ~TermLess(t, s)
RECURSIVE InsertSorted(_, _, _)
InsertSorted(mode, sorted, t) ==
  IF sorted = <<>> THEN <<t>>
  ELSE IF LeqIn(mode, Head(sorted), t) THEN <<Head(sorted)>> \o InsertSorted(mode, Tail(sorted), t) ELSE <<t>> \o sorted
RECURSIVE StableSort(_, _)
StableSort(mode, ts) == IF ts = <<>> THEN <<>> ELSE InsertSorted(mode, StableSort(mode, SubSeq(ts, 1, Len(ts) - 1)), ts[Len(ts)])

Reorder(mode, ts) ==
  CASE mode = "none" -> ts
    [] mode = "degree" -> StableSort(mode, ts)
    [] mode = "sort" -> StableSort(mode, [i \in DOMAIN ts |-> Key(ts[i])])

\* list.insert clamps the index (i is 0-based and non-negative here)
RawInsert(ts, i, t) == LET j == IF i > Len(ts) THEN Len(ts) ELSE i IN SubSeq(ts, 1, j) \o <<t>> \o SubSeq(ts, j + 1, Len(ts))
Insert(mode, ts, i, t) == Reorder(mode, RawInsert(ts, i, t))
CanIndex(ts, i) == i < Len(ts)
SetItem(mode, ts, i, t) == Reorder(mode, [j \in DOMAIN ts |-> IF j = i + 1 THEN t ELSE ts[j]])
DelItem(ts, i) == SubSeq(ts, 1, i) \o SubSeq(ts, i + 2, Len(ts))
\* f[i:j] = new  and  del f[i:j]  (python slices clamp to the length)
Clamp(ts, i) == IF i > Len(ts) THEN Len(ts) ELSE i
SetSlice(mode, ts, i, j, new) == LET a == Clamp(ts, i) b == IF Clamp(ts, j) < a THEN a ELSE Clamp(ts, j) IN
                                 Reorder(mode, SubSeq(ts, 1, a) \o new \o SubSeq(ts, b + 1, Len(ts)))
DelSlice(ts, i, j) == LET a == Clamp(ts, i) b == IF Clamp(ts, j) < a THEN a ELSE Clamp(ts, j) IN SubSeq(ts, 1, a) \o SubSeq(ts, b + 1, Len(ts))
AppendT(mode, ts, t) == Insert(mode, ts, Len(ts), t)
RECURSIVE Extend(_, _, _)
Extend(mode, ts, new) == IF new = <<>> THEN ts ELSE Extend(mode, AppendT(mode, ts, Head(new)), Tail(new))
\* list.index / remove compare with Term.__eq__
IndexOf(ts, t) == IF \E j \in DOMAIN ts : Key(ts[j]) = Key(t) THEN (CHOOSE j \in DOMAIN ts : Key(ts[j]) = Key(t) /\ \A q \in 1..(j - 1) : Key(ts[q]) # Key(t)) - 1 ELSE -1

Sorted(mode, ts) ==
  CASE mode = "none" -> TRUE
    [] mode = "degree" -> \A i \in 1..(Len(ts) - 1) : Deg(ts[i]) <= Deg(ts[i + 1])
    [] mode = "sort" -> /\ \A i \in 1..(Len(ts) - 1) : ~TermLess(ts[i + 1], ts[i])
                        /\ \A i \in DOMAIN ts : ts[i] = Key(ts[i])
Count(ts, k) == Cardinality({i \in DOMAIN ts : Key(ts[i]) = k})
=============================================================================
