------------------------------ MODULE FormulaSeq ------------------------------
(***************************************************************************)
(* SimpleFormula as a mutable sequence of terms (formula.py): every         *)
(* mutating list operation is followed by a stable re-sort by degree        *)
(* (deletions keep the order).  Terms are [name, deg].                      *)
(***************************************************************************)
EXTENDS Integers, Sequences, FiniteSets

RECURSIVE InsertSorted(_, _)
InsertSorted(sorted, t) ==
  IF sorted = <<>> THEN <<t>>
  ELSE IF Head(sorted).deg <= t.deg THEN <<Head(sorted)>> \o InsertSorted(Tail(sorted), t) ELSE <<t>> \o sorted
RECURSIVE StableSort(_)
StableSort(ts) == IF ts = <<>> THEN <<>> ELSE InsertSorted(StableSort(SubSeq(ts, 1, Len(ts) - 1)), ts[Len(ts)])

\* list.insert clamps the index (i is 0-based and non-negative here)
RawInsert(ts, i, t) == LET j == IF i > Len(ts) THEN Len(ts) ELSE i IN SubSeq(ts, 1, j) \o <<t>> \o SubSeq(ts, j + 1, Len(ts))
Insert(ts, i, t) == StableSort(RawInsert(ts, i, t))
CanIndex(ts, i) == i < Len(ts)
SetItem(ts, i, t) == StableSort([j \in DOMAIN ts |-> IF j = i + 1 THEN t ELSE ts[j]])
DelItem(ts, i) == SubSeq(ts, 1, i) \o SubSeq(ts, i + 2, Len(ts))
AppendT(ts, t) == Insert(ts, Len(ts), t)
RECURSIVE Extend(_, _)
Extend(ts, new) == IF new = <<>> THEN ts ELSE Extend(AppendT(ts, Head(new)), Tail(new))
IndexOf(ts, t) == IF \E j \in DOMAIN ts : ts[j].name = t.name THEN (CHOOSE j \in DOMAIN ts : ts[j].name = t.name /\ \A q \in 1..(j - 1) : ts[q].name # t.name) - 1 ELSE -1

Sorted(ts) == \A i \in 1..(Len(ts) - 1) : ts[i].deg <= ts[i + 1].deg
Count(ts, n) == Cardinality({i \in DOMAIN ts : ts[i].name = n})
=============================================================================
