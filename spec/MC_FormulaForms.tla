--------------------------- MODULE MC_FormulaForms ---------------------------
EXTENDS Integers, Sequences, FiniteSets, TLC, TLCExt, Json, CSV, IOUtils, SequencesExt
CONSTANTS Emit
WW == INSTANCE Wilkinson
a == WW!Tok("name", "a")
b == WW!Tok("name", "b")
Op(c) == WW!OpTok(<<c>>)
Zero == WW!ValTok("0", TRUE, 0)
One == WW!ValTok("1", TRUE, 1)
Texts == << "a", "a + b", "b:a + a", "0 + a", "a ~ b", "1", "a | b" >>
Strings == << <<a>>, <<a, Op("+"), b>>, <<b, Op(":"), a, Op("+"), a>>, <<Zero, Op("+"), a>>, <<a, Op("~"), b>>, <<One>>, <<a, Op("|"), b>> >>
F == INSTANCE FormulaForms
NS == Len(Strings)
Atoms == {F!Str(i) : i \in 1..NS} \cup {F!Lst(<<i>>) : i \in 1..NS} \cup {F!Lst(<<i, j>>) : i \in 1..NS, j \in 1..4} \cup {F!Lst(<<>>)}
Small == {F!Str(i) : i \in {1, 2, 5}} \cup {F!Lst(<<1, 3>>), F!Lst(<<2, 2>>)}
Forms == Atoms
         \cup {F!Tup(<<x, y>>) : x \in Small, y \in Small} \cup {F!Tup(<<x>>) : x \in Small}
         \cup {F!Kw(<<"root">>, <<x>>) : x \in Atoms}
         \cup {F!Kw(<<"lhs", "rhs">>, <<x, y>>) : x \in Small, y \in Small}
         \cup {F!Kw(<<"root", "x">>, <<x, y>>) : x \in Small, y \in Small}
         \cup {F!Kw(<<"x">>, <<F!Tup(<<x, y>>)>>) : x \in Small, y \in Small}
         \cup {F!Kw(<<"x", "y">>, <<x, F!Kw(<<"root", "z">>, <<y, y>>)>>) : x \in Small, y \in Small}
VARIABLE f
Init == f \in Forms
Next == UNCHANGED f
Spec == Init /\ [][Next]_f
Laws == /\ (f.k = "str" => F!WrapLaw(f.i) /\ F!KeywordSidesHaveNoIntercept(f.i))
        /\ F!FormulaOf(f).err \in {"", "reject", "structured-string-in-a-list"}
RECURSIVE J(_)
J(x) == [k |-> x.k, i |-> IF x.k = "str" THEN Texts[x.i] ELSE "", items |-> IF x.k = "lst" THEN [j \in DOMAIN x.items |-> Texts[x.items[j]]] ELSE [j \in DOMAIN x.items |-> J(x.items[j])],
         keys |-> x.keys]
Out == IOEnv.OUT_FILE
EmitCase == Emit => LET v == F!FormulaOf(f) IN
   CSVWrite("%1$s", <<ToJson([form |-> J(f), err |-> v.err, tree |-> IF v.err = "" THEN WW!TreeStr(v) ELSE ""])>>, Out)
=============================================================================
