------------------------------- MODULE PyNorm -------------------------------
(***************************************************************************)
(* Normalisation of python fragments (sanitize_python_code in              *)
(* parser/algos/sanitize_tokens.py with sanitize_variable_names /          *)
(* sanitize_variable_name of utils/code.py) on a small expression grammar: *)
(*   e ::= Id(name) | Q(name) | Str(text) | Call(fname, <<e, ...>>)        *)
(* Q(name) is a backtick-quoted name.  Texts are sequences of characters.  *)
(*                                                                         *)
(* DOC (NormalForm): the normal form of a fragment is its canonical        *)
(* formatting (what ast.unparse prints) with every quoted name verbatim    *)
(* between backticks - "taken verbatim ... so any column name can be        *)
(* referenced".                                                            *)
(*                                                                         *)
(* Impl: the three steps of the code - quoted names are replaced by python *)
(* identifiers (aliases), the text is formatted, the aliases are replaced  *)
(* back.  Variant "pinned" is the algorithm of the pinned commit (a quoted *)
(* name that is an identifier is its own alias; aliases may collide; the   *)
(* aliases are substituted back one at a time by plain text replacement),  *)
(* variant "fixed" the repaired one (every alias carries the prefix,       *)
(* colliding aliases are disambiguated, substitution in a single pass at   *)
(* word boundaries, longest alias first).  Variant "template": see        *)
(* RestoreTemplate (names holding backslashes).  Variant "squeeze": the    *)
(* format step collapses runs of blanks (string literals are data).        *)
(* Variant "unpadded": see SanitizeText (a placeholder must not fuse with  *)
(* the word next to it).                                                   *)
(*   e ::= ... | Kw(word, <<e>>) | Kw(word, <<e, e>>) | IfElse(e, e, e)    *)
(* are python's keyword operators (not x, x in y, x and y, x if c else y): *)
(* the only places where a quoted name can stand next to a WORD, the       *)
(* backticks being the only delimiter (not`a b`, x if`c d`else y).         *)
(***************************************************************************)
EXTENDS Integers, Sequences, FiniteSets
CONSTANT Variant

Id(n) == [k |-> "id", n |-> n, args |-> <<>>]
Q(n) == [k |-> "q", n |-> n, args |-> <<>>]
Str(t) == [k |-> "str", n |-> t, args |-> <<>>]
Call(f, args) == [k |-> "call", n |-> f, args |-> args]
Kw(w, args) == [k |-> "kw", n |-> w, args |-> args]                       \* prefix (one operand) or infix (two operands) keyword operator
IfElse(a, c, b) == [k |-> "if", n |-> <<"i", "f">>, args |-> <<a, c, b>>]   \* a if c else b

WordChars == {"a", "b", "c", "e", "x", "p", "f", "g", "_", "1", "o", "r", "m", "u", "l", "i", "n", "t", "d", "s"}      \* "+", "-", " " are not
Digits == {"1"}
IsWord(c) == c \in WordChars
IsIdent(n) == n # <<>> /\ (\A i \in DOMAIN n : IsWord(n[i])) /\ n[1] \notin Digits
Prefix == <<"_", "f", "o", "r", "m", "u", "l", "a", "i", "c", "_">>
Base(n) == LET b == [i \in DOMAIN n |-> IF IsWord(n[i]) THEN n[i] ELSE "_"] IN
           IF b = <<>> \/ b[1] \in Digits THEN <<"_">> \o b ELSE b

RECURSIVE JoinC(_, _)
JoinC(parts, sep) == IF parts = <<>> THEN <<>> ELSE IF Len(parts) = 1 THEN parts[1] ELSE parts[1] \o sep \o JoinC(Tail(parts), sep)

\* a string literal prints with its backslashes doubled (the texts of the model hold no quote characters and no control characters)
RECURSIVE Escaped(_)
Escaped(t) == IF t = <<>> THEN <<>> ELSE (IF Head(t) = "\\" THEN <<"\\", "\\">> ELSE <<Head(t)>>) \o Escaped(Tail(t))
\* canonical formatting; names(q) gives the text printed for a quoted name
\* words and operands of a keyword operator are separated by one blank; in the TIGHT spelling of a source text the blank is left out
\* wherever a backtick already delimits the two
RECURSIVE JoinW(_, _)
JoinW(parts, tight) == IF Len(parts) = 1 THEN parts[1]
                       ELSE LET l == parts[1]
                                r == JoinW(Tail(parts), tight) IN
                            IF tight /\ (l[Len(l)] = "`" \/ r[1] = "`") THEN l \o r ELSE l \o <<" ">> \o r
RECURSIVE RenderG(_, _, _)
RenderG(qtext(_), tight, e) ==
  CASE e.k = "id" -> e.n
    [] e.k = "q" -> qtext(e.n)
    [] e.k = "str" -> <<"'">> \o Escaped(e.n) \o <<"'">>
    [] e.k = "kw" -> LET a == [i \in DOMAIN e.args |-> RenderG(qtext, tight, e.args[i])] IN
                     JoinW(IF Len(a) = 1 THEN <<e.n, a[1]>> ELSE <<a[1], e.n, a[2]>>, tight)
    [] e.k = "if" -> LET a == [i \in DOMAIN e.args |-> RenderG(qtext, tight, e.args[i])] IN
                     JoinW(<<a[1], <<"i", "f">>, a[2], <<"e", "l", "s", "e">>, a[3]>>, tight)
    [] OTHER -> e.n \o <<"(">> \o JoinC([i \in DOMAIN e.args |-> RenderG(qtext, tight, e.args[i])], <<",", " ">>) \o <<")">>
Render(qtext(_), e) == RenderG(qtext, FALSE, e)
Tick(n) == <<"`">> \o n \o <<"`">>
NormalForm(e) == Render(Tick, e)
Tight(e) == RenderG(Tick, TRUE, e)        \* a source spelling of e that differs from the normal form in formatting only

\* quoted names in order of first occurrence
RECURSIVE QNames(_)
RECURSIVE QNamesOf(_)
QNamesOf(args) == IF args = <<>> THEN <<>> ELSE QNames(Head(args)) \o QNamesOf(Tail(args))
QNames(e) == IF e.k = "q" THEN <<e.n>> ELSE IF e.k \in {"call", "kw", "if"} THEN QNamesOf(e.args) ELSE <<>>
\* the texts of the string literals
RECURSIVE Strs(_)
RECURSIVE StrsOf(_)
StrsOf(args) == IF args = <<>> THEN {} ELSE Strs(Head(args)) \cup StrsOf(Tail(args))
Strs(e) == IF e.k = "str" THEN {e.n} ELSE IF e.k \in {"call", "kw", "if"} THEN StrsOf(e.args) ELSE {}
RECURSIVE Dedup(_, _)
Dedup(s, seen) == IF s = <<>> THEN <<>> ELSE IF Head(s) \in seen THEN Dedup(Tail(s), seen) ELSE <<Head(s)>> \o Dedup(Tail(s), seen \cup {Head(s)})

\* alias table: sequence of [alias, orig] in insertion order (python dict: a re-used key keeps its position, takes the new value)
RECURSIVE Aliases(_, _)
Aliases(qs, acc) ==
  IF qs = <<>> THEN acc
  ELSE LET n == Head(qs)
           a0 == IF Variant = "pinned" /\ IsIdent(n) THEN n ELSE Prefix \o Base(n)
           Taken(a) == \E i \in DOMAIN acc : acc[i].alias = a /\ acc[i].orig # n
           RECURSIVE Free(_)
           Free(a) == IF Variant \in {"fixed", "template", "squeeze", "unpadded"} /\ Taken(a) THEN Free(a \o <<"_">>) ELSE a
           a == Free(a0)
           acc2 == IF \E i \in DOMAIN acc : acc[i].alias = a
                   THEN [i \in DOMAIN acc |-> IF acc[i].alias = a THEN [alias |-> a, orig |-> n] ELSE acc[i]]
                   ELSE Append(acc, [alias |-> a, orig |-> n])
       IN Aliases(Tail(qs), acc2)
\* the alias a given occurrence receives (the table at the time of the occurrence; all occurrences of one name get the same alias)
AliasOf(tab, n) == IF Variant = "pinned" /\ IsIdent(n) THEN n
                   ELSE IF Variant = "pinned" THEN Prefix \o Base(n)
                   ELSE tab[CHOOSE i \in DOMAIN tab : tab[i].orig = n].alias

StartsWith(t, i, s) == i + Len(s) - 1 <= Len(t) /\ SubSeq(t, i, i + Len(s) - 1) = s
\* str.replace: leftmost, non-overlapping
RECURSIVE ReplaceAll(_, _, _, _)
ReplaceAll(t, i, s, r) == IF i > Len(t) THEN <<>> ELSE IF StartsWith(t, i, s) THEN r \o ReplaceAll(t, i + Len(s), s, r) ELSE <<t[i]>> \o ReplaceAll(t, i + 1, s, r)
RECURSIVE RestorePinned(_, _)
RestorePinned(t, tab) ==      \* popitem(): last inserted first
  IF tab = <<>> THEN t ELSE RestorePinned(ReplaceAll(t, 1, tab[Len(tab)].alias, Tick(tab[Len(tab)].orig)), SubSeq(tab, 1, Len(tab) - 1))
\* re.sub(r"\b(?:a1|a2|..)\b") with the alternatives ordered by decreasing length
Boundary(t, i) == i < 1 \/ i > Len(t) \/ ~IsWord(t[i])
RECURSIVE RestoreFixed(_, _, _)
RestoreFixed(t, i, tab) ==
  IF i > Len(t) THEN <<>>
  ELSE LET hits == {j \in DOMAIN tab : StartsWith(t, i, tab[j].alias) /\ Boundary(t, i - 1) /\ Boundary(t, i + Len(tab[j].alias))} IN
       IF hits = {} THEN <<t[i]>> \o RestoreFixed(t, i + 1, tab)
       ELSE LET j == CHOOSE j \in hits : \A q \in hits : Len(tab[q].alias) <= Len(tab[j].alias) IN
            Tick(tab[j].orig) \o RestoreFixed(t, i + Len(tab[j].alias), tab)

\* Variant "template" (a design error TLC must refute): the aliases are substituted back one re.sub per alias whose replacement is the
\* TEXT `name` instead of a function of the match.  re.sub reads a replacement text as a template: a backslash pair is one backslash, a
\* backslash in front of a letter or a digit is a control character, a group reference or an error - in every case something that is
\* not the name (written "?" here; the model need not tell those apart) -, in front of anything else it stands for itself.  A quoted
\* name is DATA: only names without a backslash survive a template.
RECURSIVE Expand(_)
Expand(n) == IF n = <<>> THEN <<>>
             ELSE IF Head(n) # "\\" \/ Len(n) = 1 THEN <<Head(n)>> \o Expand(Tail(n))
             ELSE IF n[2] = "\\" THEN <<"\\">> \o Expand(Tail(Tail(n)))
             ELSE IF IsWord(n[2]) /\ n[2] # "_" THEN <<"?">> \o Expand(Tail(Tail(n)))
             ELSE <<"\\", n[2]>> \o Expand(Tail(Tail(n)))
RECURSIVE RestoreTemplate(_, _)
RestoreTemplate(t, tab) ==    \* insertion order, each pass at word boundaries over the result of the previous one
  IF tab = <<>> THEN t ELSE RestoreTemplate(RestoreFixed(t, 1, <<[alias |-> tab[1].alias, orig |-> Expand(tab[1].orig)]>>), Tail(tab))

\* Variant "squeeze" (a design error TLC must refute): the format step, which has to take the line breaks out of the printed code,
\* collapses EVERY run of blanks.  Blanks inside a string literal are data: the literal is "taken verbatim".  (A quoted name is a
\* placeholder while the text is formatted, so names survive - SqueezeLaw says that exactly the literals with a run of blanks do not.)
RECURSIVE Squeeze(_)
Squeeze(t) == IF t = <<>> THEN <<>> ELSE IF Len(t) > 1 /\ t[1] = " " /\ t[2] = " " THEN Squeeze(Tail(t)) ELSE <<Head(t)>> \o Squeeze(Tail(t))

Impl(e) ==
  LET tab == Aliases(QNames(e), <<>>)
      printed == Render(LAMBDA n : AliasOf(tab, n), e)
      sanitized == IF Variant = "squeeze" THEN Squeeze(printed) ELSE printed
  IN IF Variant = "pinned" THEN RestorePinned(sanitized, tab)
     ELSE IF Variant = "template" THEN RestoreTemplate(sanitized, tab) ELSE RestoreFixed(sanitized, 1, tab)

Faithful(e) == Impl(e) = NormalForm(e)
\* what exactly the template restoration gets wrong: the expressions holding a quoted name that a template does not reproduce
TemplateProof(n) == Expand(n) = n
TemplateLaw(e) == Variant = "template" => (Faithful(e) <=> \A i \in DOMAIN QNames(e) : TemplateProof(QNames(e)[i]))
SqueezeLaw(e) == Variant = "squeeze" => (Faithful(e) <=> \A t \in Strs(e) : Squeeze(t) = t)

(***************************************************************************)
(* The scanner in front of the three steps (UNQUOTED_BACKTICK_MATCHER and  *)
(* the loop of sanitize_variable_names): the source text is cut into       *)
(* quoted names and everything else.                                       *)
(* DOC: a string literal opens at a quote character outside a name and a   *)
(* literal and closes at the next such character that no backslash         *)
(* escapes; a quoted name opens at a backtick outside a literal and closes *)
(* at the next backtick - whatever stands between the two, quote           *)
(* characters included, is the name.                                       *)
(* Variants "pinned" / "pinned-scan": the scanner of the pinned commit.    *)
(* Its string pattern "(?:\\"|[^"])*" lets a backslash pass as an ordinary  *)
(* character, so the literal closes at the first quote character that no   *)
(* backslash PRECEDES (failing that, by backtracking, at the last one a    *)
(* backslash precedes); a backtick is a token of its own and the text      *)
(* between two backticks is cut into literals like any other text.         *)
(***************************************************************************)
Quotes == {"'", "\""}
Seg(k, t) == [k |-> k, t |-> t]
RECURSIVE StrEnd(_, _, _)       \* the closing quote of a literal whose content starts at i; 0: none
StrEnd(t, i, q) == IF i > Len(t) THEN 0 ELSE IF t[i] = "\\" THEN StrEnd(t, i + 2, q) ELSE IF t[i] = q THEN i ELSE StrEnd(t, i + 1, q)
SetMin(S) == CHOOSE x \in S : \A y \in S : x <= y
SetMax(S) == CHOOSE x \in S : \A y \in S : x >= y
PinnedEnd(t, i, q) ==
  LET plain == {j \in i..Len(t) : t[j] = q /\ t[j - 1] # "\\"}
      esc == {j \in (i + 1)..Len(t) : t[j] = q /\ t[j - 1] = "\\"}
  IN IF plain # {} THEN SetMin(plain) ELSE IF esc # {} THEN SetMax(esc) ELSE 0
RECURSIVE NextTick(_, _)
NextTick(t, i) == IF i > Len(t) THEN 0 ELSE IF t[i] = "`" THEN i ELSE NextTick(t, i + 1)
PinnedScanner == Variant \in {"pinned", "pinned-scan"}
RECURSIVE Lex(_, _)             \* tokens: literal / name (fixed) / tick (pinned) / single character
Lex(t, i) ==
  IF i > Len(t) THEN <<>>
  ELSE LET se == IF t[i] \in Quotes THEN (IF PinnedScanner THEN PinnedEnd(t, i + 1, t[i]) ELSE StrEnd(t, i + 1, t[i])) ELSE 0
           te == IF t[i] = "`" /\ ~PinnedScanner THEN NextTick(t, i + 1) ELSE 0 IN
       IF se # 0 THEN <<Seg("str", SubSeq(t, i, se))>> \o Lex(t, se + 1)
       ELSE IF te # 0 THEN <<Seg("name", SubSeq(t, i + 1, te - 1))>> \o Lex(t, te + 1)
       ELSE IF t[i] = "`" /\ PinnedScanner THEN <<Seg("tick", <<"`">>)>> \o Lex(t, i + 1)
       ELSE <<Seg("ch", <<t[i]>>)>> \o Lex(t, i + 1)
RECURSIVE CatSegs(_)
CatSegs(ts) == IF ts = <<>> THEN <<>> ELSE Head(ts).t \o CatSegs(Tail(ts))
RECURSIVE Group(_)              \* the loop of the pinned commit: a tick token collects everything up to the next tick token
Group(ts) ==
  IF ts = <<>> THEN <<>>
  ELSE IF Head(ts).k # "tick" THEN <<Head(ts)>> \o Group(Tail(ts))
  ELSE LET rest == Tail(ts)
           close == {j \in DOMAIN rest : rest[j].k = "tick"} IN
       IF close = {} THEN <<Seg("ch", <<"`">> \o CatSegs(rest))>>
       ELSE LET j == SetMin(close) IN <<Seg("name", CatSegs(SubSeq(rest, 1, j - 1)))>> \o Group(SubSeq(rest, j + 1, Len(rest)))
Scan(t) == Group(Lex(t, 1))
ScannedNames(t) == LET sg == Scan(t) IN [i \in 1..Cardinality({j \in DOMAIN sg : sg[j].k = "name"}) |->
                        sg[CHOOSE j \in DOMAIN sg : sg[j].k = "name" /\ Cardinality({u \in 1..j : sg[u].k = "name"}) = i].t]
\* the scanner finds exactly the quoted names of the expression, occurrence by occurrence, in its canonical text ...
ScanOK(e) == ScannedNames(NormalForm(e)) = QNames(e)
\* ... and loses no character doing so
ScanLossless(e) == LET sg == Scan(NormalForm(e)) IN
                   CatSegs([i \in DOMAIN sg |-> IF sg[i].k = "name" THEN Seg("name", Tick(sg[i].t)) ELSE sg[i]]) = NormalForm(e)

(***************************************************************************)
(* Between the scanner and the python parser: the quoted names of the      *)
(* SOURCE TEXT are replaced by their placeholders (the loop of             *)
(* sanitize_variable_names), and python reads the result.  Python reads    *)
(* words: a placeholder that touches a word character becomes part of that *)
(* word.  In the source text the backticks delimit the name, so blanks     *)
(* around them are formatting (Tight); the placeholder is therefore put in *)
(* between blanks.  Variant "unpadded" (a design error TLC must refute)    *)
(* does not do that.                                                       *)
(* LAW (SanitizeLexOK): the sanitised tight source text reads, word for    *)
(* word, as the printed form of the expression over the placeholders - so  *)
(* whatever the spelling, python parses the expression that Impl formats.  *)
(***************************************************************************)
SanitizeText(t, tab) ==
  LET sg == Scan(t)
      pad == IF Variant = "unpadded" THEN <<>> ELSE <<" ">> IN
  CatSegs([i \in DOMAIN sg |-> IF sg[i].k = "name" THEN Seg("name", pad \o AliasOf(tab, sg[i].t) \o pad) ELSE sg[i]])
\* python's reading of a text: string literals, maximal runs of word characters, single other characters; blanks separate
RECURSIVE WordsOf(_, _)
WordsOf(sg, cur) ==
  LET flush == IF cur = <<>> THEN <<>> ELSE <<cur>> IN
  IF sg = <<>> THEN flush
  ELSE LET h == Head(sg) IN
       IF h.k = "ch" /\ IsWord(h.t[1]) THEN WordsOf(Tail(sg), cur \o h.t)
       ELSE flush \o (IF h.t = <<" ">> THEN <<>> ELSE <<h.t>>) \o WordsOf(Tail(sg), <<>>)
Words(t) == WordsOf(Lex(t, 1), <<>>)
SanitizeLexOK(e) ==
  LET tab == Aliases(QNames(e), <<>>) IN
  /\ ScannedNames(Tight(e)) = QNames(e)
  /\ Words(SanitizeText(Tight(e), tab)) = Words(Render(LAMBDA n : AliasOf(tab, n), e))
=============================================================================
