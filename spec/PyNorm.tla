------------------------------- MODULE PyNorm -------------------------------
(***************************************************************************)
(* Normalisation of python fragments (sanitize_python_code in              *)
(* parser/algos/sanitize_tokens.py with sanitize_variable_names /          *)
(* sanitize_variable_name of utils/code.py) on a small expression grammar: *)
(*   e ::= Id(name) | Q(name) | Str(text) | Call(fname, <<e, ...>>)        *)
(* Q(name) is a backtick-quoted name.  Texts are sequences of characters.  *)
(*                                                                         *)
(* DOC (NormalForm): the normal form of a fragment is its canonical        *)
(* formatting (what ast.unparse prints) with every quoted name verbatim    *)
(* between backticks - "taken verbatim ... so any column name can be        *)
(* referenced".                                                            *)
(*                                                                         *)
(* Impl: the three steps of the code - quoted names are replaced by python *)
(* identifiers (aliases), the text is formatted, the aliases are replaced  *)
(* back.  Variant "pinned" is the algorithm of the pinned commit (a quoted *)
(* name that is an identifier is its own alias; aliases may collide; the   *)
(* aliases are substituted back one at a time by plain text replacement),  *)
(* variant "fixed" the repaired one (every alias carries the prefix,       *)
(* colliding aliases are disambiguated, substitution in a single pass at   *)
(* word boundaries, longest alias first).                                  *)
(***************************************************************************)
EXTENDS Integers, Sequences, FiniteSets
CONSTANT Variant

Id(n) == [k |-> "id", n |-> n, args |-> <<>>]
Q(n) == [k |-> "q", n |-> n, args |-> <<>>]
Str(t) == [k |-> "str", n |-> t, args |-> <<>>]
Call(f, args) == [k |-> "call", n |-> f, args |-> args]

WordChars == {"a", "b", "c", "e", "x", "p", "f", "g", "_", "1", "o", "r", "m", "u", "l", "i"}      \* "+", "-", " " are not
Digits == {"1"}
IsWord(c) == c \in WordChars
IsIdent(n) == n # <<>> /\ (\A i \in DOMAIN n : IsWord(n[i])) /\ n[1] \notin Digits
Prefix == <<"_", "f", "o", "r", "m", "u", "l", "a", "i", "c", "_">>
Base(n) == LET b == [i \in DOMAIN n |-> IF IsWord(n[i]) THEN n[i] ELSE "_"] IN
           IF b = <<>> \/ b[1] \in Digits THEN <<"_">> \o b ELSE b

RECURSIVE JoinC(_, _)
JoinC(parts, sep) == IF parts = <<>> THEN <<>> ELSE IF Len(parts) = 1 THEN parts[1] ELSE parts[1] \o sep \o JoinC(Tail(parts), sep)

\* canonical formatting; names(q) gives the text printed for a quoted name
RECURSIVE Render(_, _)
Render(qtext(_), e) ==
  CASE e.k = "id" -> e.n
    [] e.k = "q" -> qtext(e.n)
    [] e.k = "str" -> <<"'">> \o e.n \o <<"'">>
    [] OTHER -> e.n \o <<"(">> \o JoinC([i \in DOMAIN e.args |-> Render(qtext, e.args[i])], <<",", " ">>) \o <<")">>
Tick(n) == <<"`">> \o n \o <<"`">>
NormalForm(e) == Render(Tick, e)

\* quoted names in order of first occurrence
RECURSIVE QNames(_)
RECURSIVE QNamesOf(_)
QNamesOf(args) == IF args = <<>> THEN <<>> ELSE QNames(Head(args)) \o QNamesOf(Tail(args))
QNames(e) == IF e.k = "q" THEN <<e.n>> ELSE IF e.k = "call" THEN QNamesOf(e.args) ELSE <<>>
RECURSIVE Dedup(_, _)
Dedup(s, seen) == IF s = <<>> THEN <<>> ELSE IF Head(s) \in seen THEN Dedup(Tail(s), seen) ELSE <<Head(s)>> \o Dedup(Tail(s), seen \cup {Head(s)})

\* alias table: sequence of [alias, orig] in insertion order (python dict: a re-used key keeps its position, takes the new value)
RECURSIVE Aliases(_, _)
Aliases(qs, acc) ==
  IF qs = <<>> THEN acc
  ELSE LET n == Head(qs)
           a0 == IF Variant = "pinned" /\ IsIdent(n) THEN n ELSE Prefix \o Base(n)
           Taken(a) == \E i \in DOMAIN acc : acc[i].alias = a /\ acc[i].orig # n
           RECURSIVE Free(_)
           Free(a) == IF Variant = "fixed" /\ Taken(a) THEN Free(a \o <<"_">>) ELSE a
           a == Free(a0)
           acc2 == IF \E i \in DOMAIN acc : acc[i].alias = a
                   THEN [i \in DOMAIN acc |-> IF acc[i].alias = a THEN [alias |-> a, orig |-> n] ELSE acc[i]]
                   ELSE Append(acc, [alias |-> a, orig |-> n])
       IN Aliases(Tail(qs), acc2)
\* the alias a given occurrence receives (the table at the time of the occurrence; all occurrences of one name get the same alias)
AliasOf(tab, n) == IF Variant = "pinned" /\ IsIdent(n) THEN n
                   ELSE IF Variant = "pinned" THEN Prefix \o Base(n)
                   ELSE tab[CHOOSE i \in DOMAIN tab : tab[i].orig = n].alias

StartsWith(t, i, s) == i + Len(s) - 1 <= Len(t) /\ SubSeq(t, i, i + Len(s) - 1) = s
\* str.replace: leftmost, non-overlapping
RECURSIVE ReplaceAll(_, _, _, _)
ReplaceAll(t, i, s, r) == IF i > Len(t) THEN <<>> ELSE IF StartsWith(t, i, s) THEN r \o ReplaceAll(t, i + Len(s), s, r) ELSE <<t[i]>> \o ReplaceAll(t, i + 1, s, r)
RECURSIVE RestorePinned(_, _)
RestorePinned(t, tab) ==      \* popitem(): last inserted first
  IF tab = <<>> THEN t ELSE RestorePinned(ReplaceAll(t, 1, tab[Len(tab)].alias, Tick(tab[Len(tab)].orig)), SubSeq(tab, 1, Len(tab) - 1))
\* re.sub(r"\b(?:a1|a2|..)\b") with the alternatives ordered by decreasing length
Boundary(t, i) == i < 1 \/ i > Len(t) \/ ~IsWord(t[i])
RECURSIVE RestoreFixed(_, _, _)
RestoreFixed(t, i, tab) ==
  IF i > Len(t) THEN <<>>
  ELSE LET hits == {j \in DOMAIN tab : StartsWith(t, i, tab[j].alias) /\ Boundary(t, i - 1) /\ Boundary(t, i + Len(tab[j].alias))} IN
       IF hits = {} THEN <<t[i]>> \o RestoreFixed(t, i + 1, tab)
       ELSE LET j == CHOOSE j \in hits : \A q \in hits : Len(tab[q].alias) <= Len(tab[j].alias) IN
            Tick(tab[j].orig) \o RestoreFixed(t, i + Len(tab[j].alias), tab)

Impl(e) ==
  LET tab == Aliases(QNames(e), <<>>)
      sanitized == Render(LAMBDA n : AliasOf(tab, n), e)
  IN IF Variant = "pinned" THEN RestorePinned(sanitized, tab) ELSE RestoreFixed(sanitized, 1, tab)

Faithful(e) == Impl(e) = NormalForm(e)
=============================================================================
