---------------------------- MODULE ParserSession ----------------------------
(***************************************************************************)
(* A DefaultFormulaParser as a mutable object with a history                *)
(* (parser/parser.py, parser/types/operator_resolver.py).                   *)
(*                                                                          *)
(* A parser owns an operator resolver.  The resolver builds its operator    *)
(* table lazily from its own copy of the feature flags the first time an    *)
(* operator token is resolved and caches it (functools.cached_property);    *)
(* set_feature_flags() on the parser rewrites the parser's flags, forwards  *)
(* them to the resolver and drops the cache; pickling / deep-copying a      *)
(* parser copies the public attributes and drops the cache                  *)
(* (OperatorResolver.__getstate__).  include_intercept is a plain public    *)
(* attribute read on every parse.                                           *)
(*                                                                          *)
(* One action per public call; the law (PureParse) is that what a parse     *)
(* call returns is a function of the parser's public configuration at the   *)
(* time of the call and of the string, whatever happened to the object      *)
(* before - in particular an operator disabled by the current flags is      *)
(* rejected on every history (C14).                                         *)
(*                                                                          *)
(* Variant = "code" is the implementation.  The other variants are seeded   *)
(* design errors used to show that the law is not vacuous on the bounded    *)
(* model: "stale" keeps the cached table when the new flags are contained   *)
(* in the old ones, "lossy" forgets the resolver's flags when cloning.      *)
(***************************************************************************)
EXTENDS Integers, Sequences, FiniteSets
\* (the @type comments are for Apalache, see Apa_ParserSession.tla; TLC ignores them)
CONSTANTS
  \* @type: Set(Int);
  Slots,        \* object identities
  \* @type: Set(Set(Str));
  FlagChoices,  \* the flag sets a call may install
  \* @type: Set(Str);
  DefaultFlags, \* FeatureFlags.DEFAULT
  \* @type: Int;
  NForms,       \* size of the formula pool
  \* @type: Str;
  Variant
VARIABLES
  \* @type: Int -> { alive: Bool, intercept: Bool, pflags: Set(Str), rflags: Set(Str), cached: Bool, tflags: Set(Str) };
  obj           \* Slots -> object state
Dead == [alive |-> FALSE, intercept |-> TRUE, pflags |-> {}, rflags |-> {}, cached |-> FALSE, tflags |-> {}]
Fresh(i, f) == [alive |-> TRUE, intercept |-> i, pflags |-> f, rflags |-> f, cached |-> FALSE, tflags |-> {}]

\* DefaultFormulaParser(include_intercept=i, feature_flags=f) in slot s
New(s, i, f) == obj' = [obj EXCEPT ![s] = Fresh(i, f)]
\* parser.set_feature_flags(f)
SetFlags(s, f) ==
  /\ obj[s].alive
  /\ LET o == obj[s]
         drop == IF Variant = "stale" THEN ~(f \subseteq o.rflags) ELSE TRUE
     IN obj' = [obj EXCEPT ![s] = [o EXCEPT !.pflags = f, !.rflags = f, !.cached = o.cached /\ ~drop]]
\* parser.include_intercept = b
SetIntercept(s, b) == obj[s].alive /\ obj' = [obj EXCEPT ![s].intercept = b]
\* any parse call resolves at least one operator table lookup when the string has an operator;
\* the model builds the table on every parse (building early is unobservable)
\* @type: ({ alive: Bool, intercept: Bool, pflags: Set(Str), rflags: Set(Str), cached: Bool, tflags: Set(Str) }) => Set(Str);
TableOf(o) == IF o.cached THEN o.tflags ELSE o.rflags
Parse(s) == obj[s].alive /\ obj' = [obj EXCEPT ![s].cached = TRUE, ![s].tflags = TableOf(obj[s])]
\* pickle.loads(pickle.dumps(parser)) / copy.deepcopy(parser) into slot d
Clone(s, d) ==
  /\ obj[s].alive /\ s # d
  /\ LET o == obj[s] IN
     obj' = [obj EXCEPT ![d] = [o EXCEPT !.cached = FALSE, !.tflags = {},
                                       !.rflags = IF Variant = "lossy" THEN DefaultFlags ELSE o.rflags]]

\* the configuration under which a parse in slot s is actually evaluated, and the public one
EffectiveFlags(s) == TableOf(obj[s])
PublicFlags(s) == obj[s].pflags

TypeOK == obj \in [Slots -> [alive : BOOLEAN, intercept : BOOLEAN, pflags : SUBSET UNION FlagChoices, rflags : SUBSET (UNION FlagChoices \cup DefaultFlags),
                             cached : BOOLEAN, tflags : SUBSET (UNION FlagChoices \cup DefaultFlags)]]
\* the cache, when present, was built from the current flags, and parser and resolver agree
CacheCoherent == \A s \in Slots : obj[s].alive => (obj[s].rflags = obj[s].pflags /\ (obj[s].cached => obj[s].tflags = obj[s].rflags))
=============================================================================
