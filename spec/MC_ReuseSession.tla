---------------------------- MODULE MC_ReuseSession ----------------------------
(***************************************************************************)
(* C09: the kind guard of a replay holds for a materializer that has been   *)
(* used before.                                                             *)
(* MC_Reuse judges Reuse(S, D') as a function of the recorded spec S and    *)
(* the follow-up frame D' - the object that carries out the replay has no   *)
(* past.  The code has one: a materializer is bound to D' once and may be   *)
(* asked for several matrices (fresh formulas, recorded specs); it keeps a  *)
(* cache of evaluated factors, and the recorded kind of a factor is checked *)
(* where the factor is EVALUATED, i.e. on a cache miss only.  This module   *)
(* is the state machine of one such object over FollowOf(t, u):             *)
(*    fc    the evaluated-factor cache (expression, kind of the values)     *)
(*    hist  the calls so far: g > 0 = fresh formula g, 0 = the recorded spec*)
(*    last  the outcome of the latest call of the recorded spec             *)
(* Variant = "cleared" is the design (every call starts from empty caches), *)
(* Variant = "kept" the erroneous one (evaluated factors depend only on the *)
(* data and survive) which TLC must refute: a hit answers with values whose *)
(* kind was never compared with the recorded one.                           *)
(* Theorem SessionFree: the outcome of a replay is Reuse(S, D') whatever    *)
(* the object was asked before - in particular a kind change is an encoding *)
(* error on a used materializer as well.                                    *)
(* Not modelled (C04's matter, not the kind guard's): a hit also carries    *)
(* the statistics of the call that filled it (center() of a fresh formula   *)
(* is centred on the follow-up mean) and skips the null check.              *)
(***************************************************************************)
EXTENDS MC_Reuse
CONSTANTS Variant, MaxPrior
ASSUME Variant \in {"cleared", "kept"}
VARIABLES fc, hist, last
svars == <<t, u, fid, sel, fc, hist, last>>

\* fresh formulas the object may have been asked for before: together they mention every factor expression of Formulas
PriorFormulas == {3, 6, 7, 10}        \* "A + a", "C(A, contr.sum)", "C(A, contr.helmert) + center(a)", "I(center(a) * center(a))"
Stateful == {"center(a)", "I(center(a) * center(a))"}
None == [st |-> "NONE", names |-> <<>>, cells |-> <<>>, warn |-> FALSE, kept |-> <<>>]

FactorsOf(form) == M!DataFactors(form)
EvalKind(f) == IF f.forced THEN "cat" ELSE Base.cols[f.col].kind           \* C() makes its values categorical whatever the column holds
Evaluable(f) == f.e \in Stateful => Base.cols[f.col].kind = "num"          \* arithmetic on text raises before anything is cached
Entry(f) == [e |-> f.e, kind |-> EvalKind(f)]
Start == IF Variant = "cleared" THEN {} ELSE fc                            \* the cache a call starts from
Hit(c, f) == \E x \in c : x.e = f.e
KindOf(c, f) == (CHOOSE x \in c : x.e = f.e).kind

\* a fresh formula: nothing recorded, nothing to compare; every factor that can be evaluated is evaluated (or found) and cached.
\* (If one cannot, the call fails and the factors evaluated before it stay; which ones is an order the model does not fix - all of them here.)
AfterFresh(g) == LET fs == FactorsOf(Formulas[g]) IN
   Start \cup {Entry(fs[i]) : i \in {j \in DOMAIN fs : ~Hit(Start, fs[j]) /\ Evaluable(fs[j])}}

\* the recorded spec: the guard of MC_Reuse!KindChanged, but only where a factor is evaluated
Missed == {i \in DOMAIN DataFactors : ~Hit(Start, DataFactors[i])}
Found  == DOMAIN DataFactors \ Missed
Guarded(i) == LET f == DataFactors[i] IN ~f.forced /\ EvalKind(f) # RecKind(f)
Unguarded(i) == LET f == DataFactors[i] IN ~f.forced /\ KindOf(Start, f) # RecKind(f)
Apply == IF Unmodelled(Base) THEN ROut(Whole)
         ELSE IF \E i \in Missed : Guarded(i) THEN [None EXCEPT !.st = "ENCODING-ERROR"]
         ELSE IF \E i \in Found : Unguarded(i) THEN [None EXCEPT !.st = "MATRIX-OF-THE-WRONG-KIND"]      \* values of the other kind pushed through the recorded encoding
         ELSE ROut(Whole)
AfterApply == Start \cup {Entry(DataFactors[i]) : i \in {j \in Missed : ~Guarded(j) /\ Evaluable(DataFactors[j])}}

SInit == Init /\ fc = {} /\ hist = <<>> /\ last = None
CallFresh(g) == /\ Len(hist) < MaxPrior
                /\ fc' = AfterFresh(g) /\ hist' = Append(hist, g) /\ last' = None
CallSpec == /\ Len(hist) <= MaxPrior
            /\ fc' = AfterApply /\ hist' = Append(hist, 0) /\ last' = Apply
SNext == (CallSpec \/ \E g \in PriorFormulas : CallFresh(g)) /\ UNCHANGED vars
SSpec == SInit /\ [][SNext]_svars

Final == hist # <<>> /\ Last(hist) = 0
SessionFree == Final => last = ROut(Whole)
GuardOnUsedObject == (Final /\ ~Unmodelled(Base) /\ KindChanged(Base)) => last.st = "ENCODING-ERROR"

HistText == [i \in DOMAIN hist |-> IF hist[i] = 0 THEN "<spec>" ELSE FormulaText[hist[i]]]
EmitSession == Emit => CSVWrite("%1$s", <<ToJson([t |-> t, u |-> u, formula |-> FormulaText[fid], sel |-> sel, final |-> Final, hist |-> HistText,
      train |-> FrameOut(Train[t]), follow |-> FrameOut(Base), fit_names |-> M!Names(Fit), fit_cells |-> M!Cells(Fit, Len(KeptT)),
      whole |-> ROut(Whole), last |-> last])>>, Out)
=============================================================================
