--------------------------- MODULE MC_ParserSession ---------------------------
(* Every history of public calls up to MaxOps on at most two parser objects;      *)
(* each parse step carries the outcome Wilkinson.tla assigns under the effective  *)
(* configuration; the law compares it with the outcome under the public one.      *)
EXTENDS Integers, Sequences, FiniteSets, TLC, TLCExt, Json, CSV, IOUtils, SequencesExt
CONSTANTS MaxOps, Emit, Variant
W == INSTANCE Wilkinson

AllFlags == {"TWOSIDED", "MULTIPART", "MULTISTAGE"}
DefaultFlags == {"TWOSIDED", "MULTIPART"}
FlagChoices == {{}, DefaultFlags, AllFlags, {"MULTIPART", "MULTISTAGE"}}
Slots == {1, 2}

a == W!Tok("name", "a")
b == W!Tok("name", "b")
Op(c) == W!OpTok(<<c>>)
Forms == <<
  [text |-> "a + b",       toks |-> <<a, Op("+"), b>>],
  [text |-> "a ~ b",       toks |-> <<a, Op("~"), b>>],
  [text |-> "a | b",       toks |-> <<a, Op("|"), b>>],
  [text |-> "[ a ~ b ]",   toks |-> <<W!CtxTok("open", "["), a, Op("~"), b, W!CtxTok("close", "]")>>],
  [text |-> "a ~ b | a",   toks |-> <<a, Op("~"), b, Op("|"), a>>],
  [text |-> "~ a * b",     toks |-> <<Op("~"), a, Op("*"), b>>] >>
NForms == Len(Forms)

VARIABLES obj, hist
PS == INSTANCE ParserSession
vars == <<obj, hist>>

RECURSIVE Join(_, _)
Join(ss, sep) == IF ss = <<>> THEN "" ELSE IF Len(ss) = 1 THEN ss[1] ELSE ss[1] \o sep \o Join(Tail(ss), sep)
TermStr(t) == Join(W!ExprSeq(t), " & ")
TermsStr(ts) == IF ts = <<>> THEN "{}" ELSE Join([i \in DOMAIN ts |-> TermStr(ts[i])], " + ")
PartsStr(ps) == Join([i \in DOMAIN ps |-> TermsStr(ps[i])], " | ")
ResStr(res) == CASE res.st = "REJECT" -> "R" [] res.st = "UNMODELLED" -> "U" [] res.shape = "tree" -> "tree#" \o W!TreeStr(res.tree)
                 [] OTHER -> res.shape \o "#" \o PartsStr(res.lhs) \o "#" \o PartsStr(res.rhs)
Outcome(i, fl, k) == ResStr(W!Parse([intercept |-> i, flags |-> fl, avail |-> [present |-> FALSE, vars |-> <<>>]], Forms[k].toks))

H(op, s, arg, out, pub, pf) == [op |-> op, s |-> s, arg |-> arg, out |-> out, pub |-> pub, pf |-> pf]
Init == /\ \E f \in FlagChoices : obj = [s \in Slots |-> IF s = 1 THEN PS!Fresh(TRUE, f) ELSE PS!Dead]
        /\ hist = <<H("new", 1, SetToSeq(obj[1].pflags), "", "", {})>>
Next ==
  /\ Len(hist) < MaxOps + 1
  /\ \/ \E s \in Slots, f \in FlagChoices : PS!SetFlags(s, f) /\ hist' = Append(hist, H("set_flags", s, SetToSeq(f), "", "", {}))
     \/ \E s \in Slots : PS!SetIntercept(s, ~obj[s].intercept) /\ hist' = Append(hist, H("toggle_intercept", s, <<>>, "", "", {}))
     \/ \E s \in Slots, k \in 1..NForms :
           /\ PS!Parse(s)
           /\ hist' = Append(hist, H("parse", s, <<Forms[k].text>>, Outcome(obj[s].intercept, PS!EffectiveFlags(s), k),
                                                                 Outcome(obj[s].intercept, PS!PublicFlags(s), k), PS!PublicFlags(s)))
     \/ \E s \in Slots, d \in Slots, how \in {"pickle", "deepcopy"} : PS!Clone(s, d) /\ hist' = Append(hist, H(how, s, <<ToString(d)>>, "", "", {}))
Spec == Init /\ [][Next]_vars

TypeOK == PS!TypeOK
CacheCoherent == PS!CacheCoherent
\* what a parse returns is what the public configuration at the time of the call prescribes
PureParse == \A i \in DOMAIN hist : hist[i].op = "parse" => hist[i].out = hist[i].pub
\* an operator disabled by the current public flags is rejected on every history (the C14 clause)
Needs(k) == CASE k = 1 -> {} [] k = 2 -> {"TWOSIDED"} [] k = 3 -> {"MULTIPART"} [] k = 4 -> {"MULTISTAGE"}
              [] k = 5 -> {"TWOSIDED", "MULTIPART"} [] k = 6 -> {}     \* the unary '~' is not governed by a flag
TextIdx(t) == CHOOSE k \in 1..NForms : Forms[k].text = t
DisabledRejected == \A i \in DOMAIN hist : hist[i].op = "parse" =>
   (~(Needs(TextIdx(hist[i].arg[1])) \subseteq hist[i].pf) => hist[i].out \in {"R", "U"})
\* cross-check of the hand-written Needs table against Wilkinson.tla: accepted under fl  <=>  Needs \subseteq fl (or unmodelled)
NeedsTable == \A k \in 1..NForms, fl \in SUBSET AllFlags :
   LET o == Outcome(TRUE, fl, k) IN o = "U" \/ ((o = "R") <=> ~(Needs(k) \subseteq fl))

Out == IOEnv.OUT_FILE
EmitCase == Emit => CSVWrite("%1$s", <<ToJson([hist |-> [i \in DOMAIN hist |-> [op |-> hist[i].op, s |-> hist[i].s, arg |-> hist[i].arg, out |-> hist[i].out]]])>>, Out)
=============================================================================
