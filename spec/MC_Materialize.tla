---------------------------- MODULE MC_Materialize ----------------------------
(***************************************************************************)
(* Bounded enumeration of (formula, frame, options) for the materializer    *)
(* properties C02 C03 C05 C06 C10: model-level theorems and emission of the *)
(* expected matrices for the replay legs.                                    *)
(***************************************************************************)
EXTENDS Integers, Sequences, FiniteSets, TLC, TLCExt, Json, CSV, IOUtils, SequencesExt
CONSTANTS MaxTerms, Emit, FrameSet, Slice, SliceMod

M == INSTANCE Materialize

(* factors *)
Num(e) == [e |-> e, kind |-> "num", col |-> e, contr |-> "", lit |-> 1]
Cat(e) == [e |-> e, kind |-> "cat", col |-> e, contr |-> "treatment", lit |-> 1]
CC(e, col, contr) == [e |-> e, kind |-> "cat", col |-> col, contr |-> contr, lit |-> 1]
Lit(n) == [e |-> ToString(n), kind |-> "lit", col |-> "", contr |-> "", lit |-> n]
a == Num("a")   b == Num("b")   A == Cat("A")   B == Cat("B")
CS == CC("C(A, contr.sum)", "A", "sum")
CH == CC("C(B, contr.helmert)", "B", "helmert")
CX == CC("C(B, contr.SAS)", "B", "sas")
QN == [e |-> "n 1", kind |-> "num", col |-> "n 1", contr |-> "", lit |-> 1]               \* written `n 1`
PYQ == [e |-> "I(`n 1`)", kind |-> "num", col |-> "n 1", contr |-> "", lit |-> 1]         \* a quoted name inside a python factor
Icpt == <<Lit(1)>>

TermPool == << <<a>>, <<b>>, <<A>>, <<B>>, <<a, b>>, <<A, a>>, <<a, A>>, <<A, B>>, <<B, A>>, <<A, B, a>>,
               <<Lit(2), a>>, <<Lit(2), A>>, <<Lit(3), A, B>>, <<CS>>, <<CS, a>>, <<CH>>, <<CH, A>>, <<CX>>, <<b, CX>>, <<QN>>, <<PYQ, A>> >>

(* frames *)
NumCol(v, nulls) == [kind |-> "num", num |-> v, cat |-> <<>>, nulls |-> nulls, lv |-> <<>>, declared |-> FALSE]
CatCol(v, nulls, lv, decl) == [kind |-> "cat", num |-> <<>>, cat |-> v, nulls |-> nulls, lv |-> lv, declared |-> decl]
\* "n 1" is a numeric column whose name is not an identifier (it must be quoted in a formula): the values of b plus 10, never null
Fr(n, ca, cb, cA, cB) == [n |-> n, cols |-> [c \in {"a", "b", "A", "B", "n 1"} |->
                            CASE c = "a" -> ca [] c = "b" -> cb [] c = "A" -> cA [] c = "B" -> cB
                              [] OTHER -> NumCol([i \in DOMAIN cb.num |-> cb.num[i] + 10], {})]]
XYZ == <<"x", "y", "z">>   PQ == <<"p", "q">>
Frames == <<
  Fr(4, NumCol(<<2, 3, -1, 5>>, {}), NumCol(<<1, 0, 4, 2>>, {}), CatCol(<<"x", "y", "x", "z">>, {}, XYZ, FALSE), CatCol(<<"p", "q", "q", "p">>, {}, PQ, FALSE)),
  Fr(4, NumCol(<<2, 0, -1, 5>>, {2}), NumCol(<<1, 0, 4, 2>>, {}), CatCol(<<"x", "y", "", "z">>, {3}, XYZ, FALSE), CatCol(<<"p", "q", "q", "p">>, {}, PQ, FALSE)),
  Fr(3, NumCol(<<2, 3, 7>>, {}), NumCol(<<1, 5, 4>>, {}), CatCol(<<"x", "x", "x">>, {}, XYZ, FALSE), CatCol(<<"p", "q", "p">>, {}, PQ, FALSE)),
  Fr(4, NumCol(<<2, 3, -1, 5>>, {}), NumCol(<<1, 0, 4, 2>>, {}), CatCol(<<"x", "y", "x", "y">>, {}, XYZ, TRUE), CatCol(<<"q", "q", "p", "p">>, {}, <<"q", "p">>, TRUE)),
  Fr(1, NumCol(<<3>>, {}), NumCol(<<-2>>, {}), CatCol(<<"y">>, {}, XYZ, FALSE), CatCol(<<"q">>, {}, PQ, FALSE)),
  Fr(4, NumCol(<<2, 3, 0, 5>>, {3}), NumCol(<<1, 0, 4, 0>>, {4}), CatCol(<<"x", "y", "z", "x">>, {}, XYZ, FALSE), CatCol(<<"p", "", "q", "p">>, {2}, PQ, FALSE)) >>
FrameIds == IF FrameSet = "all" THEN DOMAIN Frames ELSE {1, 2}

VARIABLES terms, icpt, fid, fullrank, na, cluster
vars == <<terms, icpt, fid, fullrank, na, cluster>>

RECURSIVE FoldSum(_)
FoldSum(q) == IF q = <<>> THEN 0 ELSE Head(q) + FoldSum(Tail(q))
NonLit(t) == {t[i].e : i \in {k \in DOMAIN t : t[k].kind # "lit"}}
Distinct(t1, t2) == NonLit(t1) # NonLit(t2)
Degree(t) == Len(SelectSeq(t, LAMBDA f : f.kind # "lit"))
RECURSIVE InsDeg(_, _)
InsDeg(sorted, t) == IF sorted = <<>> THEN <<t>> ELSE IF Degree(Head(sorted)) <= Degree(t) THEN <<Head(sorted)>> \o InsDeg(Tail(sorted), t) ELSE <<t>> \o sorted
RECURSIVE SortDeg(_)
SortDeg(ts) == IF ts = <<>> THEN <<>> ELSE InsDeg(SortDeg(SubSeq(ts, 1, Len(ts) - 1)), ts[Len(ts)])

Written == [i \in DOMAIN terms |-> TermPool[terms[i]]]                 \* the formula as written
Formula == SortDeg((IF icpt THEN <<Icpt>> ELSE <<>>) \o Written)        \* what the parser delivers
Frame == Frames[fid]
Opts == [full_rank |-> fullrank, na |-> na, cluster |-> cluster]
Drop == M!DropSet(Frame, <<Formula>>, na, {})
KeptRows == M!Kept(Frame, Drop)
Fails == M!RaiseFails(Frame, <<Formula>>, na)
Degenerate == KeptRows = <<>> \/ Fails
B0 == M!BuildOn(Frame, Formula, Opts, KeptRows, <<>>, <<>>)

(* ---------------- model-level theorems ---------------- *)
\* C02: with rank reduction off the matrix is, term by term, the complete Kronecker product of the full encodings
\*      times the literal scale; the number of columns of a term is the product of its factors' widths
Width(f) == IF f.kind = "lit" THEN 1 ELSE IF f.kind = "num" THEN 1 ELSE Len(M!Levels(Frame, f, KeptRows, <<>>))
RECURSIVE ProdW(_)
ProdW(t) == IF t = <<>> THEN 1 ELSE Width(Head(t)) * ProdW(Tail(t))
UnreducedLayout == (~Degenerate /\ ~fullrank) => \A t \in DOMAIN B0.terms : Len(B0.percol[t]) = ProdW(B0.terms[t])
\* C02: the intercept is a column of ones named Intercept; scale applied exactly once
InterceptOnes == ~Degenerate => \A t \in DOMAIN B0.terms : \A j \in DOMAIN B0.percol[t] :
                    B0.percol[t][j].name = "Intercept" => \A r \in DOMAIN KeptRows : B0.percol[t][j].vals[r] = M!ProdLits(B0.terms[t])
ScaleOnce == ~Degenerate => \A t \in DOMAIN B0.scoped : \A q \in DOMAIN B0.scoped[t] : B0.scoped[t][q].scale = M!ProdLits(B0.terms[t])
\* C03: the pieces spanned by the emitted scoped terms partition P(terms): no piece twice, none missing
Pieces(st, term) ==        \* a scoped term spans every choice "present/absent" of its FULL categorical factors
  LET full == {st.fs[i].f : i \in {k \in DOMAIN st.fs : ~st.fs[k].red /\ M!FactorByExpr(term, st.fs[k].f).kind = "cat"}}
      base == {st.fs[i].f : i \in DOMAIN st.fs} \ full
  IN {base \cup U : U \in SUBSET full}
TermPieces(term) ==        \* P(term): numerical factors always present, any subset of the categorical ones
  LET cats == {term[i].e : i \in {k \in DOMAIN term : term[k].kind = "cat"}}
      nums == {term[i].e : i \in {k \in DOMAIN term : term[k].kind = "num"}}
  IN {nums \cup U : U \in SUBSET cats}
PartitionOK == (~Degenerate /\ fullrank) =>
   LET em == UNION {{<<t, q>> : q \in DOMAIN B0.scoped[t]} : t \in DOMAIN B0.scoped}
       pc(x) == Pieces(B0.scoped[x[1]][x[2]], B0.terms[x[1]])
   IN /\ \A x, y \in em : x # y => pc(x) \cap pc(y) = {}
      /\ UNION {pc(x) : x \in em} = UNION {TermPieces(B0.terms[t]) : t \in DOMAIN B0.terms}
\* C06: kept rows are the complement of the drop set, in order
RowsOK == ~Fails => /\ \A i \in DOMAIN KeptRows : KeptRows[i] \notin Drop
                    /\ Len(KeptRows) + Cardinality(Drop) = Frame.n
                    /\ \A i \in 1..(Len(KeptRows) - 1) : KeptRows[i] < KeptRows[i + 1]
\* C10: per-term column ranges are contiguous, disjoint, in term order and cover all columns
SlicesOK == ~Degenerate => LET sl == M!Slices(B0) IN Len(M!Names(B0)) = FoldSum(sl)

SingleEncoding == \A i, j \in DOMAIN Formula : \A p \in DOMAIN Formula[i] : \A q \in DOMAIN Formula[j] :
                     (Formula[i][p].kind = "cat" /\ Formula[j][q].kind = "cat" /\ Formula[i][p].col = Formula[j][q].col) => Formula[i][p].e = Formula[j][q].e
Hash == FoldSum(terms) + 7 * fid + (IF icpt THEN 3 ELSE 0) + (IF fullrank THEN 5 ELSE 0)
Out == IOEnv.OUT_FILE
TermOut(t) == [i \in DOMAIN t |-> t[i].e]
FrameOut(f) == [n |-> f.n, cols |-> [c \in DOMAIN f.cols |-> [kind |-> f.cols[c].kind, num |-> f.cols[c].num, cat |-> f.cols[c].cat,
                                   nulls |-> SetToSortSeq(f.cols[c].nulls, <), lv |-> f.cols[c].lv, declared |-> f.cols[c].declared]]]
EmitCase ==
  /\ (Emit /\ terms = <<>> /\ icpt /\ fullrank /\ ~cluster /\ na = "drop") => CSVWrite("%1$s", <<ToJson([frame_id |-> fid, frame |-> FrameOut(Frame)])>>, Out)
  /\ (Emit /\ (Hash % SliceMod = Slice)) =>
    CSVWrite("%1$s", <<ToJson(
      [written |-> [i \in DOMAIN Written |-> TermOut(Written[i])], icpt |-> icpt, fid |-> fid,
       full_rank |-> fullrank, na |-> na, cluster |-> cluster,
       fails |-> Fails, empty |-> KeptRows = <<>>,
       formula |-> [i \in DOMAIN Formula |-> TermOut(Formula[i])],
       drop |-> SetToSortSeq(Drop, <), kept |-> KeptRows,
       names |-> IF Degenerate THEN <<>> ELSE M!Names(B0),
       cells |-> IF Degenerate THEN <<>> ELSE M!Cells(B0, Len(KeptRows)),
       terms |-> IF Degenerate THEN <<>> ELSE [i \in DOMAIN B0.terms |-> TermOut(B0.terms[i])],
       slices |-> IF Degenerate THEN <<>> ELSE M!Slices(B0),
       scoped |-> IF Degenerate THEN <<>> ELSE M!ScopedOut(B0), single |-> SingleEncoding])>>, Out)

Init == /\ terms = <<>> /\ icpt \in BOOLEAN /\ fid \in FrameIds /\ fullrank \in BOOLEAN
        /\ na \in {"drop", "raise", "ignore"} /\ cluster \in BOOLEAN
        /\ (Frames[fid].cols["a"].nulls \cup Frames[fid].cols["b"].nulls \cup Frames[fid].cols["A"].nulls \cup Frames[fid].cols["B"].nulls = {} => na = "drop")
        /\ (cluster => fullrank)
Next == /\ Len(terms) < MaxTerms
        /\ \E t \in DOMAIN TermPool : (\A i \in DOMAIN terms : terms[i] # t /\ Distinct(TermPool[terms[i]], TermPool[t])) /\ terms' = Append(terms, t)
        /\ UNCHANGED <<icpt, fid, fullrank, na, cluster>>
Spec == Init /\ [][Next]_vars
=============================================================================
