------------------------------ MODULE MC_Session ------------------------------
EXTENDS Integers, Sequences, FiniteSets, TLC, TLCExt, Json, CSV, IOUtils, SequencesExt
CONSTANTS MaxOps, Emit, Family, Variant
VARIABLES hist, memo, heap, last, seen
S == INSTANCE Session
Init == S!Init
Next == Len(hist) < MaxOps /\ \E op \in S!Ops : S!Do(op)
Spec == Init /\ [][Next]_<<hist, memo, heap, last, seen>>
Det == S!Det
Indep == S!Indep
Frame == S!Frame
Out == IOEnv.OUT_FILE
EmitCase == (Emit /\ hist # <<>>) => CSVWrite("%1$s", <<ToJson([hist |-> hist])>>, Out)
=============================================================================
