------------------------------ MODULE MC_Missing ------------------------------
(***************************************************************************)
(* C06 / C07: every null pattern (<= 2 nulls per column) over three data    *)
(* columns of a 4-row frame x formulas (one-sided, two-sided, multi-part)   *)
(* x null policy x caller-supplied drop set.  Theorems about rows and the   *)
(* drop set; emission of the expected parts for the replay legs.            *)
(***************************************************************************)
EXTENDS Integers, Sequences, FiniteSets, TLC, TLCExt, Json, CSV, IOUtils, SequencesExt
CONSTANTS Emit, MaxNulls, FormulaSet
M == INSTANCE Materialize

Num(e) == [e |-> e, kind |-> "num", col |-> e, contr |-> "", lit |-> 1]
Cat(e, col) == [e |-> e, kind |-> "cat", col |-> col, contr |-> "treatment", lit |-> 1]
Lit(n) == [e |-> ToString(n), kind |-> "lit", col |-> "", contr |-> "", lit |-> n]
a == Num("a")  b == Num("b")  h == Num("h")  A == Cat("A", "A")  CA == Cat("C(A)", "A")
CS == [e |-> "C(A, contr.sum)", kind |-> "cat", col |-> "A", contr |-> "sum", lit |-> 1]
CHm == [e |-> "C(A, contr.helmert)", kind |-> "cat", col |-> "A", contr |-> "helmert", lit |-> 1]
CL == Cat("C(L)", "A")        \* the values of A held by the caller's context as an array of strings (no column of the frame)
I1 == <<Lit(1)>>

\* formulas: [shape, lhs (sequence of parts), rhs (sequence of parts)], a part = sequence of terms
F(shape, l, r) == [shape |-> shape, lhs |-> l, rhs |-> r]
Formulas == <<
  F("root", <<>>, << <<I1, <<a>>>> >>),                               \* a
  F("root", <<>>, << <<I1, <<a>>, <<A>>>> >>),                        \* a + A
  F("root", <<>>, << <<I1, <<A, b>>>> >>),                            \* A:b
  F("two", << <<<<b>>>> >>, << <<I1, <<a>>>> >>),                     \* b ~ a
  F("two", << <<<<b>>>> >>, << <<I1, <<A>>>>, <<I1, <<a>>>> >>),      \* b ~ A | a
  F("root", <<>>, << <<I1, <<CA>>>> >>),                              \* C(A)
  F("root", <<>>, << <<I1, <<b>>, <<h>>>> >>),                        \* b + hashed(...)   (h: opaque, never null)
  F("two", << <<<<a>>>> >>, << << >> , <<I1, <<A>>>> >>),             \* a ~ 0 | A   (an empty part)
  F("root", <<>>, << <<I1, <<a>>>>, <<<<b>>>> >>),                    \* a | 0 + b
  F("tuple", <<>>, << <<I1, <<a>>>>, <<I1, <<A>>>> >>),               \* Formula(("a", "A"))
  F("kw", << <<<<b>>>> >>, << <<<<a>>, <<A>>>> >>),                   \* Formula(lhs="b", rhs="a + A")  (nested parser: no intercept)
  F("nested", << <<<<b>>>>, <<<<a>>>> >>, << <<<<A>>>>, <<<<a>>>> >>),     \* Formula(x="b ~ a", y=("A", "a"))
  \* the same C(...) factor at full rank in one part and at reduced rank in a later one (and the other way round)
  F("two", << <<<<b>>>> >>, << <<<<CS>>>>, <<I1, <<CS>>, <<a>>>> >>),       \* b ~ 0 + C(A, contr.sum) | C(A, contr.sum) + a
  F("root", <<>>, << <<I1, <<CHm>>>>, <<<<CHm>>, <<CHm, b>>>> >>),         \* C(A, contr.helmert) | 0 + C(A, contr.helmert) + C(A, contr.helmert):b
  \* the same interaction in two parts whose other terms differ: its full/reduced coding is decided per part
  F("two", << <<<<b>>>> >>, << <<I1, <<A>>, <<A, a>>>>, <<I1, <<a>>, <<A, a>>>> >>),     \* b ~ A + A:a | a + A:a
  F("root", <<>>, << <<I1, <<a>>, <<A, a>>>>, <<<<A, a>>>>, <<I1, <<A>>, <<A, a>>>> >>),     \* a + A:a | 0 + A:a | A + A:a
  F("root", <<>>, << <<I1, <<b>>, <<CL>>>> >>),                      \* b + C(L)
  \* the same factors in two parts, under another literal scale / written in another order: a part is built from ITS terms
  F("two", << <<<<b>>>> >>, << <<I1, <<a>>, <<A>>>>, <<I1, <<Lit(2), a>>>> >>),          \* b ~ a + A | 2:a
  F("two", << <<<<b>>>> >>, << <<I1, <<a, A>>>>, <<I1, <<A, a>>>> >>) >>                 \* b ~ a:A | A:a
FormulaIds == IF FormulaSet = "c06" THEN 1..9 \cup {17} ELSE {4, 5, 8, 9, 10, 11, 12, 13, 14, 15, 16, 18, 19}

VARIABLES na_, nb_, nA_, fid, na, drop0
vars == <<na_, nb_, nA_, fid, na, drop0>>
Rows == 1..4
NullSets == {S \in SUBSET Rows : Cardinality(S) <= MaxNulls}
Col(kind, num, cat, nulls) == [kind |-> kind, num |-> num, cat |-> cat, nulls |-> nulls, lv |-> <<"x", "y", "z">>, declared |-> FALSE]
Frame == [n |-> 4, cols |-> [c \in {"a", "b", "A", "h"} |->
            CASE c = "a" -> Col("num", <<2, 3, 5, 7>>, <<>>, na_)
              [] c = "b" -> Col("num", <<11, 13, 17, 19>>, <<>>, nb_)
              [] c = "h" -> Col("num", <<1, 1, 1, 1>>, <<>>, {})
              [] c = "A" -> Col("cat", <<>>, <<"x", "y", "z", "x">>, nA_)]]
Form == Formulas[fid]
Parts == Form.lhs \o Form.rhs
Drop1 == M!DropSet(Frame, Parts, na, drop0)
KeptRows == M!Kept(Frame, Drop1)
Fails == M!RaiseFails(Frame, Parts, na)
Opts == [full_rank |-> TRUE, na |-> na, cluster |-> FALSE]

\* theorems (C06)
DropGrows == drop0 \subseteq Drop1
DropExact == ~Fails => Drop1 = (IF na = "drop" THEN drop0 \cup M!AllNulls(Frame, Parts) ELSE drop0)
KeptIsComplement == ~Fails => {KeptRows[i] : i \in DOMAIN KeptRows} = Rows \ Drop1 /\ \A i \in 1..(Len(KeptRows) - 1) : KeptRows[i] < KeptRows[i + 1]
RaiseIff == Fails <=> (na = "raise" /\ \E p \in DOMAIN Parts : \E t \in DOMAIN Parts[p] : \E f \in DOMAIN Parts[p][t] :
                          Parts[p][t][f].kind # "lit" /\ Frame.cols[Parts[p][t][f].col].nulls # {})
\* C07: every part has the same rows, and equals the part built alone with the joint drop set supplied
PartBuild(p) == M!BuildOn(Frame, Parts[p], Opts, KeptRows, <<>>, <<>>)
AloneEqualsJoint == (~Fails /\ KeptRows # <<>>) => \A p \in DOMAIN Parts :
   LET dropAlone == M!DropSet(Frame, <<Parts[p]>>, na, Drop1) IN
   dropAlone = Drop1 /\ M!Cells(M!BuildOn(Frame, Parts[p], Opts, M!Kept(Frame, dropAlone), <<>>, <<>>), Len(KeptRows)) = M!Cells(PartBuild(p), Len(KeptRows))

TermOut(t) == [i \in DOMAIN t |-> t[i].e]
PartOut(p) == [terms |-> [t \in DOMAIN Parts[p] |-> TermOut(Parts[p][t])],
               names |-> M!Names(PartBuild(p)), cells |-> M!Cells(PartBuild(p), Len(KeptRows))]
Out == IOEnv.OUT_FILE
EmitCase == Emit => CSVWrite("%1$s", <<ToJson(
   [fid |-> fid, shape |-> Form.shape, nlhs |-> Len(Form.lhs), na |-> na,
    nulls |-> [a |-> SetToSortSeq(na_, <), b |-> SetToSortSeq(nb_, <), A |-> SetToSortSeq(nA_, <)],
    drop0 |-> SetToSortSeq(drop0, <), fails |-> Fails, drop1 |-> SetToSortSeq(Drop1, <), kept |-> KeptRows,
    parts |-> IF Fails \/ KeptRows = <<>> THEN <<>> ELSE [p \in DOMAIN Parts |-> PartOut(p)]])>>, Out)

Init == /\ na_ \in NullSets /\ nb_ \in NullSets /\ nA_ \in NullSets /\ fid \in FormulaIds
        /\ na \in {"drop", "raise", "ignore"} /\ drop0 \in {{}, {1}, {2, 4}}
Next == UNCHANGED vars
Spec == Init /\ [][Next]_vars
=============================================================================
