----------------------------- MODULE Structured -----------------------------
(***************************************************************************)
(* The `Structured` container of utils/structured.py as an algebra on       *)
(* trees.  A node is one of                                                  *)
(*   [t |-> "leaf", v  |-> sequence of integers]      (leaves are lists so  *)
(*                                                     that merging them is *)
(*                                                     concatenation)       *)
(*   [t |-> "tup",  items |-> sequence of nodes]      a python tuple        *)
(*   [t |-> "st",   keys |-> sequence of strings,     a Structured; keys in *)
(*                  vals |-> sequence of nodes]       insertion order       *)
(* DOC marks where the specification states the documented behaviour and    *)
(* the pinned code deviated (a tuple nested directly in a tuple is a         *)
(* nesting like any other: its members are the leaves).                      *)
(***************************************************************************)
EXTENDS Integers, Sequences, FiniteSets
CONSTANT Variant        \* "code": the algorithm of the library; "outer": a seeded design error of _simplify (see Unwrap)

Leaf(v) == [t |-> "leaf", v |-> v, items |-> <<>>, keys |-> <<>>, vals |-> <<>>]
Tup(items) == [t |-> "tup", v |-> <<>>, items |-> items, keys |-> <<>>, vals |-> <<>>]
St(keys, vals) == [t |-> "st", v |-> <<>>, items |-> <<>>, keys |-> keys, vals |-> vals]
ErrNode == [t |-> "err", v |-> <<>>, items |-> <<>>, keys |-> <<>>, vals |-> <<>>]
\* A Structured built through its constructor (which takes `root` as a named parameter and adds it
\* to the keyword dictionary afterwards) stores the other keys in the order given and "root" last.
Ctor(keys, vals) ==
  LET nr == SelectSeq([i \in DOMAIN keys |-> i], LAMBDA i : keys[i] # "root")
      rt == SelectSeq([i \in DOMAIN keys |-> i], LAMBDA i : keys[i] = "root")
      ord == nr \o rt
  IN St([j \in DOMAIN ord |-> keys[ord[j]]], [j \in DOMAIN ord |-> vals[ord[j]]])

RECURSIVE FlatMapN(_, _)
FlatMapN(F(_), s) == IF s = <<>> THEN <<>> ELSE F(Head(s)) \o FlatMapN(F, Tail(s))

(* _flatten: every leaf, depth first, in structure order *)
RECURSIVE Flatten(_)
Flatten(n) ==
  CASE n.t = "leaf" -> <<n.v>>
    [] n.t = "tup"  -> FlatMapN(Flatten, n.items)          \* DOC: nested tuples are recursed into
    [] n.t = "st"   -> FlatMapN(Flatten, n.vals)
    [] OTHER -> <<>>

(* _map: same shape, f applied to every leaf; MapPaths gives the context path of every leaf *)
RECURSIVE MapTree(_, _)
MapTree(F(_), n) ==
  CASE n.t = "leaf" -> Leaf(F(n.v))
    [] n.t = "tup"  -> Tup([i \in DOMAIN n.items |-> MapTree(F, n.items[i])])
    [] n.t = "st"   -> Ctor(n.keys, [i \in DOMAIN n.vals |-> MapTree(F, n.vals[i])])
    [] OTHER -> n
\* the order in which _map applies the function: the traversal of _map itself
RECURSIVE VisitOrder(_)
VisitOrder(n) ==
  CASE n.t = "leaf" -> <<n.v>>
    [] n.t = "tup"  -> FlatMapN(VisitOrder, n.items)
    [] n.t = "st"   -> FlatMapN(VisitOrder, n.vals)
    [] OTHER -> <<>>
RECURSIVE Canon(_)
Canon(n) == CASE n.t = "tup" -> Tup([i \in DOMAIN n.items |-> Canon(n.items[i])])
              [] n.t = "st" -> Ctor(n.keys, [i \in DOMAIN n.vals |-> Canon(n.vals[i])])
              [] OTHER -> n

\* paths are sequences of strings: keys, and tuple indices rendered as "0", "1", ...
Idx(i) == CASE i = 1 -> "0" [] i = 2 -> "1" [] i = 3 -> "2" [] i = 4 -> "3" [] OTHER -> "4"
RECURSIVE Paths(_, _)
Paths(n, ctx) ==
  CASE n.t = "leaf" -> <<ctx>>
    [] n.t = "tup"  -> FlatMapN(LAMBDA i : Paths(n.items[i], Append(ctx, Idx(i))), [i \in DOMAIN n.items |-> i])
    [] n.t = "st"   -> FlatMapN(LAMBDA i : Paths(n.vals[i], Append(ctx, n.keys[i])), [i \in DOMAIN n.vals |-> i])
    [] OTHER -> <<>>

Shape(n) == MapTree(LAMBDA v : <<>>, n)

(* _simplify(recurse=True, unwrap=True) *)
HasRootOnly(n) == n.t = "st" /\ n.keys = <<"root">>
RECURSIVE Unwrap(_)
Unwrap(n) == IF HasRootOnly(n) /\ n.vals[1].t # "tup" THEN Unwrap(n.vals[1]) ELSE n
\* Variant = "outer": seeded design error that TLC must refute on the wrapper family of MC_Structured: the loop that strips
\* trivial wrappers keeps testing the object `_simplify` was called on ("has *it* no structure?") instead of the object it has
\* descended to, so below one trivial wrapper it walks on through every root - also the root of a Structured that has further
\* keys, or whose root is a tuple - and the leaves beside that root are lost (SimplifyLeafPreserving fails).
HasRoot(n) == n.t = "st" /\ \E i \in DOMAIN n.keys : n.keys[i] = "root"
RootOf(n) == n.vals[CHOOSE i \in DOMAIN n.keys : n.keys[i] = "root"]
HasStructure(n) == n.keys # <<"root">> \/ RootOf(n).t = "tup"           \* _has_keys or a tuple root
RECURSIVE UnwrapOuter(_, _)
UnwrapOuter(self, cur) == IF HasRoot(cur) /\ ~HasStructure(self) THEN UnwrapOuter(self, RootOf(cur)) ELSE cur
UnwrapSel(n) == IF Variant = "outer" /\ n.t = "st" THEN UnwrapOuter(n, n) ELSE Unwrap(n)
RECURSIVE Simplify(_)
Simplify(n) ==
  LET u == UnwrapSel(n) IN
  CASE u.t = "st"  -> St(u.keys, [i \in DOMAIN u.vals |-> Simplify(u.vals[i])])
    [] u.t = "tup" -> Tup([i \in DOMAIN u.items |-> Simplify(u.items[i])])
    [] OTHER -> u
\* what `Structured._simplify()` returns for a Structured n: tuples at the top are only reachable under a key
SimplifyTop(n) == Simplify(n)

\* _update with keywords: dictionary merge of the top-level structure (existing keys keep their position)
RECURSIVE UpdateKeys(_, _, _)
UpdateKeys(n, ks, vs) ==
  IF ks = <<>> THEN Ctor(n.keys, n.vals)
  ELSE LET k == Head(ks) v == Head(vs) IN
       UpdateKeys(IF \E i \in DOMAIN n.keys : n.keys[i] = k
                  THEN St(n.keys, [i \in DOMAIN n.vals |-> IF n.keys[i] = k THEN v ELSE n.vals[i]])
                  ELSE St(Append(n.keys, k), Append(n.vals, v)), Tail(ks), Tail(vs))

\* _merge of several objects with merger = list concatenation
AllT(objs, t) == \A i \in DOMAIN objs : objs[i].t = t
AnyT(objs, t) == \E i \in DOMAIN objs : objs[i].t = t
RECURSIVE KeyOrder(_, _)
KeyOrder(objs, seen) ==       \* keys in order of first appearance; a non-Structured object contributes "root"
  IF objs = <<>> THEN <<>>
  ELSE LET ks == IF Head(objs).t = "st" THEN Head(objs).keys ELSE <<"root">>
           new == SelectSeq(ks, LAMBDA k : k \notin seen)
       IN new \o KeyOrder(Tail(objs), seen \cup {new[i] : i \in DOMAIN new})
ValuesFor(objs, k) ==
  FlatMapN(LAMBDA o : IF o.t = "st" THEN FlatMapN(LAMBDA i : IF o.keys[i] = k THEN <<o.vals[i]>> ELSE <<>>, [i \in DOMAIN o.keys |-> i])
                      ELSE IF k = "root" THEN <<o>> ELSE <<>>, objs)
RECURSIVE Merge(_, _)
Merge(objs, top) ==
  IF objs = <<>> THEN St(<<>>, <<>>)
  ELSE IF AnyT(objs, "err") THEN ErrNode
  ELSE IF AllT(objs, "tup")
       THEN LET m == Tup(FlatMapN(LAMBDA o : o.items, objs)) IN IF top THEN Ctor(<<"root">>, <<m>>) ELSE m
  ELSE IF AnyT(objs, "tup") THEN ErrNode                 \* "Substructures ... are not aligned"
  ELSE IF AllT(objs, "leaf") THEN Leaf(FlatMapN(LAMBDA o : o.v, objs))
  ELSE LET ks == KeyOrder(objs, {})
           vs == [j \in DOMAIN ks |-> LET vals == ValuesFor(objs, ks[j]) IN
                                       IF Len(vals) = 1 THEN vals[1] ELSE Merge(vals, FALSE)]
       IN IF \E j \in DOMAIN vs : vs[j].t = "err" THEN ErrNode ELSE Ctor(ks, vs)

(* iteration, length, lookup *)
IterTop(n) ==      \* list(structured): the root's items when only a root is present, else root first then the other keys
  IF n.keys = <<"root">> THEN (IF n.vals[1].t = "tup" THEN n.vals[1].items ELSE <<>>)     \* a leaf root is iterated as a python list: not modelled
  ELSE FlatMapN(LAMBDA i : IF n.keys[i] = "root" THEN <<n.vals[i]>> ELSE <<>>, [i \in DOMAIN n.keys |-> i])
       \o FlatMapN(LAMBDA i : IF n.keys[i] # "root" THEN <<n.vals[i]>> ELSE <<>>, [i \in DOMAIN n.keys |-> i])

(* laws *)
CountLeaves(n) == Len(Flatten(n))
MapVisitsInFlattenOrder(n) == VisitOrder(n) = Flatten(n)
MapPreservesShape(n) == Canon(Shape(MapTree(LAMBDA v : Append(v, 0), n))) = Canon(Shape(n))
MapAppliesOnce(n) == LET a == Flatten(Canon(MapTree(LAMBDA v : Append(v, 0), n))) b == Flatten(Canon(n)) IN
                     a = [i \in DOMAIN b |-> Append(b[i], 0)]
PathsMatchLeaves(n) == Len(Paths(n, <<>>)) = CountLeaves(n)
SimplifyIdempotent(n) == Simplify(Simplify(n)) = Simplify(n)
SimplifyLeafPreserving(n) == Flatten(Simplify(n)) = Flatten(n)
=============================================================================
