------------------------------ MODULE MC_Dtypes ------------------------------
(***************************************************************************)
(* C08: the dtype table.  Text (python-object or dedicated string dtype)    *)
(* and categorical dtypes are categorical factors - levels in sorted order  *)
(* for text, in declared order for a categorical dtype -, numeric dtypes     *)
(* (int*, uint*, float*, bool) pass through unchanged.  The model computes   *)
(* the expected matrix for a column of every dtype tag; every cell of every  *)
(* expected matrix is an integer (typing invariant).                         *)
(***************************************************************************)
EXTENDS Integers, Sequences, FiniteSets, TLC, TLCExt, Json, CSV, IOUtils, SequencesExt
CONSTANTS Emit
M == INSTANCE Materialize

TextTags == {"object_str", "str", "string_python", "string_pyarrow", "arrow_string", "arrow_large_string"}
CatTags == {"category", "category_ordered", "arrow_dictionary"}
NumTags == {"float64", "float32", "int64", "int32", "int8", "uint8", "uint64", "bool", "arrow_int64", "arrow_double", "Int64", "Float64", "boolean"}
Tags == TextTags \cup CatTags \cup NumTags
KindOf(tag) == IF tag \in TextTags \cup CatTags THEN "cat" ELSE "num"
Declared(tag) == tag \in CatTags

\* the column under test is "v"; a second, plain float column "w" interacts with it
Num(e) == [e |-> e, kind |-> "num", col |-> e, contr |-> "", lit |-> 1]
Cat(e) == [e |-> e, kind |-> "cat", col |-> e, contr |-> "treatment", lit |-> 1]
Lit(n) == [e |-> ToString(n), kind |-> "lit", col |-> "", contr |-> "", lit |-> n]
V(tag) == IF KindOf(tag) = "cat" THEN Cat("v") ELSE Num("v")
W == Num("w")
I1 == <<Lit(1)>>
\* formula 6 codes the column under test TWICE within one materialization (reduced for `v`, in full for `v:w`): the second coding
\* finds the levels already recorded, and its indicator columns must line up with the rows of the first (and with `w`)
Formulas(tag) == << <<I1, <<V(tag)>>>>, <<<<V(tag)>>>>, <<I1, <<V(tag)>>, <<W>>>>, <<<<V(tag), W>>>>, <<I1, <<W>>, <<W, V(tag)>>>>, <<I1, <<V(tag)>>, <<V(tag), W>>>> >>
FormulaText == << "v", "0 + v", "v + w", "0 + v:w", "w + w:v", "v + v:w" >>

\* data: text/categorical values are given unsorted, the declared order of a categorical dtype is NOT the sorted one;
\* numeric values are small non-negative integers (bool: 0/1)
\* value set "falsy": the level that sorts / is declared first is the empty string (a level like any other)
VARIABLE vset
CatVals == IF vset = "falsy" THEN <<"m", "", "m", "z", "">> ELSE <<"m", "k", "m", "z", "k">>
SortedLv == IF vset = "falsy" THEN <<"", "m", "z">> ELSE <<"k", "m", "z">>
DeclaredLv == IF vset = "falsy" THEN <<"", "z", "m", "u">> ELSE <<"z", "k", "m", "u">>             \* "u" is declared but unobserved
NumVals(tag) == IF tag \in {"bool", "boolean"} THEN <<1, 0, 1, 1, 0>> ELSE <<3, 0, 2, 7, 1>>
WVals == <<2, 5, 3, 1, 4>>
Frame(tag, nulls) ==
  [n |-> 5, cols |-> [c \in {"v", "w"} |->
     IF c = "w" THEN [kind |-> "num", num |-> WVals, cat |-> <<>>, nulls |-> {}, lv |-> <<>>, declared |-> FALSE]
     ELSE IF KindOf(tag) = "cat"
          THEN [kind |-> "cat", num |-> <<>>, cat |-> CatVals, nulls |-> nulls, lv |-> IF Declared(tag) THEN DeclaredLv ELSE SortedLv, declared |-> Declared(tag)]
          ELSE [kind |-> "num", num |-> NumVals(tag), cat |-> <<>>, nulls |-> nulls, lv |-> <<>>, declared |-> FALSE]]]

VARIABLES tag, fid, nulls, fullrank
vars == <<tag, fid, nulls, fullrank, vset>>
Form == Formulas(tag)[fid]
Fr == Frame(tag, nulls)
Drop == M!DropSet(Fr, <<Form>>, "drop", {})
KeptRows == M!Kept(Fr, Drop)
B0 == M!BuildOn(Fr, Form, [full_rank |-> fullrank, na |-> "drop", cluster |-> FALSE], KeptRows, <<>>, <<>>)
AllNumeric == \A r \in DOMAIN M!Cells(B0, Len(KeptRows)) : \A j \in DOMAIN M!Cells(B0, Len(KeptRows))[r] : M!Cells(B0, Len(KeptRows))[r][j] \in Int
\* a text/categorical column never appears as a raw column: it contributes one indicator per (non-reference) level
DummyCoded == KindOf(tag) = "cat" => \A j \in DOMAIN M!Names(B0) : M!Names(B0)[j] # "v"

\* "all data frames" includes the frame a fitted specification is applied to afterwards: the rows SliceFrom..n of the same frame
\* (a tail slice: same dtype, every text level still observed, the null row inside it, row labels that no longer start at 0).
\* The levels are the recorded ones (LevelsUsed) and the column structure is the recorded one; the cells are again indicators.
SliceFrom == 2
KeptSlice == SelectSeq(KeptRows, LAMBDA i : i >= SliceFrom)
B1 == M!BuildOn(Fr, Form, [full_rank |-> fullrank, na |-> "drop", cluster |-> FALSE], KeptSlice, M!LevelsUsed(Fr, Form, KeptRows), B0.scoped)
ReuseNumeric == /\ \A r \in DOMAIN M!Cells(B1, Len(KeptSlice)) : \A j \in DOMAIN M!Cells(B1, Len(KeptSlice))[r] : M!Cells(B1, Len(KeptSlice))[r][j] \in Int
                /\ M!Names(B1) = M!Names(B0)                                               \* same columns, in the same order
                /\ \A r \in DOMAIN KeptSlice : \E q \in DOMAIN KeptRows :                   \* and a row is coded as it was the first time
                       KeptRows[q] = KeptSlice[r] /\ M!Cells(B1, Len(KeptSlice))[r] = M!Cells(B0, Len(KeptRows))[q]

Out == IOEnv.OUT_FILE
EmitCase == Emit => CSVWrite("%1$s", <<ToJson([tag |-> tag, kind |-> KindOf(tag), declared |-> Declared(tag), formula |-> FormulaText[fid],
      nulls |-> SetToSortSeq(nulls, <), full_rank |-> fullrank, vset |-> vset, kept |-> KeptRows,
      catvals |-> CatVals, declared_levels |-> DeclaredLv, numvals |-> NumVals(tag), wvals |-> WVals,
      names |-> M!Names(B0), cells |-> M!Cells(B0, Len(KeptRows)),
      reuse_from |-> SliceFrom, reuse_names |-> M!Names(B1), reuse_cells |-> M!Cells(B1, Len(KeptSlice))])>>, Out)
Init == tag \in Tags /\ fid \in 1..6 /\ nulls \in {{}, {2}} /\ fullrank \in BOOLEAN /\ vset \in (IF KindOf(tag) = "cat" THEN {"plain", "falsy"} ELSE {"plain"})
Next == UNCHANGED vars
Spec == Init /\ [][Next]_vars
=============================================================================
