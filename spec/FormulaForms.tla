---------------------------- MODULE FormulaForms ----------------------------
(***************************************************************************)
(* The forms in which a formula can be specified (Formula.from_spec,        *)
(* StructuredFormula._prepare_item, SimpleFormula in formula.py) and what   *)
(* each denotes, as a Structured tree of term lists:                        *)
(*   Str(i)            a formula string, read by a parser                   *)
(*   Lst(<<i, ...>>)   a list of strings: each is read by the NESTED parser *)
(*                     (no intercept) and must be flat; the terms are       *)
(*                     concatenated - a list keeps repeated terms - and     *)
(*                     sorted stably by degree                              *)
(*   Tup(<<f, ...>>)   a tuple of forms: every member is read like the      *)
(*                     position the tuple occupies                          *)
(*   Kw(keys, forms)   keyword structure: the member under "root" is read   *)
(*                     by the parser of the position the structure          *)
(*                     occupies, every other member (and everything below   *)
(*                     it) by the nested parser                             *)
(* The result is simplified (a structure holding only a non-tuple root is   *)
(* that root).  Strings are given by their token sequences (Strings).       *)
(***************************************************************************)
EXTENDS Integers, Sequences, FiniteSets
CONSTANT Strings       \* sequence of token sequences
W == INSTANCE Wilkinson

Str(i) == [k |-> "str", i |-> i, items |-> <<>>, keys |-> <<>>]
Lst(is) == [k |-> "lst", i |-> 0, items |-> is, keys |-> <<>>]
Tup(fs) == [k |-> "tup", i |-> 0, items |-> fs, keys |-> <<>>]
Kw(keys, fs) == [k |-> "kw", i |-> 0, items |-> fs, keys |-> keys]

Cfg(main) == [intercept |-> main, flags |-> {"TWOSIDED", "MULTIPART"}, avail |-> [present |-> FALSE, vars |-> <<>>]]
Err(e) == W!VErr(e)

PartsTree(ps) == IF Len(ps) = 1 THEN W!TLeaf(ps[1]) ELSE W!TTup([i \in DOMAIN ps |-> W!TLeaf(ps[i])])
\* what a parser returns for a string, as a value tree with every leaf ordered
ParsedTree(main, i) ==
  LET res == W!Ordered(W!Parse(Cfg(main), Strings[i])) IN
  IF res.st = "REJECT" THEN Err("reject")
  ELSE IF res.st = "UNMODELLED" THEN Err("unmodelled")
  ELSE IF res.shape = "root" THEN PartsTree(res.rhs)
  ELSE IF res.shape = "two" THEN W!TSt(<<"lhs", "rhs">>, <<PartsTree(res.lhs), PartsTree(res.rhs)>>)
  ELSE res.tree

RECURSIVE Concat(_)
Concat(ss) == IF ss = <<>> THEN <<>> ELSE Head(ss) \o Concat(Tail(ss))

RECURSIVE Denote(_, _)
Denote(f, main) ==
  CASE f.k = "str" -> ParsedTree(main, f.i)
    [] f.k = "lst" ->
         LET raw == [j \in DOMAIN f.items |-> W!Parse(Cfg(FALSE), Strings[f.items[j]])] IN     \* get_terms: not yet ordered
         IF \E j \in DOMAIN raw : raw[j].st # "OK" THEN Err("reject")
         ELSE IF \E j \in DOMAIN raw : raw[j].shape # "root" \/ Len(raw[j].rhs) # 1 THEN Err("structured-string-in-a-list")
         ELSE W!TLeaf(W!SortByDegree(Concat([j \in DOMAIN raw |-> raw[j].rhs[1]])))
    [] f.k = "tup" ->
         LET vs == [j \in DOMAIN f.items |-> Denote(f.items[j], main)] IN
         IF W!FirstErr(vs) # "" THEN Err(W!FirstErr(vs)) ELSE W!TTup(vs)
    [] OTHER ->
         LET vs == [j \in DOMAIN f.items |-> Denote(f.items[j], f.keys[j] = "root" /\ main)] IN
         IF W!FirstErr(vs) # "" THEN Err(W!FirstErr(vs)) ELSE W!TSt(f.keys, vs)

\* Formula(spec): the top level is read by the main parser
FormulaOf(f) == LET v == Denote(f, TRUE) IN IF v.err # "" THEN v ELSE W!SimplifyV(IF v.t = "st" THEN v ELSE W!TSt(<<"root">>, <<v>>))

(* laws *)
\* a string and the one-element tuple / root keyword holding it denote the same formula
WrapLaw(i) == LET a == FormulaOf(Str(i)) b == FormulaOf(Kw(<<"root">>, <<Str(i)>>)) IN a.err # "" \/ a = b
\* a two-sided string and the keyword form of its sides differ exactly by the intercept the main parser adds to the right-hand side:
\* stated on the model as "lhs/rhs keywords are read WITHOUT an intercept"
KeywordSidesHaveNoIntercept(i) ==
  LET v == FormulaOf(Kw(<<"lhs", "rhs">>, <<Str(i), Str(i)>>)) IN
  v.err # "" \/ (v.vals[1] = v.vals[2] /\ v.vals[1] = W!SimplifyV(ParsedTree(FALSE, i)))
=============================================================================
