------------------------------ MODULE Trace_C14 ------------------------------
(***************************************************************************)
(* Code -> spec validation of recorded parse attempts on arbitrary strings  *)
(* (C14).  A record logs the characters (with lexical classes), the parser  *)
(* configuration, whether some embedded python fragment is syntactically    *)
(* invalid (stdlib oracle) and the observed outcome class:                  *)
(*   "O" formula returned, "R" library parsing error, "P" python            *)
(*   SyntaxError, "X:<type>" another exception escaped, "T" timeout.        *)
(* Accepted iff the outcome is one the property allows and, when the model  *)
(* says the string needs an operator the configuration disables, the code   *)
(* did not accept it.                                                       *)
(***************************************************************************)
EXTENDS Integers, Sequences, FiniteSets, TLC, TLCExt, Json, CSV, IOUtils, SequencesExt

L == INSTANCE Lexer
W == INSTANCE Wilkinson
MCL == INSTANCE MC_Lexer WITH MaxLen <- 0, AlphaName <- "c20", Emit <- FALSE, CheckWs <- FALSE, str <- <<>>

TraceRecs == JsonDeserialize(IOEnv.TRACE_FILE)
Rej == IOEnv.REJ_FILE
VARIABLE k
Rec == TraceRecs[k]

CharsOf(r) == [i \in DOMAIN r.chars |-> L!Ch(r.chars[i].c, r.chars[i].cls)]
AllFlags == {"TWOSIDED", "MULTIPART", "MULTISTAGE"}
CfgOf(r, fl) == [intercept |-> r.intercept, flags |-> fl, avail |-> [present |-> TRUE, vars |-> <<>>]]

ModelOutcome(r, fl) ==
  LET m == L!Lex(CharsOf(r)) IN
  IF m.err # "" THEN "R"
  ELSE LET res == W!Parse(CfgOf(r, fl), [j \in DOMAIN m.out |-> MCL!ToParserTok(m.out[j])]) IN
       CASE res.st = "OK" -> "O" [] res.st = "REJECT" -> "R" [] OTHER -> "U"

Verdict(r) ==
  LET fl == {r.flags[i] : i \in DOMAIN r.flags}
      mo == ModelOutcome(r, fl)
      ma == ModelOutcome(r, AllFlags)
  IN IF r.obs \notin {"O", "R", "P"} THEN "escaped:" \o r.obs
     ELSE IF r.obs = "P" /\ ~r.pyinvalid THEN "python-syntax-error-without-invalid-fragment"
     ELSE IF r.obs = "O" /\ mo = "R" /\ ma = "O" THEN "disabled-operator-accepted"
     ELSE IF mo = "O" /\ r.obs = "R" /\ ~r.pyinvalid THEN "diag:model-accepts"
     ELSE IF mo = "R" /\ r.obs = "O" THEN "diag:model-rejects"
     ELSE ""

Check == LET v == Verdict(Rec) IN (v # "" => CSVWrite("%1$s", <<ToJson([id |-> Rec.id, verdict |-> v])>>, Rej))
Init == k \in 1..Len(TraceRecs)
Next == UNCHANGED k
Spec == Init /\ [][Next]_k
=============================================================================
