----------------------------- MODULE Trace_Lexer -----------------------------
(***************************************************************************)
(* Code -> spec validation of recorded tokenizer executions (C15).          *)
(* Record kinds:                                                            *)
(*  "lex": chars (with lexical classes), observed tokens or error           *)
(*  "ws" : chars, an insertion position p, observed tokens of the original  *)
(*         and of the string with one space inserted at p                   *)
(*  "py" : a batch of python fragments: ids of their ast classes and the    *)
(*         factor expressions the library produced for them                 *)
(*  "vb" : content characters, observed tokens of `content`                 *)
(***************************************************************************)
EXTENDS Integers, Sequences, FiniteSets, TLC, TLCExt, Json, CSV, IOUtils, SequencesExt

L == INSTANCE Lexer
MCL == INSTANCE MC_Lexer WITH MaxLen <- 0, AlphaName <- "c20", Emit <- FALSE, CheckWs <- FALSE, str <- <<>>

TraceRecs == JsonDeserialize(IOEnv.TRACE_FILE)
Rej == IOEnv.REJ_FILE
VARIABLE k
Rec == TraceRecs[k]

CharsOf(r) == [i \in DOMAIN r.chars |-> L!Ch(r.chars[i].c, r.chars[i].cls)]
TokOut(t) == [x |-> MCL!JoinC(t.chars), k |-> t.kind, s |-> t.start, e |-> t.end]
ModelToks(chars) == LET m == L!Lex(chars) IN [j \in DOMAIN m.out |-> TokOut(m.out[j])]
Plain(toks) == [j \in DOMAIN toks |-> [x |-> toks[j].x, k |-> toks[j].k]]
\* operator runs are compared without the whitespace they may contain
NoWs(toks, wsset) == toks

VerdictLex(r) ==
  LET cs == CharsOf(r) m == L!Lex(cs) IN
  IF m.err # "" THEN (IF r.err = "REJECT" THEN "" ELSE "lexer-must-reject:" \o m.err)
  ELSE IF r.err # "" THEN "lexer-must-accept"
  ELSE IF r.toks # ModelToks(cs) THEN "tokens-differ"
  ELSE IF ~(L!SpansOrdered(m.out) /\ \A j \in DOMAIN m.out : L!SpanFaithful(cs, m.out[j])) THEN "model:spans"
  ELSE ""

VerdictWs(r) ==
  LET cs == CharsOf(r)
      roles == MCL!Roles(L!L0, cs, 0)
      p == r.p
      before == IF p >= 1 THEN roles[p] ELSE "-"
      after == IF p < Len(cs) THEN roles[p + 1] ELSE "-"
      npct == Cardinality({q \in 1..p : roles[q] = "pct"})
      boundary == before \in {"op", "group"} \/ after \in {"op", "group"} \/ (npct % 2 = 0 /\ (before = "pct" \/ after = "pct"))
  IN IF ~boundary \/ L!Lex(cs).err # "" THEN "skip"
     ELSE IF r.err2 # "" THEN "respaced-string-rejected"
     ELSE IF Plain(r.toks2) # Plain(r.toks) THEN "respacing-changed-tokens"
     ELSE ""

VerdictPy(r) ==
  IF \A i, j \in DOMAIN r.cls : (r.cls[i] = r.cls[j]) <=> (r.exprs[i] = r.exprs[j]) THEN "" ELSE "python-normalisation"

VerdictVb(r) ==
  LET cs == CharsOf(r)
      want == L!Verbatim(cs)
      got == r.err = "" /\ Len(r.toks) = 1 /\ r.toks[1].k = "name" /\ r.toks[1].x = MCL!JoinC([i \in DOMAIN cs |-> cs[i].c])
  IN IF want = got THEN (IF want THEN "" ELSE "not-referable") ELSE IF want THEN "verbatim-violated" ELSE "model:verbatim"

Verdict(r) == CASE r.kind = "lex" -> VerdictLex(r) [] r.kind = "ws" -> VerdictWs(r) [] r.kind = "py" -> VerdictPy(r)
                [] r.kind = "vb" -> VerdictVb(r)

Check == LET v == Verdict(Rec) IN (v # "" => CSVWrite("%1$s", <<ToJson([id |-> Rec.id, verdict |-> v])>>, Rej))
Init == k \in 1..Len(TraceRecs)
Next == UNCHANGED k
Spec == Init /\ [][Next]_k
=============================================================================
