-------------------------------- MODULE MC_Env --------------------------------
EXTENDS Integers, Sequences, FiniteSets, TLC, TLCExt, Json, CSV, IOUtils, SequencesExt
CONSTANTS Emit
E == INSTANCE Env
VARIABLES kind, pat, fid, cols, lhs, cform, cap, rhs
vars == <<kind, pat, fid, cols, lhs, cform, cap, rhs>>
Form == E!Formulas[fid]
Laws == kind = "resolve" => E!Sufficient(pat, Form) /\ E!Necessary(pat, Form)
DotLaw == kind = "dot" => LET d == E!DotExpand(cols, lhs) IN
            /\ \A i \in DOMAIN d : d[i] \notin lhs
            /\ \A c \in {cols[i] : i \in DOMAIN cols} \ lhs : \E i \in DOMAIN d : d[i] = c
            /\ \A i, j \in DOMAIN d : i < j => (CHOOSE a \in DOMAIN cols : cols[a] = d[i]) < (CHOOSE b \in DOMAIN cols : cols[b] = d[j])
            \* however the right-hand side spells its intercept, and whether or not the parser adds one: the terms are the same
            \* expansion, preceded by at most the intercept
            /\ \A auto \in BOOLEAN : LET t == E!DotTerms(cols, lhs, E!DotRhs[rhs], auto) IN
                  t = d \/ t = <<"1">> \o d
            /\ E!DotTerms(cols, lhs, E!DotRhs[rhs], TRUE) = <<"1">> \o d <=> E!DotRhsText[rhs] \in {".", "+.", "1 + ."}
Order3 == <<"x", "z", "I", "q", "r">>
Out == IOEnv.OUT_FILE
EmitCase == Emit =>
  IF kind = "capture"
  THEN CSVWrite("%1$s", <<ToJson([kind |-> kind, stack |-> cap.stack, k |-> cap.k, inglobals |-> cap.g, indata |-> cap.d,
          layer |-> E!CaptureLayer(cap.stack, cap.k, cap.g, cap.d), value |-> E!CaptureValue(cap.stack, cap.k, cap.g, cap.d)])>>, Out)
  ELSE IF kind = "resolve"
  THEN CSVWrite("%1$s", <<ToJson([kind |-> kind, data |-> SelectSeq(Order3, LAMBDA n : n \in pat.data), context |-> SelectSeq(Order3, LAMBDA n : n \in pat.context),
          formula |-> E!FormulaText[fid], ok |-> E!Succeeds(pat, Form), required_before |-> SetToSeq(E!RequiredBefore(Form)),
          columns |-> IF E!Succeeds(pat, Form) THEN E!Columns(pat, Form) ELSE <<>>,
          cform |-> cform,
          sources |-> IF E!Succeeds(pat, Form) THEN [n \in DOMAIN E!Sources(pat, Form) |-> E!SourceName(E!Sources(pat, Form)[n], cform)] ELSE [n \in {} |-> ""],
          required_after |-> IF E!Succeeds(pat, Form) THEN SetToSeq(E!RequiredAfter(pat, Form)) ELSE <<>>])>>, Out)
  ELSE CSVWrite("%1$s", <<ToJson([kind |-> kind, cols |-> cols, lhs |-> SetToSeq(lhs), dot |-> E!DotExpand(cols, lhs), rhs |-> E!DotRhsText[rhs],
          terms |-> E!DotTerms(cols, lhs, E!DotRhs[rhs], TRUE), terms_noauto |-> E!DotTerms(cols, lhs, E!DotRhs[rhs], FALSE)])>>, Out)
\* "c 3" needs quoting in a formula
Perms4 == {p \in [1..4 -> {"c1", "c2", "c 3", "y"}] : \A i, j \in 1..4 : i # j => p[i] # p[j]}
NoCap == [stack |-> <<>>, k |-> 0, g |-> FALSE, d |-> FALSE]
\* a frame deeper in the stack never shadows the frame asked for, and the data always wins
CaptureLaw == kind = "capture" =>
   /\ (cap.d => E!CaptureLayer(cap.stack, cap.k, cap.g, cap.d) = "data")
   /\ \A s2 \in [1..3 -> BOOLEAN] : s2[cap.k + 1] = cap.stack[cap.k + 1] => E!CaptureValue(s2, cap.k, cap.g, cap.d) = E!CaptureValue(cap.stack, cap.k, cap.g, cap.d)
Init == \/ /\ kind = "capture" /\ pat = [data |-> {}, context |-> {}] /\ fid = 1 /\ cols = <<>> /\ lhs = {} /\ cform = "dict"
           /\ cap \in [stack : [1..3 -> BOOLEAN], k : 0..2, g : BOOLEAN, d : BOOLEAN] /\ rhs = 1
        \/ /\ kind = "resolve" /\ fid \in DOMAIN E!Formulas /\ cols = <<>> /\ lhs = {} /\ rhs = 1
              \* (the formulas with two quoted names of one placeholder: every presence pattern of these two names)
              /\ pat \in (IF E!ReadsR(E!Formulas[fid]) THEN [data : SUBSET E!CollidingNames, context : SUBSET E!CollidingNames] ELSE IF E!ReadsKw(E!Formulas[fid]) THEN [data : SUBSET E!KwNames(E!Formulas[fid]), context : SUBSET E!KwNames(E!Formulas[fid])]
                              ELSE [data : SUBSET E!Names, context : SUBSET E!Names])
              /\ cform \in (IF pat.context = {} THEN {"dict"} ELSE {"dict", "lm", "lm-named"}) /\ cap = NoCap
        \/ /\ kind = "dot" /\ pat = [data |-> {}, context |-> {}] /\ fid = 1 /\ cols \in Perms4 /\ lhs \in {{"y"}, {"y", "c2"}, {}, {"c 3"}, {"y", "c 3"}} /\ cform = "dict" /\ cap = NoCap
           /\ rhs \in DOMAIN E!DotRhs
Next == UNCHANGED vars
Spec == Init /\ [][Next]_vars
=============================================================================
