---------------------------- MODULE MC_Metadata ----------------------------
(***************************************************************************)
(* C10 on formulas whose factors are python expressions: bounded           *)
(* enumeration of (formula, training frame, options); per case the spec is *)
(* fitted, the indexes are derived from the structure, and every subset of *)
(* the pick family is rebuilt on the training data AND on follow-up data.  *)
(* Theorems (Variant = "code"): NonInterference, SubsetRegenerates,         *)
(* NamesDistinct, SlicesOK, StatsIntegral.  Variant "skip-keywords" must   *)
(* violate NonInterference, "prune-state" must violate SubsetRegenerates.  *)
(* (The cases of MC_Materialize hold no python factor that reads two       *)
(* columns and no stateful call; those modules are shared, so this family  *)
(* lives here.)                                                            *)
(***************************************************************************)
EXTENDS Integers, Sequences, FiniteSets, TLC, TLCExt, Json, CSV, IOUtils, SequencesExt
CONSTANTS MaxTerms, Emit, Variant, Slice, SliceMod

M == INSTANCE Materialize
Meta == INSTANCE Metadata

V(c) == Meta!V(c)   N(n) == Meta!N(n)   Kw(n, e) == Meta!Kw(n, e)
Fn(f, args, kws) == Meta!Fn(f, args, kws)   Meth(r, f, args, kws) == Meta!Meth(r, f, args, kws)
Ctr(x) == Fn("center", <<x>>, <<>>)
NoMax == Kw("a_max", Meta!None)

(* python factors: every position a column can be read from, alone and combined with a stateful call *)
PyPool == <<
  Fn("I", <<Meta!Bin("+", V("a"), V("b"))>>, <<>>),                                  \*  1 I(a + b)                             operand
  Fn("np.add", <<V("a"), V("b")>>, <<>>),                                            \*  2 np.add(a, b)                         positional
  Fn("np.clip", <<V("a")>>, <<Kw("a_min", V("b")), NoMax>>),                         \*  3 np.clip(a, a_min=b, a_max=None)      keyword
  Meth(V("a"), "add", <<V("b")>>, <<>>),                                             \*  4 a.add(b)                             receiver, positional
  Meth(V("a"), "clip", <<>>, <<Kw("lower", V("b"))>>),                               \*  5 a.clip(lower=b)                      receiver, keyword
  Fn("np.clip", <<V("a")>>, <<Kw("a_min", V("n 1")), NoMax>>),                       \*  6 np.clip(a, a_min=`n 1`, a_max=None)  keyword, quoted name
  Fn("I", <<Meta!Bin("+", Ctr(V("a")), N(100))>>, <<>>),                             \*  7 I(center(a) + 100)                   stateful call nested as operand
  Fn("np.add", <<Ctr(V("a")), V("b")>>, <<>>),                                       \*  8 np.add(center(a), b)                 ... as positional argument
  Fn("np.clip", <<V("b")>>, <<Kw("a_min", Ctr(V("a"))), NoMax>>),                    \*  9 np.clip(b, a_min=center(a), a_max=None)  ... as keyword argument
  Ctr(V("a")),                                                                       \* 10 center(a)                            the call is the factor
  Ctr(Fn("np.add", <<V("a"), V("b")>>, <<>>)),                                       \* 11 center(np.add(a, b))                 stateful over a compound
  Fn("I", <<Meta!Bin("*", Ctr(V("a")), Ctr(V("b")))>>, <<>>),                        \* 12 I(center(a) * center(b))             two recorded statistics
  Fn("np.maximum", <<Ctr(V("a")), Ctr(V("a"))>>, <<>>) >>                            \* 13 np.maximum(center(a), center(a))     one statistic, two occurrences
P(i) == Meta!Py(PyPool[i])
a == Meta!NumF("a")   b == Meta!NumF("b")   A == Meta!CatF("A")
Icpt == <<Meta!LitF(1)>>

TermPool == << <<a>>, <<b>>, <<A>>, <<b, A>>,
               <<P(1)>>, <<P(2)>>, <<P(3)>>, <<P(4)>>, <<P(5)>>, <<P(6)>>, <<P(7)>>, <<P(8)>>, <<P(9)>>, <<P(10)>>, <<P(11)>>, <<P(12)>>, <<P(13)>>,
               <<P(3), A>>, <<P(5), A>>, <<P(8), A>>, <<P(9), A>>, <<P(12), A>>, <<A, P(1)>>, <<A, P(4)>>, <<A, P(7)>> >>

(* frames: no nulls (which rows are dropped is C06's question); the training frames have integral means of a, b, a + b *)
NumCol(v) == [kind |-> "num", num |-> v, cat |-> <<>>, nulls |-> {}, lv |-> <<>>, declared |-> FALSE]
CatCol(v, lv, decl) == [kind |-> "cat", num |-> <<>>, cat |-> v, nulls |-> {}, lv |-> lv, declared |-> decl]
Fr(n, ca, cb, cA) == [n |-> n, cols |-> [c \in {"a", "b", "A", "n 1"} |->
                        CASE c = "a" -> NumCol(ca) [] c = "b" -> NumCol(cb) [] c = "A" -> cA [] OTHER -> NumCol([i \in DOMAIN cb |-> cb[i] + 10])]]
XYZ == <<"x", "y", "z">>
Train == << Fr(4, <<2, 3, -1, 4>>, <<1, 0, 4, 3>>, CatCol(<<"x", "y", "x", "z">>, XYZ, FALSE)),
            Fr(3, <<5, 1, 3>>, <<0, 2, 4>>, CatCol(<<"y", "y", "x">>, <<"z", "x", "y">>, TRUE)) >>           \* declared categories, one unobserved
Follow == Fr(3, <<10, 0, 4>>, <<7, 8, 1>>, CatCol(<<"y", "y", "x">>, XYZ, FALSE))                          \* other numbers, another mean, a level absent

VARIABLES terms, icpt, tid, fullrank
vars == <<terms, icpt, tid, fullrank>>

RECURSIVE FoldSum(_)
FoldSum(q) == IF q = <<>> THEN 0 ELSE Head(q) + FoldSum(Tail(q))
NonLit(t) == {t[i].e : i \in {k \in DOMAIN t : t[k].kind # "lit"}}
Distinct(t1, t2) == NonLit(t1) # NonLit(t2)
Degree(t) == Len(SelectSeq(t, LAMBDA f : f.kind # "lit"))
RECURSIVE InsDeg(_, _)
InsDeg(sorted, t) == IF sorted = <<>> THEN <<t>> ELSE IF Degree(Head(sorted)) <= Degree(t) THEN <<Head(sorted)>> \o InsDeg(Tail(sorted), t) ELSE <<t>> \o sorted
RECURSIVE SortDeg(_)
SortDeg(ts) == IF ts = <<>> THEN <<>> ELSE InsDeg(SortDeg(SubSeq(ts, 1, Len(ts) - 1)), ts[Len(ts)])

Written == [i \in DOMAIN terms |-> TermPool[terms[i]]]                 \* the formula as written
Formula == SortDeg((IF icpt THEN <<Icpt>> ELSE <<>>) \o Written)        \* what the parser delivers (same rule as MC_Materialize)
Opts == [full_rank |-> fullrank, na |-> "drop", cluster |-> FALSE]
Empty == Formula = <<>>
S0 == Meta!Fit(Train[tid], Formula, Opts)
Datas == <<Train[tid], Follow>>                                         \* the data a spec is applied to: what it was fitted on, and new data
B0 == Meta!Build(S0, Train[tid])
NT == Len(Formula)
\* the subsets replayed: every single term, last-and-first, all terms (positions in structure order)
Picks == [i \in 1..NT |-> <<i>>] \o (IF NT >= 2 THEN << <<NT, 1>>, [i \in 1..NT |-> i] >> ELSE <<>>)
DataCols == {"a", "b", "n 1", "A"}

(* ---------------- model-level theorems ---------------- *)
\* (TLC re-evaluates a defined operator at every use and caches a LET: the fitted spec and its matrix are bound once per theorem)
SlicesOK == ~Empty => LET b0 == B0 IN Len(M!Names(b0)) = FoldSum(M!Slices(b0))
\* looking a term / a column up by its text is well defined: printed forms and column names are pairwise different
NamesDistinct == ~Empty => LET nm == M!Names(B0) IN \A i, j \in DOMAIN nm : i # j => nm[i] # nm[j]
\* the recorded statistics are exact
StatsIntegral == \A i \in DOMAIN Train : \A p \in DOMAIN PyPool : LET cs == Meta!Calls(PyPool[p]) IN
                   \A c \in DOMAIN cs : Meta!SumSeq([r \in 1..Train[i].n |-> Meta!Eval(cs[c].args[1], Train[i], r, <<>>)]) % Train[i].n = 0
\* variable -> columns is truthful: when the values of v change (the spec and its recorded state kept), every column OUTSIDE the indices of v
\* keeps every cell.  A numeric column is shifted by one, the categorical column has its values rotated among the levels.
Perturbed(frame, v) ==
  [frame EXCEPT !.cols[v] = IF @.kind = "num" THEN [@ EXCEPT !.num = [i \in DOMAIN @ |-> @[i] + 1]]
                             ELSE [@ EXCEPT !.cat = [i \in DOMAIN @ |-> XYZ[(M!IndexIn(XYZ, @[i]) % 3) + 1]]]]
NonInterference == ~Empty =>
   LET s0 == S0
       b0 == Meta!Build(s0, Train[tid])
       c0 == M!Cells(b0, Train[tid].n)
   IN \A v \in DataCols :
        LET c1 == M!Cells(Meta!Build(s0, Perturbed(Train[tid], v)), Train[tid].n)
            idx == Meta!VarIdx(b0, v)
        IN \A j \in DOMAIN c0[1] : j \notin idx => \A r \in DOMAIN c0 : c0[r][j] = c1[r][j]
\* a spec subset to chosen terms regenerates exactly the parent's columns for those terms - on whatever data the two are applied to
SubsetRegenerates == ~Empty =>
   LET s0 == S0 IN \A u \in DOMAIN Datas :
     LET par == Meta!Build(s0, Datas[u]) IN \A p \in DOMAIN Picks :
       LET sub == Meta!Build(Meta!Subset(s0, Picks[p]), Datas[u])
       IN \A i \in DOMAIN Picks[p] : sub.percol[i] = par.percol[Picks[p][i]]

(* ---------------- emission ---------------- *)
Hash == FoldSum(terms) + 7 * tid + (IF icpt THEN 3 ELSE 0) + (IF fullrank THEN 5 ELSE 0)
Out == IOEnv.OUT_FILE
TermOut(t) == [i \in DOMAIN t |-> t[i].e]
FrameOut(f) == [n |-> f.n, cols |-> [c \in DOMAIN f.cols |-> [kind |-> f.cols[c].kind, num |-> f.cols[c].num, cat |-> f.cols[c].cat,
                                   nulls |-> <<>>, lv |-> f.cols[c].lv, declared |-> f.cols[c].declared]]]
ReadsOut(t) == M!FlatMapM(LAMBDA f : IF f.kind = "lit" THEN <<>> ELSE Meta!ReadsAt(f.expr, "whole"), t)
StateOut(st) == LET ks == SetToSeq(DOMAIN st) IN [i \in DOMAIN ks |-> [key |-> ks[i], shift |-> st[ks[i]]]]
EmitCase ==
  (Emit /\ ~Empty /\ (Hash % SliceMod = Slice)) =>
    LET s0 == S0
        b0 == Meta!Build(s0, Train[tid])
        vs == SetToSeq(DataCols)
    IN CSVWrite("%1$s", <<ToJson(
      [written |-> [i \in DOMAIN Written |-> TermOut(Written[i])], icpt |-> icpt, tid |-> tid, full_rank |-> fullrank,
       terms |-> [i \in DOMAIN b0.terms |-> TermOut(b0.terms[i])],
       names |-> M!Names(b0), slices |-> M!Slices(b0),
       reads |-> [i \in DOMAIN b0.terms |-> ReadsOut(b0.terms[i])],
       var_idx |-> [i \in DOMAIN vs |-> [v |-> vs[i], idx |-> SetToSortSeq({j - 1 : j \in Meta!VarIdx(b0, vs[i])}, <)]],
       state |-> StateOut(s0.state),
       picks |-> Picks,
       datas |-> [u \in DOMAIN Datas |-> [frame |-> FrameOut(Datas[u]), cells |-> IF u = 1 THEN M!Cells(b0, Datas[u].n) ELSE M!Cells(Meta!Build(s0, Datas[u]), Datas[u].n)]]])>>, Out)

Init == /\ terms = <<>> /\ icpt \in BOOLEAN /\ tid \in DOMAIN Train /\ fullrank \in BOOLEAN
        /\ (~fullrank => icpt /\ tid = 1)         \* rank reduction off: what it changes for the accessors is MC_Materialize's family
Next == /\ Len(terms) < MaxTerms
        /\ \E t \in DOMAIN TermPool : (\A i \in DOMAIN terms : terms[i] # t /\ Distinct(TermPool[terms[i]], TermPool[t])) /\ terms' = Append(terms, t)
        /\ UNCHANGED <<icpt, tid, fullrank>>
Spec == Init /\ [][Next]_vars
=============================================================================
