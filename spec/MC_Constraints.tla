--------------------------- MODULE MC_Constraints ---------------------------
(* Bounded enumeration of constraint token strings (C16): soundness of the   *)
(* compiled affine map against the arithmetic reference on n+1 points,       *)
(* rejection of non-linear specifications, emission for the replay leg.      *)
EXTENDS Integers, Sequences, FiniteSets, TLC, TLCExt, Json, CSV, IOUtils, SequencesExt

CONSTANTS MaxLen, Emit, SignRule
C == INSTANCE Constraints

A(tok, text) == [tok |-> tok, text |-> text]
Op(c) == A(C!COp(<<c>>), c)
Alphabet == << A(C!CTok("name", "x"), "x"), A(C!CTok("name", "y"), "y"), A(C!CTok("name", "z"), "z"),
               A(C!CVal("0", <<0, 1>>), "0"), A(C!CVal("1", <<1, 1>>), "1"), A(C!CVal("2", <<2, 1>>), "2"), A(C!CVal("3", <<3, 1>>), "3"),
               Op("+"), Op("-"), Op("*"), Op("/"), Op("="), Op(","),
               A([C!CTok("open", "(") EXCEPT !.k = "open"], "("), A([C!CTok("close", ")") EXCEPT !.k = "close"], ")") >>
NameLists == << <<"x", "y", "z">>, <<"y", "x">> >>

VARIABLE str
RECURSIVE Lex(_, _)
Lex(idx, run) ==
  IF idx = <<>> THEN (IF run = <<>> THEN <<>> ELSE <<C!COp(run)>>)
  ELSE LET t == Alphabet[Head(idx)].tok IN
       IF t.k = "op" THEN Lex(Tail(idx), run \o t.cs)
       ELSE (IF run = <<>> THEN <<>> ELSE <<C!COp(run)>>) \o <<t>> \o Lex(Tail(idx), <<>>)
Toks == Lex(str, <<>>)
Text == [i \in DOMAIN str |-> Alphabet[str[i]].text]

Sound == \A n \in DOMAIN NameLists :
   LET names == NameLists[n] i == C!ImplC(Toks, names) r == C!RefC(Toks, names) IN
   (i.st = "OK" /\ r.gram) => C!AffineAgrees(i.rows, Toks, names)
NonLinearRejected == \A n \in DOMAIN NameLists :
   LET names == NameLists[n] i == C!ImplC(Toks, names) r == C!RefC(Toks, names) IN
   (r.gram /\ ~r.lin) => i.st \in {"REJECT", "UNMODELLED"}

RowOut(row) == [a |-> row.coef, b |-> row.b]
Out == IOEnv.OUT_FILE
EmitCase ==
  Emit => CSVWrite("%1$s", <<ToJson([t |-> Text,
             r |-> [n \in DOMAIN NameLists |->
                     LET i == C!ImplC(Toks, NameLists[n]) rf == C!RefC(Toks, NameLists[n]) IN
                     [st |-> i.st, rows |-> [q \in DOMAIN i.rows |-> RowOut(i.rows[q])], gram |-> rf.gram, lin |-> rf.lin]]])>>, Out)

Init == str = <<>>
Next == Len(str) < MaxLen /\ \E a \in DOMAIN Alphabet : str' = Append(str, a)
Spec == Init /\ [][Next]_str
=============================================================================
