--------------------------- MODULE MC_LayeredHeap ---------------------------
(* Every operation history up to MaxOps on a heap of plain dicts and layered   *)
(* mappings that hold each other by reference (LayeredHeap.tla): writes to any *)
(* mapping, children derived from any mapping (with_layers / constructor),     *)
(* mappings joined, mappings grown in place, owners changing their plain dict. *)
(* One state per history; every object of the heap is emitted, so the replay   *)
(* reads the *old* objects after the *later* operations.                       *)
EXTENDS Integers, Sequences, FiniteSets, TLC, TLCExt, Json, CSV, IOUtils, SequencesExt
CONSTANTS MaxOps, Emit, Variant
H == INSTANCE LayeredHeap

Keys == {"p", "q", "s"}
Configs == <<
  << H!DictObj(<< <<"p", 10>>, <<"q", 20>> >>), H!LmObj("", <<>>, <<1>>, <<1>>) >>,                  \* LayeredMapping({p, q})
  << H!DictObj(<< <<"p", 10>>, <<"q", 20>> >>), H!LmObj("base", <<>>, <<1>>, <<1>>) >>,              \* ... named
  << H!DictObj(<< <<"q", 20>>, <<"p", 10>> >>), H!LmObj("", << <<"s", 5>> >>, <<1>>, <<1>>) >>,      \* ... already holding a local write
  << H!LmObj("", <<>>, <<>>, <<>>) >> >>                                                             \* LayeredMapping()
\* values are functions of the step, so a stale read is always distinguishable from a fresh one
Extra(n) == << <<"q", 300 + n>>, <<"s", 400 + n>> >>

VARIABLES h, hist, cfg, last
vars == <<h, hist, cfg, last>>
Op(name, o, b, k, v, mode, nm) == [op |-> name, o |-> o, b |-> b, k |-> k, v |-> v, mode |-> mode, name |-> nm]
N == Len(hist) + 1
Lms == {i \in DOMAIN h : H!IsLm(h, i)}
Dicts == DOMAIN h \ Lms

Init == /\ cfg \in DOMAIN Configs /\ h = Configs[cfg] /\ hist = <<>> /\ last = "init"
Next == /\ Len(hist) < MaxOps
        /\ UNCHANGED cfg
        /\ \/ \E o \in Lms, k \in Keys : h' = H!SetItem(h, o, k, 100 + N) /\ hist' = Append(hist, Op("set", o, 0, k, 100 + N, "", "")) /\ last' = "ok"
           \/ \E o \in Lms, k \in Keys : /\ hist' = Append(hist, Op("del", o, 0, k, 0, "", ""))
                                         /\ IF H!CanDel(h, o, k) THEN h' = H!DelItem(h, o, k) /\ last' = "ok" ELSE h' = h /\ last' = "KeyError"
           \/ \E d \in Dicts, k \in Keys : h' = H!SetItem(h, d, k, 200 + N) /\ hist' = Append(hist, Op("poke", d, 0, k, 200 + N, "", "")) /\ last' = "ok"
           \/ \E o \in Lms, mode \in {"prepend", "append", "ctor"}, nm \in {"", "n"} :
                 h' = H!Derive(h, o, Extra(N), mode, nm) /\ hist' = Append(hist, Op("derive", o, 0, "", N, mode, nm)) /\ last' = "ok"
           \/ \E a \in Lms, b \in Lms : h' = H!Join(h, a, b) /\ hist' = Append(hist, Op("join", a, b, "", 0, "", "")) /\ last' = "ok"
           \/ \E o \in Lms, mode \in {"prepend", "append"} :
                 h' = H!Grow(h, o, Extra(N), mode = "prepend") /\ hist' = Append(hist, Op("grow", o, 0, "", N, mode, "")) /\ last' = "ok"
Spec == Init /\ [][Next]_vars

AllKeys == Keys \cup {"zz"}
Laws == H!WellFounded(h) /\ H!MergeLaw(h) /\ H!LookupLaw(h, AllKeys)
\* an operation changes the object it is applied to and nothing else: writes go to the private layer of the mapping written to,
\* only the owner's own assignment changes a plain dict, deriving / joining changes no existing object at all
FrameLaw == [][hist' # hist =>
   LET op == hist'[Len(hist')] IN
   /\ \A i \in DOMAIN h : (i # op.o \/ op.op \in {"derive", "join"}) => h'[i] = h[i]
   /\ op.op \in {"set", "del"} => h'[op.o] = [h[op.o] EXCEPT !.mut = h'[op.o].mut]
   /\ \A i \in DOMAIN h : h[i].kind = "dict" /\ op.op # "poke" => h'[i] = h[i]]_vars

Out == IOEnv.OUT_FILE
EmitCase ==
  Emit => CSVWrite("%1$s", <<ToJson([cfg |-> cfg, hist |-> hist, last |-> last,
            objs |-> [i \in DOMAIN h |-> [kind |-> h[i].kind, name |-> h[i].name, mut |-> h[i].mut, given |-> h[i].given,
                                          items |-> H!LawItems(h, i), len |-> Len(H!LawItems(h, i))]]])>>, Out)
=============================================================================
