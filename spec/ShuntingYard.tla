--------------------------- MODULE ShuntingYard ---------------------------
(***************************************************************************)
(* The enriched shunting-yard machine of parser/algos/tokens_to_ast.py,    *)
(* one pure step operator per branch of its main loop.  The operator table *)
(* is a parameter, so the same machine serves the Wilkinson grammar and    *)
(* the linear-constraint grammar (utils/constraints.py).                   *)
(*                                                                         *)
(* Tokens are records [k, s, cs, vars, num, ival]:                                    *)
(*   k  in {"name","value","python","op","open","close"}                   *)
(*   s  the text of a non-operator token (for open/close: "(" "[" ")" "]") *)
(*   cs the symbols of an operator run (sequence of 1-symbol strings)      *)
(* A candidate operator is a record                                        *)
(*   [sym, id, arity, prec, assoc, fix, ctx, flag]                         *)
(* Machine state: [stack, queue, err, flags]                               *)
(*   stack entries [kind \in {"op","ctx"}, sym, c, idx]                    *)
(*   queue entries: AST leaves [n |-> "leaf", tok] or nodes                *)
(*                  [n |-> "node", c, args]                                *)
(*                                                                         *)
(* Where the documented behaviour and the pinned code differ the machine   *)
(* states the documented behaviour (marked DOC).                           *)
(***************************************************************************)
EXTENDS Integers, Sequences, FiniteSets

CONSTANTS Table,          \* function: symbol -> sequence of candidates, sorted by (prec, arity) descending, stable
          Symbols,        \* DOMAIN Table
          ResolveRun(_)   \* operator run (sequence of symbols) -> sequence of table symbols or <<"?">> elements

NoCand == [sym |-> "", id |-> "", arity |-> 0, prec |-> 0, assoc |-> "none", fix |-> "infix", ctx |-> "any", flag |-> ""]

Leaf(tok) == [n |-> "leaf", tok |-> tok, c |-> NoCand, args |-> <<>>]
Node(c, args) == [n |-> "node", tok |-> [k |-> "", s |-> "", cs |-> <<>>, vars |-> <<>>, num |-> FALSE, ival |-> -1], c |-> c, args |-> args]

Init0(flags) == [stack |-> <<>>, queue |-> <<>>, err |-> "", flags |-> flags]
Err(m, e) == IF m.err = "" THEN [m EXCEPT !.err = e] ELSE m
Top(m) == m.stack[Len(m.stack)]
Pop(m) == [m EXCEPT !.stack = SubSeq(@, 1, Len(@) - 1)]
PushOp(m, c) == [m EXCEPT !.stack = Append(@, [kind |-> "op", sym |-> c.sym, c |-> c, idx |-> Len(m.queue)])]
PushCtx(m, s) == [m EXCEPT !.stack = Append(@, [kind |-> "ctx", sym |-> s, c |-> NoCand, idx |-> Len(m.queue)])]

\* operate(): replace the arguments of a popped operator by one node
Operate(m, e) ==
  LET c  == e.c
      lo == CASE c.fix = "infix" -> e.idx - 1 [] c.fix = "prefix" -> e.idx [] OTHER -> e.idx - c.arity
      hi == CASE c.fix = "infix" -> e.idx + 1 [] c.fix = "prefix" -> e.idx + c.arity [] OTHER -> e.idx
  IN IF m.err # "" THEN m
     ELSE IF lo < 0 \/ hi > Len(m.queue) THEN Err(m, "insufficient-arguments")
     ELSE [m EXCEPT !.queue = SubSeq(@, 1, lo) \o <<Node(c, SubSeq(@, lo + 1, hi))>> \o SubSeq(@, hi + 1, Len(@))]

Disabled(c, flags) == c.flag # "" /\ c.flag \notin flags

\* Operator.accepts_context: context tokens and stacked operators of precedence <= c.prec
CtxOf(c, stack) == SelectSeq(stack, LAMBDA e : e.kind = "ctx" \/ e.c.prec <= c.prec)
Accepts(c, stack) ==
  LET cx == CtxOf(c, stack) IN
  CASE c.ctx = "any"  -> TRUE
    [] c.ctx = "top"  -> cx = <<>>
    [] c.ctx = "ms"   -> cx # <<>> /\ cx[Len(cx)].kind = "ctx" /\ cx[Len(cx)].sym = "["
    [] c.ctx = "part" -> \A i \in DOMAIN cx : cx[i].kind = "op" /\ cx[i].sym \in {"~", "|"}
    [] c.ctx = "commas" -> \A i \in DOMAIN cx : cx[i].kind = "op" => cx[i].sym = ","

RECURSIVE PopWhile(_, _)
PopWhile(m, c) ==
  IF m.err # "" \/ m.stack = <<>> THEN m
  ELSE LET e == Top(m) IN
       IF e.kind = "op" /\ (e.c.prec > c.prec \/ (e.c.prec = c.prec /\ c.assoc = "left"))
       THEN PopWhile(Operate(Pop(m), e), c)
       ELSE m

\* the candidate loop: pops done for a candidate that then turns out invalid are kept
RECURSIVE TryCands(_, _)
TryCands(m, cs) ==
  IF m.err # "" THEN m
  ELSE IF cs = <<>> THEN Err(m, "operator-misused-or-disabled")
  ELSE LET c == Head(cs) IN
       IF ~Accepts(c, m.stack) \/ Disabled(c, m.flags) THEN TryCands(m, Tail(cs))
       ELSE LET m1 == PopWhile(m, c)
                avail == IF m1.stack = <<>> THEN Len(m1.queue) ELSE Len(m1.queue) - Top(m1).idx
                valid == \/ c.arity = 0
                         \/ c.fix = "prefix"
                         \/ (avail = 1 /\ c.fix = "infix")
                         \/ (avail >= c.arity /\ c.fix = "postfix")
            IN IF m1.err # "" THEN m1
               ELSE IF valid THEN PushOp(m1, c) ELSE TryCands(m1, Tail(cs))

RECURSIVE FeedSyms(_, _)
FeedSyms(m, syms) ==
  IF m.err # "" \/ syms = <<>> THEN m
  ELSE IF Head(syms) \notin Symbols THEN Err(m, "unknown-operator")
  ELSE FeedSyms(TryCands(m, Table[Head(syms)]), Tail(syms))

FeedOperator(m, tok) == FeedSyms(m, ResolveRun(tok.cs))
FeedOperand(m, tok) == [m EXCEPT !.queue = Append(@, Leaf(tok))]
FeedOpen(m, tok) == PushCtx(m, tok.s)

Opener(s) == IF s = ")" THEN "(" ELSE "["
\* DOC: a closer pops to the NEAREST opener, which must be the matching one (the pinned
\* code searched for the matching opener and operated on context tokens in between);
\* DOC: a bracket pair that encloses nothing is an error (the pinned code ignored it).
RECURSIVE CloseTo(_, _)
CloseTo(m, opener) ==
  IF m.err # "" THEN m
  ELSE IF m.stack = <<>> THEN Err(m, "no-matching-opener")
  ELSE LET e == Top(m) IN
       IF e.kind = "ctx"
       THEN IF e.sym # opener THEN Err(m, "mismatched-bracket")
            ELSE IF e.idx = Len(m.queue) THEN Err(m, "empty-brackets")
            ELSE Pop(m)
       ELSE CloseTo(Operate(Pop(m), e), opener)
FeedClose(m, tok) == CloseTo(m, Opener(tok.s))

Step(m, tok) ==
  IF m.err # "" THEN m
  ELSE CASE tok.k = "open"  -> FeedOpen(m, tok)
         [] tok.k = "close" -> FeedClose(m, tok)
         [] tok.k = "op"    -> FeedOperator(m, tok)
         [] OTHER           -> FeedOperand(m, tok)

RECURSIVE Unwind(_)
Unwind(m) ==
  IF m.err # "" \/ m.stack = <<>> THEN m
  ELSE LET e == Top(m) IN
       IF e.kind = "ctx" THEN Err(m, "unclosed-bracket") ELSE Unwind(Operate(Pop(m), e))

Finish(m) == LET u == Unwind(m) IN
             IF u.err # "" THEN u ELSE IF Len(u.queue) > 1 THEN Err(u, "missing-operator") ELSE u

RECURSIVE RunFrom(_, _)
RunFrom(m, toks) == IF toks = <<>> THEN m ELSE RunFrom(Step(m, Head(toks)), Tail(toks))
Run(flags, toks) == Finish(RunFrom(Init0(flags), toks))

(* machine invariants, checked step-wise by MC_ShuntingYard *)
StackIdxMonotone(m) == \A i, j \in DOMAIN m.stack : i < j => m.stack[i].idx <= m.stack[j].idx
StackIdxBounded(m) == \A i \in DOMAIN m.stack : m.stack[i].idx <= Len(m.queue)
=============================================================================
