--------------------------- MODULE MC_ContrastsReuse ---------------------------
(***************************************************************************)
(* C11, "for every number of levels ... every option ... honouring the     *)
(* chosen reference level and explicit level lists" - of EVERY use of a    *)
(* contrasts object, not only of the first: a contrasts object is a coding *)
(* rule (a value); the same object is applied to many factors (a          *)
(* `contrasts=` argument shared by several terms, a ContrastsState kept in *)
(* a model spec, a user's own constant).                                   *)
(* A state machine: the object `o` names its reference level by LABEL      *)
(* (0 = default) and is used with one level list after the other; `hist`   *)
(* is the history of level lists (sequences of distinct labels of the      *)
(* universe 1..MaxU: other levels, other lengths, the same levels in       *)
(* another order), `memo` what the object keeps from its first resolution. *)
(* Variant = "code" is the specification (nothing kept is ever used);      *)
(* "memo-position" is the design error (Contrasts.tla) that TLC must       *)
(* refute on this very family - otherwise the family is vacuous.           *)
(* Every state emits its history with the outcome of every use, the driver *)
(* replays the whole history on ONE object.                                *)
(* A module of its own: MC_Contrasts is also run by C05, whose cfg cannot  *)
(* name a new constant.                                                    *)
(***************************************************************************)
EXTENDS Integers, Sequences, FiniteSets, TLC, TLCExt, Json, CSV, IOUtils, SequencesExt
CONSTANTS MaxU, MaxLen, Emit, Variant
C == INSTANCE Contrasts
M == INSTANCE MC_Contrasts WITH MaxN <- MaxU, MaxPolyN <- 2, kind <- "none", n <- 0, o <- 0, scores <- <<>>, li <- <<>>      \* its option family, not its state

Injective(s) == \A i, j \in DOMAIN s : i # j => s[i] # s[j]
Arrangements == {s \in UNION {[1..m -> 1..MaxU] : m \in 1..MaxU} : Injective(s)}
\* treatment / SAS: every label of the universe as the named reference level, and the default (first / last of each list);
\* the other codings do not look at labels at all, only the number of levels can matter: lists <<1..m>>
Objects == M!OptsFor(MaxU) \cup {M!O("sas", b, TRUE, FALSE, TRUE) : b \in 0..MaxU}
ListsFor(ob) == IF ob.name \in {"treatment", "sas"} THEN {s \in Arrangements : ob.base = 0 \/ C!PosIn(ob.base, s) # 0}
                ELSE {[i \in 1..m |-> i] : m \in 1..MaxU}

VARIABLES o, memo, hist
vars == <<o, memo, hist>>

\* `memo` is read AFTER the use: at the first use it is the position just found (so both variants agree there), later the stale one
ReuseLaws == \A k \in DOMAIN hist : C!ReuseReferenceByLabel(Variant, memo, o, hist[k]) /\ C!ReuseStandard(Variant, memo, o, hist[k])

Outcome(lv) == LET n == Len(lv) po == C!Positional(Variant, memo, o, lv) IN
  [lv |-> lv, n |-> n, po |-> po, coding |-> C!Coding(po, n), interp |-> C!Interp(po, n), collevels |-> [j \in 1..(n - 1) |-> C!ColLevel(po, n, j)],
   drop |-> C!DropLevel(po, n), prefix |-> C!Prefix(po),
   li |-> [r \in 1..(n + 1) |-> IF r <= n THEN n + 1 - r ELSE 0],      \* every level, last to first, and a null
   reduced |-> C!EncodeReduced(po, n, [r \in 1..(n + 1) |-> IF r <= n THEN n + 1 - r ELSE 0]),
   full |-> C!EncodeFull(n, [r \in 1..(n + 1) |-> IF r <= n THEN n + 1 - r ELSE 0])]
Out == IOEnv.OUT_FILE
EmitCase == Emit =>      \* the unused object too (no uses): emitted = distinct states
  CSVWrite("%1$s", <<ToJson([kind |-> "reuse", n |-> IF hist = <<>> THEN 0 ELSE Len(hist[Len(hist)]), o |-> o, hist |-> hist, uses |-> [k \in DOMAIN hist |-> Outcome(hist[k])]])>>, Out)

Init == o \in Objects /\ memo = 0 /\ hist = <<>>
Use(lv) == /\ hist' = Append(hist, lv)
           /\ memo' = IF memo = 0 THEN C!PosIn(o.base, lv) ELSE memo
           /\ UNCHANGED o
Next == Len(hist) < MaxLen /\ \E lv \in ListsFor(o) : Use(lv)
Spec == Init /\ [][Next]_vars
=============================================================================
