import re
from formulaic.parser.parser import DefaultOperatorResolver
from formulaic.parser.types import OperatorResolver
def resolve(self, token):
    if token.token in self.operator_table:
        yield from OperatorResolver.resolve(self, token); return
    symbol = token.token
    while True:
        m = re.search(r"[+\-]{2,}", symbol)
        if not m: break
        symbol = symbol[: m.start(0)] + ("-" if len(m.group(0).replace("+", "")) % 2 else "+") + symbol[m.end(0):]
    if symbol in self.operator_table:
        yield self._resolve(token, symbol); return
    for sym in symbol:
        yield self._resolve(token, sym)
DefaultOperatorResolver.resolve = resolve
