"""Throw-away: exact Cox-de Boor (fractions) vs basis_spline on a small grid, all extrapolation modes."""
import itertools, warnings, collections
from fractions import Fraction as Fr
warnings.simplefilter("ignore")
import numpy as np
from formulaic.transforms.basis_spline import basis_spline

def B(i, d, x, t, last):
    """Cox-de Boor; interval half-open except the last non-degenerate one (right-closed)."""
    if d == 0:
        if t[i] <= x < t[i + 1]: return Fr(1)
        if x == t[i + 1] and i + 1 == last and t[i] < t[i + 1]: return Fr(1)
        return Fr(0)
    a = (x - t[i]) / (t[i + d] - t[i]) * B(i, d - 1, x, t, last) if t[i + d] != t[i] else Fr(0)
    b = (t[i + d + 1] - x) / (t[i + d + 1] - t[i + 1]) * B(i + 1, d - 1, x, t, last) if t[i + d + 1] != t[i + 1] else Fr(0)
    return a + b
def poly_piece_extend(i, d, x, t, lo_i, hi_i):
    """value of the polynomial piece of B_{i,d} on the first/last interval, evaluated at x outside"""
    # emulate by treating indicator of boundary interval as extended to infinity
    def BB(i, dd):
        if dd == 0:
            lo = t[i] if i != lo_i else None; hi = t[i + 1] if i + 1 != hi_i else None
            return Fr(1) if (lo is None or x >= lo) and (hi is None or x < hi) else Fr(0)
        a = (x - t[i]) / (t[i + dd] - t[i]) * BB(i, dd - 1) if t[i + dd] != t[i] else Fr(0)
        b = (t[i + dd + 1] - x) / (t[i + dd + 1] - t[i + 1]) * BB(i + 1, dd - 1) if t[i + dd + 1] != t[i + 1] else Fr(0)
        return a + b
    return BB(i, d)
def design(x, inner, lo, hi, degree, intercept, mode):
    t = [Fr(lo)] * (degree + 1) + [Fr(k) for k in inner] + [Fr(hi)] * (degree + 1)
    nb = len(t) - degree - 1
    last = len(t) - degree - 1      # index of the end of the last non-degenerate interval
    out = []
    for xv in x:
        if xv is None: out.append(None); continue
        xv = Fr(xv); oob = xv < lo or xv > hi
        if oob and mode == "raise": return "RAISE"
        if oob and mode == "na": out.append(None); continue
        if oob and mode == "zero": out.append([Fr(0)] * (nb - (0 if intercept else 1))); continue
        if oob and mode == "clip": xv = min(max(xv, Fr(lo)), Fr(hi))
        if oob and mode == "extend":
            row = [poly_piece_extend(i, degree, xv, t, degree, len(t) - degree - 1) for i in range(nb)]
        else:
            row = [B(i, degree, xv, t, last) for i in range(nb)]
        out.append(row if intercept else row[1:])
    return out
bad = collections.Counter(); ex = collections.defaultdict(list); n = 0
grid = [Fr(k, 2) for k in range(-2, 11)]      # -1 .. 5 step 1/2
for degree in range(0, 4):
  for inner in [(), (2,), (1, 3), (2, 2), (1, 2, 3)]:
    for intercept in (False, True):
      for mode in ("raise", "clip", "na", "zero", "extend"):
        for xs in [grid, [Fr(0), Fr(1), Fr(2), Fr(4)], [Fr(0), Fr(4), Fr(2), Fr(2)]]:
            n += 1
            exp = design(xs, inner, 0, 4, degree, intercept, mode)
            try:
                got = basis_spline(np.array([float(v) for v in xs]), knots=list(inner), degree=degree, include_intercept=intercept, lower_bound=0, upper_bound=4, extrapolation=mode, _state={})
                cols = [np.asarray(got[k], dtype=float) for k in sorted(got)]
                G = np.stack(cols, axis=1) if cols else np.empty((len(xs), 0))
            except ValueError as e:
                G = "RAISE"
            except Exception as e:
                G = ("EXC", type(e).__name__, str(e)[:50])
            ok = True
            if exp == "RAISE" or isinstance(G, (str, tuple)):
                ok = (exp == "RAISE") and (isinstance(G, str) and G == "RAISE")
            else:
                for r, row in enumerate(exp):
                    if row is None: ok &= bool(np.all(np.isnan(G[r])))
                    else: ok &= (G.shape[1] == len(row)) and bool(np.allclose(G[r], [float(v) for v in row], atol=1e-12))
            if not ok:
                key = (degree, mode, "ties" if len(set(inner)) < len(inner) else "plain")
                bad[key] += 1
                if len(ex[key]) < 1: ex[key].append((inner, intercept, [str(v) for v in xs][:6], G if isinstance(G, (str, tuple)) else None))
print("cases", n, "bad", sum(bad.values()))
for k, v in sorted(bad.items()): print(k, v, ex[k][0])
