"""Throw-away: differentiate (C20) and required-variables (C17) probes."""
import itertools, warnings, random
warnings.simplefilter("ignore")
import numpy as np, pandas as pd
from formulaic import Formula, model_matrix
from formulaic.parser.types import Term, Factor
from formulaic.errors import FactorEvaluationError
V = ["x", "y", "z", "w"]
def T(fs): return Term([Factor(f) for f in fs]) if fs else Term([Factor("1", eval_method="literal")])
def D(t, v):
    if t == "ZERO": return "ZERO"
    if v not in t: return "ZERO"
    return tuple(f for f in t if f != v)
subsets = [s for r in range(0, 4) for s in itertools.combinations(V, r)]
random.seed(4); bad = []
df = pd.DataFrame({v: np.array([2., 3., 5., 7.]) * (i + 1) + i for i, v in enumerate(V)})
for trial in range(1500):
    terms = random.sample(subsets, random.randint(1, 4))
    wrt = tuple(random.choice(V) for _ in range(random.randint(1, 3)))
    f = Formula([T(s) for s in terms], _ordering="none")
    try:
        d = f.differentiate(*wrt)
    except Exception as e:
        bad.append(("EXC", terms, wrt, type(e).__name__, str(e)[:60])); continue
    exp = []
    for s in terms:
        t = s
        for v in wrt: t = D(t, v)
        exp.append(t)
    got = [("ZERO" if [f.expr for f in t.factors] == ["0"] else tuple(f.expr for f in t.factors if f.expr != "1")) for t in d]
    if got != exp: bad.append(("terms", terms, wrt, got, exp)); continue
    if len(wrt) == 1:
        v = wrt[0]
        df2 = df.copy(); df2[v] = df2[v] + 2.0
        for t0, td, e in zip(f, d, exp):
            if e == "ZERO": continue
            try:
                c0 = np.asarray(model_matrix(Formula([t0], _ordering="none"), df, output="numpy", ensure_full_rank=False))
                c1 = np.asarray(model_matrix(Formula([t0], _ordering="none"), df2, output="numpy", ensure_full_rank=False))
                cd = np.asarray(model_matrix(Formula([td], _ordering="none"), df, output="numpy", ensure_full_rank=False))
                if c0.shape != cd.shape or not np.allclose((c1 - c0) / 2.0, cd): bad.append(("fd", t0, td, wrt))
            except Exception as ex: bad.append(("fd EXC", t0, td, type(ex).__name__, str(ex)[:80]))
print("diff bad", len(bad)); 
for b in bad[:8]: print(b)
# required variables
bad = []
forms = ["y ~ x", "x + z", "log(x) + z", "C(w) + x:z", "{x + z}", "center(x):w", "np.sin(x) + I(z**2)", "`x` + z", "bs(x, df=4)", "poly(z, 2)", "x + f(z)", "scale(x) + q"]
full = pd.DataFrame({"x": [1., 2., 3., 4., 5.], "y": [1., 3., 2., 5., 4.], "z": [2., 1., 4., 3., 6.], "w": ["a", "b", "a", "b", "a"]}).astype({"w": object})
ctx = {"f": lambda v: v * 2, "q": np.array([1., 2., 3., 4., 5.])}
for s in forms:
    try:
        F = Formula(s); rv = set(map(str, F.required_variables))
    except Exception as e:
        bad.append(("rv EXC", s, type(e).__name__)); continue
    rv_data = rv & set(full.columns)
    try:
        model_matrix(F, full[list(rv_data)] if rv_data else full[[]], context=ctx)
    except Exception as e:
        bad.append(("not sufficient", s, rv, type(e).__name__, str(e)[:80]))
    for v in rv_data:
        cols = [c for c in full.columns if c != v]
        try:
            model_matrix(F, full[cols], context=ctx); bad.append(("not necessary", s, v))
        except FactorEvaluationError: pass
        except Exception as e: bad.append(("wrong exc", s, v, type(e).__name__, str(e)[:60]))
    mm = model_matrix(F, full, context=ctx)
    specs = list(mm.model_spec._flatten()) if hasattr(mm.model_spec, "_flatten") else [mm.model_spec]
    after = set().union(*[set(map(str, sp.required_variables)) for sp in specs])
    if after != rv_data: bad.append(("before/after differ", s, rv, after))
print("reqvars bad", len(bad))
for b in bad: print(b)
