"""Throw-away: spec reuse on changed data (kinds, lost/gained levels), row-locality."""
import itertools, warnings, collections, pickle
import numpy as np, pandas as pd
from formulaic import model_matrix
from formulaic.errors import DataMismatchWarning, FactorEncodingError
LV = ["x", "y", "z"]
train = pd.DataFrame({"A": ["x", "y", "z", "y"], "a": [1., 2., 3., 4.]}).astype({"A": object})
bad = collections.Counter(); ex = {}
def run(spec, df):
    with warnings.catch_warnings(record=True) as w:
        warnings.simplefilter("always")
        try:
            mm = spec.get_model_matrix(df)
            return ("OK", list(mm.columns), mm.to_numpy(dtype=float), [type(x.message).__name__ for x in w if issubclass(x.category, DataMismatchWarning)])
        except Exception as e:
            return ("EXC", type(e).__name__, str(e)[:60])
for formula in ["A", "a:A", "0 + A", "A + a", "C(A, contr.sum)", "center(a) + A"]:
    with warnings.catch_warnings():
        warnings.simplefilter("ignore")
        mm = model_matrix(formula, train)
    spec = mm.model_spec
    names = list(mm.columns)
    # same data
    r = run(spec, train)
    if r[0] != "OK" or r[1] != names or not np.allclose(r[2], mm.to_numpy(dtype=float)): bad[("selfreplay", formula)] += 1
    sp2 = pickle.loads(pickle.dumps(spec)); r2 = run(sp2, train)
    if r2[0] != "OK" or r2[1] != names or not np.allclose(r2[2], r[2]): bad[("pickle", formula)] += 1
    # follow-ups over levels incl. unseen w
    for vals in itertools.product(["x", "y", "z", "w"], repeat=2):
        df = pd.DataFrame({"A": list(vals), "a": [5., 6.]}).astype({"A": object})
        r = run(spec, df)
        unseen = "w" in vals
        if r[0] != "OK": bad[("followup exc", formula)] += 1; ex[("followup exc", formula)] = r; continue
        if r[1] != names: bad[("names changed", formula)] += 1
        if unseen != bool(r[3]): bad[("warning mismatch", formula, unseen)] += 1
        # row locality: each row alone
        for i in range(2):
            ri = run(spec, df.iloc[[i]].reset_index(drop=True))
            if ri[0] != "OK" or not np.allclose(ri[2][0], r[2][i], equal_nan=True): bad[("row locality", formula)] += 1; ex[("row locality", formula)] = (vals, i, ri[2] if ri[0]=="OK" else ri, r[2])
    # kind change
    dnum = pd.DataFrame({"A": [1., 2.], "a": [5., 6.]})
    r = run(spec, dnum)
    if not (r[0] == "EXC" and r[1] == "FactorEncodingError"): bad[("kind guard", formula)] += 1; ex[("kind guard", formula)] = r[:2] if r[0]=="EXC" else (r[1], r[2].tolist())
    dcat = pd.DataFrame({"A": ["x", "y"], "a": ["p", "q"]}).astype({"A": object, "a": object})
    if "a" in formula:
        r = run(spec, dcat)
        if not (r[0] == "EXC" and r[1] == "FactorEncodingError"): bad[("kind guard num->cat", formula)] += 1; ex[("kind guard num->cat", formula)] = r[:3] if r[0]=="EXC" else (r[1], r[2].tolist())
for k, v in sorted(bad.items(), key=str): print(k, v, ex.get(k[:2], ""))
