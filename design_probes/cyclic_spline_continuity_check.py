import numpy as np
from fractions import Fraction as Fr
from cubic_spline_exact_vs_impl import second_derivs_cyclic
from formulaic.transforms.cubic_spline import _get_cyclic_f
knots = (0, 1, 3)
F_ref = np.array([[float(v) for v in r] for r in second_derivs_cyclic(knots)])
F_code = _get_cyclic_f(np.array(knots, dtype=float))
print("F_ref\n", F_ref, "\nF_code\n", F_code)
# check C1 continuity at knot x=1 and at wrap (x=0 == x=3) for y = e_0: s'(x) on interval j: (y_{j+1}-y_j)/h - h/6 (2 M_j + M_{j+1}) at left end; at right end: (y_{j+1}-y_j)/h + h/6 (M_j + 2 M_{j+1})
def d1(F, col):
    y = np.zeros(2); y[col] = 1; M = F @ y
    h = [1.0, 2.0]
    yy = [y[0], y[1], y[0]]; MM = [M[0], M[1], M[0]]
    left = [(yy[j+1]-yy[j])/h[j] - h[j]/6*(2*MM[j]+MM[j+1]) for j in range(2)]   # derivative at left end of interval j
    right = [(yy[j+1]-yy[j])/h[j] + h[j]/6*(MM[j]+2*MM[j+1]) for j in range(2)]
    return {"at knot1 (right of int0 vs left of int1)": (right[0], left[1]), "at wrap (right of int1 vs left of int0)": (right[1], left[0])}
for name, F in (("ref", F_ref), ("code", F_code)):
    for col in (0, 1): print(name, col, d1(F, col))
