"""Throw-away: pandas vs narwhals(pandas) vs narwhals(arrow), outputs, na policies."""
import itertools, warnings, collections
warnings.simplefilter("ignore")
import numpy as np, pandas as pd, pyarrow as pa
from formulaic import model_matrix
def frames(nulls):
    d = {"a": [1., 2., 3., 4.], "b": [2., 0., -1., 5.], "A": ["x", "y", "z", "x"], "B": ["u", "v", "u", "v"], "i": [1, 2, 3, 4], "t": [True, False, True, True]}
    for col, i in nulls: d[col] = list(d[col]); d[col][i] = None
    pdf = pd.DataFrame(d).astype({"A": object, "B": object})
    return pdf, pa.Table.from_pandas(pdf, preserve_index=False)
def norm(mm, output):
    names = list(mm.model_spec.column_names)
    if output == "sparse": X = mm.toarray()
    elif output == "pandas": X = mm.to_numpy(dtype=float, na_value=np.nan) if hasattr(mm, "to_numpy") else np.asarray(mm, dtype=float)
    else: X = np.asarray(mm, dtype=float)
    return names, np.asarray(X, dtype=float)
bad = collections.Counter(); ex = {}; n = 0
for formula in ["a", "A", "a + A", "a:A", "A:B", "a*b", "i + t", "t", "a + A + a:A + B", "0 + A", "0 + a:A:B", "C(A, contr.sum)", "center(a) + A"]:
  for nulls in [(), (("a", 1),), (("A", 2),), (("a", 0), ("A", 3))]:
    for na in ("drop", "ignore"):
      for output in ("pandas", "numpy", "sparse"):
        pdf, tab = frames(nulls)
        res = {}
        for label, data, kw in (("pandas", pdf, {}), ("nw/pandas", pdf, {"materializer": "narwhals"}), ("nw/arrow", tab, {})):
            n += 1
            try:
                res[label] = norm(model_matrix(formula, data, na_action=na, output=output, **kw), output)
            except Exception as e:
                res[label] = ("EXC", type(e).__name__, str(e)[:70])
        base = res["pandas"]
        for label in ("nw/pandas", "nw/arrow"):
            r = res[label]
            same = (not isinstance(base, tuple) or base[0] != "EXC") and (not isinstance(r, tuple) or r[0] != "EXC") and base[0] == r[0] and base[1].shape == r[1].shape and np.allclose(base[1], r[1], equal_nan=True)
            if isinstance(base, tuple) and base[0] == "EXC" and isinstance(r, tuple) and r[0] == "EXC": same = True
            if not same:
                key = (label, formula, "nulls" if nulls else "nonull", na, output)
                bad[key] += 1; ex[key] = (base if isinstance(base[0], str) else base[0], r if isinstance(r[0], str) else r[0])
print("runs", n, "bad", len(bad))
seen = set()
for k, v in sorted(bad.items()):
    short = (k[0], k[1], k[2], k[3])
    if short in seen: continue
    seen.add(short); print(k, ex[k])
