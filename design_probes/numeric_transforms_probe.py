"""Throw-away: scale/center/poly exact (fractions + sqrt) vs code; elementwise transforms."""
import itertools, warnings, math, collections
from fractions import Fraction as Fr
warnings.simplefilter("ignore")
import numpy as np
from formulaic.transforms import scale, center, poly, TRANSFORMS
bad = collections.Counter(); ex = {}
def gs(x, degree):
    n = len(x); cols = []; basis = [[Fr(1)] * n]
    for k in range(1, degree + 1):
        v = [Fr(xi) ** k for xi in x]
        for b in basis:
            c = sum(a * bb for a, bb in zip(v, b)) / sum(bb * bb for bb in b)
            v = [a - c * bb for a, bb in zip(v, b)]
        basis.append(v)
    return basis[1:]
vecs = [v for n in (3, 4, 5) for v in itertools.product(range(-2, 3), repeat=n) if len(set(v)) >= 3][:3000:7]
for x in vecs:
    n = len(x)
    for ddof in (0, 1):
        st = {}
        got = scale(np.array(x, dtype=float), ddof=ddof, _state=st)
        mean = Fr(sum(x), n); var = sum((Fr(v) - mean) ** 2 for v in x) / (n - ddof)
        exp = [float(Fr(v) - mean) / math.sqrt(var) for v in x]
        if not np.allclose(got, exp): bad["scale"] += 1
        new = np.array([5., -7.]); got2 = scale(new, ddof=99, _state=st)    # state wins
        if not np.allclose(got2, [(float(v) - float(mean)) / math.sqrt(var) for v in new]): bad["scale reuse"] += 1
    for degree in (1, 2):
        if len(set(x)) <= degree: continue
        st = {}
        P = np.asarray(poly(np.array(x, dtype=float), degree=degree, _state=st))
        B = gs(x, degree)
        E = np.array([[float(B[k][i]) / math.sqrt(sum(b * b for b in B[k])) for k in range(degree)] for i in range(n)])
        if P.shape != E.shape or not np.allclose(P, E, atol=1e-9): bad["poly"] += 1; ex["poly"] = (x, degree, P.tolist(), E.tolist())
        xn = [3, -4]
        # evaluate same polynomials at new points: need polynomial coefficients: fit via Lagrange on distinct training points -> instead check reuse on training subset
        P2 = np.asarray(poly(np.array(x[:2], dtype=float), degree=degree, _state=st))
        if not np.allclose(P2, P[:2], atol=1e-9): bad["poly rowlocal"] += 1
        xs = list(x); xs[1] = np.nan
        st2 = {}; P3 = np.asarray(poly(np.array([float(v) for v in xs]), degree=degree, _state=st2))
        if not np.all(np.isnan(P3[1])): bad["poly nan"] += 1
for k in range(0, 7):
    for name, f in (("exp10", lambda k: 10 ** k), ("exp2", lambda k: 2 ** k)):
        if not np.isclose(TRANSFORMS[name](float(k)), f(k)): bad[name] += 1
    if not np.isclose(TRANSFORMS["log10"](10.0 ** k), k): bad["log10"] += 1
    if not np.isclose(TRANSFORMS["log2"](2.0 ** k), k): bad["log2"] += 1
print(dict(bad)); print(ex)
