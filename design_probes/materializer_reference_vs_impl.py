"""Throw-away: reference semantics of the materializer (treatment coding, numeric, literal scale) vs real code."""
import itertools, warnings, sys, collections
warnings.simplefilter("ignore")
import numpy as np, pandas as pd
from formulaic import model_matrix, Formula
from formulaic.parser.types import Term, Factor

DATA = pd.DataFrame({
    "a": [1., 2., 3., 5., 7., 11.],
    "b": [2., -1., 0., 3., 1., 4.],
    "A": pd.Categorical(["x", "y", "z", "x", "y", "z"]),
    "B": pd.Categorical(["u", "v", "u", "u", "v", "v"]),
})
KIND = {"a": "num", "b": "num", "A": "cat", "B": "cat"}
LEVELS = {"A": ["x", "y", "z"], "B": ["u", "v"]}

# ---------- reference
def span(term):
    scale = 1; opts = []
    for f in term:
        if f.isdigit(): scale *= int(f)
        elif KIND[f] == "cat": opts.append([(f, True), None])
        else: opts.append([(f, False)])
    out = []
    for prod in itertools.product(*opts):
        st = tuple(p for p in prod if p is not None)
        if not any(set(st) == set(o[0]) for o in out): out.append((st, scale))
    return out
def simplify(sts):
    terms = []
    for st, sc in sorted(sts, key=lambda x: len(x[0])):
        factors = set(st); combined = False
        for i, (ex, exsc) in enumerate(terms):
            cof = set(ex); d = factors - cof
            if len(factors) - 1 != len(cof) or len(d) != 1: continue
            fnew = next(iter(d))
            if fnew[1]:
                new = tuple((fnew[0], False) if f == fnew else f for f in st)
                rest = [t for j, t in enumerate(terms) if j != i]
                terms = simplify(rest + [(new, sc)])     # documented: scale once (real code squares: D3)
                combined = True; break
        if not combined:
            if not any(set(st) == set(t[0]) for t in terms): terms.append((st, sc))
    return terms
def encode(f, reduced, n):
    if KIND[f] == "num": return [(f, DATA[f].values.astype(float))]
    cols = []
    for i, lv in enumerate(LEVELS[f]):
        if reduced and i == 0: continue
        name = f"{f}[T.{lv}]" if reduced else f"{f}[{lv}]"
        cols.append((name, (DATA[f] == lv).values.astype(float)))
    return cols
def build(terms, full_rank):
    n = len(DATA); names = []; cols = []; structure = []
    spanned = []
    for term in terms:
        if full_rank:
            sp = span(term)
            new = [s for s in sp if not any(set(s[0]) == set(o[0]) for o in spanned)]
            scoped = simplify(new); spanned += new
        else:
            scale = 1
            for f in term:
                if f.isdigit(): scale *= int(f)
            scoped = [(tuple((f, False) for f in term if not f.isdigit()), scale)]
        tcols = collections.OrderedDict()
        for st, sc in scoped:
            if not st:
                tcols["Intercept"] = sc * np.ones(n); continue
            enc = [encode(f, r, n) for f, r in st]
            for prod in itertools.product(*reversed(enc)):
                prod = prod[::-1]
                name = ":".join(p[0] for p in prod)
                v = sc * np.ones(n)
                for p in prod: v = v * p[1]
                tcols[name] = v
        structure.append([(tuple(st), sc) for st, sc in scoped])
        for k, v in tcols.items(): names.append(k); cols.append(v)
    return names, (np.stack(cols, axis=1) if cols else np.empty((n, 0))), structure

# ---------- real
def real(terms, full_rank, output="pandas"):
    f = Formula([Term([Factor(x, eval_method="literal" if x.isdigit() else "lookup") for x in t]) for t in terms], _ordering="none")
    mm = model_matrix(f, DATA, ensure_full_rank=full_rank, output=output)
    names = list(mm.model_spec.column_names)
    X = np.asarray(mm.toarray() if output == "sparse" else mm, dtype=float)
    structure = [[(tuple((sf.factor.expr, sf.reduced) for sf in st.factors), st.scale) for st in s.scoped_terms] for s in mm.model_spec.structure]
    return names, X, structure

if __name__ == "__main__":
    FACT = ["a", "b", "A", "B"]
    base = [("1",)] + [s for r in range(1, 4) for s in itertools.permutations(FACT, r) if r < 3 or s[0] < s[1]]
    scaled = [("2",) + s for s in base if s != ("1",) and len(s) <= 2]
    allterms = base + scaled
    K = int(sys.argv[1]); import random; random.seed(2)
    seqs = [q for k in range(1, K + 1) for q in itertools.permutations(allterms, k)]
    # terms equal as sets must not repeat
    seqs = [q for q in seqs if len({frozenset(x for x in t if not x.isdigit()) or frozenset("1") for t in q}) == len(q)]
    if len(seqs) > 4000: seqs = random.sample(seqs, 4000)
    bad = collections.Counter(); ex = collections.defaultdict(list); n = 0
    for q in seqs:
        for fr in (True, False):
            for out in ("pandas", "numpy", "sparse"):
                n += 1
                try:
                    rn, rX, rs = real(q, fr, out)
                except Exception as e:
                    bad[("EXC", type(e).__name__)] += 1; ex[("EXC", type(e).__name__)].append((q, fr, out, str(e)[:80])); continue
                en, eX, es = build(q, fr)
                why = None
                if rn != en: why = "names"
                elif rX.shape != eX.shape or not np.allclose(rX, eX): why = "values"
                elif fr and [[s[0] for s in t] for t in rs] != [[s[0] for s in t] for t in es]: why = "structure"
                if why:
                    hasscale = any("2" in t for t in q)
                    key = (why, fr, hasscale)
                    bad[key] += 1
                    if len(ex[key]) < 6: ex[key].append((q, out, rn, en))
    print("cases", n, dict(bad))
    for k, v in ex.items():
        print("==", k)
        for x in v[:6]: print("   ", x)
