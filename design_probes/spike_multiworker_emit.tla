---- MODULE Sp3 ----
EXTENDS Naturals, Sequences, FiniteSets, TLC, SequencesExt, Json, CSV
CONSTANT MaxLen
Toks == {"a","b","+","-",":","*","(",")","1","0"}
VARIABLE s
RECURSIVE Work(_)
Work(q) == IF q = <<>> THEN {} ELSE (IF Head(q) \in {"a","b"} THEN {Head(q)} ELSE {}) \cup Work(Tail(q))
Init == s = <<>>
Next == \E t \in Toks : Len(s) < MaxLen /\ s' = Append(s, t)
Emit == CSVWrite("%1$s", <<ToJson([s |-> s, w |-> Work(s)])>>, "/tmp/spike/out3.csv")
====
