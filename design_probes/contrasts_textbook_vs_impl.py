"""Throw-away: textbook contrast definitions (coding AND interpretation) vs real, n=1..9."""
import warnings, itertools
from fractions import Fraction as Fr
warnings.simplefilter("ignore")
import numpy as np
from formulaic.transforms.contrasts import *
def treatment(n, base): return [[Fr(int(i == j)) for j in range(n) if j != base] for i in range(n)]
def treatment_interp(n, base):
    rows = [[Fr(int(j == base)) for j in range(n)]]
    for k in range(n):
        if k != base: rows.append([Fr(int(j == k)) - Fr(int(j == base)) for j in range(n)])
    return rows
def sumc(n): return [[Fr(-1) if i == n - 1 else Fr(int(i == j)) for j in range(n - 1)] for i in range(n)]
def sum_interp(n):
    rows = [[Fr(1, n)] * n]
    for k in range(n - 1): rows.append([Fr(int(j == k)) - Fr(1, n) for j in range(n)])
    return rows
def helmert(n, reverse, scale):
    M = [[Fr(0)] * (n - 1) for _ in range(n)]
    for j in range(n - 1):
        if reverse:   # R: column j compares level j+1 with mean of levels 0..j
            for i in range(j + 1): M[i][j] = Fr(-1)
            M[j + 1][j] = Fr(j + 1)
            if scale:
                for i in range(n): M[i][j] /= (j + 2)
        else:         # column j compares level j with mean of levels j+1..n-1
            M[j][j] = Fr(n - j - 1)
            for i in range(j + 1, n): M[i][j] = Fr(-1)
            if scale:
                for i in range(n): M[i][j] /= (n - j)
    return M
def helmert_interp(n, reverse, scale):
    rows = [[Fr(1, n)] * n]
    for j in range(n - 1):
        if reverse:
            r = [Fr(0)] * n; r[j + 1] = Fr(1)
            for i in range(j + 1): r[i] = Fr(-1, j + 1)
            if not scale: r = [x / (j + 2) for x in r]
        else:
            r = [Fr(0)] * n; r[j] = Fr(1)
            for i in range(j + 1, n): r[i] = Fr(-1, n - j - 1)
            if not scale: r = [x / (n - j) for x in r]
        rows.append(r)
    return rows
def diffc(n, backward):
    M = [[Fr(j + 1, n) - (1 if i <= j else 0) for j in range(n - 1)] for i in range(n)]
    return M if backward else [[-x for x in r] for r in M]
def diff_interp(n, backward):
    rows = [[Fr(1, n)] * n]
    for j in range(n - 1):
        r = [Fr(0)] * n
        if backward: r[j + 1] = Fr(1); r[j] = Fr(-1)
        else: r[j] = Fr(1); r[j + 1] = Fr(-1)
        rows.append(r)
    return rows
def matmul(A, B): return [[sum(a * b for a, b in zip(r, c)) for c in zip(*B)] for r in A]
def check_pair(C, K, n):
    M = [[Fr(1)] + r for r in C]
    P = matmul(K, M) if n else []
    return all(P[i][j] == (1 if i == j else 0) for i in range(n) for j in range(n))
bad = []
for n in range(1, 10):
    lv = [f"l{i}" for i in range(n)]
    cases = []
    for base in range(n): cases.append((f"treat base={base}", TreatmentContrasts(base=lv[base]), treatment(n, base), treatment_interp(n, base)))
    cases.append(("treat default", TreatmentContrasts(), treatment(n, 0), treatment_interp(n, 0)))
    cases.append(("sas default", SASContrasts(), treatment(n, n - 1), treatment_interp(n, n - 1)))
    cases.append(("sum", SumContrasts(), sumc(n), sum_interp(n)))
    for rev in (True, False):
        for sc in (True, False):
            cases.append((f"helmert rev={rev} scale={sc}", HelmertContrasts(reverse=rev, scale=sc), helmert(n, rev, sc), helmert_interp(n, rev, sc)))
    for bw in (True, False): cases.append((f"diff backward={bw}", DiffContrasts(backward=bw), diffc(n, bw), diff_interp(n, bw)))
    for name, c, C, K in cases:
        if not check_pair(C, K, n): bad.append((n, name, "textbook coding/interp inconsistent")); continue
        for sparse in (False, True):
            try:
                got = c.get_coding_matrix(lv, sparse=sparse); got = got.toarray() if sparse else got.values
                exp = np.array([[float(x) for x in r] for r in C]).reshape(n, n - 1)
                if got.shape != exp.shape or not np.allclose(got, exp): bad.append((n, name, "coding sparse=%s" % sparse, got.tolist(), exp.tolist()))
                gk = c.get_coefficient_matrix(lv, sparse=sparse); gk = gk.toarray() if sparse else gk.values
                ek = np.array([[float(x) for x in r] for r in K])
                if gk.shape != ek.shape or not np.allclose(gk, ek): bad.append((n, name, "coef sparse=%s" % sparse))
            except Exception as e:
                bad.append((n, name, "EXC sparse=%s" % sparse, type(e).__name__, str(e)[:60]))
print("bad", len(bad))
for b in bad[:30]: print(b)
