"""Throw-away: declarative lexer properties (span faithful/ordered, backtick verbatim) on the real tokenizer."""
import itertools, warnings, collections, sys
warnings.simplefilter("ignore")
from formulaic.parser.algos.tokenize import tokenize
from formulaic.errors import FormulaParsingError
ALPHA = list("a1+-( ){}`'\"%\\[].")
L = int(sys.argv[1])
bad = collections.Counter(); ex = collections.defaultdict(list); n = 0; esc = collections.Counter()
def strip(s):
    return "".join(c for c in s if not c.isspace())
for l in range(1, L + 1):
    for cs in itertools.product(ALPHA, repeat=l):
        s = "".join(cs); n += 1
        try:
            toks = list(tokenize(s))
        except FormulaParsingError: continue
        except Exception as e:
            esc[type(e).__name__] += 1
            if len(ex["ESC"]) < 5: ex["ESC"].append((s, type(e).__name__))
            continue
        prev_end = -1
        for t in toks:
            a, b = t.source_start, t.source_end
            if a is None or b is None or a > b or b >= len(s):
                bad["span undefined"] += 1; ex["span undefined"].append((s, t.token, a, b)); continue
            seg = s[a:b + 1]
            ok = False
            if t.kind.value == "operator":
                cand = strip(seg)
                for d in "{}`%": pass
                ok = (strip(seg).replace("%", "") == t.token) or (strip(seg) == t.token) or strip(seg).replace("{","").replace("}","").replace("`","") == t.token
            elif t.kind.value in ("name", "python", "value", "context"):
                ok = t.token in seg or seg.lstrip("{`") == t.token or strip(seg).lstrip("{`") == strip(t.token)
            if not ok:
                bad["span text"] += 1
                if len(ex["span text"]) < 10: ex["span text"].append((s, t.token, t.kind.value, a, b, seg))
            if a <= prev_end:
                bad["overlap"] += 1
                if len(ex["overlap"]) < 10: ex["overlap"].append((s, [(x.token, x.source_start, x.source_end) for x in toks]))
            prev_end = b
print("strings", n, dict(bad), dict(esc))
for k, v in ex.items():
    print("==", k)
    for x in v[:10]: print("   ", x)
# backtick verbatim
vb = collections.Counter(); vex = []
for l in range(1, 4):
    for cs in itertools.product([c for c in ALPHA if c != "`"], repeat=l):
        c = "".join(cs); s = "`" + c + "`"
        try:
            toks = list(tokenize(s))
            if not (len(toks) == 1 and toks[0].token == c and toks[0].kind.value == "name"):
                vb["not verbatim"] += 1; vex.append((s, [(t.token, t.kind.value) for t in toks]))
        except FormulaParsingError as e:
            vb["rejected"] += 1; vex.append((s, "REJ"))
print("verbatim", dict(vb)); print(vex[:12])
