"""Throw-away: reference for missing-data policy vs the real code over null patterns, index variants, paths, outputs."""
import itertools, warnings, sys, collections
warnings.simplefilter("ignore")
import numpy as np, pandas as pd
from formulaic import model_matrix, Formula, ModelSpec
N = 4
INDEXES = {"default": None, "str": list("pqrs"), "unsorted": [3, 1, 2, 0], "nonunique": [0, 1, 1, 2]}
def mkframe(nulls_x, nulls_A, index):
    x = [float(i + 1) for i in range(N)]; A = ["u", "v", "u", "v"]
    for i in nulls_x: x[i] = np.nan
    for i in nulls_A: A[i] = None
    df = pd.DataFrame({"x": x, "A": pd.Categorical(A, categories=["u", "v"]), "y": [10., 20., 30., 40.]})
    if INDEXES[index] is not None: df.index = INDEXES[index]
    return df
def expected(formula_vars, nulls_x, nulls_A, policy, drop0):
    nulls = set()
    if "x" in formula_vars: nulls |= set(nulls_x)
    if "A" in formula_vars: nulls |= set(nulls_A)
    if policy == "raise" and nulls: return "RAISE", None
    if policy == "drop": dropped = set(drop0) | nulls
    else: dropped = set(drop0)
    return [i for i in range(N) if i not in dropped], dropped
def run(path, formula, df, policy, drop0, output):
    s = set(drop0)
    try:
        if path == "sugar": mm = model_matrix(formula, df, na_action=policy, drop_rows=s, output=output)
        elif path == "formula": mm = Formula(formula).get_model_matrix(df, na_action=policy, drop_rows=s, output=output)
        elif path == "spec": mm = ModelSpec.from_spec(formula, na_action=policy, output=output).get_model_matrix(df, drop_rows=s)
        elif path == "spec_override": mm = ModelSpec.from_spec(formula).get_model_matrix(df, drop_rows=s, na_action=policy, output=output)
    except Exception as e:
        return ("EXC", type(e).__name__), None, None
    parts = list(mm._flatten()) if hasattr(mm, "_flatten") else [mm]
    rows = []
    for p in parts:
        rows.append(p.shape[0])
    first = parts[-1]
    if output == "pandas": idx = list(first.index)
    else: idx = None
    return rows, idx, {int(v) for v in s}
bad = collections.Counter(); ex = collections.defaultdict(list); n = 0
pats = [(), (1,), (0, 2)]
for formula, fvars in [("x + A", "xA"), ("y ~ x + A", "xA"), ("x", "x"), ("y ~ 0 | x", "x")]:
  for nx, nA in itertools.product(pats, [(), (2,), (1, 3)]):
    for index in INDEXES:
      for policy in ("drop", "raise", "ignore"):
        for drop0 in [(), (3,)]:
          for output in ("pandas", "numpy", "sparse"):
            for path in ("sugar", "formula", "spec", "spec_override"):
                n += 1
                df = mkframe(nx, nA, index)
                kept, dropped = expected(fvars, nx, nA, policy, drop0)
                rows, idx, s = run(path, formula, df, policy, drop0, output)
                why = None
                if kept == "RAISE":
                    if not (isinstance(rows, tuple) and rows[0] == "EXC"): why = "should_raise"
                elif isinstance(rows, tuple): why = "unexpected_exc:" + rows[1]
                else:
                    if any(r != len(kept) for r in rows): why = "rowcount"
                    elif idx is not None and idx != [df.index[i] for i in kept]: why = "index"
                    elif s != dropped: why = "dropset"
                if why:
                    two = "~" in formula
                    key = (why, path, "two" if two else "one", "nonunique" if index == "nonunique" else "uniq", output if why in ("rowcount",) else "*")
                    bad[key] += 1
                    if len(ex[key]) < 2: ex[key].append((formula, nx, nA, index, policy, drop0, output, rows, idx, s))
print("cases", n)
for k, v in sorted(bad.items()): print(k, v, ex[k][0])
