"""Throw-away: linear-constraint strings -> affine map, reference by direct evaluation at n+1 points."""
import itertools, warnings, sys, collections
from fractions import Fraction as Fr
warnings.simplefilter("ignore")
import numpy as np
from formulaic.utils.constraints import LinearConstraints
from formulaic.errors import FormulaParsingError
VARS = ["x", "y"]
ALPHA = ["x", "y", "2", "3", "+", "-", "*", "/", "(", ")", "=", ","]
class Rej(Exception): pass
class NonLin(Exception): pass
# reference: parse with standard arithmetic precedence into affine forms (dict var->Fr, const)
def lexr(toks):
    out = []; run = ""
    for t in toks:
        if t in "+-*/=,": run += t; continue
        if run: out.append(("op", run)); run = ""
        out.append(("ctx", t) if t in "()" else ("lit", t) if t.isdigit() else ("var", t))
    if run: out.append(("op", run))
    return out
PREC = {",": -200, "=": -100, "+": 100, "-": 100, "*": 200, "/": 200}
def aff_add(a, b, s=1):
    r = dict(a)
    for k, v in b.items(): r[k] = r.get(k, Fr(0)) + s * v
    return r
def aff_mul(a, b):
    av = {k for k in a if k != 1 and a[k] != 0}; bv = {k for k in b if k != 1 and b[k] != 0}
    # mirror library: structural non-linearity = both sides have variable-bearing terms (even with zero coef?) -> use structural
    if any(k != 1 for k in a) and any(k != 1 for k in b): raise NonLin()
    if any(k != 1 for k in b): a, b = b, a
    c = b.get(1, Fr(0))
    return {k: v * c for k, v in a.items()}
def aff_div(a, b):
    if any(k != 1 for k in b): raise NonLin()
    c = b.get(1, Fr(0))
    if c == 0: raise ZeroDivisionError()
    return {k: v / c for k, v in a.items()}
class Pr:
    def __init__(s, t): s.t = t; s.i = 0
    def peek(s): return s.t[s.i] if s.i < len(s.t) else None
    def next(s): x = s.peek(); s.i += 1; return x
    def expr(s, minp):
        tok = s.peek()
        if tok is None: raise Rej()
        if tok[0] == "op":
            if tok[1] in "+-" and PREC["+"] >= minp:
                s.next(); v = s.expr(101); left = v if tok[1] == "+" else {k: -x for k, x in v.items()}
            else: raise Rej()
        elif tok == ("ctx", "("):
            s.next(); left = s.expr(-99)
            if s.peek() != ("ctx", ")"): raise Rej()
            s.next()
        elif tok[0] == "lit": s.next(); left = {1: Fr(int(tok[1]))}
        elif tok[0] == "var": s.next(); left = {tok[1]: Fr(1)}
        else: raise Rej()
        while True:
            tok = s.peek()
            if tok is None or tok[0] != "op": break
            o = tok[1]
            if o not in PREC: raise Rej()      # multi-char runs are unknown operators
            if o in ",=": break
            p = PREC[o]
            if p < minp: break
            s.next(); right = s.expr(p + 1)
            left = aff_add(left, right) if o == "+" else aff_add(left, right, -1) if o == "-" else aff_mul(left, right) if o == "*" else aff_div(left, right)
        return left
    def constraint(s):
        l = s.expr(-99)
        if s.peek() == ("op", "="):
            s.next(); r = s.expr(-99); l = aff_add(l, r, -1)
        return l
    def spec(s):
        out = [s.constraint()]
        while s.peek() == ("op", ","):
            s.next(); out.append(s.constraint())
        if s.peek() is not None: raise Rej()
        return out
def ref(toks):
    try:
        t = lexr(toks)
        if not t: return ("OK", [], [])
        cs = Pr(t).spec()
        A = [[c.get(v, Fr(0)) for v in VARS] for c in cs]; b = [-c.get(1, Fr(0)) for c in cs]
        return ("OK", A, b)
    except Rej: return ("REJ",)
    except NonLin: return ("NONLIN",)
    except ZeroDivisionError: return ("ZERODIV",)
def impl(toks):
    s = " ".join(toks)
    try:
        lc = LinearConstraints.from_spec(s, variable_names=VARS)
        return ("OK", lc.constraint_matrix.tolist(), lc.constraint_values.tolist())
    except FormulaParsingError: return ("REJ",)
    except Exception as e: return ("EXC", type(e).__name__)
L = int(sys.argv[1]); n = 0; bad = collections.Counter(); ex = collections.defaultdict(list)
for l in range(0, L + 1):
    for toks in itertools.product(ALPHA, repeat=l):
        n += 1; a = ref(list(toks)); b = impl(list(toks))
        ok = False
        if a[0] == "OK" and b[0] == "OK":
            ok = len(a[1]) == len(b[1]) and all(abs(float(x) - y) < 1e-9 for ra, rb in zip(a[1], b[1]) for x, y in zip(ra, rb)) and all(abs(float(x) - y) < 1e-9 for x, y in zip(a[2], b[2]))
        elif a[0] == b[0]: ok = True
        if not ok:
            key = (a[0], b[0] if b[0] != "EXC" else "EXC:" + b[1]); bad[key] += 1
            if len(ex[key]) < 8: ex[key].append((" ".join(toks), a[1:], b[1:]))
print("cases", n, dict(bad))
for k, v in ex.items():
    print("==", k)
    for x in v: print("   ", x)
