"""Throw-away exploration (not framework code): reference reading of the documented grammar
vs the real parser, exhaustively on short token strings."""
import itertools, sys, warnings, collections, json
warnings.simplefilter("ignore")
from formulaic.parser import DefaultFormulaParser
from formulaic.errors import FormulaParsingError
from formulaic.utils.structured import Structured

NAMES = ["a", "b"]
LITS = ["0", "1", "2"]
OPCH = ["+", "-", "*", "/", ":", "^", "~", "|"]
class Reject(Exception): pass
PREC = {"~": -100, "|": -50, "+": 100, "-": 100, "*": 200, "/": 200, "in": 200, ":": 300, "**": 500, "^": 500}
RIGHT = {"**", "^"}

def canon_ops(run):
    out = []; i = 0
    while i < len(run):
        c = run[i]
        if c in "+-":
            j = i; neg = 0
            while j < len(run) and run[j] in "+-":
                neg += run[j] == "-"; j += 1
            out.append("-" if neg % 2 else "+"); i = j
        elif c == "*" and i + 1 < len(run) and run[i + 1] == "*":
            out.append("**"); i += 2
        else:
            out.append(c); i += 1
    return out

def raw_tokens(tokens):
    """abstract tokens -> list of (kind, text) with operator runs merged (as the lexer does)"""
    out = []; run = ""
    for t in tokens:
        if t in OPCH: run += t; continue
        if run: out.append(("op", run)); run = ""
        if t == "%in%": out.append(("op", "in"))
        elif t in "()": out.append(("ctx", t))
        elif t in LITS: out.append(("lit", t))
        else: out.append(("name", t))
    if run: out.append(("op", run))
    return out

def rewrite(toks, intercept):
    # work on a char-level stream of operator characters so that insertion positions are well defined
    flat = []
    for k, t in toks:
        if k == "op" and t != "in":
            flat.extend(("opc", c) for c in t)
        else:
            flat.append((k, t))
    # 0 -> - 1
    f2 = []
    for k, t in flat:
        if k == "lit" and t == "0": f2 += [("opc", "-"), ("lit", "1")]
        else: f2.append((k, t))
    flat = f2
    if intercept:
        # top-level ~ ?
        depth = 0; top = -1
        for i, (k, t) in enumerate(flat):
            if k == "ctx": depth += 1 if t == "(" else -1
            if depth < 0: break
            if depth == 0 and (k, t) == ("opc", "~"): top = i; break
        out = []
        for i, (k, t) in enumerate(flat):
            out.append((k, t))
            if (k, t) == ("opc", "~") or ((k, t) == ("opc", "|") and i > top):
                out += [("lit", "1")] + ([("opc", "+")] if i + 1 < len(flat) else [])
        if top < 0:
            out = ([("lit", "1"), ("opc", "+")] if flat else [("lit", "1")]) + out
        flat = out
        # a trailing inserted '+' with nothing after it, or followed by ')' / '|' : drop the join (no operand follows)
        res = []
        for i, (k, t) in enumerate(flat):
            res.append((k, t))
        flat = res
    return flat

def to_ops(flat):
    out = []; run = ""
    for k, t in flat:
        if k == "opc": run += t; continue
        if run: out.extend(("op", o) for o in canon_ops(run)); run = ""
        out.append((k, t))
    if run: out.extend(("op", o) for o in canon_ops(run))
    return out

def tmul(t, u):
    r = list(t)
    for f in u:
        if f not in r: r.append(f)
    return tuple(r)
key = frozenset
def union(a, b):
    r = list(a); ks = {key(t) for t in a}
    for t in b:
        if key(t) not in ks: r.append(t); ks.add(key(t))
    return r
def diff(a, b):
    ks = {key(t) for t in b}; return [t for t in a if key(t) not in ks]
def cross(a, b): return union([], [tmul(t, u) for t in a for u in b])

def apply(o, l, r):
    if o == "+": return union(l, r)
    if o == "-": return diff(l, r)
    if o == ":": return cross(l, r)
    if o == "*": return union(union(l, r), cross(l, r))
    if o in ("/", "in"):
        parents, nested = (l, r) if o == "/" else (r, l)
        if not parents: raise Reject("empty parents")
        common = ()
        for t in parents: common = tmul(common, t)
        return union(parents, [tmul(common, t) for t in nested])
    if o in ("**", "^"):
        if len(r) != 1 or len(r[0]) != 1 or not r[0][0].isdigit() or int(r[0][0]) < 1: raise Reject("bad power")
        n = int(r[0][0]); res = l
        for _ in range(n - 1): res = cross(res, l)
        return union([], res)
    raise Reject(o)

class Pr:
    def __init__(self, toks): self.t = toks; self.i = 0
    def peek(self): return self.t[self.i] if self.i < len(self.t) else None
    def next(self): x = self.peek(); self.i += 1; return x
    def expr(self, minp):
        tok = self.peek()
        if tok is None: raise Reject("operand expected")
        if tok[0] == "op" and tok[1] in "+-":
            if PREC["+"] < minp: raise Reject("prefix sign not allowed here")
            self.next()
            operand = self.expr(PREC["+"] + 1)
            left = operand if tok[1] == "+" else []
        elif tok == ("ctx", "("):
            self.next()
            left = self.expr(0)
            if self.peek() != ("ctx", ")"): raise Reject("unbalanced")
            self.next()
        elif tok[0] in ("lit", "name"):
            self.next(); left = [(tok[1],)]
        else:
            raise Reject("operand expected")
        while True:
            tok = self.peek()
            if tok is None or tok[0] != "op" or tok[1] in ("~", "|"): break
            o = tok[1]; p = PREC[o]
            if p < minp: break
            self.next()
            right = self.expr(p if o in RIGHT else p + 1)
            left = apply(o, left, right)
        return left
    def side(self):
        parts = [self.expr(0)]
        while self.peek() == ("op", "|"):
            self.next(); parts.append(self.expr(0))
        return parts
    def formula(self):
        if self.peek() is None: return ("root", [[]]) if False else None
        if self.peek() == ("op", "~"):
            self.next(); rhs = self.side(); res = ("root", rhs)
        else:
            lhs = self.side()
            if self.peek() == ("op", "~"):
                self.next(); rhs = self.side(); res = ("two", lhs, rhs)
            else: res = ("root", lhs)
        if self.peek() is not None: raise Reject("trailing")
        return res

def check_terms(ts):
    seen = set()
    for t in ts:
        lits = [f for f in t if f.isdigit()]
        if len(t) == 1 and lits and t[0] != "1": raise Reject("literal")
        h = tuple(f for f in t if not f.isdigit())
        if h in seen: raise Reject("dup scale")
        seen.add(h)
def degree(t): return len([f for f in t if not f.isdigit()])
def finish(ts):
    check_terms(ts)
    return sorted(ts, key=degree)

def ref(tokens, intercept):
    try:
        toks = to_ops(rewrite(raw_tokens(tokens), intercept))
        if not toks: return ("root", [[]])
        r = Pr(toks).formula()
        if r[0] == "root": return ("root", [finish(p) for p in r[1]])
        return ("two", [finish(p) for p in r[1]], [finish(p) for p in r[2]])
    except Reject as e:
        return ("REJECT", str(e))

def norm_impl(res):
    def ts(os): return [tuple(f.expr for f in t.factors) for t in os]
    def side(x):
        if isinstance(x, tuple): return [sorted_terms(p) for p in x]
        return [sorted_terms(x)]
    def sorted_terms(os):
        l = ts(os); return sorted(l, key=degree)
    if res._has_keys:
        return ("two", side(res.lhs), side(res.rhs))
    return ("root", side(res.root))

def impl(tokens, parser):
    s = " ".join(tokens)
    try:
        return norm_impl(parser.get_terms(s))
    except FormulaParsingError as e:
        return ("REJECT", str(e).split("\n")[0])
    except Exception as e:
        return ("ESCAPED", type(e).__name__)

def eq(a, b):
    if a[0] != b[0]: return False
    if a[0] == "REJECT": return True
    def canon(parts): return [[frozenset(t) for t in p] for p in parts]
    return all(canon(x) == canon(y) for x, y in zip(a[1:], b[1:]))

if __name__ == "__main__":
    import fixd1  # in-memory repair of defect D1 so that the remaining disagreements are visible
    L = int(sys.argv[1]); intercept = sys.argv[2] == "1"
    parser = DefaultFormulaParser(include_intercept=intercept)
    ALPHA = NAMES + LITS + OPCH + ["%in%", "(", ")"]
    n = 0; bad = collections.Counter(); ex = collections.defaultdict(list)
    for l in range(0, L + 1):
        for toks in itertools.product(ALPHA, repeat=l):
            n += 1
            a = ref(list(toks), intercept); b = impl(list(toks), parser)
            if not eq(a, b):
                cls = (a[0], b[0] if b[0] != "ESCAPED" else "ESC:" + b[1])
                bad[cls] += 1
                if len(ex[cls]) < 25: ex[cls].append((" ".join(toks), a, b))
    print("cases", n, "disagreements", sum(bad.values()), dict(bad))
    for cls, lst in ex.items():
        print("==", cls)
        for s, a, b in lst: print("   ", repr(s), "REF", a, "IMPL", b)
