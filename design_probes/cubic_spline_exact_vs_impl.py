"""Throw-away: cardinal natural / cyclic cubic spline bases in exact fractions vs cr()/cc()."""
import itertools, warnings, collections
from fractions import Fraction as Fr
warnings.simplefilter("ignore")
import numpy as np
from formulaic.transforms.cubic_spline import natural_cubic_spline as cr, cyclic_cubic_spline as cc

def solve(A, B):
    n = len(A); M = [list(map(Fr, A[i])) + list(map(Fr, B[i])) for i in range(n)]
    for c in range(n):
        p = next(r for r in range(c, n) if M[r][c] != 0); M[c], M[p] = M[p], M[c]
        pv = M[c][c]; M[c] = [v / pv for v in M[c]]
        for r in range(n):
            if r != c and M[r][c] != 0:
                f = M[r][c]; M[r] = [a - f * b for a, b in zip(M[r], M[c])]
    return [row[n:] for row in M]
def second_derivs_natural(k):
    """matrix F (n x n): M = F y, natural end conditions"""
    n = len(k); h = [k[i + 1] - k[i] for i in range(n - 1)]
    A = [[Fr(0)] * n for _ in range(n)]; D = [[Fr(0)] * n for _ in range(n)]
    A[0][0] = Fr(1); A[n - 1][n - 1] = Fr(1)
    for i in range(1, n - 1):
        A[i][i - 1] = Fr(h[i - 1], 6); A[i][i] = Fr(h[i - 1] + h[i], 3); A[i][i + 1] = Fr(h[i], 6)
        D[i][i - 1] = Fr(1, h[i - 1]); D[i][i] = -Fr(1, h[i - 1]) - Fr(1, h[i]); D[i][i + 1] = Fr(1, h[i])
    return solve(A, D)
def second_derivs_cyclic(k):
    n = len(k) - 1; h = [k[i + 1] - k[i] for i in range(n)]
    A = [[Fr(0)] * n for _ in range(n)]; D = [[Fr(0)] * n for _ in range(n)]
    for i in range(n):
        hm = h[i - 1]; hp = h[i]; im = (i - 1) % n; ip = (i + 1) % n
        A[i][im] += Fr(hm, 6); A[i][i] += Fr(hm + hp, 3); A[i][ip] += Fr(hp, 6)
        D[i][im] += Fr(1, hm); D[i][i] += -Fr(1, hm) - Fr(1, hp); D[i][ip] += Fr(1, hp)
    return solve(A, D)
def basis_row(x, k, F, cyclic):
    n = len(k); ncol = n - 1 if cyclic else n
    if cyclic:
        lo, hi = k[0], k[-1]; per = hi - lo
        if x > hi: x = lo + (x - hi) % per
        if x < lo: x = hi - (lo - x) % per
    # interval
    j = 0
    while j < n - 2 and x > k[j + 1]: j += 1
    h = k[j + 1] - k[j]
    am = Fr(k[j + 1] - x) / h; ap = Fr(x - k[j]) / h
    cm = (Fr(k[j + 1] - x) ** 3 / h - h * Fr(k[j + 1] - x)) / 6
    cp = (Fr(x - k[j]) ** 3 / h - h * Fr(x - k[j])) / 6
    if not cyclic:   # natural spline is linear outside the knots
        if x > k[-1]: cm = -h * Fr(k[j + 1] - x) / 6 ; 
        if x < k[0]: cp = -h * Fr(x - k[j]) / 6
    j1 = (j + 1) % ncol if cyclic else j + 1
    row = [Fr(0)] * ncol
    row[j] += am; row[j1] += ap
    for c in range(ncol): row[c] += cm * F[j][c] + cp * F[j1][c]
    return row
bad = []; n = 0
for knots in [(0, 1, 2), (0, 1, 3), (0, 2, 3, 4), (0, 1, 2, 3, 4), (0, 1, 4, 6)]:
    xs = [Fr(v, 2) for v in range(2 * knots[0] - 3, 2 * knots[-1] + 4)]
    for cyclic, fn in ((False, cr), (True, cc)):
        n += 1
        F = second_derivs_cyclic(knots) if cyclic else second_derivs_natural(knots)
        exp = [basis_row(x, knots, F, cyclic) for x in xs]
        got = fn(np.array([float(v) for v in xs]), knots=list(knots[1:-1]), lower_bound=knots[0], upper_bound=knots[-1], _state={})
        G = np.stack([np.asarray(got[k], dtype=float) for k in sorted(got)], axis=1)
        E = np.array([[float(v) for v in r] for r in exp])
        if G.shape != E.shape or not np.allclose(G, E, atol=1e-10):
            diff = np.argwhere(~np.isclose(G, E, atol=1e-10)) if G.shape == E.shape else None
            bad.append((knots, cyclic, G.shape, E.shape, None if diff is None else [(str(xs[r]), c) for r, c in diff[:6]]))
print("cases", n, "bad", len(bad))
for b in bad: print(b)
