---- MODULE Sp2 ----
EXTENDS Naturals, Integers, Sequences, FiniteSets, TLC, SequencesExt, Json, IOUtils, CSV
Cases == JsonDeserialize("/tmp/spike/cases.json")
VARIABLE k
Name(f, l) == f \o "[T." \o l \o "]"
RECURSIVE Join(_, _)
Join(q, sep) == IF Len(q) = 0 THEN "" ELSE IF Len(q) = 1 THEN q[1] ELSE q[1] \o sep \o Join(Tail(q), sep)
Expected(c) == [names |-> << "Intercept", Name(c.f, c.lv[2]), Join(<<Name(c.f,c.lv[2]), "x">>, ":") >>, sum |-> c.a + c.b, neg |-> -c.a]
Init == k = 1
Next == k <= Len(Cases) /\ k' = k + 1
Ok == k <= Len(Cases) => LET c == Cases[k] IN
        /\ c.obs_names = Expected(c).names
        /\ c.obs_sum = Expected(c).sum
        /\ CSVWrite("%1$s#%2$s", <<k, ToJson(Expected(c))>>, "/tmp/spike/out.csv")
Post == TLCGet("stats").diameter = Len(Cases) + 1
====
