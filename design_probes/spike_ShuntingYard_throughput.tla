---- MODULE SY ----
EXTENDS Naturals, Integers, Sequences, FiniteSets, TLC, SequencesExt, Json, CSV
CONSTANT MaxLen
Names == {"a","b","c"}
OpCh == {"+","-",":","*"}
Toks == Names \cup OpCh \cup {"(",")","1"}
Prec(o) == CASE o = "+" -> 100 [] o = "-" -> 100 [] o = "*" -> 200 [] o = ":" -> 300 [] o = "u+" -> 100 [] o = "u-" -> 100
\* term = sorted seq of factor names (canonical), termset = seq of distinct terms (ordered)
RECURSIVE InsSorted(_, _)
InsSorted(q, x) == IF q = <<>> THEN <<x>> ELSE IF x = Head(q) THEN q ELSE IF x \in {"1"} \/ (Head(q) # "1" /\ x < Head(q)) THEN <<x>> \o q ELSE <<Head(q)>> \o InsSorted(Tail(q), x)
\* no string < in TLC: use index
Idx(x) == CASE x = "1" -> 0 [] x = "a" -> 1 [] x = "b" -> 2 [] x = "c" -> 3
TermMul(t, u) == LET S == {t[i] : i \in 1..Len(t)} \cup {u[i] : i \in 1..Len(u)} IN SortSeq(SetToSeq(S), LAMBDA x, y : Idx(x) < Idx(y))
Has(ts, t) == \E i \in 1..Len(ts) : ts[i] = t
RECURSIVE Union(_, _)
Union(ts, us) == IF us = <<>> THEN ts ELSE Union(IF Has(ts, Head(us)) THEN ts ELSE Append(ts, Head(us)), Tail(us))
Diff(ts, us) == SelectSeq(ts, LAMBDA t : ~Has(us, t))
Prod(ts, us) == LET pairs == [k \in 1..(Len(ts)*Len(us)) |-> TermMul(ts[((k-1) \div Len(us)) + 1], us[((k-1) % Len(us)) + 1])] IN Union(<<>>, pairs)
Apply(o, args) == CASE o = "+" -> Union(args[1], args[2])
                    [] o = "-" -> Diff(args[1], args[2])
                    [] o = ":" -> Prod(args[1], args[2])
                    [] o = "*" -> Union(Union(args[1], args[2]), Prod(args[1], args[2]))
                    [] o = "u+" -> args[1]
                    [] o = "u-" -> <<>>
\* machine state: [stack: seq of [op, idx] or "(" , out: seq of termsets, err: BOOLEAN]
Arity(o) == IF o \in {"u+","u-"} THEN 1 ELSE 2
Operate(m) == LET top == m.stack[Len(m.stack)]
                  o == top.op
                  idx == top.idx
                  lo == IF Arity(o) = 2 THEN idx ELSE idx + 1   \* 1-based first arg position
                  hi == IF Arity(o) = 2 THEN idx + 1 ELSE idx + 1
              IN IF lo < 1 \/ hi > Len(m.out) THEN [m EXCEPT !.err = TRUE]
                 ELSE [stack |-> SubSeq(m.stack, 1, Len(m.stack)-1),
                       out |-> SubSeq(m.out, 1, lo-1) \o <<Apply(o, SubSeq(m.out, lo, hi))>> \o SubSeq(m.out, hi+1, Len(m.out)),
                       err |-> FALSE]
RECURSIVE PopWhile(_, _)
PopWhile(m, o) == IF m.err \/ m.stack = <<>> THEN m
                  ELSE LET top == m.stack[Len(m.stack)] IN
                       IF top.op = "(" THEN m
                       ELSE IF Prec(top.op) > Prec(o) \/ (Prec(top.op) = Prec(o) /\ o \notin {"u+","u-"}) THEN PopWhile(Operate(m), o) ELSE m
Feed(m, t) == IF m.err THEN m
  ELSE IF t \in Names \cup {"1"} THEN [m EXCEPT !.out = Append(@, <<<<t>>>>)]
  ELSE IF t = "(" THEN [m EXCEPT !.stack = Append(@, [op |-> "(", idx |-> Len(m.out)])]
  ELSE IF t = ")" THEN LET RECURSIVE Close(_)
                           Close(mm) == IF mm.err THEN mm ELSE IF mm.stack = <<>> THEN [mm EXCEPT !.err = TRUE]
                                        ELSE IF mm.stack[Len(mm.stack)].op = "(" THEN [mm EXCEPT !.stack = SubSeq(@, 1, Len(@)-1)]
                                        ELSE Close(Operate(mm))
                       IN Close(m)
  ELSE \* operator: try binary then unary
       LET m2 == PopWhile(m, t)
           base == IF m2.stack = <<>> THEN 0 ELSE m2.stack[Len(m2.stack)].idx
           avail == Len(m2.out) - base
       IN IF m2.err THEN m2
          ELSE IF avail = 1 THEN [m2 EXCEPT !.stack = Append(@, [op |-> t, idx |-> Len(m2.out)])]
          ELSE IF t \in {"+","-"} THEN LET u == "u" \o t
                                         m3 == PopWhile(m2, u) IN [m3 EXCEPT !.stack = Append(@, [op |-> u, idx |-> Len(m3.out)])]
          ELSE [m2 EXCEPT !.err = TRUE]
RECURSIVE Finish(_)
Finish(m) == IF m.err THEN m ELSE IF m.stack = <<>> THEN m ELSE IF m.stack[Len(m.stack)].op = "(" THEN [m EXCEPT !.err = TRUE] ELSE Finish(Operate(m))
M0 == [stack |-> <<>>, out |-> <<>>, err |-> FALSE]
RECURSIVE Run(_, _)
Run(m, q) == IF q = <<>> THEN Finish(m) ELSE Run(Feed(m, Head(q)), Tail(q))
Result(q) == LET m == Run(M0, q) IN IF m.err \/ Len(m.out) # 1 THEN "REJECT" ELSE ToString(m.out[1])
VARIABLE s
Init == s = <<>>
Next == \E t \in Toks : Len(s) < MaxLen /\ s' = Append(s, t)
Emit == Len(s) = MaxLen => CSVWrite("%1$s", <<ToJson([s |-> s, r |-> Result(s)])>>, "/tmp/spike/sy.csv")
====
