"""Throw-away exploration: does the greedy rank reduction satisfy the partition criterion and numeric full rank?"""
import itertools, warnings, sys, collections
warnings.simplefilter("ignore")
import numpy as np, pandas as pd
from formulaic import model_matrix, Formula
from formulaic.parser.types import Term, Factor

CATS = {"A": 3, "B": 2, "C": 2}
NUMS = ["x", "z"]
def frame():
    levels = [[f"{c}{i}" for i in range(n)] for c, n in CATS.items()]
    xs = [2.0, 3.0, 5.0]; zs = [7.0, 11.0]
    rows = list(itertools.product(*levels, xs, zs))
    df = pd.DataFrame(rows, columns=list(CATS) + NUMS)
    for c in CATS: df[c] = pd.Categorical(df[c])
    return df
DF = frame()
FACT = list(CATS) + NUMS
subsets = [s for r in range(0, 4) for s in itertools.combinations(FACT, r)]
def term(s): return Term([Factor(f, eval_method="lookup") for f in s]) if s else Term([Factor("1", eval_method="literal")])

def pieces_of_terms(terms):
    P = set()
    for t in terms:
        cats = [f for f in t if f in CATS]; nums = frozenset(f for f in t if f in NUMS)
        for r in range(len(cats) + 1):
            for S in itertools.combinations(cats, r): P.add((frozenset(S), nums))
    return P
def pieces_of_scoped(st):
    R = [f.factor.expr for f in st.factors if f.reduced]
    U = [f.factor.expr for f in st.factors if not f.reduced and f.factor.expr in CATS]
    N = frozenset(f.factor.expr for f in st.factors if f.factor.expr in NUMS)
    return [(frozenset(R) | frozenset(S), N) for r in range(len(U) + 1) for S in itertools.combinations(U, r)]

def check(seq):
    f = Formula([term(s) for s in seq], _ordering="none")
    mm = model_matrix(f, DF, output="numpy")
    got = []
    for s in mm.model_spec.structure:
        for st in s.scoped_terms: got += pieces_of_scoped(st)
    want = pieces_of_terms(seq)
    ok_part = (len(got) == len(set(got))) and set(got) == want
    X = np.asarray(mm)
    r = np.linalg.matrix_rank(X) if X.shape[1] else 0
    mf = np.asarray(model_matrix(f, DF, output="numpy", ensure_full_rank=False))
    rf = np.linalg.matrix_rank(mf) if mf.shape[1] else 0
    rj = np.linalg.matrix_rank(np.hstack([X, mf])) if X.shape[1] + mf.shape[1] else 0
    ok_rank = (r == X.shape[1]) and (r == rf == rj)
    dim = sum(int(np.prod([CATS[c] - 1 for c in S])) for S, N in want)
    return ok_part, ok_rank, (dim == X.shape[1])

if __name__ == "__main__":
    K = int(sys.argv[1]); import random; random.seed(1)
    n = 0; bad = []
    seqs = list(itertools.permutations(subsets, K))
    if len(seqs) > 6000: seqs = random.sample(seqs, 6000)
    for seq in seqs:
        n += 1
        try:
            res = check(seq)
        except Exception as e:
            res = ("EXC", type(e).__name__, str(e)[:80])
        if res != (True, True, True):
            bad.append((seq, res))
    print("sequences", n, "bad", len(bad))
    for b in bad[:20]: print(b)
