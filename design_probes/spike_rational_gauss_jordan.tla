---- MODULE RatSpike ----
EXTENDS Naturals, Integers, Sequences, FiniteSets, TLC
Abs(x) == IF x < 0 THEN -x ELSE x
RECURSIVE Gcd(_, _)
Gcd(a, b) == IF b = 0 THEN a ELSE Gcd(b, a % b)
Norm(n, d) == LET g == Gcd(Abs(n), Abs(d)) s == IF d < 0 THEN -1 ELSE 1 IN IF n = 0 THEN <<0, 1>> ELSE <<s * (n \div g), s * (d \div g)>>
RAdd(a, b) == Norm(a[1] * b[2] + b[1] * a[2], a[2] * b[2])
RSub(a, b) == Norm(a[1] * b[2] - b[1] * a[2], a[2] * b[2])
RMul(a, b) == Norm(a[1] * b[1], a[2] * b[2])
RDiv(a, b) == Norm(a[1] * b[2], a[2] * b[1])
R(n) == <<n, 1>>
Zero == R(0)
One == R(1)
\* Gauss-Jordan on augmented matrix M (n rows, seq of seq of rationals)
RowScale(r, f) == [j \in 1..Len(r) |-> RDiv(r[j], f)]
RowSubMul(r, p, f) == [j \in 1..Len(r) |-> RSub(r[j], RMul(f, p[j]))]
RECURSIVE GJ(_, _, _)
GJ(M, c, n) ==
  IF c > n THEN M
  ELSE LET piv == CHOOSE r \in c..n : M[r][c] # Zero /\ \A q \in c..(r-1) : M[q][c] = Zero
           M1 == [M EXCEPT ![c] = M[piv], ![piv] = M[c]]
           prow == RowScale(M1[c], M1[c][c])
           M2 == [r \in 1..n |-> IF r = c THEN prow ELSE RowSubMul(M1[r], prow, M1[r][c])]
       IN GJ(M2, c + 1, n)
\* natural spline second-derivative system for knots k (seq of ints)
NatSystem(k) == LET n == Len(k)
                    h(i) == k[i+1] - k[i]
                    A(i, j) == IF i = 1 \/ i = n THEN (IF i = j THEN One ELSE Zero)
                               ELSE IF j = i - 1 THEN <<h(i-1), 6>> ELSE IF j = i THEN Norm(h(i-1) + h(i), 3) ELSE IF j = i + 1 THEN <<h(i), 6>> ELSE Zero
                    D(i, j) == IF i = 1 \/ i = n THEN Zero
                               ELSE IF j = i - 1 THEN <<1, h(i-1)>> ELSE IF j = i THEN RSub(Zero, RAdd(<<1, h(i-1)>>, <<1, h(i)>>)) ELSE IF j = i + 1 THEN <<1, h(i)>> ELSE Zero
                IN [i \in 1..n |-> [j \in 1..(2*n) |-> IF j <= n THEN A(i, j) ELSE D(i, j - n)]]
F(k) == LET n == Len(k) G == GJ(NatSystem(k), 1, n) IN [i \in 1..n |-> SubSeq(G[i], n + 1, 2 * n)]
Knots == { <<0,1,2>>, <<0,1,3>>, <<0,2,3,4>>, <<0,1,2,3,4>>, <<0,1,4,6>>, <<0,1,2,3,4,5>>, <<0,2,3,5,6,7,9>> }
VARIABLE k
Init == k \in Knots
Next == UNCHANGED k
Inv == PrintT(<<k, F(k)[2]>>)
====
