"""Throw-away: purity/determinism over short histories."""
import itertools, warnings, collections, pickle, copy, hashlib, subprocess, sys, json
warnings.simplefilter("ignore")
import numpy as np, pandas as pd
from formulaic import model_matrix, Formula, ModelSpec
d1 = pd.DataFrame({"x": [1., 2., 3., 6.], "A": ["p", "q", "p", "r"], "y": [1., 0., 1., 1.]}).astype({"A": object})
d2 = pd.DataFrame({"x": [10., 20., 30., 40., 50.], "A": ["q", "q", "r", "p", "p"], "y": [0., 0., 1., 1., 0.]}).astype({"A": object})
def fp_df(d): return hashlib.md5(pd.util.hash_pandas_object(d, index=True).values.tobytes()).hexdigest() + str(list(d.dtypes))
def fp_state(x):
    if isinstance(x, dict): return {str(k): fp_state(v) for k, v in sorted(x.items(), key=lambda kv: str(kv[0]))}
    if isinstance(x, (list, tuple)): return [fp_state(v) for v in x]
    if isinstance(x, np.ndarray): return x.tolist()
    return repr(x)
def fp_spec(s):
    if hasattr(s, "_flatten"): return [fp_spec(x) for x in s._flatten()]
    return json.dumps({"formula": [repr(t) for t in s.formula], "structure": None if s.structure is None else [list(r.columns) for r in s.structure], "ts": fp_state(s.transform_state), "es": fp_state({k: (str(v[0]), v[1]) for k, v in s.encoder_state.items()}), "out": s.output, "na": str(s.na_action)}, sort_keys=True, default=str)
def fp_mm(m):
    if hasattr(m, "_flatten"): return [fp_mm(x) for x in m._flatten()]
    return (list(m.model_spec.column_names), np.asarray(m, dtype=float).tobytes().hex()[:64], m.shape)
formulas = ["scale(x) + A", "y ~ center(x) + A", "bs(x, df=4)", "poly(x, 2) + C(A, contr.sum)"]
bad = collections.Counter(); ex = {}
for fs in formulas:
    F = Formula(fs); T = ModelSpec.from_spec(fs)       # template (un-materialised) spec
    objs = {"d1": d1.copy(), "d2": d2.copy(), "F": F, "T": T}
    fps = {"d1": fp_df(objs["d1"]), "d2": fp_df(objs["d2"]), "F": repr(F), "T": fp_spec(T)}
    memo = {}
    ops = [("build", "F", "d1"), ("build", "F", "d2"), ("tmpl", "T", "d1"), ("tmpl", "T", "d2"), ("reuse", "S0", "d2"), ("reuse", "S0", "d1"), ("reuse_override", "S0", "d2")]
    for hist in itertools.permutations(ops, 3):
        objs = {"d1": d1.copy(), "d2": d2.copy(), "F": Formula(fs), "T": ModelSpec.from_spec(fs)}
        S0 = model_matrix(fs, d1).model_spec; objs["S0"] = S0
        fps = {k: (fp_df(v) if k in ("d1", "d2") else repr(v) if k == "F" else fp_spec(v)) for k, v in objs.items()}
        for op, a, b in hist:
            key = (op, a, b)
            try:
                if op == "build": r = objs["F"].get_model_matrix(objs[b])
                elif op == "tmpl": r = objs["T"].get_model_matrix(objs[b])
                elif op == "reuse": r = objs["S0"].get_model_matrix(objs[b])
                elif op == "reuse_override": r = objs["S0"].get_model_matrix(objs[b], output="numpy")
                f = fp_mm(r)
            except Exception as e:
                f = ("EXC", type(e).__name__)
            if key in memo and memo[key] != f:
                bad[("nondeterministic", fs, op)] += 1; ex[("nondeterministic", fs, op)] = hist
            memo.setdefault(key, f)
            for k, v in objs.items():
                now = fp_df(v) if k in ("d1", "d2") else repr(v) if k == "F" else fp_spec(v)
                if now != fps[k]:
                    bad[("mutated", fs, k, op)] += 1; ex[("mutated", fs, k, op)] = hist; fps[k] = now
for k, v in sorted(bad.items(), key=str): print(k, v, ex[k])
print("done")
