"""Throw-away: container laws on real objects with random small instances."""
import random, itertools, warnings, copy
warnings.simplefilter("ignore")
from formulaic.utils.structured import Structured
from formulaic.utils.layered_mapping import LayeredMapping
from formulaic import Formula
from formulaic.formula import SimpleFormula
from formulaic.parser.types import Term, Factor
random.seed(3)
cnt = itertools.count()
def gen(depth):
    r = random.random()
    if depth == 0 or r < 0.4: return next(cnt)
    if r < 0.6: return tuple(gen(depth - 1) for _ in range(random.randint(1, 3)))
    keys = random.sample(["root", "a", "b"], random.randint(1, 3))
    kw = {k: gen(depth - 1) for k in keys}
    root = kw.pop("root", None)
    return Structured(root, **kw) if root is not None else Structured(**kw)
def shape(x):
    if isinstance(x, Structured): return ("S", tuple((k, shape(v)) for k, v in x._structure.items()))
    if isinstance(x, tuple): return ("T", tuple(shape(v) for v in x))
    return "L"
def leaves(x):
    if isinstance(x, Structured):
        for v in x._structure.values(): yield from leaves(v)
    elif isinstance(x, tuple):
        for v in x: yield from leaves(v)
    else: yield x
bad = []
for trial in range(3000):
    s = gen(3)
    if not isinstance(s, Structured): s = Structured(s)
    try:
        visited = []
        m = s._map(lambda x: (visited.append(x), x + 1000)[1])
        fl = list(s._flatten())
        if shape(m) != shape(s): bad.append(("map shape", repr(s)))
        if visited != fl: bad.append(("map order", visited, fl))
        if sorted(fl) != sorted(leaves(s)): bad.append(("flatten leaves", repr(s)))
        si = s._simplify()
        si2 = si._simplify() if isinstance(si, Structured) else si
        if isinstance(si, Structured):
            if shape(si2) != shape(si) or list(si2._flatten()) != list(si._flatten()): bad.append(("simplify idempotent", repr(s)))
            if list(si._flatten()) != fl: bad.append(("simplify leaves", repr(s), list(si._flatten()), fl))
        else:
            if isinstance(si, tuple):
                if list(leaves(si)) != fl: bad.append(("simplify leaves tuple", repr(s)))
            elif [si] != fl: bad.append(("simplify leaf", repr(s), si, fl))
    except Exception as e:
        bad.append(("EXC", type(e).__name__, str(e)[:80], repr(s)[:200]))
print("structured bad", len(bad))
for b in bad[:8]: print(b)
# LayeredMapping
bad = []
for trial in range(3000):
    layers = [{k: random.randint(0, 9) for k in random.sample("pqr", random.randint(0, 3))} for _ in range(random.randint(0, 3))]
    orig = copy.deepcopy(layers)
    lm = LayeredMapping(*layers); model = {}
    for l in reversed(layers): model.update(l)
    priv = {}
    for step in range(6):
        op = random.choice(["set", "del", "get", "len", "iter"]); k = random.choice("pqrs")
        try:
            if op == "set":
                v = random.randint(10, 19); lm[k] = v; priv[k] = v
            elif op == "del":
                try:
                    del lm[k]; ok = True
                except KeyError: ok = False
                if ok != (k in priv): bad.append(("del", k)); 
                priv.pop(k, None)
            cur = dict(model); cur.update(priv)
            if dict(lm) != cur or len(lm) != len(cur) or set(lm) != set(cur) or len(list(lm)) != len(cur): bad.append(("state", dict(lm), cur))
            for kk in "pqrs":
                if (kk in lm) != (kk in cur) or (kk in cur and lm[kk] != cur[kk]): bad.append(("get", kk))
        except Exception as e:
            bad.append(("EXC", type(e).__name__, str(e)))
    if layers != orig: bad.append(("layers mutated",))
print("layered bad", len(bad)); print(bad[:5])
# SimpleFormula
bad = []
def T(*fs): return Term([Factor(f) for f in fs])
pool = [T("a"), T("b"), T("a", "b"), T("c"), T("a", "b", "c"), Term([Factor("1", eval_method="literal")]), T("b", "c")]
for trial in range(3000):
    f = SimpleFormula(random.sample(pool, random.randint(0, 4)))
    model = sorted(list(f), key=lambda t: t.degree)
    for step in range(6):
        op = random.choice(["insert", "set", "del", "append", "pop", "extend", "remove", "iadd", "reverse"])
        try:
            if op == "insert":
                i = random.randint(0, len(f)); t = random.choice(pool); f.insert(i, t); model.insert(i, t)
            elif op == "set" and len(f):
                i = random.randrange(len(f)); t = random.choice(pool); f[i] = t; model[i] = t
            elif op == "del" and len(f):
                i = random.randrange(len(f)); del f[i]; del model[i]
            elif op == "append":
                t = random.choice(pool); f.append(t); model.append(t)
            elif op == "pop" and len(f):
                f.pop(); model.pop()
            elif op == "extend":
                ts = random.sample(pool, 2); f.extend(ts); model.extend(ts)
            elif op == "remove" and len(f):
                t = f[0]; f.remove(t); model.remove(t)
            elif op == "iadd":
                ts = random.sample(pool, 2); f += ts; model += ts
            elif op == "reverse":
                f.reverse(); model.reverse()
            model = sorted(model, key=lambda t: t.degree)
            got = list(f)
            if [t.degree for t in got] != sorted(t.degree for t in got): bad.append(("unsorted", op, got))
            if sorted(map(repr, got)) != sorted(map(repr, model)): bad.append(("multiset", op, got, model))
            model = got
        except Exception as e:
            bad.append(("EXC", op, type(e).__name__, str(e)[:60]))
print("formula seq bad", len(bad)); print(bad[:6])
