"""Throw-away: C07 (parts vs separate builds), C10 (metadata), C08 (dtype table) probes."""
import itertools, warnings, collections
warnings.simplefilter("ignore")
import numpy as np, pandas as pd
from formulaic import model_matrix, Formula, ModelSpec
from formulaic.utils.structured import Structured
def leaves(x, path=()):
    if isinstance(x, Structured):
        for k, v in x._structure.items(): yield from leaves(v, path + (k,))
    elif isinstance(x, tuple):
        for i, v in enumerate(x): yield from leaves(v, path + (i,))
    else: yield path, x
base = pd.DataFrame({"y": [1., 2., 3., 4., 5.], "x": [2., 1., 4., 3., 6.], "z": [1., 0., 1., 0., 2.], "A": ["u", "v", "u", "w", "v"]}).astype({"A": object})
bad = collections.Counter(); ex = {}
forms = ["y ~ x", "y ~ x | z", "y | z ~ x + A", "x | A", "y ~ x + A | z:A", "y ~ 0 | x"]
for fs in forms:
    for nulls in [(), (("y", 0),), (("x", 1), ("z", 3)), (("A", 2), ("y", 4))]:
        for output in ("pandas", "numpy", "sparse"):
            d = base.copy()
            for c, i in nulls: d.loc[i, c] = None if c == "A" else np.nan
            try:
                mm = model_matrix(fs, d, output=output)
            except Exception as e:
                bad[("EXC", fs, output)] += 1; ex[("EXC", fs, output)] = str(e)[:80]; continue
            F = Formula(fs)
            lf = dict(leaves(F)); lm = dict(leaves(mm)); ls = dict(leaves(mm.model_spec))
            if set(lf) != set(lm) or set(lf) != set(ls): bad[("shape", fs)] += 1; continue
            used = set()
            for p, f in lf.items(): used |= {str(v) for v in f.required_variables}
            joint = sorted({i for c, i in nulls if c in used})
            rows = {p: m.shape[0] for p, m in lm.items()}
            if len(set(rows.values())) != 1: bad[("row mismatch", fs, output)] += 1; ex[("row mismatch", fs, output)] = rows
            for p, f in lf.items():
                try:
                    sep = model_matrix(f, d, output=output, drop_rows=set(joint))
                    a = np.asarray(lm[p].toarray() if output == "sparse" else lm[p], dtype=float); b = np.asarray(sep.toarray() if output == "sparse" else sep, dtype=float)
                    if a.shape != b.shape or not np.allclose(a, b): bad[("part != separate", fs, output)] += 1; ex[("part != separate", fs, output)] = (p, a.shape, b.shape)
                    re = ls[p].get_model_matrix(d, drop_rows=set(joint)) if False else None
                except Exception as e:
                    bad[("sep EXC", fs, output)] += 1; ex[("sep EXC", fs, output)] = str(e)[:80]
for k, v in sorted(bad.items(), key=str): print(k, v, ex.get(k, ""))
print("--- C10")
bad = collections.Counter(); ex = {}
d = pd.DataFrame({"a": [1., 2., 3., 4.], "b": [2., 0., 1., 5.], "A": ["u", "v", "w", "u"], "B": ["p", "q", "p", "q"], "K": ["k", "k", "k", "k"]}).astype({"A": object, "B": object, "K": object})
for fs in ["a + A + A:a", "B:A", "b:a + B:A:a", "K + a", "poly(a, 2) + B", "a + A + B + A:B", "0 + A:B + a", "bs(a, df=3):B"]:
    for output in ("pandas", "numpy", "sparse"):
        mm = model_matrix(fs, d, output=output); ms = mm.model_spec
        names = list(ms.column_names)
        if output == "pandas" and list(mm.columns) != names: bad[("names", fs)] += 1
        pos = 0
        for t in ms.terms:
            idx = ms.term_indices[t]
            if idx != list(range(pos, pos + len(idx))): bad[("contiguous", fs)] += 1
            pos += len(idx)
            for key in (t, str(t)):
                try:
                    if ms.term_indices[key] != idx: bad[("lookup differs", fs, type(key).__name__)] += 1
                except Exception as e: bad[("lookup fails", fs, repr(key), type(e).__name__)] += 1
                try:
                    sl = ms.get_slice(key)
                    if list(range(*sl.indices(len(names)))) != idx: bad[("slice differs", fs, repr(key))] += 1
                except Exception as e: bad[("slice fails", fs, repr(key), type(e).__name__)] += 1
            try:
                sub = ms.subset([t]).get_model_matrix(d)
                a = np.asarray(sub.toarray() if output == "sparse" else sub, dtype=float); full = np.asarray(mm.toarray() if output == "sparse" else mm, dtype=float)
                if a.shape[1] != len(idx) or not np.allclose(a, full[:, idx]): bad[("subset", fs, str(t))] += 1
            except Exception as e: bad[("subset EXC", fs, str(t), type(e).__name__)] += 1; ex[("subset EXC", fs, str(t), type(e).__name__)] = str(e)[:80]
        if pos != len(names): bad[("cover", fs)] += 1
        for v, vi in ms.variable_indices.items():
            want = sorted({i for t in ms.terms for i in ms.term_indices[t] if v in {str(x) for x in ms.term_variables[t]}})
            if vi != want: bad[("variable_indices", fs, v)] += 1
        for i, n in enumerate(names):
            if ms.column_indices[n] != i and names.count(n) == 1: bad[("column idx", fs)] += 1
for k, v in sorted(bad.items(), key=str): print(k, v, ex.get(k, ""))
print("--- C08")
import pyarrow as pa
vals = ["q", "p", "q", "r"]
cols = {"object": pd.Series(vals, dtype=object), "str": pd.Series(vals, dtype="str"), "string[python]": pd.Series(vals, dtype="string[python]"), "string[pyarrow]": pd.Series(vals, dtype="string[pyarrow]"), "category": pd.Series(pd.Categorical(vals, categories=["r", "q", "p"])), "ordered": pd.Series(pd.Categorical(vals, categories=["r", "q", "p"], ordered=True)),
        "int8": pd.Series([1, 2, 3, 4], dtype="int8"), "uint16": pd.Series([1, 2, 3, 4], dtype="uint16"), "float32": pd.Series([1, 2, 3, 4], dtype="float32"), "bool": pd.Series([True, False, True, True]), "Int64": pd.Series([1, 2, 3, 4], dtype="Int64"), "Float64": pd.Series([1., 2., 3., 4.], dtype="Float64"), "boolean": pd.Series([True, False, True, True], dtype="boolean")}
for name, ser in cols.items():
    for mat in ("pandas", "narwhals"):
        for output in ("pandas", "numpy", "sparse"):
            try:
                mm = model_matrix("c", pd.DataFrame({"c": ser}), output=output, materializer=mat)
                X = mm.toarray() if output == "sparse" else (mm.to_numpy() if output == "pandas" else np.asarray(mm))
                kinds = {np.asarray(mm[c]).dtype.kind for c in mm.columns} if output == "pandas" else {X.dtype.kind}
                print(f"{name:16s} {mat:9s} {output:7s} names={list(mm.model_spec.column_names)} kinds={kinds}")
            except Exception as e:
                print(f"{name:16s} {mat:9s} {output:7s} EXC {type(e).__name__}: {str(e)[:70]}")
