"""Throw-away: whitespace-insensitivity of the real tokenizer/parser on short strings without quotes."""
import itertools, warnings, sys, collections
warnings.simplefilter("ignore")
import fixd1
from formulaic.parser import DefaultFormulaParser
from formulaic.parser.algos.tokenize import tokenize
from formulaic.errors import FormulaParsingError
P = DefaultFormulaParser()
ALPHA = list("ab10+-*:~|()[] .")
OPS = set("+-*:~|/^")
def outcome(s):
    try:
        r = P.get_terms(s)
        return ("OK", repr(r))
    except FormulaParsingError: return ("REJ",)
    except SyntaxError: return ("PYSYN",)
    except Exception as e: return ("ESC", type(e).__name__)
def toks(s):
    try: return [(t.token, t.kind.value) for t in tokenize(s)]
    except Exception as e: return ("EXC", type(e).__name__)
L = int(sys.argv[1])
bad = collections.defaultdict(list); n = 0; m = 0
for l in range(1, L + 1):
    for cs in itertools.product(ALPHA, repeat=l):
        s = "".join(cs); n += 1
        base = None
        for p in range(0, len(s) + 1):
            left = s[p - 1] if p > 0 else "\0"; right = s[p] if p < len(s) else "\0"
            adj = False
            if left in OPS or right in OPS: adj = True
            if left in ")]" or right in ")]": adj = True      # closers are always context or part of python token
            if right in "([" and (left == "\0" or not (left.isalnum() or left in "._)]")): adj = True   # grouping opener
            if left in "([" : adj = True
            if not adj: continue
            # skip when inside a python call token: crude: any word char immediately followed by ( earlier unclosed
            depth = 0; incall = False; stack = []
            for i, c in enumerate(s[:p]):
                if c in "([":
                    stack.append("call" if i > 0 and (s[i-1].isalnum() or s[i-1] in "._") or (stack and stack[-1] == "call") or (i>0 and s[i-1] in ")]" and False) else "grp")
                elif c in ")]" and stack: stack.pop()
            if "call" in stack: continue
            if base is None: base = (outcome(s), toks(s))
            s2 = s[:p] + " " + s[p:]; m += 1
            o2 = (outcome(s2), toks(s2))
            if o2 != base:
                key = (base[0][0], o2[0][0])
                if len(bad[key]) < 12: bad[key].append((s, s2, base[1], o2[1]))
                bad[key + ("n",)].append(1) if False else None
print("strings", n, "insertions", m)
for k, v in bad.items():
    print("==", k, len(v))
    for x in v: print("   ", repr(x[0]), "->", repr(x[1]), x[2], "|", x[3])
