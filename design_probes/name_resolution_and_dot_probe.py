"""Throw-away: name resolution order data > context > transforms, reported sources, dot expansion."""
import itertools, warnings, collections
warnings.simplefilter("ignore")
import numpy as np, pandas as pd
from formulaic import model_matrix, Formula
from formulaic.errors import FactorEvaluationError
bad = collections.Counter(); ex = {}
names = ["x", "log", "q"]
vals = {"data": 1.0, "context": 2.0}
for pattern in itertools.product([0, 1], repeat=6):      # presence of each name in data, context
    in_data = {n: pattern[i] for i, n in enumerate(names)}; in_ctx = {n: pattern[3 + i] for i, n in enumerate(names)}
    df = pd.DataFrame({**{n: [vals["data"]] * 3 for n in names if in_data[n]}, "pad": [0., 1., 2.]})
    ctx = {n: np.array([vals["context"]] * 3) for n in names if in_ctx[n]}
    for n in names:
        expected_layer = "data" if in_data[n] else "context" if in_ctx[n] else ("transforms" if n == "log" else None)
        try:
            mm = model_matrix(f"0 + {n}", df, context=ctx)
            got = float(np.asarray(mm)[0, 0]) if expected_layer in ("data", "context") else None
            src = {str(v): v.source for v in mm.model_spec.variables}
            if expected_layer is None: bad[("should fail", n)] += 1
            elif expected_layer in ("data", "context"):
                if got != vals[expected_layer]: bad[("wrong value", n, expected_layer)] += 1
                if src.get(n) != expected_layer: bad[("wrong source", n, expected_layer, src.get(n))] += 1
                rv = {str(v) for v in mm.model_spec.required_variables}
                if (n in rv) != (expected_layer == "data"): bad[("required_after", n, expected_layer)] += 1
        except FactorEvaluationError:
            if expected_layer in ("data", "context"): bad[("unexpected fail", n, expected_layer)] += 1
        except Exception as e:
            if expected_layer != "transforms": bad[("other exc", n, type(e).__name__)] += 1
            # transforms layer gives a function object: not a column
print(dict(bad))
# dot expansion
for cols in itertools.permutations(["y", "a", "b", "c"], 4):
    df = pd.DataFrame({c: [1., 2., 3.] for c in cols})
    for lhs in (["y"], ["y", "a"], []):
        f = (" + ".join(lhs) + " ~ ." if lhs else ".")
        mm = model_matrix(f, df)
        rhs = mm.rhs if lhs else mm
        want = ["Intercept"] + [c for c in cols if c not in lhs]
        if list(rhs.columns) != want: bad[("dot", f)] += 1; ex[("dot", f)] = (cols, list(rhs.columns))
print({k: v for k, v in bad.items() if k[0] == "dot"}, ex)
