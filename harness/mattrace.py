"""Trace leg of the materializer family: random frames / formulas / options executed by the real
code, recorded, and validated by TLC (Trace_Materialize)."""
from __future__ import annotations

import json
import random

from . import matlib
from .common import pmap
from .tlc import MachineryError, read_emitted, run_tlc, workdir

UNIVERSE = ["k", "m", "p", "q", "t", "x"]
CONTR = {"treatment": None, "sum": "contr.sum", "helmert": "contr.helmert", "sas": "contr.SAS"}


def gen_case(seed: int) -> dict:
    rng = random.Random(seed)
    n = rng.choice([1, 2, 3, 4, 5, 6, 8, 12])
    cols = {}
    for name in ("a", "b", "c"):
        nulls = sorted(rng.sample(range(1, n + 1), rng.choice([0, 0, 0, 1, 2]) if n > 2 else 0))
        cols[name] = {"kind": "num", "num": [rng.randint(-5, 9) for _ in range(n)], "cat": [], "nulls": nulls, "lv": [], "declared": False}
    for name in ("A", "B", "D"):
        nl = rng.randint(1, 5)
        uni = sorted(rng.sample(UNIVERSE, nl))
        declared = rng.random() < 0.3
        lv = uni if not declared else rng.sample(UNIVERSE, rng.randint(nl, 6))
        if declared:
            uni = lv
        nulls = sorted(rng.sample(range(1, n + 1), rng.choice([0, 0, 1]) if n > 2 else 0))
        cols[name] = {"kind": "cat", "num": [], "cat": [rng.choice(uni if not declared else lv[:nl]) for _ in range(n)], "nulls": nulls,
                      "lv": lv if declared else sorted(UNIVERSE), "declared": declared}
    frame = {"n": n, "cols": cols}
    pool = [("a", "num", "a", ""), ("b", "num", "b", ""), ("c", "num", "c", ""), ("A", "cat", "A", "treatment"), ("B", "cat", "B", "treatment"),
            ("D", "cat", "D", "treatment")]
    cpool = [(f"C({v}, {CONTR[c]})" if CONTR[c] else f"C({v})", "cat", v, c) for v in "ABD" for c in CONTR]
    terms, seen = [], set()
    icpt = rng.random() < 0.7
    used_enc = {}
    for _ in range(rng.choice([1, 2, 2, 3, 4])):
        k = rng.choice([1, 1, 2, 2, 3])
        fs = []
        for _ in range(k):
            f = rng.choice(pool + cpool) if rng.random() < 0.8 else rng.choice(cpool)
            if f[1] == "cat":
                f = used_enc.setdefault(f[2], f)      # one encoding per variable
            if f[0] not in [g[0] for g in fs]:
                fs.append(f)
        key = frozenset(g[0] for g in fs)
        if key in seen:
            continue
        seen.add(key)
        lit = rng.choice([None, None, None, 2, 3])
        term = ([{"e": str(lit), "kind": "lit", "col": "", "contr": "", "lit": lit}] if lit else []) + \
               [{"e": g[0], "kind": g[1], "col": g[2], "contr": g[3], "lit": 1} for g in fs]
        terms.append(term)
    return {"seed": seed, "frame": frame, "terms": terms, "icpt": icpt, "full_rank": rng.random() < 0.6, "na": rng.choice(["drop", "drop", "ignore", "raise"]),
            "cluster": rng.random() < 0.2, "output": rng.choice(["pandas", "numpy", "sparse"]), "path": rng.choice(["sugar", "formula", "spec", "materializer"]),
            "materializer": rng.choice(["pandas", "pandas", "narwhals"]), "index": rng.choice(["default", "strings", "unsorted", "nonunique"]),
            "drop0": sorted(rng.sample(range(1, n + 1), rng.choice([0, 0, 1, 2]) if n > 3 else 0))}


def degree(t):
    return sum(1 for f in t if f["kind"] != "lit")


def record(job):
    i, seed = job
    c = gen_case(seed)
    written = c["terms"]
    formula = matlib.render_formula([[f["e"] for f in t] for t in written], c["icpt"])
    model_terms = sorted(([[{"e": "1", "kind": "lit", "col": "", "contr": "", "lit": 1}]] if c["icpt"] else []) + written, key=degree)   # stable
    df = matlib.gamma_frame(c["frame"], index_kind=c["index"])
    if c["cluster"] and not c["full_rank"]:
        c["cluster"] = False
    if c["materializer"] == "narwhals":
        c["index"] = "default"
        df = matlib.gamma_frame(c["frame"], index_kind="default")
    drop = {d - 1 for d in c["drop0"]}
    o = matlib.observe_build(formula, df, output=c["output"], full_rank=c["full_rank"], na=c["na"], cluster=c["cluster"], drop_rows=drop, path=c["path"],
                             materializer=c["materializer"])
    rec = {"id": i, "seed": seed, "formula_text": formula, "frame": c["frame"], "formula": model_terms, "full_rank": c["full_rank"], "na": c["na"], "cluster": c["cluster"],
           "drop0": c["drop0"], "st": o["st"], "output": c["output"], "path": c["path"], "materializer": c["materializer"], "index_kind": c["index"],
           "labels": [str(x) for x in df.index], "drop1": [], "nrows": 0, "names": [], "cells": [], "index": []}
    if o["st"] == "OK":
        names, cells, labels, index, arr = matlib.alpha_matrix(o["mm"], c["output"])
        rec.update({"names": names, "cells": cells, "nrows": int(arr.shape[0]), "drop1": sorted(int(d) + 1 for d in drop)})
        kept = [k for k in range(c["frame"]["n"]) if k + 1 not in rec["drop1"]]
        rec["index"] = [str(x) for x in index] if (index is not None and c["materializer"] == "pandas") else [str(df.index[k]) for k in kept][: rec["nrows"]]
        if any(isinstance(v, float) for row in cells for v in row):
            rec["noninteger"] = True
    else:
        rec["exc"] = o.get("cls", "") + ": " + o.get("msg", "")
    return rec


def run(ctx, n: int, tag: str, judge=lambda v: True) -> None:
    jobs = [(i + 1, 7 + 1000003 * ctx.seed + 31 * i) for i in range(n)]
    recs = pmap("harness.mattrace", "record", jobs, chunk=50)
    wd = workdir(tag)
    rejected = {}
    usable = [r for r in recs if not r.get("noninteger")]
    for r in recs:
        if r.get("noninteger"):
            ctx.violation({"formula": r["formula_text"], "seed": r["seed"], "output": r["output"], "path": r["path"]},
                          {"verdict": "non-integer cell for integer data", "cells": r["cells"][:3]}, kind="trace")
    for b in range(0, len(usable), 3000):
        batch = usable[b : b + 3000]
        tf, rf = wd / "mtrace.json", wd / "mrej.ndjson"
        tf.write_text(json.dumps([{k: v for k, v in r.items() if k not in ("formula_text", "exc", "seed", "output", "path", "materializer", "index_kind")} for r in batch]))
        rf.unlink(missing_ok=True)
        t = run_tlc("Trace_Materialize", "SPECIFICATION Spec\nINVARIANT Check\n", tag=tag + "t", env={"TRACE_FILE": str(tf), "REJ_FILE": str(rf)}, timeout=3000)
        if t.violated or t.distinct != len(batch):
            raise MachineryError(f"Trace_Materialize did not consume the batch ({t.distinct}/{len(batch)})")
        ctx.add_tlc(t, "Trace_Materialize batch (random frames, formulas, options)")
        for x in read_emitted(rf):
            rejected[x["id"]] = x["verdict"]
        tf.unlink()
        rf.unlink(missing_ok=True)
    ok = 0
    for r in usable:
        ctx.traces += 1
        ctx.evaluations += 1
        v = rejected.get(r["id"], "")
        if v and judge(v):
            ctx.violation({"formula": r["formula_text"], "seed": r["seed"], "full_rank": r["full_rank"], "na": r["na"], "cluster": r["cluster"], "output": r["output"],
                           "path": r["path"], "materializer": r["materializer"], "index": r["index_kind"], "drop0": r["drop0"]},
                          {"verdict": v, "observed": {k2: r[k2] for k2 in ("st", "names", "cells", "drop1", "nrows", "index")}, "exc": r.get("exc")}, kind="trace")
        elif r["st"] == "OK" and len(r["names"]) >= 3 and r["nrows"] >= 2:
            ok += 1
            ctx.nontrivial.add(("T", r["seed"]))
    ctx.notes["trace_records"] = len(usable)
    ctx.notes["trace_records_accepted_nontrivial"] = ok
    if usable:
        r = usable[len(usable) // 2]
        ctx.sample({"trace_record": {"formula": r["formula_text"], "rows": r["frame"]["n"], "names": r["names"], "na": r["na"], "output": r["output"], "path": r["path"]}})
