"""Developer helper: evaluate TLA+ expressions in the context of some modules.
usage: python -m harness.tlaeval 'INSTANCE-lines' 'expr1' 'expr2' ..."""
import subprocess, sys, os, shutil
from .tlc import SPEC, JAR, DEPS, workdir

def evaluate(header: str, exprs: list) -> str:
    name = "DbgEval"
    body = "\n".join(f'ASSUME PrintT(<<"E{i}", {e}>>)' for i, e in enumerate(exprs))
    (SPEC / f"{name}.tla").write_text(f"---- MODULE {name} ----\nEXTENDS Integers, Sequences, FiniteSets, TLC\n{header}\n{body}\n====\n")
    wd = workdir("dbg")
    (wd / "d.cfg").write_text("")
    try:
        p = subprocess.run(["java", "-cp", f"{JAR}:{DEPS}", "tlc2.TLC", "-metadir", str(wd / "meta"), "-config", str(wd / "d.cfg"), f"{name}.tla"],
                           cwd=SPEC, capture_output=True, text=True)
    finally:
        os.unlink(SPEC / f"{name}.tla"); shutil.rmtree(wd / "meta", ignore_errors=True)
    return "\n".join(l for l in p.stdout.splitlines() if l.startswith("<<") or "rror" in l or l.startswith("  ") or "line" in l)

if __name__ == "__main__":
    print(evaluate(sys.argv[1], sys.argv[2:]))
