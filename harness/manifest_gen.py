"""Regenerates MANIFEST.json from the table below (run: /venv/bin/python -m harness.manifest_gen)."""
import json
import os

ROOT = os.path.dirname(os.path.dirname(os.path.abspath(__file__)))
BASE = "cd /repo && /venv/bin/python -m pytest -ra -q -p no:cacheprovider --timeout=900 --continue-on-collection-errors"

# property -> (design_ref, technique, level text, level note)
CHECKS = {}


def check(pid, ref, technique, text, note):
    CHECKS[pid] = (ref, technique, text, note)


check("C01", "DESIGN.md 5/C01",
      "TLA+ model of the parser (Wilkinson.tla) refined against a documented-grammar reference (WilkinsonRef.tla) in TLC; "
      "exhaustive spec->code replay of every bounded token string; code->spec trace validation (Trace_Wilkinson)",
      "TLC proves Impl = Ref for every token string in the bound and every parser configuration; every enumerated case is "
      "executed by the real parser and compared with the specification's outcome; random formulas far beyond the bound are "
      "recorded from the real parser and validated by TLC against the same operators.",
      "Trusted: rendering of abstract tokens to text, alpha on Term/Structured, TLC and the CommunityModules. Bounded: token "
      "strings <= 4 (quick) / <= 5-6 (thorough) exhaustively; depth-6 random formulas in the trace leg.")

check("C14", "DESIGN.md 5/C14",
      "TLA+ character-level model Lexer.tla composed with Wilkinson.tla, totality and flag monotonicity model-checked in TLC; "
      "exhaustive replay of every bounded character string; trace validation of mutation-fuzzed strings (Trace_C14); TLA+ state machine "
      "ParserSession.tla of a parser object with a history (set_feature_flags, include_intercept, cached operator table, pickle/deepcopy), "
      "every bounded history replayed into real parser objects",
      "TLC assigns an outcome to every character string in the bound (no stuck state of the composed lexer/parser machine) and proves "
      "flag monotonicity; every enumerated string and tens of thousands of fuzzed strings are parsed by the real parser and a verdict is "
      "raised exactly for what the statement forbids (escaped exception, timeout, SyntaxError without an invalid python fragment, "
      "acceptance of a string that needs a disabled operator). ParserSession: TLC checks cache coherence and that every parse call returns "
      "what the public configuration at the time of the call prescribes (so a disabled operator is rejected on every history, also after "
      "reconfiguration and cloning); two seeded design errors of the model are required to violate the laws (non-vacuity); multistage "
      "stages are modelled (Wilkinson.tla evaluates on Structured trees). Random behaviours of ParserSession (tlc -simulate, histories of 10 calls) "
      "are replayed like the enumerated ones. A list of about a hundred hand-written probes (deep nesting, huge exponents, unreadable fragments, lone surrogates, "
      "quote characters inside quoted names) is parsed under every configuration and judged by the same outcome law.",
      "Trusted: ast.parse as oracle of fragment validity, lexical classes from the documented regexes. Bounded: strings <= 3-4 chars "
      "(quick) / <= 4-6 (thorough) exhaustively, fuzzed strings up to 120 chars, parser histories of <= 3 / 4 calls on two objects. "
      "Known finding D33 (nested multistage left-hand side escapes with NotImplementedError, demanded by the repository's own test) is reported as KNOWN-FINDING.")

check("C15", "DESIGN.md 5/C15",
      "TLA+ tokenizer state machine Lexer.tla with declarative span/verbatim/whitespace laws model-checked in TLC; exhaustive "
      "token-for-token replay against tokenize(); trace validation of recorded tokenizations, re-spacings and python reformattings (Trace_Lexer)",
      "TLC proves on every string in the bound that spans are ordered, well-formed and faithful, that a space at any operator/grouping "
      "boundary changes no token, that balanced python fragments and backtick contents are verbatim (with the exact exception law); the "
      "real tokenizer is compared token for token (text, kind, start, end) on every enumerated string and validated by TLC on random "
      "formulas with unicode names. PyNorm.tla models the normalisation of python fragments (scan for string literals and quoted names, "
      "alias, format, restore) against the documented normal form; TLC proves the repaired algorithm faithful on every call expression of the "
      "family and refutes the two algorithms of the pinned commit (non-vacuity); every expression is replayed in four spacings and with its quoted "
      "names respelt with characters Python's identifier rules treat specially (and with backslashes, decomposed sequences); keyword operators (not / in / and / or / if-else) are replayed in the tight spelling where a backtick is the only delimiter; further refuted design errors: replacement templates, collapsed blank runs in literals, unpadded placeholders. Token strings over quoted names that print like literals are parsed and compared with Wilkinson.tla.",
      "Trusted: character classes computed with the regexes tokenize() documents; ast.dump as oracle of 'same python up to formatting'. "
      "Known finding D15 (names ending in an odd run of backslashes) is reported as KNOWN-FINDING.")

check("C16", "DESIGN.md 5/C16",
      "TLA+ model Constraints.tla (shared shunting-yard machine + affine-map algebra in exact rationals) checked in TLC against an "
      "independent arithmetic reference on n+1 affinely independent points; exhaustive replay; trace validation (Trace_Constraints)",
      "TLC proves for every token string in the bound that the compiled rows equal the arithmetic meaning of the written expression on "
      "the points 0, e_1..e_n (which determines an affine map) and that non-linear specifications are rejected; the real "
      "LinearConstraints.from_spec (string, list, mapping forms with one and with several keys in two orders, and ModelSpec.get_linear_constraints) is compared exactly on every case, "
      "and random deep expressions recorded from the real code are validated by TLC. Runs of adjacent signs are read sign by sign by the reference; the design "
      "error 'a run is negative if it holds any minus' is refuted by TLC.",
      "Trusted: conversion of the float (A, b) to fractions with denominator <= 1e6; small literals keep Rat.tla inside 32-bit integers.")

check("C20", "DESIGN.md 5/C20",
      "TLA+ model Calculus.tla with the exact finite-difference law model-checked in TLC; exhaustive replay through "
      "Formula.differentiate / ModelSpec.differentiate and materialisation",
      "TLC proves for every formula in the bound that differentiation preserves the number and order of terms, that every multilinear "
      "term obeys the exact finite-difference law on integer rows (h = 1, 2) and that successive differentiation composes; every case is "
      "executed by the real code: term lists compared, derivative terms materialised and compared with the model's exact columns and "
      "with finite differences of the materialised original term. Further alphabets: a column named like a transform, a python factor and a quoted name as "
      "factors; structured formulas of up to 3 parts in four spellings (each part differentiated with respect to the same tuple); OutputLaw states the property "
      "on the output alone; the formula's ordering mode (degree / none / sort) is a dimension of the family; three design errors (zero unless the variable is a required "
      "variable; only the first part differentiated; the derivative ordered anew by the formula's mode) are refuted by TLC.",
      "Trusted: materialisation of a single numeric term; use_sympy=True is out of scope (sympy is not installed).")

check("C19", "DESIGN.md 5/C19",
      "TLA+ models Structured.tla (tree algebra), LayeredMapping.tla and FormulaSeq.tla (operation-history state machines) "
      "model-checked in TLC; every enumerated tree / history replayed into the real objects",
      "TLC checks the container laws on every tree of a bounded shape family (map visits leaves once in flatten order and preserves shape, "
      "simplify idempotent and leaf-preserving, update/merge as dictionary merges) and on every operation history up to the bound "
      "(top-first merge with writes confined to the private layer as an action property, ordering invariant, multiset law and list law of the "
      "formula sequence under each ordering mode none / degree / sort; random behaviours of 8 operations by tlc -simulate); each case is replayed into real Structured / LayeredMapping / SimpleFormula objects and alpha(object) compared. "
      "LayeredHeap.tla models layered mappings as an object graph (layers are references): histories of set / del / derive / join / grow on any object, every "
      "object then read (MergeLaw, LookupLaw, FrameLaw); the design error of copying a nested mapping at construction is refuted by TLC. Trivial wrappers around structures with root and keys (simplify; erroneous "
      "loop refuted); every supplied layer is realised as dict and as defaultdict (lookups must not create keys).",
      "Trusted: gamma/alpha between abstract values and the objects (alpha(gamma(t)) = t is itself checked). Bounded: shape family of "
      "depth 3, histories of <= 2-4 operations over 3 keys / 7 terms x 3 ordering modes x 4 starting formulas.")

check("C02", "DESIGN.md 5/C02",
      "TLA+ model Materialize.tla (null discovery, level discovery, contrast coding, rank reduction, row-wise Kronecker product in "
      "exact integers) with layout/scale theorems model-checked in TLC; exhaustive replay of every enumerated (formula, frame, options) "
      "through model_matrix for the three outputs",
      "TLC proves on every case in the bound that without rank reduction each term is the complete Kronecker product of the full "
      "encodings, that the intercept is a column of ones and that the literal scale is carried exactly once; the real model_matrix is "
      "compared name for name and cell for cell with the matrix the specification computes, for pandas, numpy and sparse output; the same numbers held "
      "in the narrowest integer dtype must give the same matrix on each output type (also times 2**31 as float64 against int64: products leave the int64 range). MC_MatLevels.tla: levels named by C(A, levels=[...]) or recorded in an "
      "attached spec x storage of the column (objects, categorical dtype declaring the levels in 4 orders) x re-application in another storage; laws "
      "Indicators, StorageIrrelevant, ReapplyStable; the design error of trusting a dtype's codes when its category set equals the level list is refuted.",
      "Trusted: gamma (abstract frame -> DataFrame) and alpha (asarray/toarray). Verdict is equality with the model's matrix; under rank "
      "reduction this also fixes the reduced/full choice to the greedy one the model transcribes.")

check("C03", "DESIGN.md 5/C03",
      "TLA+ transcription of the greedy rank-reduction algorithm (Materialize.tla: Span/Simplify/ScopeAll) with the partition-of-"
      "interaction-pieces theorem model-checked in TLC over the whole 31-term lattice; observed model_spec.structure validated by TLC "
      "(Trace_RankReduce); numpy rank/span cross-check on fully crossed designs",
      "TLC proves that for every sequence of distinct terms in the bound (any order, intercept on/off, clustering on/off) the emitted "
      "scoped terms partition the pure-interaction pieces, i.e. independent columns and unchanged span on a crossed design; for every "
      "enumerated sequence the real code is run on a crossed frame in general position, its observed structure is accepted by TLC iff it is "
      "such a partition (any valid assignment passes) and numpy confirms rank(X) = ncols and span equality with the unreduced matrix "
      "(a valid recorded structure whose columns fail this is reported: the columns do not realise the structure), "
      "under 9 contrast options and varying level counts; half of the unclustered cases are built again with a literal scale on some terms (same structure, rank and span).",
      "Trusted: the linear-algebra lemma (checked numerically on every replayed case: a disagreement between lemma and numpy is a "
      "machinery error), numpy.linalg.matrix_rank on small integer matrices.")

check("C10", "DESIGN.md 5/C10",
      "TLA+ model Materialize.tla: per-term column ranges derived from the structure (SlicesOK model-checked in TLC); exhaustive replay "
      "querying every metadata accessor of the real spec",
      "TLC proves on every enumerated case that per-term ranges are contiguous, disjoint, in structure order and cover all columns; for "
      "each case the real ModelSpec is queried (column_names, column_indices, term_indices, term_slices, get_slice, get_term_indices, "
      "get_column_indices, variable_indices, get_variable_indices, subset) by Term object, by printed form and by column name and compared "
      "with the model's names and ranges; subset specs are rebuilt and compared with the parent's columns. Metadata.tla models python-expression "
      "factors (operand, positional argument, keyword argument, method receiver) and center() nested inside larger factors with its recorded state: "
      "NonInterference (a column outside VarIdx(v) does not react to v) and SubsetRegenerates (on training and on follow-up data) are model-checked, "
      "two design errors refuted, and every case replayed (variable indices for every data column, parent and every subset on both data sets).",
      "Trusted: gamma/alpha of the materializer family. A subset is rebuilt with the parent's dropped rows supplied (rows are C06's business).")

check("C06", "DESIGN.md 5/C06",
      "TLA+ model of null discovery and the shared drop set (Materialize.tla: DropSet/Kept/RaiseFails) with row theorems model-checked "
      "in TLC over every null pattern; exhaustive replay through all entry points, index kinds and outputs",
      "TLC proves for every null pattern x formula x policy x caller set in the bound that the drop set only grows and ends as exactly "
      "the caller's rows plus the null rows, that kept rows are the complement in order, and that raise fails iff an evaluated factor has a "
      "null; every case is executed through sugar / Formula / ModelSpec(s) with and without call-time overrides / materializer object (new, and one that has already answered another request) / the narwhals materializer as an option override, on default, "
      "string, unsorted and non-unique indexes, for pandas / numpy / sparse, comparing cells, index label sequence, the caller's set and "
      "the exception.",
      "Nulls of numeric columns are also realised as pd.NA of nullable extension arrays (Int64, Float64). "
      "Trusted: gamma/alpha of the materializer family. hashed() is treated as an opaque factor without nulls (rows, index and drop set are "
      "compared, not its cells). One formula draws a categorical factor from an array of strings held by the caller's context.")

check("C07", "DESIGN.md 5/C07",
      "TLA+ model of pooled evaluation over the parts of a structured formula (MC_Missing: one drop set for all parts, "
      "AloneEqualsJoint theorem) model-checked in TLC; exhaustive replay of structured formulas",
      "TLC proves for every structured formula x null pattern x policy x caller set in the bound that all parts share the kept rows and "
      "that each part equals the part built alone with the joint drop set; the real code is run on every case: nested shape of the result "
      "and of its model_spec, rows and cells of each part against the model, the separately built part, and regeneration of each part by "
      "its own spec and of the whole result by the attached structured spec at once, for the three outputs; two formulas share factors between parts "
      "under another literal scale / in another written order. FormulaForms.tla defines what every specification form (string, list of strings, tuple, keyword "
      "structure, nested) denotes through the main / nested parser; every form of a bounded family is built with Formula(...) and by "
      "attribute assignment and compared with the model's tree of term lists.",
      "Trusted: gamma/alpha of the materializer family; the mirror of the 13 structured formulas between MC_Missing and the harness.")

check("C05", "DESIGN.md 5/C05",
      "one TLA+ definition of the matrix (Materialize.tla, evaluated by TLC on every enumerated case) of which entry point, output type and "
      "materializer are not parameters; replay of every case on entry points x outputs x materializers/data forms; contrast codings of "
      "Contrasts.tla on all combinations; TLA+ state machine Registry.tla of the materializer registry / dispatch replayed into the real metaclass",
      "the specification defines the result as a function of formula, data and options only; each enumerated case is executed through "
      "sugar / Formula / ModelSpec / materializer class / the spec attached to an earlier result (method and top-level function) / a materializer object that has already produced another output, for pandas / numpy / sparse output, with the pandas materializer, narwhals on the "
      "pandas frame and narwhals on a pyarrow table (6 rotating combinations per case in the quick tier, all 72 in the thorough tier) and "
      "every result must equal the specification's matrix, hence all agree. Every contrast coding enumerated by MC_Contrasts (exact "
      "rationals) is built as C(g, contr...) + x with and without an intercept on all 72 combinations. Registry.tla: every sequence of "
      "<= 4 / 5 materializer class definitions (names, explicit input types, outputs, precedence, SUPPORTS_INPUT predicates) with the laws "
      "sorted lists / sound / complete / priority / monotone; each history is replayed by defining real subclasses (registry saved and "
      "restored) and every for_data / for_materializer query compared (also random sequences of 7 definitions by tlc -simulate); the shipped registry "
      "is queried for pandas, recarray and Arrow inputs. Structured formulas with missing data (MC_Missing) are built on rotating combinations. Entry points "
      "include a materializer object that has already produced another output and an un-materialized spec object already used on other data; int8 columns "
      "are replayed on the rotation against the same numbers held as float64.",
      "Trusted: gamma including pyarrow.Table.from_pandas, alpha. Index labels are C06's business and are not compared here.")

check("C08", "DESIGN.md 5/C08",
      "TLA+ dtype table (MC_Dtypes over Materialize.tla) with a typing invariant model-checked in TLC; the finite table is fully enumerated "
      "and replayed with every dtype constructor the installed libraries offer",
      "TLC evaluates the expected matrix for a column of each of 22 dtype tags (text -> categorical with sorted levels, categorical dtype -> "
      "declared order incl. unobserved levels, numeric incl. bool -> pass-through) and proves every expected cell is an integer; each case is "
      "realised with all available constructors on the pandas materializer, narwhals on the same frame and narwhals on a pyarrow table, for "
      "the three outputs, through the top-level function and through one materializer object used for every output in turn: names and cells equal the "
      "model and every observed cell is a number; a formula codes the column twice in one build, the fitted spec is re-applied to the tail slice of the "
      "same data (ReuseNumeric), and the frame is also run under string row labels.",
      "Trusted: the constructor list probed at run time; 'a number' = numbers.Number / numpy.number / numpy.bool_ per cell.")

check("C04", "DESIGN.md 5/C04",
      "TLA+ model of spec reuse (MC_Reuse over Materialize.tla: recorded structure, levels, kinds, center shift) with self-replay, "
      "names-from-spec and row-locality theorems model-checked in TLC; exhaustive replay incl. every short row sequence and pickling; "
      "relation leg for inexact transforms validated by TLC (Trace_Session)",
      "TLC proves on the exact sub-domain that a spec reproduces its matrix on the training data, that names depend on the spec alone and "
      "that any selection / duplication / reordering of follow-up rows yields the corresponding rows; every case is executed with the "
      "attached and the pickled spec through both entry points and compared cell for cell. For scale / standardize / poly / bs / cr / cc / "
      "C(contr.poly, diff, scaled helmert) / elementwise functions, random histories are executed and TLC checks that the logged "
      "row-correspondence witnesses contain the correspondence the model requires. ReuseHistory.tla models one spec object over a history of calls "
      "(recorded bounds / mean / levels, training frames whose minimum, maximum or mean is exactly zero, follow-ups with and without the rows that carry "
      "the recorded extremes, pickling before any call): laws Frozen, HistoryFree, RowsOfTheFit; two design errors (a zero statistic treated as missing; "
      "re-learning) are refuted by TLC; every history is replayed under 19 spellings of its transform family. Specs of numpy and sparse output are replayed too.",
      "Trusted: numpy.allclose(1e-9) as the float row-equality predicate of the relation leg (stated limit: no claim about accuracy). lag() "
      "is excluded from row-locality as the property says.")

check("C09", "DESIGN.md 5/C09",
      "TLA+ model of spec reuse on incompatible data (MC_Reuse: kind guard, level pinning, unseen-level announcement) model-checked in TLC; "
      "exhaustive replay of (training, follow-up) pairs",
      "TLC proves on every (training frame, follow-up frame, formula) in the bound that a kind change is an encoding error, that reuse never "
      "adds, removes or renames a column (absent levels keep all-zero columns) and that unseen levels are announced; each pair is executed "
      "through spec.get_model_matrix and model_matrix(spec, ...), with the pickled spec too, comparing exception class, warning category, "
      "names and cells with the model, for recorded specs of pandas, numpy and sparse output. MC_ReuseSession.tla: the replay is carried out by one "
      "materializer object that has answered earlier calls (fresh formulas or the spec); law SessionFree (the outcome equals that of a fresh object); the "
      "design error of keeping evaluated factors between calls is refuted by TLC. Restrictions of the recorded spec (ModelSpec.subset) to every "
      "order-preserving choice of its terms: TLC proves SubsetMatchesParent / SubsetIdentity, refutes the re-scoped and the re-levelled restriction, and "
      "every restriction is replayed on the follow-up frame.",
      "Trusted: gamma/alpha. Numeric data under C() counts as unseen levels, not as a kind change (DESIGN section 11), and is not enumerated.")

check("C11", "DESIGN.md 5/C11",
      "TLA+ module Contrasts.tla defines every built-in coding twice (textbook coding matrix and textbook interpretation) in exact "
      "rationals; TLC proves they are mutually inverse for n = 1..N and every option; exhaustive replay of matrices, metadata and encodings",
      "TLC decides that [1 | coding] . interpretation = I for treatment (every base), SAS, sum, Helmert (both directions, scaled or not) and "
      "difference (both directions) for every n up to the bound, sizes and zero column sums, and exact orthogonality of the polynomial "
      "contrasts' monic polynomials; the real classes are compared (dense, sparse, via ContrastsState) under three labelings, and every "
      "data vector of length <= 3 over levels + {null, unseen} is encoded through encode_contrasts (3 outputs, reduced and full) and "
      "through model_matrix('C(x, contr...)') on pandas frames and Arrow tables; Contrasts.apply is called on the indicator matrix itself as "
      "numpy array, pandas frame and sparse matrix (encoding = indicator . coding); the sparse forms must be sparse matrices of the right shape. "
      "User-supplied coding matrices (array, list with names, dict) are encoded likewise. MC_ContrastsOrder.tla: polynomial scores in every order of writing and "
      "data carried by a categorical dtype whose own order differs from the nominated level list; MC_ContrastsReuse.tla: one contrasts object used over a "
      "history of level lists (ReuseLaws); the design errors sorted-scores, trust-carrier and memo-position are refuted by TLC.",
      "Trusted: sqrt for the polynomial normalisation and a 1e-10 float comparison in the harness. Polynomial contrasts exact to n = 5 "
      "(32-bit rationals).")

check("C13", "DESIGN.md 5/C13",
      "TLA+ module PolyScale.tla (exact rational statistics, Gram-Schmidt polynomials with explicit coefficient vectors) model-checked in "
      "TLC; exhaustive replay of every bounded integer vector through scale / center / standardize / poly and spec reuse; elementwise "
      "functions on integers",
      "TLC proves for every integer vector in the bound that centred data sums to zero, scaled data has sum of squares n - ddof, the "
      "polynomial columns are orthogonal, monic and orthogonal to the constant, and that applying recorded state is row-local; the real "
      "transforms are executed on every case (direct calls with _state where the recorded state must win over contradictory arguments, "
      "model_matrix and spec reuse on follow-up vectors, NaN propagation) and compared with (exact rational)/sqrt(exact rational); "
      "exp10/exp2/log10/log2 are exact on k = 0..8 and each function inverts its partner on a grid; the elementwise family of PolyScale.tla defines "
      "b^k exactly for integer k of both signs (homomorphism, reciprocal, monotonicity, log_b(b^k) = k model-checked for k in -127..127) and the "
      "replay holds the exponents in every integer dtype wide enough, as numpy and as nullable pandas columns.",
      "Stated limit: 32-bit rationals keep the exact grid small (length <= 4-5 over -2..3); 'any magnitude' is outside this family's reach. "
      "Trusted: sqrt and a 1e-9 comparison in the harness.")

check("C17", "DESIGN.md 5/C17",
      "TLA+ module Env.tla (three named layers, resolution order, required variables before/after, '.' expansion) with sufficiency and "
      "necessity model-checked in TLC over every presence pattern; exhaustive replay with real frames, contexts and TRANSFORMS",
      "TLC proves for every presence pattern of four names over the data and context layers x 8 formulas that the required variables are "
      "sufficient and that removing one fails exactly when no lower layer provides the name (otherwise the source moves down), and the "
      "'.' law for every column order; every case is executed: Formula.required_variables, success / FactorEvaluationError, cells (the "
      "layers hold different numbers so the source is observable), variables_by_source, ModelSpec.required_variables, the restricted "
      "build and the build with each required column removed.",
      "Two factors pass names by keyword (np.clip(x, a_min=z, a_max=None); nested in I() with a quoted keyword value). A second quoted name whose placeholder collides with the first one's occurs in the same python factor (16 presence patterns x 6 spelling pairs); the right-hand side "
      "around '.' is written in 7 ways (signs, 0, 1 before and after the wildcard, with and without blanks). The name that needs quoting is replayed under six spellings (blank, keyword, leading digit, python constant, dotted, dotted with a "
      "transform name in front). Known findings D19 (a data column named like a transform is omitted by the pre-materialization estimate) and "
      "D37 (attribute access reported as a dotted path) are reported as KNOWN-FINDING. Trusted: the concrete values placed in each layer.")

check("C18", "DESIGN.md 5/C18",
      "TLA+ module Session.tla (operations as functions of their arguments; Det and Frame as action properties) model-checked in TLC over "
      "all histories; every history executed under three hash seeds and validated step by step by TLC (Trace_Purity)",
      "TLC enumerates every history of <= 3 (quick) / 4 (thorough) operations over 9 operation instances and checks Det and Frame on the "
      "model; each history is executed in fresh interpreters with PYTHONHASHSEED 0, 1 and a seeded third value, fingerprinting after every "
      "step the result (bytes of the numeric payload, column order, dropped rows) and every live object (input frames, the formula, one "
      "shared un-materialised spec, the spec obtained earlier); Trace_Purity accepts a history iff every step is a Session step (same "
      "operation -> same result, also with respect to a canonical single-operation run under another seed; no live object changes), and "
      "the three logs must be identical. A second family of operations builds the same formula under two contexts that bind the same called names to "
      "a stateful built-in in one and to a plain function in the other (and reuses the spec at once): law Indep (every call returns what it returns "
      "as the only call of a fresh process); the design error of memoising a name's statefulness process-wide is refuted by TLC. A third family builds one formula on two frames whose columns differ in "
      "kind (text / shared Formula object / shared un-materialised spec): the design error of caching the inferred kind on the formula is refuted; formula fingerprints include "
      "each factor's kind; training columns whose fitted bound or mean is exactly zero make falsy recorded state observable.",
      "Trusted: the structural fingerprints. Bit-identity is compared within one interpreter version, not across output types.")

check("C12", "DESIGN.md 5/C12",
      "TLA+ module Spline.tla in exact rationals: Cox-de Boor B-splines with the five extrapolation modes, natural/cyclic cardinal cubic "
      "bases from the exactly solved second-derivative system, self-validated in TLC; exhaustive replay on the exact grid; oracle round "
      "trip (Oracle_Spline) for df-derived knot vectors recorded by the code",
      "TLC proves on every integer knot vector in the bound and the half-integer grid non-negativity, partition of unity, column/knot "
      "counts, and validates its own cubic bases against their characterisation (identity at the knots, C1 at inner knots, natural or "
      "periodic end conditions); bs / cr / cc are executed on every case (direct, with recorded state, through model_matrix) and compared "
      "with the exact values, each extrapolation mode as documented; for calls with df the recorded knots are converted to exact "
      "fractions and TLC computes the expected design matrix on that knot vector. Vectors with nulls (25 per bs case): a null is an NA row in every mode and "
      "never a value outside the bounds, the call raises iff a non-null value is outside (GuardLaw); two erroneous guards are refuted by TLC; replayed as "
      "fresh calls and with recorded state.",
      "Stated limits: exact grid only (integer / small-denominator knots, degree <= 3-5); the continuum, ill-conditioned knot vectors and "
      "the QR-centred basis are outside this family's reach - centering (zero column means, rank within the span of the free basis) is a "
      "numpy predicate; round trips whose rationals overflow 32 bits are counted, not judged.")

NOT_YET = "check not yet built in this round (planned; see DESIGN.md section 5)"


def main():
    props = [f"C{i:02d}" for i in range(1, 21)]
    checks = []
    for p in props:
        if p in CHECKS and os.path.exists(os.path.join(ROOT, "harness", "props", p.lower() + ".py")):
            ref, tech, text, note = CHECKS[p]
            checks.append({
                "property_id": p,
                "quick_cmd": f"./check {p} --tier quick",
                "thorough_cmd": f"./check {p} --tier thorough",
                "evidence_file": f"/verif/evidence/{p}.json",
                "replay_cmd_template": f"./check {p} --replay {{path}}",
                "engine": "tlc+replay",
                "level_claimed": {"category": "model_checking", "text": text, "design_ref": ref},
                "level_note": note,
                "technique": tech,
            })
    na = [{"property_id": p, "reason": NOT_YET} for p in props if p not in {c["property_id"] for c in checks}]
    m = {
        "version": 1,
        "setup_cmd": "./check setup",
        "hooks": {"guard": "FORMULAIC_VERIF",
                  "enable": "no source hooks: every observable is taken at a public call's return",
                  "baseline_off_cmd": BASE, "source_commits": [], "add_only": True},
        "engines": [{"name": "tlc+replay", "path": "/verif/check",
                     "serves_properties": [c["property_id"] for c in checks],
                     "kind_free_text": "explicit TLA+ specification model-checked with TLC; bound to the code by spec->code "
                                       "replay of TLC-enumerated cases and code->spec validation of recorded executions"}],
        "checks": checks,
        "not_applicable": na,
        "notes": "see DESIGN.md; known_findings.jsonl lists fixed defects and recorded findings",
    }
    json.dump(m, open(os.path.join(ROOT, "MANIFEST.json"), "w"), indent=1)
    print(len(checks), "checks,", len(na), "not applicable")


if __name__ == "__main__":
    main()
