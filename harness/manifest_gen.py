"""Regenerates MANIFEST.json from the table below (run: /venv/bin/python -m harness.manifest_gen)."""
import json
import os

ROOT = os.path.dirname(os.path.dirname(os.path.abspath(__file__)))
BASE = "cd /repo && /venv/bin/python -m pytest -ra -q -p no:cacheprovider --timeout=900 --continue-on-collection-errors"

# property -> (design_ref, technique, level text, level note)
CHECKS = {}


def check(pid, ref, technique, text, note):
    CHECKS[pid] = (ref, technique, text, note)


check("C01", "DESIGN.md 5/C01",
      "TLA+ model of the parser (Wilkinson.tla) refined against a documented-grammar reference (WilkinsonRef.tla) in TLC; "
      "exhaustive spec->code replay of every bounded token string; code->spec trace validation (Trace_Wilkinson)",
      "TLC proves Impl = Ref for every token string in the bound and every parser configuration; every enumerated case is "
      "executed by the real parser and compared with the specification's outcome; random formulas far beyond the bound are "
      "recorded from the real parser and validated by TLC against the same operators.",
      "Trusted: rendering of abstract tokens to text, alpha on Term/Structured, TLC and the CommunityModules. Bounded: token "
      "strings <= 4 (quick) / <= 5-6 (thorough) exhaustively; depth-6 random formulas in the trace leg.")

NOT_YET = "check not yet built in this round (planned; see DESIGN.md section 5)"


def main():
    props = [f"C{i:02d}" for i in range(1, 21)]
    checks = []
    for p in props:
        if p in CHECKS and os.path.exists(os.path.join(ROOT, "harness", "props", p.lower() + ".py")):
            ref, tech, text, note = CHECKS[p]
            checks.append({
                "property_id": p,
                "quick_cmd": f"./check {p} --tier quick",
                "thorough_cmd": f"./check {p} --tier thorough",
                "evidence_file": f"/verif/evidence/{p}.json",
                "replay_cmd_template": f"./check {p} --replay {{path}}",
                "engine": "tlc+replay",
                "level_claimed": {"category": "model_checking", "text": text, "design_ref": ref},
                "level_note": note,
                "technique": tech,
            })
    na = [{"property_id": p, "reason": NOT_YET} for p in props if p not in {c["property_id"] for c in checks}]
    m = {
        "version": 1,
        "setup_cmd": "./check setup",
        "hooks": {"guard": "FORMULAIC_VERIF",
                  "enable": "no source hooks: every observable is taken at a public call's return",
                  "baseline_off_cmd": BASE, "source_commits": [], "add_only": True},
        "engines": [{"name": "tlc+replay", "path": "/verif/check",
                     "serves_properties": [c["property_id"] for c in checks],
                     "kind_free_text": "explicit TLA+ specification model-checked with TLC; bound to the code by spec->code "
                                       "replay of TLC-enumerated cases and code->spec validation of recorded executions"}],
        "checks": checks,
        "not_applicable": na,
        "notes": "see DESIGN.md; known_findings.jsonl lists fixed defects and recorded findings",
    }
    json.dump(m, open(os.path.join(ROOT, "MANIFEST.json"), "w"), indent=1)
    print(len(checks), "checks,", len(na), "not applicable")


if __name__ == "__main__":
    main()
