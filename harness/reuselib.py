"""Shared replay for C04 / C09: fit on a training frame, reuse the spec on follow-up data."""
from __future__ import annotations

import pickle
import warnings

from . import matlib
from .tlc import MachineryError, read_emitted, run_tlc, workdir


def run_model(ctx, tag: str, maxsel: int, invs: list):
    out = workdir(tag) / "reuse.ndjson"
    out.unlink(missing_ok=True)
    cfg = f"SPECIFICATION Spec\nCONSTANTS\n  Emit = TRUE\n  MaxSel = {maxsel}\n" + "".join(f"INVARIANT {i}\n" for i in invs) + "INVARIANT EmitCase\n"
    r = run_tlc("MC_Reuse", cfg, tag=tag, env={"OUT_FILE": str(out)}, timeout=3400)
    if r.violated:
        ctx.model_violation(r, "MC_Reuse")
    ctx.add_tlc(r, f"spec-reuse theorems ({', '.join(invs)}) + emission; row selections of length <= {maxsel}")
    cases = read_emitted(out)
    out.unlink()
    if len(cases) != r.distinct:
        raise MachineryError(f"emission incomplete: {len(cases)} of {r.distinct}")
    return cases


def reuse(spec, df, path: str, output: str = "pandas"):
    from formulaic import model_matrix
    from formulaic.errors import FactorEncodingError, FormulaMaterializationError

    with warnings.catch_warnings(record=True) as w:
        warnings.simplefilter("always")
        try:
            if path == "spec.get_model_matrix":
                mm = spec.get_model_matrix(df, context={})
            elif path == "spec.get_model_matrix(overrides)":
                # the recorded structure decides the columns: options that shaped the fit cannot reshape a replay
                mm = spec.get_model_matrix(df, context={}, ensure_full_rank=not spec.ensure_full_rank, cluster_by="numerical_factors")
            else:
                mm = model_matrix(spec, df, context={})
            names, cells, labels, index, _ = matlib.alpha_matrix(mm, output)
            out = {"st": "OK", "names": names, "cells": cells, "labels": labels}
        except FormulaMaterializationError as e:
            out = {"st": "ENCODING-ERROR", "cls": type(e).__name__, "msg": str(e)[:120]}
        except Exception as e:  # noqa
            out = {"st": "OTHER-ERROR", "cls": type(e).__name__, "msg": str(e)[:120]}
    out["warn"] = any(type(x.message).__name__ == "DataMismatchWarning" for x in w)
    return out


def judge(exp, obs, base, clause_prefix):
    bad = []
    if exp["st"] == "UNMODELLED":
        return bad
    if exp["st"] == "ENCODING-ERROR":
        if obs["st"] != "ENCODING-ERROR":
            bad.append({**base, "clause": clause_prefix + "kind-change-must-fail-loudly", "observed": {k: obs.get(k) for k in ("st", "cls", "names")}, "expected": "FactorEncodingError"})
        return bad
    if obs["st"] != "OK":
        bad.append({**base, "clause": clause_prefix + "unexpected-error", "observed": {k: obs.get(k) for k in ("st", "cls", "msg")}})
        return bad
    if obs["names"] != exp["names"] or (obs.get("labels") is not None and obs["labels"] != exp["names"]):
        bad.append({**base, "clause": clause_prefix + "column-names", "observed": obs["names"], "expected": exp["names"]})
    elif obs["cells"] != exp["cells"]:
        bad.append({**base, "clause": clause_prefix + "cells", "observed": obs["cells"], "expected": exp["cells"]})
    if obs["warn"] != exp["warn"]:
        bad.append({**base, "clause": clause_prefix + ("unseen-levels-not-announced" if exp["warn"] else "spurious-data-mismatch-warning"), "observed": obs["warn"], "expected": exp["warn"]})
    return bad


def replay_case(case):
    from formulaic import model_matrix

    base = {"formula": case["formula"], "t": case["t"], "u": case["u"], "sel": case["sel"]}
    Tdf = matlib.gamma_frame(case["train"])
    Udf = matlib.gamma_frame(case["follow"], index_kind=["default", "unsorted", "strings"][(case["t"] + case["u"] + len(case["formula"])) % 3])
    bad = []
    try:
        fit = model_matrix(case["formula"], Tdf, context={})
    except Exception as e:  # noqa
        return [{**base, "clause": "fit-failed", "observed": type(e).__name__ + ": " + str(e)[:100]}], 0
    names, cells, _, _, _ = matlib.alpha_matrix(fit, "pandas")
    if names != case["fit_names"] or cells != case["fit_cells"]:
        return [{**base, "clause": "fit-differs-from-model", "observed": [names, cells], "expected": [case["fit_names"], case["fit_cells"]]}], 1
    spec = fit.model_spec
    specs = [("spec", spec)]
    try:
        specs.append(("pickled", pickle.loads(pickle.dumps(spec))))
    except Exception as e:  # noqa
        bad.append({**base, "clause": "pickle-failed", "observed": type(e).__name__})
    n = 1
    state_before = repr(sorted((k, repr(v)) for k, v in spec.transform_state.items())) + repr(spec.column_names)
    for sname, s in specs:
        for path in ("spec.get_model_matrix", "model_matrix(spec, data)") + (("spec.get_model_matrix(overrides)",) if sname == "spec" else ()):
            b = {**base, "spec": sname, "path": path}
            if not case["sel"]:
                bad += judge(case["whole"], reuse(s, Udf, path), b, "")
                n += 1
            else:
                sub = Udf.iloc[[i - 1 for i in case["sel"]]]      # keeps the (possibly repeated, unordered) row labels of the selection
                if (len(case["sel"]) + case["u"]) % 2:
                    sub = sub.reset_index(drop=True)
                bad += judge(case["picked"], reuse(s, sub, path), b, "row-selection:")
                n += 1
    # ModelSpec.subset: every restriction of the recorded spec to some of its terms (MC_Reuse!SubsetReuse), replayed on the follow-up frame
    if not case["sel"] and case.get("subsets"):
        terms = list(spec.formula)
        if len(terms) != max(len(x["pos"]) for x in case["subsets"]):
            raise MachineryError(f"the recorded formula has {len(terms)} terms, the model's {max(len(x['pos']) for x in case['subsets'])}: {case['formula']}")
        for x in case["subsets"]:
            b = {**base, "spec": "spec.subset(terms " + ",".join(str(i) for i in x["pos"]) + ")"}
            try:
                sub_spec = spec.subset([terms[i - 1] for i in x["pos"]])
            except Exception as e:  # noqa
                bad.append({**b, "clause": "subset:subset-failed", "observed": type(e).__name__ + ": " + str(e)[:100]})
                continue
            path = ("spec.get_model_matrix", "model_matrix(spec, data)")[(len(x["pos"]) + x["pos"][0] + case["u"]) % 2]
            bad += judge(x["out"], reuse(sub_spec, Udf, path), {**b, "path": path}, "subset:")
            n += 1
    if repr(sorted((k, repr(v)) for k, v in spec.transform_state.items())) + repr(spec.column_names) != state_before:
        bad.append({**base, "clause": "reuse-changed-the-spec"})
    # gamma side: the model has no notion of the container of the result, so every case also stands for the spec recorded by a fit
    # with output="numpy" / "sparse" (the spec records the output type and a replay encodes through the code path of that type: level
    # codes of absent / unseen levels, nulls, kind guard); whole follow-up frames only, the row selections stay with the pandas spec
    if not case["sel"]:
        for output in ("numpy", "sparse"):
            try:
                fit_o = model_matrix(case["formula"], Tdf, output=output, context={})
            except Exception as e:  # noqa
                bad.append({**base, "spec": f"spec[output={output}]", "clause": "fit-failed", "observed": type(e).__name__ + ": " + str(e)[:100]})
                continue
            names, cells, _, _, _ = matlib.alpha_matrix(fit_o, output)
            n += 1
            if names != case["fit_names"] or cells != case["fit_cells"]:
                bad.append({**base, "spec": f"spec[output={output}]", "clause": "fit-differs-from-model", "observed": [names, cells], "expected": [case["fit_names"], case["fit_cells"]]})
                continue
            for sname, s in ((f"spec[output={output}]", fit_o.model_spec), (f"pickled[output={output}]", pickle.loads(pickle.dumps(fit_o.model_spec)))):
                for path in ("spec.get_model_matrix", "model_matrix(spec, data)")[: 2 if sname.startswith("spec") else 1]:
                    bad += judge(case["whole"], reuse(s, Udf, path, output), {**base, "spec": sname, "path": path}, "")
                    n += 1
    return bad, n
