"""Executes histories of C18 in THIS interpreter (started with a chosen PYTHONHASHSEED).
usage: python -m harness.c18_worker <histories.json> <out.json> ; also used for the canonical single-operation runs."""
from __future__ import annotations

import hashlib
import json
import pickle
import sys
import warnings


def h(*parts) -> str:
    m = hashlib.sha1()
    for p in parts:
        m.update(repr(p).encode() if not isinstance(p, bytes) else p)
        m.update(b"|")
    return m.hexdigest()[:16]


def frames():
    import pandas

    d1 = pandas.DataFrame({"a-b": [9.0, 2.0, 6.0, 5.0, 3.0], "a b": [3.0, 1.0, 4.0, 1.0, 5.0], "x": [1.0, 2.0, 4.0, 9.0, 3.0], "w": [2.0, 1.0, 0.5, 3.0, float("nan")],
                           "A": pandas.Series(["p", "q", "r", "p", "q"], dtype=object), "B": pandas.Series(["u", "v", "u", "v", "u"], dtype=object),
                           "D": pandas.Series(["h", "h", "g", "g", "i"], dtype=object), "E": pandas.Series(["m", "n", "n", "m", "m"], dtype=object),
                           # what the fit on d1 records for these columns is exactly 0 (smallest value of z0, largest value of zn, mean of zc): a recorded state is a recorded
                           # state whatever its value, so the reuse on d2 (which reaches beyond both bounds and has another mean) must read it, not re-derive it
                           "z0": [0.0, 1.0, 2.0, 4.0, 3.0], "zn": [-4.0, -1.0, 0.0, -2.0, -3.0], "zc": [-2.0, -1.0, 0.0, 1.0, 2.0],
                           "V": [0.5, 1.5, 2.5, 1.5, 0.5]})
    d2 = pandas.DataFrame({"a-b": [1.0, 4.0, 1.0, 4.0], "a b": [2.0, 7.0, 1.0, 8.0], "x": [10.0, -2.0, 0.0, 5.0], "w": [1.0, 1.5, 2.5, 0.25],
                           "A": pandas.Series(["r", "q", "q", "p"], dtype=object), "B": pandas.Series(["v", "v", "u", "u"], dtype=object),
                           "D": pandas.Series(["g", "h", "i", "h"], dtype=object), "E": pandas.Series(["n", "m", "n", "m"], dtype=object),
                           "z0": [-2.0, 1.0, 5.0, 3.0], "zn": [1.0, -1.0, -3.0, 2.0], "zc": [3.0, -1.0, 4.0, 2.0], "V": [1.5, 0.5, 2.5, 0.5]})
    return d1, d2


def kinds_frame():
    """d3 of the family "kinds" (Session.tla: ColKind): the names of d1, but A holds numbers and V strings (in d1: A strings, V numbers)"""
    import pandas

    return pandas.DataFrame({"A": [1.0, 2.0, 3.0, 2.0, 1.0], "V": pandas.Series(["s", "t", "s", "u", "t"], dtype=object), "x": [2.0, 7.0, 1.0, 8.0, 3.0]})


# K, LV and SC are objects of the caller's context: a list of knots, a list of levels and an array (they must never be written to)
FORMULA = "scale(x) + A + B + A:B + poly(w, 2) + C(B, contr.sum):x + A:D:E + B:D:E:A + bs(w, knots=K, extrapolation='clip') + C(D, levels=LV) + I(x * SC[0]) + center(`a b`) + scale(`a b`) + lag(ZZ[:len(x)]) + center(`a b` * `a b`) + center(`a-b`) + cr(z0, df=3, extrapolation='clip') + cs(zn, df=3, extrapolation='clip') + bs(z0, df=4, extrapolation='clip') + bs(zn, df=4, extrapolation='clip') + center(zc)"
UFORMULA = "center(x) + B + A + bs(w, df=3) + D:B:E + E:D:A:B + cr(x, knots=K, extrapolation='clip') + C(E, contr.treatment(base=LV2[1]), levels=LV2) + scale(`a b`) + scale(`a-b`) + poly(`a b`, 2) + I(`a b` + x) + lag(ZZ[:len(x)], 2):lag(ZZ[1:len(x) + 1]) + cc(z0, df=3, extrapolation='clip') + cr(zn, df=3, extrapolation='zero') + scale(zc)"
# Family "contexts" of Session.tla: the names center / scale / tf / ns.tf are called by the builds of TWO contexts of one caller which bind them to different
# kinds of callable (Session.tla: Env).  Context c (self.ctx): center, scale are the built-in stateful transforms, tf and ns.tf plain functions of the caller;
# context x (self.xctx): center, scale are the caller's own plain functions (they shadow the built-ins), tf and ns.tf are decorated as stateful transforms.
XFORMULA = "center(x) + scale(`a b`) + tf(x) + ns.tf(`a b`) + A:tf(x)"
# Family "kinds" of Session.tla: the formula does not say what kind a factor is - the column of the frame of each call does (d1: A strings, V numbers; d3: A numbers, V strings)
KFORMULA = "A + V + x"


def plain_tf(col):
    return col * 2.0


def plain_center(col):
    return col - 1000.0


def plain_scale(col):
    return col / 4.0


def make_stateful_tf():
    from formulaic.utils.stateful_transforms import stateful_transform

    @stateful_transform
    def tf(col, _state=None):          # remembers the maximum seen at the fit (state recorded in the spec, used at reuse)
        if "top" not in _state:
            _state["top"] = float(col.max())
        return col / _state["top"]

    return tf


def ctx_repr(v):
    """deterministic description of an object of a context (the repr of a function holds an address)"""
    import types

    if isinstance(v, types.SimpleNamespace):
        return ("ns", sorted((k, ctx_repr(x)) for k, x in vars(v).items()))
    if callable(v):
        return ("callable", getattr(v, "__name__", "?"), bool(getattr(v, "__is_stateful_transform__", False)))
    return repr(v)


def fp_frame(df) -> str:
    return h(df.to_csv(), [str(t) for t in df.dtypes], list(df.index), list(df.columns))


def fp_formula(f) -> str:
    # a factor is its expression, how it is evaluated and the kind the formula gives it (unknown unless the formula says): all three are "the formula"
    return h([[(fac.expr, fac.eval_method.value, fac.kind.value) for fac in t.factors] for t in f])


def state_repr(x):
    import numpy

    if isinstance(x, dict):
        return sorted((repr(k), state_repr(v)) for k, v in x.items())
    if isinstance(x, (list, tuple)):
        return [state_repr(v) for v in x]
    if isinstance(x, numpy.ndarray):
        return ("nd", x.shape, x.tobytes().hex())
    if isinstance(x, float):
        return x.hex()
    return repr(x)


def fp_spec(s) -> str:
    return h([[(fac.expr, fac.eval_method.value, fac.kind.value) for fac in t.factors] for t in s.formula], s.ensure_full_rank, str(s.na_action), s.output, s.materializer,
             None if s.structure is None else [(str(e.term), [repr(st) for st in e.scoped_terms], list(e.columns)) for e in s.structure],
             state_repr(s.transform_state), state_repr({k: (str(v[0]), state_repr({kk: vv for kk, vv in v[1].items() if kk != "contrasts"})) for k, v in s.encoder_state.items()}))


def fp_matrix(mm, drop) -> str:
    import numpy

    a = mm.toarray() if hasattr(mm, "toarray") else numpy.asarray(mm, dtype=float)
    return h(a.shape, numpy.ascontiguousarray(a, dtype=float).tobytes(), list(mm.model_spec.column_names), sorted(int(i) for i in drop),
             list(getattr(mm, "index", [])))


class Session:
    def __init__(self):
        from formulaic import Formula, ModelSpec

        import types

        import numpy

        self.d1, self.d2 = frames()
        self.ctx = {"K": [1.5, 2.5], "LV": ["i", "h", "g"], "LV2": ["n", "m"], "SC": numpy.array([2.0, 3.0]),
                    "ZZ": numpy.array([1.0, 4.0, 9.0, 16.0, 25.0, 36.0]), "tf": plain_tf, "ns": types.SimpleNamespace(tf=plain_tf)}
        stf = make_stateful_tf()
        self.xctx = {"center": plain_center, "scale": plain_scale, "tf": stf, "ns": types.SimpleNamespace(tf=stf)}
        self.f = Formula(FORMULA)
        self.u = ModelSpec.from_spec(UFORMULA)
        self.d3 = kinds_frame()
        self.kf = Formula(KFORMULA)                 # ONE Formula object shared by KF1, KF3
        self.ku = ModelSpec.from_spec(KFORMULA)     # ONE un-materialised spec shared by KU1, KU3
        self.spec1 = None
        self.heap = {}
        self.mat = None      # ONE materializer instance bound to d2, shared by the operations MF, MN, MR

    def heap_fps(self):
        out = {"d1": fp_frame(self.d1), "d2": fp_frame(self.d2), "formula": fp_formula(self.f), "uspec": fp_spec(self.u),
               "d3": fp_frame(self.d3), "kformula": fp_formula(self.kf), "kuspec": fp_spec(self.ku),
               "context": h(sorted((k, ctx_repr(v), type(v).__name__) for k, v in self.ctx.items())),
               "xcontext": h(sorted((k, ctx_repr(v), type(v).__name__) for k, v in self.xctx.items()))}
        if self.spec1 is not None:
            out["spec1"] = fp_spec(self.spec1)
        return out

    def ensure_spec1(self):
        from formulaic import model_matrix

        if self.spec1 is None:
            self.spec1 = model_matrix(FORMULA, self.d1, context=self.ctx).model_spec
        return self.spec1

    def do(self, op):
        from formulaic import model_matrix

        drop = set()
        if op == "B1":
            mm = model_matrix(FORMULA, self.d1, context=self.ctx, drop_rows=drop)
            if self.spec1 is None:
                self.spec1 = mm.model_spec
        elif op == "B2":
            mm = model_matrix(FORMULA, self.d2, context=self.ctx, drop_rows=drop)
        elif op == "F1":
            mm = self.f.get_model_matrix(self.d1, context=self.ctx, drop_rows=drop)
        elif op == "U1":
            mm = self.u.get_model_matrix(self.d1, context=self.ctx, drop_rows=drop)
        elif op == "U2":
            mm = self.u.get_model_matrix(self.d2, context=self.ctx, drop_rows=drop)
        elif op == "R":
            mm = self.ensure_spec1().get_model_matrix(self.d2, context=self.ctx, drop_rows=drop)
        elif op == "S":
            mm = self.ensure_spec1().subset(["A"]).get_model_matrix(self.d1, context=self.ctx, drop_rows=drop)
        elif op == "P":
            mm = pickle.loads(pickle.dumps(self.ensure_spec1())).get_model_matrix(self.d2, context=self.ctx, drop_rows=drop)
        elif op in ("MF", "MN", "MR"):
            from formulaic.materializers import PandasMaterializer

            if self.mat is None:
                self.mat = PandasMaterializer(self.d2, context=self.ctx)
            if op == "MF":
                mm = self.mat.get_model_matrix(FORMULA, drop_rows=drop)
            elif op == "MN":
                mm = self.mat.get_model_matrix(FORMULA, output="sparse", drop_rows=drop)
            else:
                mm = self.mat.get_model_matrix(self.ensure_spec1(), drop_rows=drop)
        elif op in ("G1", "H1"):
            mm = model_matrix(XFORMULA, self.d1, context=self.ctx if op == "G1" else self.xctx, drop_rows=drop)
        elif op in ("GR", "HR"):           # fitted on d1 and reused at once on d2 (same context): the result shows what the fit recorded in the spec
            c = self.ctx if op == "GR" else self.xctx
            mm = model_matrix(XFORMULA, self.d1, context=c).model_spec.get_model_matrix(self.d2, context=c, drop_rows=drop)
        elif op in ("KB1", "KB3"):
            mm = model_matrix(KFORMULA, self.d1 if op == "KB1" else self.d3, drop_rows=drop)
        elif op in ("KF1", "KF3"):
            mm = self.kf.get_model_matrix(self.d1 if op == "KF1" else self.d3, drop_rows=drop)
        elif op in ("KU1", "KU3"):
            mm = self.ku.get_model_matrix(self.d1 if op == "KU1" else self.d3, drop_rows=drop)
        elif op == "UPD":
            mm = self.ensure_spec1().update(output="numpy").get_model_matrix(self.d2, context=self.ctx, drop_rows=drop)
        else:
            raise ValueError(op)
        return fp_matrix(mm, drop)


def run_history(hist):
    s = Session()
    needs = any(op in ("R", "S", "P", "UPD", "MR") for op in hist)
    rec = {"heap0": None, "steps": []}
    if needs:
        s.ensure_spec1()          # the spec of B1 is a live object from the start of such histories
    rec["heap0"] = s.heap_fps()
    for op in hist:
        try:
            fp = s.do(op)
        except Exception as e:  # noqa
            fp = "EXC:" + type(e).__name__
        rec["steps"].append({"op": op, "fp": fp, "heap": s.heap_fps()})
    return rec


def main():
    warnings.simplefilter("ignore")
    hists = json.load(open(sys.argv[1]))
    out = [{"id": x["id"], **run_history(x["hist"])} for x in hists]
    json.dump(out, open(sys.argv[2], "w"))


if __name__ == "__main__":
    main()
