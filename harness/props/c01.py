"""C01 - formula strings denote exactly the documented Wilkinson term algebra.

Leg M: TLC checks Impl (Wilkinson.tla) = Ref (WilkinsonRef.tla) on every token string in
       the bound, for every parser configuration, plus machine invariants.
Leg R: every enumerated (string, configuration) is parsed by the real parser and compared
       with the outcome the specification assigns.
Leg T: random grammatical formulas far beyond the bound are parsed by the real parser, the
       recorded outcomes are sent to TLC (Trace_Wilkinson) which re-evaluates the
       specification on the logged tokens and accepts or rejects each record.
"""
from __future__ import annotations

import json
import random

from ..common import Ctx, pmap
from ..tlc import MachineryError, read_emitted, run_tlc, workdir
from .. import palpha

CFGS: list = []


def _cfg_text(maxlen, alpha, cfgname, emit, invs):
    return (
        "SPECIFICATION Spec\nCONSTANTS\n"
        f"  MaxLen = {maxlen}\n  AlphaName = \"{alpha}\"\n  CfgName = \"{cfgname}\"\n  Emit = {'TRUE' if emit else 'FALSE'}\n"
        + "".join(f"INVARIANT {i}\n" for i in invs)
    )


def _join_parts(parts):
    return " | ".join(" + ".join(" & ".join(t) for t in p) if p else "{}" for p in parts)


def res_str(obs: dict) -> str:
    if obs["st"] == "OK" and obs["shape"] == "tree":
        return "tree#" + obs["tree"]
    if obs["st"] == "OK":
        return f"{obs['shape']}#{_join_parts(obs['lhs'])}#{_join_parts(obs['rhs'])}"
    return {"REJECT": "R"}.get(obs["st"], obs["st"] + ":" + str(obs.get("cls", obs.get("shape", ""))))


METHOD = {"0": None, "1": None, "a": "lookup", "b": "lookup", "c": "lookup", "x y": "lookup", "a:b": "lookup", "b:a": "lookup", "f(a)": "python", "2": "literal",
          '"s"': "literal"}


def _meth_ok(obs) -> bool:
    for side, ms in (("lhs", "m_lhs"), ("rhs", "m_rhs")):
        for p, mp in zip(obs[side], obs[ms]):
            for t, mt in zip(p, mp):
                for f, m in zip(t, mt):
                    if (METHOD.get(f, m) or m) != m:
                        return False
    return True


def replay_case(case: dict) -> list:
    """Returns a list of mismatch records for one emitted line."""
    s = " ".join(case["t"])
    out = []
    for k, cfg in enumerate(CFGS):
        exp_o, exp_r = case["o"][k], case["r"][k]
        if exp_r == "=":
            exp_r = exp_o
        if exp_o == "U":
            continue
        for what, exp, fn in (("get_terms", exp_r, palpha.parse_terms), ("Formula", exp_o, palpha.parse_formula)):
            obs = fn(s, cfg)
            got = res_str(obs)
            if got != exp or (obs["st"] == "OK" and not _meth_ok(obs)):
                if exp == "R" and obs["st"] in ("ESCAPED", "PYSYNTAX", "TIMEOUT"):
                    continue  # an escape is not a mis-read: C14 decides it
                out.append({"formula": s, "cfg": cfg, "via": what, "expected": exp, "observed": got,
                            "obs_detail": {k2: v for k2, v in obs.items() if k2 in ("cls", "msg")}})
    return out


def _enumerated(ctx: Ctx, maxlen: int, alpha: str, cfgname: str, slice_mod: int = 1) -> None:
    global CFGS
    out = workdir("c01") / f"cases-{alpha}-{maxlen}-{cfgname}.ndjson"
    if out.exists():
        out.unlink()
    r = run_tlc("MC_Wilkinson", _cfg_text(maxlen, alpha, cfgname, True,
                                          ["Refines", "NoSilentMisread", "FlagMonotone", "MachineOK", "EmitCase"]),
                tag="c01", env={"OUT_FILE": str(out)}, timeout=3000)
    if r.violated:
        ctx.model_violation(r, f"MC_Wilkinson {alpha} <= {maxlen}")
    ctx.add_tlc(r, f"Impl=Ref refinement, flag monotonicity, machine invariants, emission; alphabet={alpha}, len<={maxlen}, cfgs={cfgname}")
    lines = read_emitted(out)
    hdr = [x for x in lines if "cfgs" in x]
    cases = [x for x in lines if "t" in x]
    if len(hdr) != 1 or len(cases) != r.distinct:
        raise MachineryError(f"emission incomplete: {len(cases)} cases for {r.distinct} states")
    CFGS = [{"intercept": c["intercept"], "flags": c["flags"], "avail": {"present": c["present"], "vars": c["vars"]}}
            for c in hdr[0]["cfgs"]]
    if slice_mod > 1:
        cases = [c for i, c in enumerate(sorted(cases, key=lambda c: c["t"])) if i % slice_mod == ctx.seed % slice_mod]
    res = pmap("harness.props.c01", "replay_case", cases)
    ncfg = len(CFGS)
    lr = 0
    for c, mism in zip(cases, res):
        ctx.traces += 2 * ncfg
        ctx.evaluations += ncfg
        for k in range(ncfg):
            if c["o"][k] not in ("R", "U") and sum(1 for t in c["t"] if t in "+-*/:^~|%in%") >= 2:
                ctx.nontrivial.add((tuple(c["t"]), k))
            lr += c["lr"][k]
            if c["o"][k].startswith("tree#"):
                ctx.notes["nested_structure_outcomes_replayed"] = ctx.notes.get("nested_structure_outcomes_replayed", 0) + 1
        for m in mism:
            ctx.violation({"formula": m["formula"], "cfg": m["cfg"], "via": m["via"]}, m, kind="replay")
    for c in cases[:: max(1, len(cases) // 3)][:3]:
        ctx.sample({"tokens": c["t"], "expected_per_cfg": c["o"]})
    ctx.notes.setdefault("liberal_rejections_counted", 0)
    ctx.notes["liberal_rejections_counted"] += lr
    out.unlink()


def run(ctx: Ctx) -> None:
    ctx.rule = ("every token string over the model alphabet up to the bound x parser configurations; non-trivial = accepted "
                "by the specification and containing >= 2 operator tokens; distinct by (token string, configuration)")
    ctx.trusted = ["rendering of abstract tokens as text joined by single spaces", "alpha: Term.factors[i].expr / eval_method",
                   "TLC", "CommunityModules Json/CSV"]
    ctx.matchers = MATCHERS
    if ctx.quick:
        _enumerated(ctx, 4, "core", "quick")
        _enumerated(ctx, 3, "full", "quick")
        _enumerated(ctx, 5, "colon", "default")
        _enumerated(ctx, 7, "stage", "stage")
        _enumerated(ctx, 5, "dot", "quick")
        _enumerated(ctx, 4, "quoted", "default")
    else:
        _enumerated(ctx, 5, "core", "quick")
        _enumerated(ctx, 4, "core", "all")
        _enumerated(ctx, 4, "full", "quick")
        _enumerated(ctx, 6, "signs", "quick")
        _enumerated(ctx, 6, "colon", "quick")
        _enumerated(ctx, 8, "stage", "stage")
        _enumerated(ctx, 7, "stage2", "stage")
        _enumerated(ctx, 6, "dot", "quick")
        _enumerated(ctx, 5, "quoted", "quick")
    ctx.exhaustive = True
    from . import c01_trace

    c01_trace.run(ctx)


def _m_tokens(match, case, detail):
    toks = case.get("formula", "").split(" ")
    sub = match["tokens"]
    return any(toks[i : i + len(sub)] == sub for i in range(len(toks) - len(sub) + 1))


MATCHERS = {"token_subsequence": _m_tokens}


def replay(path: str) -> int:
    rec = json.load(open(path))
    case = rec["case"]
    for fn in (palpha.parse_terms, palpha.parse_formula):
        print(fn.__name__, repr(case["formula"]), case["cfg"], "->", res_str(fn(case["formula"], case["cfg"])))
    print("expected:", rec["detail"].get("expected"))
    return 0
