"""C17 - required variables, name resolution order and '.' expansion are exact.

Leg M: TLC checks (MC_Env) for every presence pattern of 4 names over the data and context layers
       (the transforms layer is fixed) x 7 formulas: sufficiency and necessity of the required
       variables as predicted by the resolution order data > context > transforms; and for every
       column order x left-hand side that '.' expands to the unused data columns in data order, whatever
       the right-hand side says about the intercept around it (`0 + .`, `-1 + .`, `. - 1`, `+.`, ...:
       DotRhs / HasIntercept) and whether or not the parser inserts an intercept.
       Two quoted names whose identifier-safe placeholders coincide (`x y`, `x-y`) inside one python
       factor are two names to the model ("q", "r"): every presence pattern of the two over data and
       context, with the same sufficiency / necessity laws.
       Calls that receive names by keyword (`np.clip(x, a_min=z, a_max=None)`, `I(np.clip(a=\`x y\`, a_min=x, a_max=None))`;
       np = the numpy module of the transforms layer): a keyword's value is read like a positional argument; every
       presence pattern of the names read over data and context, same laws.
Leg R: every case is executed with real frames, context mappings and the real TRANSFORMS:
       Formula.required_variables, success or FactorEvaluationError, cells (data and context hold
       different numbers, so the source of a value is observable), variables_by_source,
       ModelSpec.required_variables, the build on data restricted to the required columns, and the
       build with each required column removed.
"""
from __future__ import annotations

import json

import numpy

from ..common import Ctx, pmap, jhash
from ..tlc import MachineryError, read_emitted, run_tlc, workdir

DATA = {"x": [1.0, 2.0, 3.0], "z": [4.0, 5.0, 6.0], "I": [50.0, 60.0, 70.0], "q": [2.0, 2.0, 5.0], "r": [3.0, 1.0, 4.0]}
COLNAME = {"x": "x", "z": "z", "I": "I", "q": "x y", "r": "x-y"}
# "q" stands for any column whose name must be quoted: with a blank, a python keyword, a leading digit, a python constant, a dot
QSPELLINGS = ["x y", "class", "1a", "None", "p.q", "log.q"]
# "r" stands for a second quoted column whose placeholder inside python code is the same as that of "q": for every spelling of
# "q" a different name that the sanitizer maps to the same identifier (x_y, _class, _1a, _None, p_q, log_q)
RSPELLINGS = {"x y": "x-y", "class": "-class", "1a": "-1a", "None": "-None", "p.q": "p q", "log.q": "log q"}
BYKEY = {}


def ctx_for(names):
    c = {}
    for n in names:
        if n == "x":
            c["x"] = numpy.array([10.0, 20.0, 30.0])
        elif n == "z":
            c["z"] = numpy.array([7.0, 8.0, 9.0])
        elif n == "q":
            c[COLNAME["q"]] = numpy.array([11.0, 12.0, 13.0])
        elif n == "r":
            c[COLNAME["r"]] = numpy.array([21.0, 22.0, 23.0])
        elif n == "I":
            c["I"] = lambda v: v + 1000
    return c


def frame_for(names):
    import pandas

    df = pandas.DataFrame({COLNAME[n]: DATA[n] for n in names})
    if not names:
        df = pandas.DataFrame(index=range(3))
    return df


def base_name(v) -> str:
    """variables of attribute access are reported as dotted paths (z.T.T): the object read is the part before the first dot"""
    s, q = str(v), COLNAME["q"]
    if s == q or s.startswith(q + "."):
        return q            # (a quoted name may hold dots of its own)
    return s.split(".", 1)[0]


def observe(formula, data_names, ctx_names, cform="dict"):
    from formulaic import model_matrix
    from formulaic.errors import FactorEvaluationError
    from formulaic.utils.layered_mapping import LayeredMapping

    c = ctx_for(ctx_names)
    if cform == "lm":
        c = LayeredMapping(c)
    elif cform == "lm-named":
        c = LayeredMapping(c, name="user")
    try:
        mm = model_matrix(formula, frame_for(data_names), context=c, output="numpy")
    except FactorEvaluationError:
        return {"ok": False}
    except Exception as e:  # noqa
        return {"ok": False, "other": type(e).__name__ + ": " + str(e)[:100]}
    spec = mm.model_spec
    back = {v: k for k, v in COLNAME.items()}
    # the same right-hand side in a two-sided formula, re-materialized from the attached specs with an override and the same context
    reuse = None
    try:
        df2 = frame_for(data_names)
        df2["y0"] = [1.0, 2.0, 3.0]
        first = model_matrix("y0 ~ " + formula, df2, context=c)
        again = first.model_spec.get_model_matrix(df2, context=c, output="numpy")
        reuse = numpy.asarray(again.rhs, dtype=float).T.tolist()
    except Exception as e:  # noqa
        reuse = "EXC:" + type(e).__name__ + ": " + str(e)[:80]
    return {"ok": True, "names": list(spec.column_names), "cells": numpy.asarray(mm, dtype=float).T.tolist(), "reuse_cells": reuse,
            "sources": {back.get(base_name(v), base_name(v)): (v.source or "None") for v in sorted(spec.variables, key=lambda v: -len(str(v)))},
            "by_source": {str(k): sorted({back.get(base_name(v), base_name(v)) for v in vs}) for k, vs in spec.variables_by_source.items()},
            "required_after": sorted({back.get(base_name(v), base_name(v)) for v in spec.required_variables})}


def expected_of(case):
    if not case["ok"]:
        return {"ok": False}
    return {"ok": True, "names": [(c["name"].replace("q", COLNAME["q"]) if c["name"] in ("q", "q:x") else c["name"]).replace("`x-y`", "`" + COLNAME["r"] + "`").replace("x y", COLNAME["q"]) for c in case["columns"]],
            "cells": [[float(v) for v in c["vals"]] for c in case["columns"]], "sources": dict(case["sources"]),
            "required_after": sorted(case["required_after"])}


def replay_resolve(case):
    if "`x y`" not in case["formula"]:
        return _replay_resolve(case, case["formula"])
    bad, n = [], 0
    for sp in QSPELLINGS:
        COLNAME["q"], COLNAME["r"] = sp, RSPELLINGS[sp]
        try:
            b, k = _replay_resolve(case, case["formula"].replace("`x-y`", "`" + RSPELLINGS[sp] + "`").replace("`x y`", "`" + sp + "`"))
        finally:
            COLNAME["q"], COLNAME["r"] = "x y", "x-y"
        bad += b
        n += k
    return bad, n


def _replay_resolve(case, formula):
    from formulaic import Formula

    base = {"formula": formula, "data": case["data"], "context": case["context"], "context_form": case["cform"]}
    bad = []
    if formula == "0 + I + x" and "I" not in case["data"]:
        return [], 0        # the name then denotes the transform itself: looking a function up as a column is outside the property

    def cmp(what, obs, exp):
        if obs.get("other"):
            bad.append({**base, "why": what + ": unexpected exception type", "observed": obs["other"]})
            return
        if obs["ok"] != exp["ok"]:
            bad.append({**base, "why": what + (": must fail with a factor-evaluation error" if not exp["ok"] else ": must succeed"), "observed": obs.get("ok")})
            return
        if not exp["ok"]:
            return
        for k in ("names", "cells", "required_after"):
            if obs[k] != exp[k]:
                bad.append({**base, "why": f"{what}: {k}", "observed": obs[k], "expected": exp[k]})
        if obs.get("reuse_cells") != exp["cells"]:
            bad.append({**base, "why": f"{what}: two-sided specs re-materialized with an override and the same context", "observed": obs.get("reuse_cells"), "expected": exp["cells"]})
        if {k: v for k, v in obs["sources"].items() if k in exp["sources"]} != exp["sources"]:
            bad.append({**base, "why": f"{what}: reported source of each variable", "observed": obs["sources"], "expected": exp["sources"]})
        inv = {}
        for k, v in exp["sources"].items():
            inv.setdefault(v, []).append(k)
        for src, names in inv.items():
            if sorted(n for n in obs["by_source"].get(src, []) if n in exp["sources"]) != sorted(names):
                bad.append({**base, "why": f"{what}: variables_by_source[{src}]", "observed": obs["by_source"], "expected": inv})

    try:
        req = sorted({"q" if str(v) == COLNAME["q"] else "r" if str(v) == COLNAME["r"] else str(v) for v in Formula(formula).required_variables})
    except Exception as e:  # noqa
        req = "EXC:" + type(e).__name__
    if req != sorted(case["required_before"]):
        bad.append({**base, "why": "Formula.required_variables", "observed": req, "expected": sorted(case["required_before"])})
    exp = expected_of(case)
    cmp("build", observe(formula, case["data"], case["context"], case["cform"]), exp)
    n = 2
    if case["ok"] and formula == "0 + I + x":
        keep = [d for d in case["data"] if d in case["required_before"]]
        if not observe(formula, keep, case["context"], case["cform"])["ok"]:
            bad.append({**base, "why": "sufficiency: the reported required variables omit a data column named like a transform"})
        n += 1
    elif case["ok"]:
        # sufficiency: data restricted to exactly the required columns
        keep = [d for d in case["data"] if d in case["required_before"]]
        e2 = expected_of(BYKEY[(tuple(keep), tuple(case["context"]), case["formula"], case["cform"])])
        cmp("sufficiency (data restricted to the required variables)", observe(formula, keep, case["context"], case["cform"]), e2)
        if not e2["ok"]:
            bad.append({**base, "why": "model: restriction fails"})
        n += 1
        # necessity: remove each required data column
        for v in [d for d in case["data"] if d in case["required_before"]]:
            less = [d for d in case["data"] if d != v]
            cmp(f"necessity (column {COLNAME[v]!r} removed)", observe(formula, less, case["context"], case["cform"]), expected_of(BYKEY[(tuple(less), tuple(case["context"]), case["formula"], case["cform"])]))
            n += 1
    return bad, n


def replay_dot(case):
    import pandas
    from formulaic import Formula, model_matrix

    cols, lhs = case["cols"], sorted(case["lhs"])
    df = pandas.DataFrame({c: [1.0 + i, 2.0 * (i + 1), 7.0 - i] for i, c in enumerate(cols)})
    from ..matlib import quote

    # a column counts as used on the left-hand side however it is used there: by name, or inside a python expression
    # (by name / inside an arithmetic expression / through attribute access)
    wraps = [quote, (lambda v: "{" + quote(v) + " + 0}"), (lambda v: "{" + quote(v) + ".T}")]
    from formulaic.parser import DefaultFormulaParser

    # the right-hand side as the model spells it (case["rhs"]: `0 + .`, `-1 + .`, `. - 1`, `+.`, ...); written with blanks, and - for
    # the plain left-hand side - also without any (`y~-1+.`): the tokens are the same, so is the expansion
    named = lambda terms: ["Intercept" if t == "1" else t for t in terms]
    bad, n = [], 0
    for wrap, sep in ([(w, " ") for w in (wraps if lhs else wraps[:1])] + [(quote, "")]):
        left = (sep + "+" + sep).join(wrap(v) for v in lhs)
        rhs = case["rhs"].replace(" ", sep)
        formula = (left + sep + "~" + sep + rhs) if lhs else rhs
        base = {"formula": formula, "columns": cols}
        try:
            mm = model_matrix(formula, df, context={})
            side = mm.rhs if lhs else mm
            got = list(side.model_spec.column_names)
            if got != named(case["terms"]):
                bad.append({**base, "why": "'.' expansion", "observed": got, "expected": named(case["terms"])})
            # the variables the expanded side requires are the columns '.' stands for
            req = sorted(str(v) for v in side.model_spec.required_variables)
            if req != sorted(case["dot"]):
                bad.append({**base, "why": "'.' expansion: required variables of the expanded side", "observed": req, "expected": sorted(case["dot"])})
            f2 = Formula(formula, _context={"__formulaic_variables_available__": cols})
            terms = [str(t) for t in (f2.rhs if lhs else f2)]
            if terms != case["terms"]:
                bad.append({**base, "why": "'.' expansion with an explicit available-variable list", "observed": terms, "expected": case["terms"]})
            # a parser that inserts no intercept of its own: the same columns (HasIntercept starting from FALSE)
            f3 = Formula(formula, _parser=DefaultFormulaParser(include_intercept=False), _context={"__formulaic_variables_available__": cols})
            terms = [str(t) for t in (f3.rhs if lhs else f3)]
            if terms != case["terms_noauto"]:
                bad.append({**base, "why": "'.' expansion with an explicit available-variable list, parser without automatic intercept", "observed": terms, "expected": case["terms_noauto"]})
        except Exception as e:  # noqa
            bad.append({**base, "why": "exception", "observed": type(e).__name__ + ": " + str(e)[:120]})
        n += 3
    return bad, n


CAPTURE_SRC = """
def f2():
    {b2}
    return f1()
def f1():
    {b1}
    return f0()
def f0():
    {b0}
    return model_matrix("0 + I(x * v)", df, context={k}, output="numpy")
"""


def replay_capture(case):
    """model_matrix(..., context=k) called three frames deep: the name v is bound (or not) as a local of each frame, as a global, as a data column"""
    import pandas
    from formulaic import model_matrix
    from formulaic.errors import FactorEvaluationError

    df = pandas.DataFrame({"x": [1.0, 2.0, 3.0]})
    if case["indata"]:
        df["v"] = [1.0, 1.0, 1.0]
    g = {"model_matrix": model_matrix, "df": df}
    if case["inglobals"]:
        g["v"] = 7.0
    src = CAPTURE_SRC.format(k=case["k"], **{f"b{i}": (f"v = {10.0 * (i + 1)}" if case["stack"][i] else "pass") for i in range(3)})
    exec(compile(src, "<capture>", "exec"), g)
    base = {"formula": "0 + I(x * v)", "data": ["v"] if case["indata"] else [], "context": {"locals_of_frames": case["stack"], "global": case["inglobals"], "context_arg": case["k"]}}
    try:
        mm = g["f2"]()
        got = [float(t) for t in numpy.asarray(mm, dtype=float)[:, 0]]
        srcs = {str(v): v.source for v in mm.model_spec.variables if str(v) == "v"}
    except FactorEvaluationError:
        got, srcs = None, {}
    except Exception as e:  # noqa
        return [{**base, "why": "captured context: unexpected exception", "observed": type(e).__name__ + ": " + str(e)[:120]}], 1
    exp = None if case["layer"] == "MISSING" else [float(case["value"]) * t for t in (1.0, 2.0, 3.0)]
    bad = []
    if got != exp:
        bad.append({**base, "why": "captured context: the value of the name comes from the wrong place", "observed": got, "expected": exp, "expected_layer": case["layer"]})
    elif exp is not None and srcs.get("v") != ("data" if case["layer"] == "data" else "context"):
        bad.append({**base, "why": "captured context: reported source", "observed": srcs, "expected": case["layer"]})
    return bad, 1


def replay_case(case):
    return {"resolve": replay_resolve, "dot": replay_dot, "capture": replay_capture}[case["kind"]](case)


def _m_dotted(match, case, detail):
    """D37: a value reached through attribute access is reported by its dotted path, which is not a column name"""
    obs, exp = detail.get("observed"), detail.get("expected")
    return (detail.get("why") == "Formula.required_variables" and isinstance(obs, list) and isinstance(exp, list) and any("." in o for o in obs)
            and sorted({base_name(o) for o in obs}) == sorted(exp))


def _m_transforms_name(match, case, detail):
    return detail.get("why", "").startswith("sufficiency: the reported required variables omit a data column named like a transform")


MATCHERS = {"required_variables_of_transform_named_column": _m_transforms_name, "required_variables_dotted_attribute_path": _m_dotted}


def run(ctx: Ctx) -> None:
    global BYKEY
    ctx.rule = ("256 presence patterns of the names x, z, I (also a transform), `x y` (needs quoting) over data and context x 7 formulas (plain, quoted, call, "
                "brace expression, interaction; calls with keyword arguments whose values are names: every pattern of the names read); 120 (column order, left-hand side incl. a name that needs quoting) cases for '.'; non-trivial = some name present in two layers")
    ctx.trusted = ["the concrete values placed in data / context (different per layer so that the source is observable)", "TLC"]
    ctx.matchers = MATCHERS
    out = workdir("c17") / "cases.ndjson"
    out.unlink(missing_ok=True)
    r = run_tlc("MC_Env", "SPECIFICATION Spec\nCONSTANTS\n  Emit = TRUE\nINVARIANT Laws\nINVARIANT DotLaw\nINVARIANT CaptureLaw\nINVARIANT EmitCase\n", tag="c17", env={"OUT_FILE": str(out)}, timeout=1200)
    if r.violated:
        ctx.model_violation(r, "MC_Env")
    ctx.add_tlc(r, "sufficiency / necessity under the resolution order, '.' expansion law, captured-frame law + emission")
    cases = read_emitted(out)
    out.unlink()
    if len(cases) != r.distinct:
        raise MachineryError(f"emission incomplete: {len(cases)} of {r.distinct}")
    BYKEY = {(tuple(c["data"]), tuple(c["context"]), c["formula"], c["cform"]): c for c in cases if c["kind"] == "resolve"}
    res = pmap("harness.props.c17", "replay_case", cases, chunk=20)
    for c, (bad, n) in zip(cases, res):
        ctx.traces += n
        ctx.evaluations += n
        if c["kind"] == "resolve" and set(c["data"]) & set(c["context"]):
            ctx.nontrivial.add(jhash([c["data"], c["context"], c["formula"]]))
        for b in bad:
            ctx.violation({k: b.get(k) for k in ("formula", "data", "context", "context_form", "columns")} | {"why": b["why"]}, b, kind="replay")
    for c in [c for c in cases if c["kind"] == "resolve" and c["formula"] == "0 + I(x) + z" and c["data"] == ["z"] and c["context"] == ["x", "I"]][:1]:
        ctx.sample({"formula": c["formula"], "data": c["data"], "context": c["context"], "expected_sources": c["sources"], "columns": c["columns"]})
    ctx.exhaustive = True


def replay(path: str) -> int:
    rec = json.load(open(path))
    print(json.dumps(rec["detail"], indent=1)[:3000])
    return 0
