"""C19 histories: LayeredMapping and SimpleFormula-as-sequence replayed step by step."""
from __future__ import annotations

import copy
import json

from ..common import Ctx, pmap, jhash
from ..tlc import MachineryError, read_emitted, run_tlc, workdir

EXTRA = {"q": 99, "s": 98}
ALLKEYS = ["p", "q", "r", "s", "zz"]

# gamma side: the model's plain mapping (LayeredMapping.tla: a sequence of <<key, value>> pairs, `Has` = the keys it holds) is
# realised twice - as a dict, and as a mapping with a `__missing__` hook (collections.defaultdict; any dict subclass defining
# __missing__ behaves the same).  Such a mapping still *holds* only its own keys, so every expected outcome is unchanged; but
# indexing it with a key it does not hold answers the hook's value and inserts the key, so a lookup that indexes a layer before
# asking whether the layer holds the key stops falling through to the lower layers and writes to a supplied layer.
HOOK_DEFAULT = -7            # no value of the models
REALISATIONS = ("dict", "defaultdict")


def _hook_default():
    return HOOK_DEFAULT


def mk_layer(real: str, d: dict):
    from collections import defaultdict

    return d if real == "dict" else defaultdict(_hook_default, d)


def lm_config(i: int, real: str = "dict"):
    """mirror of MC_LayeredMapping!Configs; returns (mapping, list of supplied plain dicts)"""
    from formulaic.utils.layered_mapping import LayeredMapping as LMp

    if i == 1:
        d = [mk_layer(real, x) for x in ({"p": 10}, {"q": 21, "p": 20})]
        return LMp(d[0], None, d[1]), d
    if i == 2:
        d = [mk_layer(real, x) for x in ({"p": 10}, {"q": 21, "p": 20}, {"r": 30, "q": 31})]
        return LMp(LMp(d[0], name="data"), LMp(d[1], name="context"), LMp(d[2], name="transforms")), d
    if i == 3:
        d = [mk_layer(real, x) for x in ({"p": 10}, {"r": 6}, {"q": 21})]
        inner = LMp(d[0], d[1], name="inner")
        inner["r"] = 5
        return LMp(inner, d[2], name="top"), d + [inner._mutations]
    return LMp(None), []


def replay_lm(case):
    return [b for real in REALISATIONS for b in _replay_lm(case, real)]


def _replay_lm(case, real):
    lm, supplied = lm_config(case["cfg"], real)
    before = copy.deepcopy(supplied)
    extra = mk_layer(real, dict(EXTRA))
    last = "init"
    bad = []
    for op in case["hist"]:
        try:
            if op["op"] == "set":
                lm[op["k"]] = op["v"]
            elif op["op"] == "del":
                del lm[op["k"]]
            else:
                r = lm.with_layers(extra, prepend=op["k"] == "prepend", inplace=True)
                if r is not lm:
                    bad.append({"why": "with_layers(inplace=True) returned another object"})
            last = "ok"
        except KeyError:
            last = "KeyError"
        except Exception as e:  # noqa
            last = "EXC:" + type(e).__name__
    obs = {
        "last": last,
        "items": [[k, v] for k, v in lm.items()],
        "len": len(lm),
        "src": {},
        "named": sorted(lm.named_layers),
        "keys_iter": list(lm),
        "contains": {k: (k in lm) for k in ALLKEYS},
    }
    for k in ALLKEYS:
        v, name = lm.get_with_layer_name(k, default="MISSING")
        obs["src"][k] = [str(v), name or ""]
    exp = {"last": case["last"], "items": [list(x) for x in case["items"]], "len": case["len"],
           "src": {k: list(v) for k, v in case["src"].items()}, "named": sorted(case["named"])}
    for f in ("last", "items", "len", "src", "named"):
        if obs[f] != exp[f]:
            bad.append({"why": f"{f} differs", "observed": obs[f], "expected": exp[f]})
    if obs["keys_iter"] != [k for k, _ in exp["items"]] or len(set(obs["keys_iter"])) != obs["len"]:
        bad.append({"why": "iteration/length inconsistent", "observed": obs["keys_iter"]})
    for k in ALLKEYS:
        present = k in [x[0] for x in exp["items"]]
        if obs["contains"][k] != present:
            bad.append({"why": f"contains({k})", "observed": obs["contains"][k]})
        try:
            v = lm[k]
            if not present or v != dict(map(tuple, exp["items"]))[k]:
                bad.append({"why": f"getitem({k})", "observed": v})
        except KeyError:
            if present:
                bad.append({"why": f"getitem({k}) raised KeyError"})
    if supplied != before or extra != EXTRA:
        bad.append({"why": "a supplied layer was mutated", "observed": supplied, "expected": before})
    return [{"container": "LayeredMapping", "layers_as": real, "cfg": case["cfg"], "hist": case["hist"], **b} for b in bad]


# ------------------------------------------------------------------ LayeredMapping objects holding each other by reference
def heap_config(i: int, real: str = "dict"):
    """mirror of MC_LayeredHeap!Configs: the list of objects, index = heap index - 1"""
    from formulaic.utils.layered_mapping import LayeredMapping as LMp

    if i == 1:
        d = mk_layer(real, {"p": 10, "q": 20})
        return [d, LMp(d)]
    if i == 2:
        d = mk_layer(real, {"p": 10, "q": 20})
        return [d, LMp(d, name="base")]
    if i == 3:
        d = mk_layer(real, {"q": 20, "p": 10})
        m = LMp(d)
        m["s"] = 5
        return [d, m]
    return [LMp()]


def replay_heap(case):
    return [b for real in REALISATIONS for b in _replay_heap(case, real)]


def _replay_heap(case, real):
    """The whole object graph is built by the history; every object (the old ones too) is read only after the last operation,
    so a child that snapshotted its parent, a parent that wrote through to a supplied dict, ... all show up as a stale / foreign read."""
    from formulaic.utils.layered_mapping import LayeredMapping as LMp

    objs = heap_config(case["cfg"], real)      # the plain dicts of the heap in both realisations (see mk_layer)
    last = "init"
    bad = []
    for n, op in enumerate(case["hist"], 1):
        o = objs[op["o"] - 1]
        extra = mk_layer(real, {"q": 300 + n, "s": 400 + n})
        # None layers are dropped by __filter_layers wherever they stand: interleaved on every other step
        pad = (None,) if n % 2 else ()
        try:
            if op["op"] in ("set", "poke"):
                o[op["k"]] = op["v"]
            elif op["op"] == "del":
                del o[op["k"]]
            elif op["op"] == "derive":
                objs.append(extra)
                if op["mode"] == "ctor":
                    objs.append(LMp(*pad, extra, *pad, o, name=op["name"] or None))
                else:
                    objs.append(o.with_layers(*pad, extra, *pad, prepend=op["mode"] == "prepend", name=op["name"] or None))
                if objs[-1] is o:
                    bad.append({"why": "deriving returned the parent itself", "step": n})
            elif op["op"] == "join":
                objs.append(LMp(o, *pad, objs[op["b"] - 1]))
            elif op["op"] == "grow":
                objs.append(extra)
                if o.with_layers(extra, *pad, prepend=op["mode"] == "prepend", inplace=True) is not o:
                    bad.append({"why": "with_layers(inplace=True) returned another object", "step": n})
            last = "ok"
        except KeyError:
            last = "KeyError"
        except Exception as e:  # noqa
            last = "EXC:" + type(e).__name__
    if last != case["last"]:
        bad.append({"why": "result of last operation differs", "observed": last, "expected": case["last"]})
    if len(objs) != len(case["objs"]):
        bad.append({"why": "number of objects differs", "observed": len(objs), "expected": len(case["objs"])})
    keys = ["p", "q", "s", "zz"]
    for i, (x, e) in enumerate(zip(objs, case["objs"]), 1):
        exp_items = [list(p) for p in e["items"]]
        exp = dict(map(tuple, exp_items))

        def chk(why, got, want):
            if got != want:
                bad.append({"why": why, "object": i, "given_layers": e["given"], "observed": got, "expected": want})

        if e["kind"] == "dict":
            chk("a plain dict differs from what its owner wrote", [[k, v] for k, v in x.items()] if isinstance(x, dict) else repr(x)[:80], exp_items)
            continue
        if not isinstance(x, LMp):
            chk("not a LayeredMapping", repr(x)[:80], "LayeredMapping")
            continue
        chk("items() is not the top-first merge of the private layer and the layers given", _try_lm(lambda: [[k, v] for k, v in x.items()]), exp_items)
        chk("iteration", _try_lm(lambda: list(x)), [k for k, _ in exp_items])
        chk("len", _try_lm(lambda: len(x)), e["len"])
        chk("private layer", [[k, v] for k, v in x._mutations.items()], [list(p) for p in e["mut"]])
        chk("name", x.name or "", e["name"])
        for k in keys:
            chk(f"contains({k})", _try_lm(lambda: k in x), k in exp)
            chk(f"getitem({k})", _try_lm(lambda: x[k]), exp.get(k, "KeyError"))
            chk(f"get({k})", _try_lm(lambda: x.get(k, "KeyError")), exp.get(k, "KeyError"))
    # reading is not writing: after all the lookups above (also of keys no layer holds) every plain dict still holds what its owner wrote
    for i, (x, e) in enumerate(zip(objs, case["objs"]), 1):
        if e["kind"] == "dict" and isinstance(x, dict) and [[k, v] for k, v in x.items()] != [list(p) for p in e["items"]]:
            bad.append({"why": "reading the mappings changed a plain dict they were given", "object": i, "observed": [[k, v] for k, v in x.items()], "expected": [list(p) for p in e["items"]]})
    return [{"container": "LayeredMapping", "layers_as": real, "cfg": case["cfg"], "hist": [_short(h) for h in case["hist"]], **b} for b in bad]


def _try_lm(fn):
    try:
        return fn()
    except KeyError:
        return "KeyError"
    except Exception as e:  # noqa
        return "EXC:" + type(e).__name__


def _short(h):
    return {k: v for k, v in h.items() if v not in ("", 0) or k in ("op", "o")}


def mk_term(name: str):
    from formulaic.parser.types import Factor, Term

    fs = []
    for e in name.split(":"):
        fs.append(Factor(e, eval_method="literal" if e.isdigit() else "lookup"))
    return Term(fs)


def replay_fs(case):
    from formulaic.formula import SimpleFormula

    mode = case["mode"]
    f = SimpleFormula([mk_term(n) for n in case["start"]], _ordering=mode)
    last = "init"
    bad = []
    for op in case["hist"]:
        o = op["op"]
        try:
            if o == "insert":
                f.insert(op["i"], mk_term(op["t"]))
            elif o == "setitem":
                f[op["i"]] = mk_term(op["t"])
            elif o == "delitem":
                del f[op["i"]]
            elif o == "append":
                f.append(mk_term(op["t"]))
            elif o == "pop":
                last = str(f.pop())
                continue
            elif o == "remove":
                f.remove(mk_term(op["t"]))
            elif o == "setslice":
                f[op["i"] : op["j"]] = [mk_term(n) for n in op["t"].split(",")]
            elif o == "delslice":
                del f[op["i"] : op["j"]]
            elif o == "extend":
                f.extend([mk_term(n) for n in op["t"].split(",")])
            last = "ok"
        except IndexError:
            last = "IndexError"
        except ValueError:
            last = "ValueError"
        except Exception as e:  # noqa
            last = "EXC:" + type(e).__name__
        degs = [t.degree for t in f]
        if mode == "degree" and degs != sorted(degs):
            bad.append({"why": "ordering invariant broken after " + o, "observed": [str(t) for t in f]})
        if mode == "sort" and (list(f) != sorted(f) or any(list(t.factors) != sorted(t.factors) for t in f)):
            bad.append({"why": "sort-ordering invariant broken after " + o, "observed": [str(t) for t in f]})
    got = [str(t) for t in f]
    if got != case["terms"]:
        bad.append({"why": "terms differ", "observed": got, "expected": case["terms"]})
    if last != case["last"]:
        bad.append({"why": "result of last operation differs", "observed": last, "expected": case["last"]})
    if len(f) != len(case["terms"]):
        bad.append({"why": "len differs", "observed": len(f)})
    return [{"container": "SimpleFormula", "ordering": mode, "start": case["start"], "hist": case["hist"], **b} for b in bad]


def _leg(ctx: Ctx, module: str, fn: str, maxops: int, props: str, what: str, consts: str = "", deep: int = 8, num: int | None = None):
    out = workdir("c19") / f"{module}.ndjson"
    out.unlink(missing_ok=True)
    cfg = f"SPECIFICATION Spec\nCONSTANTS\n  MaxOps = {maxops}\n  Emit = TRUE\n{consts}{props}INVARIANT EmitCase\n"
    r = run_tlc(module, cfg, tag="c19", env={"OUT_FILE": str(out)}, timeout=3000)
    if r.violated:
        ctx.model_violation(r, module)
    ctx.add_tlc(r, f"{what}; histories <= {maxops} operations")
    cases = read_emitted(out)
    if len(cases) != r.distinct:
        raise MachineryError(f"emission incomplete: {len(cases)} of {r.distinct}")
    res = pmap("harness.props.c19_hist", fn, cases, chunk=500)
    for c, bad in zip(cases, res):
        ctx.traces += 1
        ctx.evaluations += 1 if fn == "replay_fs" else len(REALISATIONS)      # the mapping histories are executed once per realisation of the layers
        if len(c["hist"]) >= 2:
            ctx.nontrivial.add(jhash([module, c.get("cfg", c.get("start")), c.get("mode"), c["hist"]]))
        for b in bad:
            ctx.violation({"container": b["container"], "ordering": b.get("ordering"), "start": b.get("start", b.get("cfg")), "hist": b["hist"]}, b, kind="replay")
    # deep histories: random behaviours of the same specification (tlc -simulate)
    from ..tlc import simulate_emitted

    sr, srecs = simulate_emitted(module, cfg.replace(f"MaxOps = {maxops}", f"MaxOps = {deep}"), "c19s", num=num or (60 if ctx.quick else 1000), depth=deep + 2, seed=ctx.seed + 1)
    if sr.violated:
        ctx.model_violation(sr, module + " (simulation)")
    seen = set()
    uniq = [c for c in srecs if len(c["hist"]) > maxops and (k := json.dumps([c.get("cfg", c.get("start")), c.get("mode"), c["hist"]], sort_keys=True)) not in seen and not seen.add(k)]
    sres = pmap("harness.props.c19_hist", fn, uniq, chunk=500)
    for c, bad in zip(uniq, sres):
        ctx.traces += 1
        ctx.evaluations += 1 if fn == "replay_fs" else len(REALISATIONS)      # the mapping histories are executed once per realisation of the layers
        ctx.nontrivial.add(jhash([module, c.get("cfg", c.get("start")), c.get("mode"), c["hist"]]))
        for b in bad:
            ctx.violation({"container": b["container"], "ordering": b.get("ordering"), "start": b.get("start", b.get("cfg")), "hist": b["hist"]}, b, kind="replay")
    ctx.require(f"{module}: simulated histories longer than the exhaustive bound", len(uniq), 300)
    ctx.tlc_runs.append({"module": module, "what": f"-simulate: random histories of <= {deep} operations", "generated": sr.generated, "distinct": len(uniq), "depth": deep,
                         "wall_s": round(sr.wall_s, 2)})
    mid = [c for c in cases if len(c["hist"]) == maxops][:1]
    for c in mid:
        ctx.sample({module: {"history": c["hist"], "expected": c.get("items", c.get("terms"))}})
    out.unlink()


def run(ctx: Ctx) -> None:
    _leg(ctx, "MC_LayeredMapping", "replay_lm", 3 if ctx.quick else 4, "INVARIANT Laws\nPROPERTY FrameLaw\n",
         "LayeredMapping: top-first merge, length/iteration/lookup consistency, source names, frame law (supplied layers never written)")
    # layers are references, not values: the object graph (children derived from / joined with mappings that are written to, grown in
    # place or whose plain dicts change afterwards).  Exhaustive to 2 (quick) / 3 operations - the heap grows by up to two objects per
    # operation, so 3 operations are already 69 k graphs - and random graphs of <= 5 operations beyond that.
    heap_consts = '  Variant = "code"\n'
    heap_max = 2 if ctx.quick else 3
    _leg(ctx, "MC_LayeredHeap", "replay_heap", heap_max, "INVARIANT Laws\nPROPERTY FrameLaw\n",
         "LayeredMapping objects holding each other by reference: every mapping is the top-first merge of its private layer and of what the layers "
         "it was given hold when it is read; an operation changes only the object it is applied to", consts=heap_consts, deep=5, num=40 if ctx.quick else 600)
    # the merge law is not vacuous on the bounded graphs: TLC refutes the design in which __filter_layers splices (snapshots) nested mappings
    v = run_tlc("MC_LayeredHeap", f"SPECIFICATION Spec\nCONSTANTS\n  MaxOps = {heap_max}\n  Emit = FALSE\n  Variant = \"splice\"\nINVARIANT Laws\nINVARIANT EmitCase\n", tag="c19", timeout=3000)
    if "Laws" not in v.violated:
        raise MachineryError("MC_LayeredHeap variant splice does not violate the merge law: the bounded model is vacuous")
    ctx.notes["layered_heap_variant_splice"] = "violates " + ",".join(v.violated)
    _leg(ctx, "MC_FormulaSeq", "replay_fs", 2 if ctx.quick else 3, "INVARIANT OrderingInvariant\nPROPERTY MultisetLaw\nPROPERTY ListLaw\n",
         "SimpleFormula as a sequence under the ordering modes none/degree/sort: ordering invariant, multiset law and list law after every operation")
