"""C19 histories: LayeredMapping and SimpleFormula-as-sequence replayed step by step."""
from __future__ import annotations

import copy
import json

from ..common import Ctx, pmap, jhash
from ..tlc import MachineryError, read_emitted, run_tlc, workdir

EXTRA = {"q": 99, "s": 98}
ALLKEYS = ["p", "q", "r", "s", "zz"]


def lm_config(i: int):
    """mirror of MC_LayeredMapping!Configs; returns (mapping, list of supplied plain dicts)"""
    from formulaic.utils.layered_mapping import LayeredMapping as LMp

    if i == 1:
        d = [{"p": 10}, {"q": 21, "p": 20}]
        return LMp(d[0], None, d[1]), d
    if i == 2:
        d = [{"p": 10}, {"q": 21, "p": 20}, {"r": 30, "q": 31}]
        return LMp(LMp(d[0], name="data"), LMp(d[1], name="context"), LMp(d[2], name="transforms")), d
    if i == 3:
        d = [{"p": 10}, {"r": 6}, {"q": 21}]
        inner = LMp(d[0], d[1], name="inner")
        inner["r"] = 5
        return LMp(inner, d[2], name="top"), d + [inner._mutations]
    return LMp(None), []


def replay_lm(case):
    lm, supplied = lm_config(case["cfg"])
    before = copy.deepcopy(supplied)
    extra = dict(EXTRA)
    last = "init"
    bad = []
    for op in case["hist"]:
        try:
            if op["op"] == "set":
                lm[op["k"]] = op["v"]
            elif op["op"] == "del":
                del lm[op["k"]]
            else:
                r = lm.with_layers(extra, prepend=op["k"] == "prepend", inplace=True)
                if r is not lm:
                    bad.append({"why": "with_layers(inplace=True) returned another object"})
            last = "ok"
        except KeyError:
            last = "KeyError"
        except Exception as e:  # noqa
            last = "EXC:" + type(e).__name__
    obs = {
        "last": last,
        "items": [[k, v] for k, v in lm.items()],
        "len": len(lm),
        "src": {},
        "named": sorted(lm.named_layers),
        "keys_iter": list(lm),
        "contains": {k: (k in lm) for k in ALLKEYS},
    }
    for k in ALLKEYS:
        v, name = lm.get_with_layer_name(k, default="MISSING")
        obs["src"][k] = [str(v), name or ""]
    exp = {"last": case["last"], "items": [list(x) for x in case["items"]], "len": case["len"],
           "src": {k: list(v) for k, v in case["src"].items()}, "named": sorted(case["named"])}
    for f in ("last", "items", "len", "src", "named"):
        if obs[f] != exp[f]:
            bad.append({"why": f"{f} differs", "observed": obs[f], "expected": exp[f]})
    if obs["keys_iter"] != [k for k, _ in exp["items"]] or len(set(obs["keys_iter"])) != obs["len"]:
        bad.append({"why": "iteration/length inconsistent", "observed": obs["keys_iter"]})
    for k in ALLKEYS:
        present = k in [x[0] for x in exp["items"]]
        if obs["contains"][k] != present:
            bad.append({"why": f"contains({k})", "observed": obs["contains"][k]})
        try:
            v = lm[k]
            if not present or v != dict(map(tuple, exp["items"]))[k]:
                bad.append({"why": f"getitem({k})", "observed": v})
        except KeyError:
            if present:
                bad.append({"why": f"getitem({k}) raised KeyError"})
    if supplied != before or extra != EXTRA:
        bad.append({"why": "a supplied layer was mutated", "observed": supplied, "expected": before})
    return [{"container": "LayeredMapping", "cfg": case["cfg"], "hist": case["hist"], **b} for b in bad]


def mk_term(name: str):
    from formulaic.parser.types import Factor, Term

    fs = []
    for e in name.split(":"):
        fs.append(Factor(e, eval_method="literal" if e.isdigit() else "lookup"))
    return Term(fs)


def replay_fs(case):
    from formulaic.formula import SimpleFormula

    mode = case["mode"]
    f = SimpleFormula([mk_term(n) for n in case["start"]], _ordering=mode)
    last = "init"
    bad = []
    for op in case["hist"]:
        o = op["op"]
        try:
            if o == "insert":
                f.insert(op["i"], mk_term(op["t"]))
            elif o == "setitem":
                f[op["i"]] = mk_term(op["t"])
            elif o == "delitem":
                del f[op["i"]]
            elif o == "append":
                f.append(mk_term(op["t"]))
            elif o == "pop":
                last = str(f.pop())
                continue
            elif o == "remove":
                f.remove(mk_term(op["t"]))
            elif o == "setslice":
                f[op["i"] : op["j"]] = [mk_term(n) for n in op["t"].split(",")]
            elif o == "delslice":
                del f[op["i"] : op["j"]]
            elif o == "extend":
                f.extend([mk_term(n) for n in op["t"].split(",")])
            last = "ok"
        except IndexError:
            last = "IndexError"
        except ValueError:
            last = "ValueError"
        except Exception as e:  # noqa
            last = "EXC:" + type(e).__name__
        degs = [t.degree for t in f]
        if mode == "degree" and degs != sorted(degs):
            bad.append({"why": "ordering invariant broken after " + o, "observed": [str(t) for t in f]})
        if mode == "sort" and (list(f) != sorted(f) or any(list(t.factors) != sorted(t.factors) for t in f)):
            bad.append({"why": "sort-ordering invariant broken after " + o, "observed": [str(t) for t in f]})
    got = [str(t) for t in f]
    if got != case["terms"]:
        bad.append({"why": "terms differ", "observed": got, "expected": case["terms"]})
    if last != case["last"]:
        bad.append({"why": "result of last operation differs", "observed": last, "expected": case["last"]})
    if len(f) != len(case["terms"]):
        bad.append({"why": "len differs", "observed": len(f)})
    return [{"container": "SimpleFormula", "ordering": mode, "start": case["start"], "hist": case["hist"], **b} for b in bad]


def _leg(ctx: Ctx, module: str, fn: str, maxops: int, props: str, what: str):
    out = workdir("c19") / f"{module}.ndjson"
    out.unlink(missing_ok=True)
    cfg = f"SPECIFICATION Spec\nCONSTANTS\n  MaxOps = {maxops}\n  Emit = TRUE\n{props}INVARIANT EmitCase\n"
    r = run_tlc(module, cfg, tag="c19", env={"OUT_FILE": str(out)}, timeout=3000)
    if r.violated:
        ctx.model_violation(r, module)
    ctx.add_tlc(r, f"{what}; histories <= {maxops} operations")
    cases = read_emitted(out)
    if len(cases) != r.distinct:
        raise MachineryError(f"emission incomplete: {len(cases)} of {r.distinct}")
    res = pmap("harness.props.c19_hist", fn, cases, chunk=500)
    for c, bad in zip(cases, res):
        ctx.traces += 1
        ctx.evaluations += 1
        if len(c["hist"]) >= 2:
            ctx.nontrivial.add(jhash([module, c.get("cfg", c.get("start")), c.get("mode"), c["hist"]]))
        for b in bad:
            ctx.violation({"container": b["container"], "ordering": b.get("ordering"), "start": b.get("start", b.get("cfg")), "hist": b["hist"]}, b, kind="replay")
    # deep histories: random behaviours of the same specification (tlc -simulate)
    from ..tlc import simulate_emitted

    deep = 8
    sr, srecs = simulate_emitted(module, cfg.replace(f"MaxOps = {maxops}", f"MaxOps = {deep}"), "c19s", num=60 if ctx.quick else 1000, depth=deep + 2, seed=ctx.seed + 1)
    if sr.violated:
        ctx.model_violation(sr, module + " (simulation)")
    seen = set()
    uniq = [c for c in srecs if len(c["hist"]) > maxops and (k := json.dumps([c.get("cfg", c.get("start")), c.get("mode"), c["hist"]], sort_keys=True)) not in seen and not seen.add(k)]
    sres = pmap("harness.props.c19_hist", fn, uniq, chunk=500)
    for c, bad in zip(uniq, sres):
        ctx.traces += 1
        ctx.evaluations += 1
        ctx.nontrivial.add(jhash([module, c.get("cfg", c.get("start")), c.get("mode"), c["hist"]]))
        for b in bad:
            ctx.violation({"container": b["container"], "ordering": b.get("ordering"), "start": b.get("start", b.get("cfg")), "hist": b["hist"]}, b, kind="replay")
    ctx.require(f"{module}: simulated histories longer than the exhaustive bound", len(uniq), 300)
    ctx.tlc_runs.append({"module": module, "what": f"-simulate: random histories of <= {deep} operations", "generated": sr.generated, "distinct": len(uniq), "depth": deep,
                         "wall_s": round(sr.wall_s, 2)})
    mid = [c for c in cases if len(c["hist"]) == maxops][:1]
    for c in mid:
        ctx.sample({module: {"history": c["hist"], "expected": c.get("items", c.get("terms"))}})
    out.unlink()


def run(ctx: Ctx) -> None:
    _leg(ctx, "MC_LayeredMapping", "replay_lm", 3 if ctx.quick else 4, "INVARIANT Laws\nPROPERTY FrameLaw\n",
         "LayeredMapping: top-first merge, length/iteration/lookup consistency, source names, frame law (supplied layers never written)")
    _leg(ctx, "MC_FormulaSeq", "replay_fs", 2 if ctx.quick else 3, "INVARIANT OrderingInvariant\nPROPERTY MultisetLaw\nPROPERTY ListLaw\n",
         "SimpleFormula as a sequence under the ordering modes none/degree/sort: ordering invariant, multiset law and list law after every operation")
