"""C02 - every model-matrix column holds exactly the product its name denotes.

Leg M: TLC checks on every (formula, frame, options) in the bound (MC_Materialize): with rank
       reduction off each term contributes the complete Kronecker product of the full encodings
       (column count = product of widths), the intercept is a column of ones, the literal scale
       is carried exactly once by every emitted scoped term.
Leg T: random frames (1-12 rows, up to 5 levels, nulls, declared categoricals), random formulas over 3 numeric
       and 3 categorical variables with C(...) contrasts and literal scales, random options, recorded from the
       real code and validated by TLC (Trace_Materialize).
Leg R: every enumerated case is built by model_matrix for the pandas, numpy and sparse outputs;
       names (from the attached spec and, for pandas, the frame labels) and every cell are
       compared with the matrix the specification computes in exact integers.
       MC_MatLevels: the levels of a categorical factor named in the formula (C(A, levels=[...]), 4 orders) or recorded by the spec
       attached to a first matrix, against the STORAGE of the column (objects / a categorical dtype declaring the levels in 4 orders);
       TLC proves that a column e[l] is the indicator of the value l whatever the storage, refutes the design that reads the dtype's
       integer codes against the given levels (Variant "codes"), and emits every case for the replay (3 outputs + re-application).
"""
from __future__ import annotations

import json

from ..common import Ctx, pmap, jhash
from ..tlc import MachineryError
from .. import matlib

FRAMES = {}
OUTPUTS = ["pandas", "numpy", "sparse"]


def replay_case(case):
    if case["fails"] or case["empty"]:
        return []
    formula = matlib.render_formula(case["written"], case["icpt"])
    h0 = sum(map(ord, formula)) + case["fid"] + (7 if case["full_rank"] else 0)
    df = matlib.gamma_frame(FRAMES[case["fid"]], index_kind=["default", "strings", "unsorted"][h0 % 3])
    bad = []
    # every output through the top-level function, and one (rotating) output again through the spec attached to the first result
    h = sum(map(ord, formula)) + case["fid"]
    for output, path in [(o, "sugar") for o in OUTPUTS] + [(OUTPUTS[h % len(OUTPUTS)], "attached")]:
        o = matlib.observe_build(formula, df, output=output, full_rank=case["full_rank"], na=case["na"], cluster=case["cluster"], path=path)
        base = {"formula": formula, "fid": case["fid"], "output": output, "full_rank": case["full_rank"], "na": case["na"], "cluster": case["cluster"]}
        if path != "sugar":
            base["path"] = path
        if o["st"] != "OK":
            bad.append({**base, "why": "exception", "observed": o.get("cls"), "msg": o.get("msg")})
            continue
        names, cells, labels, index, _ = matlib.alpha_matrix(o["mm"], output)
        if names != case["names"]:
            bad.append({**base, "why": "column-names", "observed": names, "expected": case["names"]})
        elif labels is not None and labels != names:
            bad.append({**base, "why": "frame-labels-differ-from-spec-names", "observed": labels, "expected": names})
        elif cells != case["cells"]:
            j = next((j for r in range(len(cells)) for j in range(len(names)) if r < len(case["cells"]) and cells[r][j] != case["cells"][r][j]), None) \
                if len(cells) == len(case["cells"]) else None
            bad.append({**base, "why": "cells", "column": names[j] if j is not None else None, "observed": cells, "expected": case["cells"]})
    # the matrix is a function of the numbers in the frame, not of the dtype that stores them: scaled-up integers held as float64
    # and as the narrowest integer dtype that can hold them give the same matrix (products must not be taken in that dtype)
    numcols = [c for c in df.columns if df[c].dtype.kind == "f"]
    if numcols and not bad and all(df[c].notna().all() and (df[c] == df[c].round()).all() for c in numcols) and h0 % 2 == 0:
        import numpy

        rawtop = max(1.0, max(float(df[c].abs().max()) for c in numcols))
        mult = float(int(127 // rawtop)) if rawtop <= 127 else 1.0      # as large as int8 can hold: products and scalings exceed int8
        big = df.copy()
        for c in numcols:
            big[c] = big[c] * mult
        narrow = big.copy()
        for c in numcols:
            narrow[c] = big[c].astype("int8" if rawtop <= 127 else "int64")
        iout = ["numpy", "sparse", "pandas"][(h0 // 2) % 3]        # (each output type assembles its columns in its own way)
        o1 = matlib.observe_build(formula, big, output=iout, full_rank=case["full_rank"], na=case["na"], cluster=case["cluster"])
        o2 = matlib.observe_build(formula, narrow, output=iout, full_rank=case["full_rank"], na=case["na"], cluster=case["cluster"])
        if o1["st"] == "OK":
            base = {"formula": formula, "fid": case["fid"], "output": iout, "full_rank": case["full_rank"], "na": case["na"], "cluster": case["cluster"], "path": "integer dtype"}
            if o2["st"] != "OK":
                bad.append({**base, "why": "exception with integer columns", "observed": o2.get("cls"), "msg": o2.get("msg")})
            else:
                a1, a2 = (numpy.asarray(o["mm"].toarray() if hasattr(o["mm"], "toarray") else o["mm"], dtype=float) for o in (o1, o2))
                if a1.shape != a2.shape or not numpy.array_equal(a1, a2):
                    bad.append({**base, "why": "cells depend on the integer dtype holding the same numbers", "observed": a2.tolist(), "expected": a1.tolist()})
        # the widest integer dtype too: the same small integers times 2**31 (exact in float64) held as float64 and as int64 - a product of
        # two such columns is a multiple of 2**62, which float64 holds exactly and int64 arithmetic wraps
        if rawtop <= 2 ** 20 and not bad:
            wide_f = df.copy()
            for c in numcols:
                wide_f[c] = wide_f[c] * float(2 ** 31)
            wide_i = wide_f.copy()
            for c in numcols:
                wide_i[c] = wide_f[c].astype("int64")
            o3 = matlib.observe_build(formula, wide_f, output=iout, full_rank=case["full_rank"], na=case["na"], cluster=case["cluster"])
            o4 = matlib.observe_build(formula, wide_i, output=iout, full_rank=case["full_rank"], na=case["na"], cluster=case["cluster"])
            if o3["st"] == "OK":
                base = {"formula": formula, "fid": case["fid"], "output": iout, "full_rank": case["full_rank"], "na": case["na"], "cluster": case["cluster"], "path": "int64 dtype"}
                if o4["st"] != "OK":
                    bad.append({**base, "why": "exception with int64 columns", "observed": o4.get("cls"), "msg": o4.get("msg")})
                else:
                    a3, a4 = (numpy.asarray(o["mm"].toarray() if hasattr(o["mm"], "toarray") else o["mm"], dtype=float) for o in (o3, o4))
                    if a3.shape != a4.shape or not numpy.array_equal(a3, a4):
                        bad.append({**base, "why": "cells depend on the integer dtype holding the same numbers (int64 against float64)", "observed": a4.tolist(), "expected": a3.tolist()})
    return bad


def replay_levels(case):
    """One case of MC_MatLevels: the first build on the frame held in storage `sto` (every output), or - when the case has a
    re-application - one rotating output of it (the same first build is replayed with every output by the sibling case without one) and the
    spec attached to that matrix applied to the same rows held in storage `sto2` (alternating entry point)."""
    import warnings

    from formulaic import model_matrix

    formula = matlib.render_formula(case["written"], case["icpt"])
    df, df2 = matlib.gamma_frame(case["frame"]), matlib.gamma_frame(case["frame2"])
    h = sum(map(ord, formula)) + case["vid"] + case["sto"] + (7 if case["full_rank"] else 0)
    bad = []

    def compare(mm, output, base, names_x, cells_x):
        names, cells, labels, _, _ = matlib.alpha_matrix(mm, output)
        if names != names_x:
            bad.append({**base, "why": "column-names", "observed": names, "expected": names_x})
        elif labels is not None and labels != names:
            bad.append({**base, "why": "frame-labels-differ-from-spec-names", "observed": labels, "expected": names})
        elif cells != cells_x:
            j = next((j for r in range(len(cells)) for j in range(len(names)) if cells[r][j] != cells_x[r][j]), None) if len(cells) == len(cells_x) else None
            bad.append({**base, "why": "cells", "column": names[j] if j is not None else None, "observed": cells, "expected": cells_x})

    for output in ([OUTPUTS[h % len(OUTPUTS)]] if case["reapply"] else OUTPUTS):
        base = {"formula": formula, "fid": f"levels:values{case['vid']}/A stored as {_storage(case['frame'])}", "output": output,
                "full_rank": case["full_rank"], "na": "drop", "cluster": False}
        o = matlib.observe_build(formula, df, output=output, full_rank=case["full_rank"])
        if o["st"] != "OK":
            bad.append({**base, "why": "exception", "observed": o.get("cls"), "msg": o.get("msg")})
            continue
        compare(o["mm"], output, base, case["names"], case["cells"])
        if case["reapply"]:
            base2 = {**base, "path": f"spec attached to the first matrix applied to the same rows with A stored as {_storage(case['frame2'])}"}
            try:
                with warnings.catch_warnings():
                    warnings.simplefilter("ignore")
                    spec = o["mm"].model_spec
                    mm2 = spec.get_model_matrix(df2, context={}) if (h // 3) % 2 else model_matrix(spec, df2, context={})
            except Exception as e:  # noqa
                bad.append({**base2, "why": "exception", "observed": type(e).__name__, "msg": str(e)[:160]})
                continue
            compare(mm2, output, base2, case["names2"], case["cells2"])
    return bad


def _storage(frame):
    c = frame["cols"]["A"]
    return "categorical" + json.dumps(c["lv"]) if c["declared"] else "objects"


def run_levels(ctx: Ctx) -> None:
    """Leg M + R over MC_MatLevels (the storage of a categorical column against the levels that are given); the family is small and
    fixed, so it is enumerated completely on both tiers."""
    from ..tlc import read_emitted, run_tlc, workdir

    out = workdir("c02") / "matlevels.ndjson"
    out.unlink(missing_ok=True)
    cfg = 'SPECIFICATION Spec\nCONSTANTS\n  Emit = {}\n  Variant = "{}"\nINVARIANT Laws\n'
    r = run_tlc("MC_MatLevels", cfg.format("TRUE", "levels") + "INVARIANT EmitCase\n", tag="c02", env={"OUT_FILE": str(out)}, timeout=3000)
    if r.violated:
        ctx.model_violation(r, "MC_MatLevels")
    ctx.add_tlc(r, "given levels x storage of the column (Indicators, StorageIrrelevant, ReapplyStable) + emission")
    # the laws are not vacuous on the family: TLC refutes the design that keeps the integer codes of a categorical dtype over the same set of levels
    v = run_tlc("MC_MatLevels", cfg.format("FALSE", "codes"), tag="c02", timeout=3000)
    if "Laws" not in v.violated:
        raise MachineryError("MC_MatLevels variant codes does not violate the laws: the bounded family is vacuous")
    ctx.notes["matlevels_variant_codes"] = "violates " + ",".join(v.violated)
    cases = read_emitted(out)
    if len(cases) != r.distinct or not cases:
        raise MachineryError(f"MC_MatLevels emission incomplete: {len(cases)} of {r.distinct}")
    out.unlink()
    res = pmap("harness.props.c02", "replay_levels", cases, chunk=100)
    ctx.require("replay: given levels x storage cases", len(cases), 1000)
    ctx.require("replay: re-applications of the attached spec to another storage", sum(1 for c in cases if c["reapply"]), 500)
    ctx.require("replay: levels named in another order than the categorical dtype declares", sum(1 for c in cases if c["reordered"]), 300)
    for c, bad in zip(cases, res):
        n = 2 if c["reapply"] else len(OUTPUTS)
        ctx.traces += n
        ctx.evaluations += n
        if len(c["names"]) >= 2 and len(c["kept"]) >= 2:
            ctx.nontrivial.add(jhash(["levels", c["written"], c["icpt"], c["vid"], c["sto"], c["tgt"], c["sto2"], c["full_rank"]]))
        for b in bad:
            ctx.violation({k: b[k] for k in ("formula", "fid", "output", "full_rank", "na", "cluster")}, b, kind="replay")


def run(ctx: Ctx) -> None:
    global FRAMES
    ctx.rule = ("every formula of <= MaxTerms distinct terms from a pool of 19 terms (numeric, categorical, C(...) with sum/helmert/SAS contrasts, "
                "literal scalings, interactions in both factor orders) x intercept on/off x 6 frames (nulls, single level, declared unobserved "
                "level, one row) x rank reduction on/off x null policy x clustering x 3 outputs; non-trivial = >= 2 columns and >= 2 rows")
    ctx.trusted = ["gamma: abstract frame -> pandas.DataFrame", "alpha: numpy.asarray / toarray of the result", "TLC"]
    if ctx.quick:
        FRAMES, cases = matlib.run_enumeration(ctx, "c02", 2, "all", ["UnreducedLayout", "InterceptOnes", "ScaleOnce"])
    else:
        FRAMES, cases = matlib.run_enumeration(ctx, "c02", 3, "all", ["UnreducedLayout", "InterceptOnes", "ScaleOnce"], slice_mod=4)
    res = pmap("harness.props.c02", "replay_case", cases, chunk=100)
    ctx.require("replay: cases the model builds (neither failing nor empty)", sum(1 for c in cases if not (c["fails"] or c["empty"])), 1000)
    for c, bad in zip(cases, res):
        if c["fails"] or c["empty"]:
            continue
        ctx.traces += len(OUTPUTS) + 1
        ctx.evaluations += len(OUTPUTS) + 1
        if len(c["names"]) >= 2 and len(c["kept"]) >= 2:
            ctx.nontrivial.add(jhash([c["written"], c["icpt"], c["fid"], c["full_rank"], c["na"], c["cluster"]]))
        for b in bad:
            ctx.violation({k: b[k] for k in ("formula", "fid", "output", "full_rank", "na", "cluster")}, b, kind="replay")
    for c in [c for c in cases if len(c["names"]) >= 4][:2]:
        ctx.sample({"formula": matlib.render_formula(c["written"], c["icpt"]), "frame": c["fid"], "full_rank": c["full_rank"],
                    "names": c["names"], "cells": c["cells"]})
    run_levels(ctx)
    ctx.exhaustive = True
    # leg T: random frames / formulas / options far outside the enumerated frames, validated by TLC
    from .. import mattrace

    mattrace.run(ctx, 1500 if ctx.quick else 25000, "c02", judge=lambda v: v in ("column-names", "cells", "unexpected-exception"))


def replay(path: str) -> int:
    rec = json.load(open(path))
    print(json.dumps(rec["detail"], indent=1)[:3000])
    return 0
