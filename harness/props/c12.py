"""C12 - spline transforms reproduce the mathematical bases they name.

Leg M: TLC checks in exact rationals (MC_Spline) on integer knot vectors and the half-integer grid:
       B-splines (Cox-de Boor) are non-negative, sum to one inside the bounds, have the documented
       number of columns / knots; the natural and cyclic cubic bases obtained from the exactly
       solved second-derivative system are validated against their characterisation: identity at
       the knots, C1 at the inner knots, natural (s'' = 0) or periodic end conditions.
Leg R: every enumerated (knots, degree, intercept, extrapolation mode) is executed through bs()
       directly and through model_matrix, and every (knots, cyclic) through cr() / cc(); values
       compared with the exact ones (1e-9), NaN rows, zero rows and errors as each mode documents.
       Vectors with nulls (Spline!BsVec): 25 small vectors per case - in range / below / above / both, nulls beside or in place
       of the out-of-range value - with TLC's verdict of the call ('raise' looks at the non-null values only) and row statuses;
       TLC refutes the min/max-reduction guard and the not-inside guard on the same family (GuardLaw).
Leg O: oracle round trip for the `df` path: the harness calls the transform with df, reads the
       recorded knots / bounds from its state, converts them to exact fractions (only if
       lossless) and TLC evaluates the same definitions on that knot vector (Oracle_Spline).
       The centering constraint (zero column means on the training data, rank n - 1 within the
       span of the free basis) is a harness predicate.
"""
from __future__ import annotations

import json
import random
from fractions import Fraction

import numpy

from ..common import Ctx, pmap, jhash
from ..tlc import MachineryError, read_emitted, run_tlc, workdir


def fv(p):
    return p[0] / p[1]


def close(a, b, tol=1e-9):
    a, b = numpy.asarray(a, dtype=float), numpy.asarray(b, dtype=float)
    return a.shape == b.shape and bool(numpy.allclose(a, b, rtol=tol, atol=tol, equal_nan=True))


def mat_of(res):
    keys = sorted(res)
    return numpy.stack([numpy.asarray(res[k], dtype=float) for k in keys], axis=1) if keys else numpy.zeros((0, 0))


def expected_rows(rows, ncols):
    out = []
    for r in rows:
        if r["st"] == "NA":
            out.append([float("nan")] * ncols)
        else:
            out.append([fv(p) for p in r["row"]])
    return numpy.array(out, dtype=float).reshape(len(rows), ncols)


def replay_bs(case):
    import pandas
    from formulaic import model_matrix
    from formulaic.transforms import basis_spline as bs

    x = [fv(p) for p in case["x"]]
    d, icpt, mode, inner = case["degree"], case["intercept"], case["mode"], [float(v) for v in case["inner"]]
    base = {"transform": "bs", "inner_knots": case["inner"], "degree": d, "include_intercept": icpt, "extrapolation": mode}
    ncols = len(inner) + d + 1 - (0 if icpt else 1)
    bad = []
    kw = dict(knots=inner, degree=d, include_intercept=icpt, lower_bound=0.0, upper_bound=6.0, extrapolation=mode)
    try:
        if mode == "raise":
            # any out-of-range value must raise; in-range values are evaluated
            try:
                bs(numpy.array(x), _state={}, **kw)
                bad.append({**base, "why": "out-of-range values did not raise under extrapolation='raise'"})
            except ValueError:
                pass
            keep = [i for i, r in enumerate(case["rows"]) if r["st"] == "OK"]
            xs, rows = [x[i] for i in keep], [case["rows"][i] for i in keep]
        else:
            xs, rows = x, case["rows"]
        st = {}
        got = mat_of(bs(numpy.array(xs), _state=st, **kw))
        exp = expected_rows(rows, ncols)
        if ncols == 0:
            got = got.reshape(len(xs), 0) if got.size == 0 else got
        if not close(got, exp):
            r = next((i for i in range(min(len(got), len(exp))) if not close(got[i], exp[i])), None)
            bad.append({**base, "why": "values", "x": xs[r] if r is not None else None, "observed": got[r].tolist() if r is not None else list(got.shape),
                        "expected": exp[r].tolist() if r is not None else list(exp.shape)})
        if [float(v) for v in st.get("knots", [])] != [fv(p) for p in case["knots"]]:
            bad.append({**base, "why": "recorded knot vector", "observed": st.get("knots"), "expected": [fv(p) for p in case["knots"]]})
        # state first: the recorded knots win over arguments on reuse
        got2 = mat_of(bs(numpy.array(xs), _state=dict(st), knots=None, degree=d, include_intercept=icpt, extrapolation=mode))
        if ncols == 0:
            got2 = got2.reshape(len(xs), 0) if got2.size == 0 else got2
        if not close(got2, exp):
            bad.append({**base, "why": "reuse with recorded state differs"})
        nvec = replay_vecs(case, bs, kw, st, base, ncols, bad)
        if mode != "raise" and ncols > 0:
            f = f"bs(x, knots={inner!r}, degree={d}, include_intercept={icpt}, lower_bound=0.0, upper_bound=6.0, extrapolation={mode!r})"
            mm = model_matrix("0 + " + f, pandas.DataFrame({"x": xs}), na_action="ignore", ensure_full_rank=False, context={})
            if not close(numpy.asarray(mm), exp):
                bad.append({**base, "why": "values through model_matrix"})
    except Exception as e:  # noqa
        bad.append({**base, "why": "exception", "observed": type(e).__name__ + ": " + str(e)[:150]})
    return bad, 3 + nvec


def replay_vecs(case, bs, kw, st, base, ncols, bad):
    """the vectors with nulls of the case (MC_Spline!Sels x null placements): the verdict of the call is TLC's (Spline!BsVec: under 'raise' an error
    iff some NON-null value is outside the bounds - a null neither raises nor shields its neighbours), a null is a NaN row in every mode and the
    other rows are the grid rows of the same values.  Each vector goes through a fresh call and through a call re-using the recorded state (the
    bounds then come from the state, as when a fitted model spec meets new data).  Under 'raise' every vector is replayed, under the other modes
    (where only the rows are at stake) a rotation of them unless the case says all (quick tier)."""
    d, icpt, mode = case["degree"], case["intercept"], case["mode"]
    rot, n = case.get("_rot"), 0
    for vi, v in enumerate(case.get("vecs", [])):
        if mode != "raise" and rot is not None and (vi + rot) % 5:
            continue
        n += 1
        xs = numpy.array([float("nan") if nl else fv(case["x"][g - 1]) for g, nl in zip(v["sel"], v["null"])])
        exp = numpy.array([[float("nan")] * ncols if rs == "NA" else [fv(p) for p in case["rows"][g - 1]["row"]] for g, rs in zip(v["sel"], v["rst"])
                           if v["st"] == "OK"], dtype=float).reshape(len(xs) if v["st"] == "OK" else 0, ncols)
        vb = {**base, "x": [None if nl else fv(case["x"][g - 1]) for g, nl in zip(v["sel"], v["null"])], "bounds": [0.0, 6.0]}
        for how, call in (("fresh call", lambda: bs(xs, _state={}, **kw)),
                          ("recorded state re-used", lambda: bs(xs, _state=dict(st), knots=None, degree=d, include_intercept=icpt, extrapolation=mode))):
            try:
                got = mat_of(call())
            except ValueError as e:
                if v["st"] != "ERROR":
                    bad.append({**vb, "why": f"vector with nulls, {how}: raised although no value is outside the bounds", "observed": str(e)[:120]})
                continue
            if v["st"] == "ERROR":
                bad.append({**vb, "why": f"vector with nulls, {how}: a value outside the bounds did not raise under extrapolation='raise'",
                            "observed": got.tolist(), "expected": "ValueError"})
                continue
            if ncols == 0:
                got = got.reshape(len(xs), 0) if got.size == 0 else got
            if not close(got, exp):
                bad.append({**vb, "why": f"vector with nulls, {how}: values (a null is a NaN row, the other rows are those of their values)",
                            "observed": got.tolist(), "expected": exp.tolist()})
    return n


def replay_cubic(case):
    from formulaic.transforms import cyclic_cubic_spline as cc, natural_cubic_spline as cr

    x = [fv(p) for p in case["x"]]
    inner = [float(v) for v in case["inner"]]
    base = {"transform": "cc" if case["cyclic"] else "cr", "inner_knots": case["inner"]}
    bad = []
    try:
        fn = cc if case["cyclic"] else cr
        got = mat_of(fn(numpy.array(x), knots=inner, lower_bound=0.0, upper_bound=6.0, _state={}))
        exp = numpy.array([[fv(p) for p in row] for row in case["rows"]], dtype=float)
        if not close(got, exp):
            r = next((i for i in range(min(len(got), len(exp))) if not close(got[i], exp[i])), None)
            bad.append({**base, "why": "values", "x": x[r] if r is not None else None, "observed": got[r].tolist() if r is not None else list(got.shape),
                        "expected": exp[r].tolist() if r is not None else list(exp.shape)})
        knots = [0.0] + inner + [6.0]
        at = mat_of(fn(numpy.array(knots), knots=inner, lower_bound=0.0, upper_bound=6.0, _state={}))
        n = len(knots) - (1 if case["cyclic"] else 0)
        ident = numpy.eye(n) if not case["cyclic"] else numpy.vstack([numpy.eye(n), numpy.eye(n)[0:1]])
        if not close(at, ident):
            bad.append({**base, "why": "not the identity at the knots", "observed": at.tolist()})
    except Exception as e:  # noqa
        bad.append({**base, "why": "exception", "observed": type(e).__name__ + ": " + str(e)[:150]})
    return bad, 2


def replay_case(case):
    return replay_bs(case) if case["kind"] == "bs" else replay_cubic(case)


def frac(v, maxden=64):
    f = Fraction(float(v)).limit_denominator(maxden)
    return [f.numerator, f.denominator] if float(f) == float(v) else None


def roundtrip_job(job):
    """call the transform with df, read the recorded state, return the oracle case + observed values"""
    from formulaic.transforms import basis_spline as bs, cyclic_cubic_spline as cc, natural_cubic_spline as cr

    i, kind, seed = job
    rng = random.Random(seed)
    n = rng.randint(8, 16)
    x = [float(rng.randint(0, 9)) for _ in range(n)] if kind != "bs" else [rng.randint(0, 16) / 2 for _ in range(n)]     # small grids with ties
    rec = {"id": i, "kind": kind}
    try:
        if kind == "bs":
            d = rng.randint(0, 3)
            icpt = rng.random() < 0.5
            df_ = d + (1 if icpt else 0) + rng.randint(0, 3)
            mode = rng.choice(["clip", "zero", "extend", "na"])
            st = {}
            with_nan = rng.random() < 0.35          # nulls in the training vector must not reach the recorded knots
            xt = x + [float("nan")] if with_nan else x
            train = mat_of(bs(numpy.array(xt), df=df_, degree=d, include_intercept=icpt, _state=st,
                              extrapolation=rng.choice(["raise", "extend"]) if with_nan else "raise")) if df_ > 0 else None
            if train is None:
                return None
            knots = st["knots"]
            if with_nan:
                rec["nan_ok"] = bool(numpy.all(numpy.isfinite(knots))) and bool(numpy.isnan(train[-1]).all()) and bool(numpy.isfinite(train[:-1]).all())
                if not numpy.all(numpy.isfinite(knots)):
                    rec.update({"call": f"bs(x with NaN, df={df_}, degree={d})", "degree": d})
                    return rec
            lo, hi = st["lower_bound"], st["upper_bound"]
            inner = knots[d + 1 : len(knots) - d - 1]
            y = x + [lo - 0.5, hi + 0.75, (lo + hi) / 2]
            obs = mat_of(bs(numpy.array(y), extrapolation=mode, degree=d, include_intercept=icpt, _state=dict(st)))
            fr = [frac(v, 4) for v in [lo, hi] + inner + y]
            if any(f is None for f in fr):
                return None
            rec.update({"lo": fr[0], "hi": fr[1], "inner": fr[2 : 2 + len(inner)], "x": fr[2 + len(inner):], "degree": d, "intercept": icpt, "mode": mode,
                        "obs": obs.tolist(), "df": df_, "ncols": int(train.shape[1]), "call": f"bs(x, df={df_}, degree={d}, include_intercept={icpt}); reuse extrapolation={mode}"})
        else:
            cyclic = kind == "cc"
            df_ = rng.randint(2 if not cyclic else 2, 5)
            fn = cc if cyclic else cr
            st = {}
            train = mat_of(fn(numpy.array(x), df=df_, _state=st))
            knots = st["knots"]
            y = x + [knots[0] - 0.5, knots[-1] + 1.25]
            obs = mat_of(fn(numpy.array(y), _state=dict(st)))
            fr = [frac(v, 12) for v in knots + y]
            if any(f is None for f in fr) or len(knots) > 5:
                rec.update({"skip": True, "obs": [], "call": f"{kind}(x, df={df_})", "df": df_, "ncols": df_})      # the oracle part is skipped, the centering predicates below are not
            else:
                rec.update({"knots": fr[: len(knots)], "x": fr[len(knots):], "cyclic": cyclic, "obs": obs.tolist(), "df": df_, "ncols": int(train.shape[1]),
                            "call": f"{kind}(x, df={df_})"})
            # the same real vector held as int64 (x is integer-valued here), with bounds that are not integers: same basis
            lo_i, hi_i = min(x) - 0.25, max(x) + 0.5
            as_float = mat_of(fn(numpy.array(x + [hi_i + 1.0, hi_i + 36.0]), df=df_, lower_bound=lo_i, upper_bound=hi_i, _state={}))
            as_int = mat_of(fn(numpy.array([int(v) for v in x] + [int(hi_i + 1.0), int(hi_i + 36.0)], dtype="int64"), df=df_, lower_bound=lo_i, upper_bound=hi_i, _state={}))
            rec["int_ok"] = bool(numpy.allclose(as_float[: len(x)], as_int[: len(x)], atol=1e-12)) and (
                bool(numpy.allclose(as_float, as_int, atol=1e-12)) or (hi_i + 1.0) != int(hi_i + 1.0))
            # centering constraint: harness predicates
            stc = {}
            ext = rng.choice(["extend", "clip", "clip", "zero"])
            bounds = {} if ext == "extend" else {"lower_bound": min(x) + 1.0, "upper_bound": max(x) - 1.0}     # some training values out of bounds
            # knots are chosen among the training values inside the bounds: too few distinct ones there is a precondition failure of the
            # call (the library says so), not a case of the property
            if bounds and (not (bounds["lower_bound"] < bounds["upper_bound"])
                           or len({v for v in x if bounds["lower_bound"] <= v <= bounds["upper_bound"]}) < df_ + 4):
                bounds, ext = {}, "extend"
            cen = mat_of(fn(numpy.array(x), df=df_, constraints="center", extrapolation=ext, _state=stc, **bounds))
            rec["center_call"] = f"{kind}(x, df={df_}, constraints='center', extrapolation={ext!r}, bounds={bounds})"
            # a missing value in the training vector is a missing row, not a missing basis: the other rows are what they are without it
            cen_nan = mat_of(fn(numpy.array(x + [float("nan")]), df=df_, constraints="center", extrapolation=ext, _state={}, **bounds))
            rec["center_nan_ok"] = bool(numpy.isnan(cen_nan[-1]).all()) and cen_nan.shape == (len(x) + 1, cen.shape[1]) and bool(numpy.allclose(cen_nan[:-1], cen, atol=1e-9))
            if ext != "extend":
                # zero column means on the training data is the whole claim here (the free basis on clipped data is not re-derived)
                # (rows zeroed by the 'zero' mode are rows of zeros of the training matrix and count in its column means)
                rec["center_ok"] = bool(numpy.allclose(cen.mean(axis=0), 0, atol=1e-9))
                return rec
            free_knots = numpy.array(stc["knots"])
            from formulaic.transforms.cubic_spline import _get_free_cubic_spline_matrix

            free = _get_free_cubic_spline_matrix(numpy.array(x), free_knots, cyclic=cyclic)
            rec["center_ok"] = bool(numpy.allclose(cen.mean(axis=0), 0, atol=1e-9)) and cen.shape[1] == df_ and \
                numpy.linalg.matrix_rank(numpy.hstack([free, cen])) == numpy.linalg.matrix_rank(free) and numpy.linalg.matrix_rank(cen) == cen.shape[1]
    except Exception as e:  # noqa
        rec["exc"] = type(e).__name__ + ": " + str(e)[:150]
    return rec


def run(ctx: Ctx) -> None:
    ctx.rule = ("bs: every non-decreasing inner knot vector of <= MaxInner integers in 1..5 on bounds [0, 6] (ties included) x degree 0..MaxDegree x "
                "intercept x 5 extrapolation modes on the half-integer grid -3/2..15/2; cr/cc: every strictly increasing inner knot vector; round "
                "trip: random quarter-integer samples with df-derived knots; non-trivial = >= 1 inner knot")
    ctx.trusted = ["1e-9 float comparison", "Fraction(float) accepted only when lossless with denominator <= 64", "centering constraint checked by numpy predicates (QR basis is not unique)", "TLC"]
    out = workdir("c12") / "cases.ndjson"
    out.unlink(missing_ok=True)
    maxinner, maxdeg = (2, 3) if ctx.quick else (4, 5)
    r = run_tlc("MC_Spline", f"SPECIFICATION Spec\nCONSTANTS\n  Emit = TRUE\n  MaxInner = {maxinner}\n  MaxDegree = {maxdeg}\n  GuardVariant = \"mask\"\nINVARIANT BsLaws\nINVARIANT CubicLaws\nINVARIANT GuardLaw\nINVARIANT EmitCase\n",
                tag="c12", env={"OUT_FILE": str(out)}, timeout=3400)
    if r.violated:
        ctx.model_violation(r, "MC_Spline")
    ctx.add_tlc(r, f"B-spline laws and self-validation of the cubic bases + emission; <= {maxinner} inner knots, degree <= {maxdeg}")
    # the family of vectors with nulls discriminates: TLC refutes the guard computed by min / max reductions (one null silences it) and the guard
    # "not known to be inside" (a null alone trips it); the guard does not look at knots or degree, so the smallest knot family suffices
    for gv in ("minmax", "notin"):
        v = run_tlc("MC_Spline", f"SPECIFICATION Spec\nCONSTANTS\n  Emit = FALSE\n  MaxInner = 0\n  MaxDegree = 0\n  GuardVariant = \"{gv}\"\nINVARIANT GuardLaw\n", tag="c12", timeout=600, workers=2)
        if "GuardLaw" not in v.violated:
            raise MachineryError(f"MC_Spline guard variant {gv} is not refuted: the family of vectors with nulls is vacuous")
        ctx.notes[f"raise_guard_variant_{gv}"] = "refuted by GuardLaw"
    cases = read_emitted(out)
    out.unlink()
    if len(cases) != r.distinct:
        raise MachineryError(f"emission incomplete: {len(cases)} of {r.distinct}")
    if any(c["kind"] == "bs" and len(c.get("vecs", [])) != 25 for c in cases):
        raise MachineryError("emission without the vectors with nulls")
    for i, c in enumerate(cases):
        c["_rot"] = None if ctx.quick else i + ctx.seed          # thorough: under the non-raise modes a rotation of 5 of the 25 vectors per case
    res = pmap("harness.props.c12", "replay_case", cases, chunk=20)
    for c, (bad, n) in zip(cases, res):
        ctx.traces += n
        ctx.evaluations += n
        if c["inner"]:
            ctx.nontrivial.add(jhash([c["kind"], c["inner"], c.get("degree"), c.get("intercept"), c.get("mode"), c.get("cyclic")]))
        for b in bad:
            ctx.violation({k: b.get(k) for k in ("transform", "inner_knots", "degree", "include_intercept", "extrapolation")} | {"why": b["why"]}, b, kind="replay")
    # ---- oracle round trip
    rng = random.Random(13 * ctx.seed + 5)
    nrt = 240 if ctx.quick else 4000
    jobs = [(i + 1, ["bs", "bs", "cr", "cc"][i % 4], rng.randrange(10**9)) for i in range(nrt)]
    recs = [x for x in pmap("harness.props.c12", "roundtrip_job", jobs, chunk=20) if x is not None]
    for x in recs:
        if x.get("nan_ok") is False and "obs" not in x:
            ctx.violation({"transform": x["kind"], "call": x["call"]}, {"why": "a missing value in the training vector reached the recorded knots"}, kind="roundtrip")
    recs = [x for x in recs if "obs" in x or "exc" in x]
    centre_only = [x for x in recs if x.get("skip")]
    for x in centre_only:
        ctx.traces += 1
        ctx.evaluations += 1
        if x.get("center_ok") is False:
            ctx.violation({"transform": x["kind"], "call": x.get("center_call")}, {"why": "centering constraint (zero column means / rank within the span of the free basis)", "call": x.get("center_call")}, kind="roundtrip")
        if x.get("center_nan_ok") is False:
            ctx.violation({"transform": x["kind"], "call": x.get("center_call")}, {"why": "a missing value in the training vector changes the centred rows of the other values", "call": x.get("center_call")}, kind="roundtrip")
        if x.get("int_ok") is False:
            ctx.violation({"transform": x["kind"], "call": x.get("call")}, {"why": "the basis of an integer-valued vector depends on whether it is held as int64 or float64", "call": x.get("call")}, kind="roundtrip")
    ctx.notes["centering_predicates_evaluated"] = sum(1 for x in recs if "center_ok" in x)
    recs = [x for x in recs if not x.get("skip")]
    good = [x for x in recs if "exc" not in x]
    for x in recs:
        if "exc" in x:
            ctx.violation({"transform": x["kind"], "round_trip": x["id"]}, {"why": "exception", "observed": x["exc"]}, kind="roundtrip")
    tf, of = workdir("c12") / "oracle.json", workdir("c12") / "oracle-out.ndjson"
    exp = {}
    skipped = 0
    for b in range(0, len(good), 40):
        batch = good[b : b + 40]
        tf.write_text(json.dumps([{k: v for k, v in x.items() if k not in ("obs", "call", "center_ok", "center_call", "nan_ok", "df", "ncols", "int_ok", "center_nan_ok")} for x in batch]))
        of.unlink(missing_ok=True)
        try:
            t = run_tlc("Oracle_Spline", "SPECIFICATION Spec\nINVARIANT Emit\n", tag="c12o", env={"TRACE_FILE": str(tf), "OUT_FILE": str(of)}, timeout=3000, workers=4)
        except MachineryError as e:
            if "Overflow" in str(e):        # 32-bit rationals: the recorded knot vector is outside the exact grid; not a verdict
                skipped += len(batch)
                continue
            raise
        if t.violated or t.distinct != len(batch):
            raise MachineryError(f"Oracle_Spline did not evaluate all cases ({t.distinct}/{len(batch)})")
        ctx.add_tlc(t, "Oracle_Spline: exact values on knot vectors recorded by the code")
        exp.update({x["id"]: x["rows"] for x in read_emitted(of)})
    ctx.notes["round_trips_outside_32bit_grid"] = skipped
    good = [x for x in good if x["id"] in exp]
    kinds = {kk: sum(1 for x in good if x["kind"] == kk) for kk in ("bs", "cr", "cc")}
    ctx.notes["round_trips_by_kind"] = kinds
    if kinds["bs"] < 20 or kinds["cr"] < 5 or kinds["cc"] < 5 or ctx.notes["centering_predicates_evaluated"] < 20:
        raise MachineryError(f"oracle round trip nearly vacuous: {kinds}, centering predicates {ctx.notes['centering_predicates_evaluated']}")
    for x in good:
        ctx.traces += 1
        ctx.evaluations += 1
        rows = exp[x["id"]]
        obs = numpy.array(x["obs"], dtype=float)
        e = expected_rows(rows, obs.shape[1]) if x["kind"] == "bs" else numpy.array([[fv(p) for p in r] for r in rows], dtype=float)
        case = {"transform": x["kind"], "call": x["call"]}
        if x["ncols"] != x["df"]:
            ctx.violation(case, {"why": "number of columns is not df", "observed": x["ncols"], "expected": x["df"]}, kind="roundtrip")
        if not close(obs, e):
            ctx.violation(case, {"why": "values on the recorded knot vector", "knots": x.get("inner", x.get("knots")), "observed": obs.tolist()[:3], "expected": e.tolist()[:3]}, kind="roundtrip")
        elif x.get("center_ok") is False:
            ctx.violation(case, {"why": "centering constraint (zero column means / rank within the span of the free basis)", "call": x.get("center_call")}, kind="roundtrip")
        elif x.get("center_nan_ok") is False:
            ctx.violation(case, {"why": "a missing value in the training vector changes the centred rows of the other values", "call": x.get("center_call")}, kind="roundtrip")
        elif x.get("int_ok") is False:
            ctx.violation(case, {"why": "the basis of an integer-valued vector depends on whether it is held as int64 or float64"}, kind="roundtrip")
        elif x.get("nan_ok") is False:
            ctx.violation(case, {"why": "a missing value in the training vector reached the recorded knots or the other rows"}, kind="roundtrip")
        else:
            ctx.nontrivial.add(("RT", x["id"]))
    ctx.notes["round_trips"] = len(good)
    tf.unlink()
    of.unlink(missing_ok=True)
    for c in [c for c in cases if c["kind"] == "bs" and c["inner"] == [2, 4] and c["degree"] == 2 and c["mode"] == "extend" and c["intercept"]][:1]:
        ctx.sample({"bs": {"inner": c["inner"], "degree": 2, "mode": "extend", "x": c["x"][:4], "rows": c["rows"][:4]}})
    ctx.exhaustive = True


def replay(path: str) -> int:
    rec = json.load(open(path))
    print(json.dumps(rec["detail"], indent=1)[:3000])
    return 0
