"""C16 - linear-constraint specifications compile to the affine map they express.

Leg M: TLC checks on every token string in the bound (MC_Constraints) that whenever the
       machine model accepts a grammatical specification its rows agree with the arithmetic
       reference on the n+1 points 0, e_1..e_n, and that non-linear specifications are rejected.
       The reference reads a run of adjacent operator characters character by character (`x - - y`,
       `- - x`, `x = - 1`), so the machine's rule for sign runs is itself checked against arithmetic;
       the erroneous rule SignRule = "anyminus" must violate Sound inside the bound (negative control).
Leg R: each enumerated string goes through LinearConstraints.from_spec (string, list and
       mapping forms, and ModelSpec.get_linear_constraints); (A, b) is compared exactly.
Leg T: random deep expressions (repeated variables, decimals, exotic column names) recorded
       from the real code and validated by TLC (Trace_Constraints).
"""
from __future__ import annotations

import json
import random
from fractions import Fraction

import numpy

from ..common import Ctx, pmap
from ..tlc import MachineryError, read_emitted, run_tlc, workdir

NAMELISTS = [["x", "y", "z"], ["y", "x"]]
_SPEC = {}


def _frac(x) -> list:
    f = Fraction(float(x)).limit_denominator(10**6)
    return [f.numerator, f.denominator]


def observe(spec, names):
    from formulaic.utils.constraints import LinearConstraints

    try:
        lc = LinearConstraints.from_spec(spec, variable_names=names)
        A = numpy.asarray(lc.constraint_matrix, dtype=float)
        b = numpy.asarray(lc.constraint_values, dtype=float)
        if A.ndim != 2 or b.ndim != 1 or A.shape[0] != b.shape[0] or not (numpy.isfinite(A).all() and numpy.isfinite(b).all()):
            return {"st": "BAD", "rows": []}
        return {"st": "OK", "rows": [{"a": [_frac(v) for v in A[i]], "b": _frac(b[i])} for i in range(A.shape[0])]}
    except Exception as e:  # any exception is a rejection (interpretation 17)
        return {"st": "EXC", "cls": type(e).__name__, "rows": []}


def _model_spec(names):
    key = tuple(names)
    if key not in _SPEC:
        import pandas
        from formulaic import model_matrix

        df = pandas.DataFrame({n: [1.0, 2.0] for n in names})
        _SPEC[key] = model_matrix(" + ".join(names) + " - 1", df).model_spec
    return _SPEC[key]


def _split_top(tokens):
    parts, cur, depth = [], [], 0
    for t in tokens:
        if t == "(":
            depth += 1
        elif t == ")":
            depth -= 1
        if t == "," and depth == 0:
            parts.append(cur)
            cur = []
        else:
            cur.append(t)
    parts.append(cur)
    return parts


def replay_case(case):
    bad = []
    s = " ".join(case["t"])
    for n, names in enumerate(NAMELISTS):
        m = case["r"][n]
        exp_rows = [{"a": [list(v) for v in row["a"]], "b": list(row["b"])} for row in m["rows"]]
        forms = [("string", s)]
        if case["t"] and "," not in case["t"]:
            forms.append(("list of one string", [s]))  # gamma: the same single constraint as the only item of a list (the model has one row family; only the container differs)
        parts = _split_top(case["t"])
        if len(parts) > 1 and all(parts):
            forms.append(("list", [" ".join(p) for p in parts]))
        for form, spec in forms:
            obs = observe(spec, names)
            why = _judge(m, exp_rows, obs)
            if why:
                bad.append({"spec": spec, "form": form, "names": names, "why": why, "expected": exp_rows if m["st"] == "OK" else m["st"], "observed": obs})
        if m["st"] == "OK" and m["gram"] and "=" not in case["t"] and "," not in case["t"] and case["t"]:
            for val in (0, 2):  # mapping form: expression -> value
                obs = observe({s: val}, names)
                rows2 = [{"a": r["a"], "b": _frac(Fraction(*r["b"]) + val)} for r in exp_rows]
                why = _judge(m, rows2, obs)
                if why:
                    bad.append({"spec": {s: val}, "form": "dict", "names": names, "why": why, "expected": rows2, "observed": obs})
        # mapping with several keys (added): the comma-separated parts as keys, in the written order and in the reverse order - the rows of
        # (A, b) follow the order of the mapping's items, each part's row as in the comma form with its value added
        if m["st"] == "OK" and m["gram"] and "=" not in case["t"] and len(parts) > 1 and all(parts) and len(exp_rows) == len(parts):
            keys = [" ".join(p) for p in parts]
            if len(set(keys)) == len(keys):
                for order in (list(range(len(keys))), list(range(len(keys)))[::-1]):
                    spec = {keys[i]: (i + 1) % 3 for i in order}
                    rows2 = [{"a": exp_rows[i]["a"], "b": _frac(Fraction(*exp_rows[i]["b"]) + (i + 1) % 3)} for i in order]
                    obs = observe(spec, names)
                    why = _judge(m, rows2, obs)
                    if why:
                        bad.append({"spec": spec, "form": "dict with several keys", "names": names, "why": why, "expected": rows2, "observed": obs})
        if m["st"] == "OK" and m["gram"] and "=" not in case["t"] and "," not in case["t"] and case["t"]:
            try:
                lc = _model_spec(names).get_linear_constraints(s)
                A = numpy.asarray(lc.constraint_matrix, dtype=float)
                obs = {"st": "OK", "rows": [{"a": [_frac(v) for v in A[i]], "b": _frac(lc.constraint_values[i])} for i in range(A.shape[0])]}
            except Exception as e:  # noqa
                obs = {"st": "EXC", "cls": type(e).__name__, "rows": []}
            why = _judge(m, exp_rows, obs)
            if why:
                bad.append({"spec": s, "form": "ModelSpec.get_linear_constraints", "names": names, "why": why, "expected": exp_rows, "observed": obs})
    # the same specification over column names that need quoting (names of generated columns usually do)
    qmap = {"x": "A[T.b]", "y": "x y", "z": "z:w"}
    m = case["r"][0]
    exp_rows = [{"a": [list(v) for v in row["a"]], "b": list(row["b"])} for row in m["rows"]]
    sq = " ".join("`" + qmap[t] + "`" if t in qmap else t for t in case["t"])
    obs = observe(sq, [qmap[n] for n in NAMELISTS[0]])
    why = _judge(m, exp_rows, obs)
    if why:
        bad.append({"spec": sq, "form": "string over quoted column names", "names": [qmap[n] for n in NAMELISTS[0]], "why": why, "expected": exp_rows if m["st"] == "OK" else m["st"], "observed": obs})
    return bad


def _judge(m, exp_rows, obs):
    if m["st"] == "UNMODELLED":
        return None
    if m["gram"] and not m["lin"]:
        return "nonlinear-accepted" if obs["st"] == "OK" else None
    if m["st"] == "OK":
        if obs["st"] != "OK":
            return "model-accepts-code-rejects"
        if m["gram"] and obs["rows"] != exp_rows:
            return "rows-differ"
    return None


def enumerated(ctx: Ctx, maxlen: int):
    out = workdir("c16") / f"cases-{maxlen}.ndjson"
    out.unlink(missing_ok=True)
    cfg = f"SPECIFICATION Spec\nCONSTANTS\n  MaxLen = {maxlen}\n  Emit = TRUE\n  SignRule = \"parity\"\nINVARIANT Sound\nINVARIANT NonLinearRejected\nINVARIANT EmitCase\n"
    r = run_tlc("MC_Constraints", cfg, tag="c16", env={"OUT_FILE": str(out)}, timeout=3000)
    if r.violated:
        ctx.model_violation(r, f"MC_Constraints <= {maxlen}")
    ctx.add_tlc(r, f"affine agreement on n+1 points + non-linear rejection + emission; len<={maxlen}")
    # the design error "a run of signs that contains a minus is a minus" must be refuted by the arithmetic reference
    # inside the bound: otherwise no enumerated string has an even run of minuses that the reference reads (before the
    # reference read runs character by character it read none, and the rows of `x - - y` were compared with nothing).
    v = run_tlc("MC_Constraints", f"SPECIFICATION Spec\nCONSTANTS\n  MaxLen = {min(maxlen, 4)}\n  Emit = FALSE\n  SignRule = \"anyminus\"\nINVARIANT Sound\n", tag="c16v", timeout=3000)
    if "Sound" not in v.violated:
        raise MachineryError("MC_Constraints: the sign rule 'anyminus' does not violate Sound - no string of the family has an even run of minuses in the reference's grammar")
    ctx.notes["design_errors_refuted"] = ["anyminus (sign of a run = minus iff it contains a minus)"]
    cases = read_emitted(out)
    if len(cases) != r.distinct:
        raise MachineryError(f"emission incomplete: {len(cases)} of {r.distinct}")
    res = pmap("harness.props.c16", "replay_case", cases, chunk=500)
    stats = {"ok_gram": 0, "nonlinear": 0, "liberal_reject": 0}
    for c, bad in zip(cases, res):
        for n, m in enumerate(c["r"]):
            ctx.traces += 1
            ctx.evaluations += 1
            if m["st"] == "OK" and m["gram"]:
                stats["ok_gram"] += 1
                if len(c["t"]) >= 3:
                    ctx.nontrivial.add((" ".join(c["t"]), n))
            if m["gram"] and not m["lin"]:
                stats["nonlinear"] += 1
            if m["st"] == "REJECT" and m["gram"] and m["lin"]:
                stats["liberal_reject"] += 1
        for b in bad:
            ctx.violation({"spec": b["spec"], "names": b["names"], "form": b["form"]}, b, kind="replay")
    if stats["ok_gram"] == 0 or stats["nonlinear"] == 0:
        raise MachineryError(f"vacuous enumeration: {stats}")
    ctx.notes.setdefault("enumeration_stats", []).append({"maxlen": maxlen, **stats})
    for c in [c for c in cases if c["r"][0]["st"] == "OK" and len(c["t"]) >= 4][:2]:
        ctx.sample({"spec": " ".join(c["t"]), "model": c["r"][0]})
    out.unlink()


# ---------------------------------------------------------------- trace leg
TNAMES = ["x", "y", "z", "w", "C(A)[T.b]", "`a b`", "x:y"]


def gen_expr(rng, d):
    x = rng.random()
    if d <= 0 or x < 0.3:
        return rng.choice(["x", "y", "z", "w", "C(A)[T.b]", "`a b`", "`x:y`", "1", "2", "3", "0.5", "2.5", "10", "0"])
    if x < 0.45:
        return "(" + gen_expr(rng, d - 1) + ")"
    if x < 0.5:
        return rng.choice(["-", "+"]) + gen_expr(rng, d - 1)
    op = rng.choice(["+", "+", "-", "-", "*", "*", "/"])
    l, r = gen_expr(rng, d - 1), gen_expr(rng, d - 1)
    if op in "*/" and rng.random() < 0.8:  # bias towards linear products
        r = rng.choice(["2", "3", "0.5", "4", "(1 + 1)", "(3 - 1)"])
    sp = rng.choice(["", " "])
    return f"{l}{sp}{op}{sp}{r}"


def trace_tokens(s: str):
    from formulaic.parser.algos.tokenize import tokenize

    out = []
    for t in tokenize(s):
        k = t.kind.value
        if k == "operator":
            out.append({"k": "op", "s": "", "cs": list(t.token), "q": [0, 1], "isq": False})
        elif k == "context":
            out.append({"k": "open" if t.token in "([" else "close", "s": t.token, "cs": [], "q": [0, 1], "isq": False})
        elif k == "value":
            try:
                f = Fraction(t.token)
                if f.denominator > 1000 or abs(f.numerator) > 10000:
                    return None
                out.append({"k": "value", "s": t.token, "cs": [], "q": [f.numerator, f.denominator], "isq": True})
            except Exception:
                out.append({"k": "value", "s": t.token, "cs": [], "q": [0, 1], "isq": False})
        else:
            out.append({"k": k, "s": t.token, "cs": [], "q": [0, 1], "isq": False})
    return out


def record(job):
    i, s, names = job
    try:
        toks = trace_tokens(s)
    except Exception:
        return None
    if toks is None:
        return None
    obs = observe(s, names)
    return {"id": i, "s": s, "names": names, "toks": toks, "st": "OK" if obs["st"] == "OK" else "EXC", "rows": obs["rows"]}


def trace_leg(ctx: Ctx, n: int):
    rng = random.Random(31337 * ctx.seed + 5)
    jobs = []
    for i in range(n):
        d = rng.randint(1, 8 if not ctx.quick else 6)
        parts = [gen_expr(rng, d) + (" = " + gen_expr(rng, rng.randint(0, 3)) if rng.random() < 0.5 else "") for _ in range(rng.choice([1, 1, 1, 2, 3]))]
        names = rng.choice([["x", "y", "z", "w", "C(A)[T.b]", "a b", "x:y"], ["w", "a b", "C(A)[T.b]", "z", "y", "x", "x:y"], ["x", "y"]])
        jobs.append((i + 1, ", ".join(parts), names))
    recs = [r for r in pmap("harness.props.c16", "record", jobs) if r is not None]
    wd = workdir("c16")
    rejected = {}
    for b in range(0, len(recs), 4000):
        batch = recs[b : b + 4000]
        tf, rf = wd / f"trace{b}.json", wd / f"rej{b}.ndjson"
        tf.write_text(json.dumps([{k: v for k, v in r.items() if k != "s"} for r in batch]))
        rf.unlink(missing_ok=True)
        r = run_tlc("Trace_Constraints", "SPECIFICATION Spec\nINVARIANT Check\n", tag="c16t", env={"TRACE_FILE": str(tf), "REJ_FILE": str(rf)}, timeout=1800)
        if r.violated or r.distinct != len(batch):
            raise MachineryError(f"Trace_Constraints did not consume the batch ({r.distinct}/{len(batch)}) {r.violated}")
        ctx.add_tlc(r, "Trace_Constraints batch")
        for x in read_emitted(rf):
            rejected[x["id"]] = x["verdict"]
        tf.unlink()
        rf.unlink(missing_ok=True)
    diag = 0
    okc = 0
    for r in recs:
        v = rejected.get(r["id"], "")
        if v == "skip":
            continue
        ctx.traces += 1
        ctx.evaluations += 1
        if v.startswith("model:"):
            raise MachineryError(f"constraint model inconsistent on {r['s']!r}: {v}")
        if v.startswith("diag:"):
            diag += 1
            continue
        if v:
            ctx.violation({"spec": r["s"], "names": r["names"], "form": "string"}, {"why": v, "observed": {"st": r["st"], "rows": r["rows"]}}, kind="trace")
        elif r["st"] == "OK":
            okc += 1
            ctx.nontrivial.add(("T", r["s"], tuple(r["names"])))
    ctx.notes["trace_liberal_rejections"] = diag
    ctx.notes["trace_records_accepted"] = okc
    if okc < len(recs) // 10:
        raise MachineryError(f"trace leg nearly vacuous: only {okc} accepted specifications of {len(recs)}")
    ctx.sample({"trace_record": {"spec": recs[0]["s"], "names": recs[0]["names"], "observed": recs[0]["rows"]}})


def run(ctx: Ctx) -> None:
    ctx.rule = ("every constraint token string over {x y z 0 1 2 3 + - * / = , ( )} up to the bound x 2 column lists x string/list/mapping forms; "
                "trace: random expressions of depth <= 8; non-trivial = accepted, grammatical and >= 3 tokens")
    ctx.trusted = ["Fraction(float).limit_denominator(1e6) to read (A, b) exactly", "TLC", "Rat.tla within 32-bit range (small literals)"]
    # the empty specification in each of its three forms is zero constraints (the model's value of the empty token string)
    for form, spec in (("string", ""), ("list", []), ("dict", {})):
        obs = observe(spec, NAMELISTS[0])
        ctx.traces += 1
        ctx.evaluations += 1
        if obs != {"st": "OK", "rows": []}:
            ctx.violation({"spec": repr(spec), "form": form, "names": NAMELISTS[0]}, {"why": "the empty specification is not zero constraints", "observed": obs}, kind="replay")
    if ctx.quick:
        enumerated(ctx, 4)
        trace_leg(ctx, 2500)
    else:
        enumerated(ctx, 5)
        trace_leg(ctx, 40000)
    ctx.exhaustive = True


def replay(path: str) -> int:
    rec = json.load(open(path))
    c = rec["case"]
    print(repr(c["spec"]), c["names"], "->", observe(c["spec"], c["names"]))
    print("expected/why:", rec["detail"].get("expected"), rec["detail"].get("why"))
    return 0
