def run(ctx):
    pass
