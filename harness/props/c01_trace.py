"""C01 leg T: recorded executions of the real parser validated by TLC (Trace_Wilkinson)."""
from __future__ import annotations

import json
import random
import sys

from ..common import Ctx, pmap
from ..tlc import MachineryError, read_emitted, run_tlc, workdir
from .. import palpha



def lit_attrs(text: str):
    """oracle attributes of a literal token: is it a number; value if an integer literal (else -1)."""
    num = text.replace(".", "", 1).isnumeric()
    ival = -1
    if text.isdigit() and text.isascii() and (text[0] != "0" or set(text) == {"0"}):
        ival = int(text)
    return num, ival

NAMES = list("abcdefghijkl")
FLAGSETS = [[], ["TWOSIDED"], ["MULTIPART"], ["TWOSIDED", "MULTIPART"], ["TWOSIDED", "MULTIPART", "MULTISTAGE"], ["TWOSIDED", "MULTIPART", "MULTISTAGE"], ["MULTISTAGE"]]


def abstract_tokens(s: str):
    """alpha of the real lexer output (tokenize + sanitize_tokens) -> list of token records, or None."""
    from formulaic.parser.algos.sanitize_tokens import sanitize_tokens
    from formulaic.parser.algos.tokenize import tokenize

    out = []
    for t in sanitize_tokens(tokenize(s)):
        k = t.kind.value
        if k == "operator":
            out.append({"k": "op", "s": "", "cs": [t.token] if t.token in ("in", ".") else list(t.token), "vars": [],
                        "num": False, "ival": -1})
        elif k == "context":
            out.append({"k": "open" if t.token in "([" else "close", "s": t.token, "cs": [], "vars": [], "num": False, "ival": -1})
        elif k == "value":
            num, ival = lit_attrs(t.token)
            if ival > 1000:
                return None
            out.append({"k": "value", "s": t.token, "cs": [], "vars": [], "num": num, "ival": ival})
        else:
            out.append({"k": k, "s": t.token, "cs": [], "vars": sorted(str(v) for v in t.required_variables), "num": False, "ival": -1})
    return out


def ast_str(node) -> str:
    if isinstance(node, list):
        return "(" + " ".join([node[0]] + [ast_str(a) for a in node[1:]]) + ")"
    return str(node)


def record(job):
    i, s, cfg = job
    try:
        toks = abstract_tokens(s)
    except Exception:
        return None
    if toks is None:
        return None
    from .c01 import res_str

    r = palpha.parse_terms(s, cfg)
    o = palpha.parse_formula(s, cfg)

    def enc(obs):
        return "X" if obs["st"] in ("ESCAPED", "PYSYNTAX", "TIMEOUT") else res_str(obs)

    ast = "-"
    if r["st"] == "OK":
        try:
            a = palpha.parser_for(cfg).get_ast(s, context=palpha.context_for(cfg))
            ast = "None" if a is None else ast_str(a.flatten(str_args=True)) if hasattr(a, "flatten") else str(a)
        except Exception:
            ast = "-"
    return {"id": i, "s": s, "cfg": {"intercept": cfg["intercept"], "flags": cfg["flags"], "present": cfg["avail"]["present"],
                                     "vars": cfg["avail"]["vars"]},
            "toks": toks, "r": enc(r), "o": enc(o), "ast": ast}


class Gen:
    def __init__(self, rng: random.Random):
        self.r = rng

    def signs(self, p=0.25):
        r = self.r
        if r.random() < p:
            return [r.choice("+-") for _ in range(r.randint(1, 3))]
        return []

    def atom(self, d):
        r = self.r
        x = r.random()
        if d > 0 and x < 0.25:
            y = r.random()
            if y < 0.2:      # a stage of a multistage formula (only read with the MULTISTAGE flag)
                return ["["] + self.expr(d - 1) + ["~"] + self.expr(d - 1) + ["]"]
            o, c = ("(", ")") if y < 0.9 else ("[", "]")
            return [o] + self.expr(d - 1) + [c]
        if x < 0.70:
            return [r.choice(NAMES[: r.randint(2, 12)])]
        if x < 0.80:
            return [r.choice(["0", "1", "2", "3", "10", "01", "00", "1.", "2.5"])]
        if x < 0.86:
            return [r.choice(["f(a)", "log(b)", "{a+1}", "C(c, contr.treatment)", "`x y`", "np.log( a )", "`a:b`", "`a:b`", "`b:c:a`",
                              "{(a + b).abs()}", "{a[0].z}", "f(a)[0](b)", "{a.b.c()}"])]
        if x < 0.90:
            return ["."]
        if x < 0.92:
            return [r.choice(['"s"', "2.5"])]
        return [r.choice(NAMES[:4])]

    def expr(self, d):
        r = self.r
        out = self.signs(0.15) + self.atom(d)
        for _ in range(r.choice([0, 0, 1, 1, 2, 3])):
            op = r.choice(["+", "+", "-", "*", "/", ":", ":", "%in%", "**", "^"])
            out.append(op)
            if op in ("**", "^") and r.random() < 0.8:
                out.append(r.choice(["1", "2", "2", "3"]))
            else:
                out += self.signs(0.2) + self.atom(d)
        return out

    def side(self, d):
        out = self.expr(d)
        while self.r.random() < 0.15:
            out += ["|"] + self.expr(d)
        return out

    def formula(self):
        r = self.r
        d = r.randint(0, 6)
        x = r.random()
        if x < 0.25:
            toks = self.side(d) + ["~"] + self.side(d)
        elif x < 0.32:
            toks = ["~"] + self.side(d)
        else:
            toks = self.side(d)
        if r.random() < 0.2 and toks:  # mutate: delete / duplicate / insert a token
            j = r.randrange(len(toks))
            m = r.random()
            if m < 0.4:
                del toks[j]
            elif m < 0.7:
                toks.insert(j, toks[j])
            else:
                toks.insert(j, r.choice(["+", "-", "~", "|", ")", "(", ":", "*", "0", "a"]))
        # random spacing
        s = ""
        for t in toks:
            s += t + r.choice(["", " ", " ", "  "])
            if t[-1:].isalnum() or t[-1:] in "_.`)\"'}":
                s += " " if (s[-1:] != " " and r.random() < 0.9) else ""
        return s.strip()


def corpus_from_repo_tests() -> list:
    try:
        sys.path.insert(0, "/repo")
        from tests.parser.test_parser import FORMULA_TO_TERMS  # type: ignore

        return [k for k in FORMULA_TO_TERMS if isinstance(k, str)]
    except Exception:
        return []
    finally:
        if sys.path and sys.path[0] == "/repo":
            sys.path.pop(0)


def run(ctx: Ctx) -> None:
    rng = random.Random(1000003 * ctx.seed + 17)
    g = Gen(rng)
    n = 3000 if ctx.quick else 40000
    forms = corpus_from_repo_tests() + [g.formula() for _ in range(n)]
    jobs = []
    for i, s in enumerate(forms):
        cfg = {"intercept": rng.random() < 0.7, "flags": rng.choice(FLAGSETS),
               "avail": rng.choice([{"present": True, "vars": rng.sample(NAMES[:6], 4)}, {"present": False, "vars": []}])}
        jobs.append((i, s, cfg))
    recs = [r for r in pmap("harness.props.c01_trace", "record", jobs) if r is not None]
    if len(recs) < len(jobs) // 2:
        raise MachineryError(f"trace driver produced only {len(recs)} usable records of {len(jobs)}")
    wd = workdir("c01")
    rejected = {}
    accepted = 0
    B = 4000
    for b in range(0, len(recs), B):
        batch = recs[b : b + B]
        tf, rf = wd / f"trace{b}.json", wd / f"rej{b}.ndjson"
        tf.write_text(json.dumps(batch))
        if rf.exists():
            rf.unlink()
        r = run_tlc("Trace_Wilkinson", "SPECIFICATION Spec\nINVARIANT Check\n", tag="c01t",
                    env={"TRACE_FILE": str(tf), "REJ_FILE": str(rf)}, timeout=1800)
        if r.violated or r.distinct != len(batch):
            raise MachineryError(f"trace validation did not consume the batch: {r.distinct} of {len(batch)} {r.violated}")
        ctx.add_tlc(r, "Trace_Wilkinson batch")
        for x in read_emitted(rf):
            rejected[x["id"]] = x["verdict"]
        tf.unlink()
        if rf.exists():
            rf.unlink()
    byid = {r["id"]: r for r in recs}
    skipped = 0
    for i, v in rejected.items():
        rec = byid[i]
        if v == "skip":
            skipped += 1
            continue
        if v.startswith("model:"):
            raise MachineryError(f"specification disagrees with its own reference on {rec['s']!r} {rec['cfg']}")
        ctx.violation({"formula": rec["s"], "cfg": {"intercept": rec["cfg"]["intercept"], "flags": rec["cfg"]["flags"],
                                                    "avail": {"present": rec["cfg"]["present"], "vars": rec["cfg"]["vars"]}},
                       "via": "trace"},
                      {"formula": rec["s"], "verdict": v, "observed_get_terms": rec["r"], "observed_formula": rec["o"],
                       "observed_ast": rec["ast"]}, kind="trace")
    ctx.require("trace leg: records judged by Trace_Wilkinson (not unmodelled)", len(recs) - skipped, len(recs) // 2)
    ctx.traces += len(recs) - skipped
    ctx.evaluations += len(recs)
    for r in recs:
        if r["r"] not in ("R", "X") and r["id"] not in rejected and len(r["toks"]) >= 5:
            ctx.nontrivial.add(("T", r["s"], json.dumps(r["cfg"], sort_keys=True)))
    for r in recs[:: max(1, len(recs) // 2)][:2]:
        ctx.sample({"trace_record": {"formula": r["s"], "cfg": r["cfg"], "observed": r["r"]}})
    ctx.notes["trace_records_nested_structure"] = sum(1 for r in recs if r["r"].startswith("tree#") and r["id"] not in rejected)
    ctx.notes["trace_records"] = len(recs)
    ctx.notes["trace_records_unmodelled"] = skipped
    ctx.notes["trace_records_accepted_ok"] = sum(1 for r in recs if r["r"] not in ("R", "X") and r["id"] not in rejected)
