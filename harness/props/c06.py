"""C06 - missing-data policy removes exactly the right rows, by position, and reports it.

Leg M: TLC checks (MC_Missing) on every null pattern x formula x policy x caller set: the drop
       set only grows and ends as exactly caller rows + null rows (drop), kept rows are the
       complement in order, raise fails iff some evaluated factor has a null.
Leg R: every enumerated case is executed through the entry points (sugar, Formula, ModelSpec(s)
       with and without call-time overrides, materializer, a materializer object that has already
       answered another request) on frames whose index is default,
       string, unsorted or non-unique, for the three outputs; observed: cells, index label
       sequence, the caller's set afterwards, exception or not.
"""
from __future__ import annotations

import json

import numpy

from ..common import Ctx, pmap, jhash
from ..tlc import MachineryError, read_emitted, run_tlc, workdir
from .. import matlib

FORMULAS = {1: "a", 2: "a + A", 3: "A:b", 4: "b ~ a", 5: "b ~ A | a", 6: "C(A)", 7: "b + hashed(A, levels=3)", 8: "a ~ 0 | A", 9: "a | 0 + b", 17: "b + C(L)"}
OPAQUE = {7}
INDEX_KINDS = ["default", "strings", "unsorted", "nonunique"]
PATHS = ["sugar", "formula", "spec", "spec_override", "materializer", "narwhals"]
OUTPUTS = ["pandas", "numpy", "sparse"]
THOROUGH = False


def frame(nulls: dict, index_kind: str):
    fr = {"n": 4, "cols": {
        "a": {"kind": "num", "num": [2, 3, 5, 7], "cat": [], "nulls": nulls["a"], "lv": [], "declared": False},
        "b": {"kind": "num", "num": [11, 13, 17, 19], "cat": [], "nulls": nulls["b"], "lv": [], "declared": False},
        "A": {"kind": "cat", "num": [], "cat": ["x", "y", "z", "x"], "nulls": nulls["A"], "lv": ["x", "y", "z"], "declared": False}}}
    return matlib.gamma_frame(fr, index_kind=index_kind)


def flatten_result(res):
    """ModelMatrix / ModelMatrices -> list of parts in lhs..., rhs... (or root) order"""
    from formulaic.utils.structured import Structured

    def parts(x):
        if isinstance(x, tuple):
            return list(x)
        return [x]

    if isinstance(res, Structured):
        st = res._structure
        if set(st) == {"root"}:
            return parts(st["root"])
        return parts(st["lhs"]) + parts(st["rhs"])
    return [res]


def build(formula, df, path, output, na, drop):
    from formulaic import Formula, ModelSpec, model_matrix
    from formulaic.materializers import PandasMaterializer

    if "C(L)" in formula:       # a factor whose values are an array of strings of the caller's context
        import numpy

        return _build(formula, df, path, output, na, drop, {"L": (numpy.array(df["A"].tolist(), dtype=object) if df["A"].isnull().any() else numpy.array(df["A"].tolist()))})
    return _build(formula, df, path, output, na, drop, {})


def _build(formula, df, path, output, na, drop, context):
    from formulaic import Formula, ModelSpec, model_matrix
    from formulaic.materializers import PandasMaterializer

    if path == "sugar":
        return model_matrix(formula, df, na_action=na, output=output, drop_rows=drop, context=context)
    if path == "formula":
        return Formula(formula).get_model_matrix(df, na_action=na, output=output, drop_rows=drop, context=context)
    if path == "spec":
        return ModelSpec.from_spec(Formula(formula), na_action=na, output=output).get_model_matrix(df, drop_rows=drop, context=context)
    if path == "spec_override":
        return ModelSpec.from_spec(Formula(formula)).get_model_matrix(df, drop_rows=drop, context=context, na_action=na, output=output)
    if path == "narwhals":       # the option override that sends a pandas frame through the narwhals materializer
        return model_matrix(formula, df, na_action=na, output=output, drop_rows=drop, context=context, materializer="narwhals")
    if path == "materializer_reused":
        # the materializer object has a past: it was first asked, under the ignore policy and without a caller set, for a matrix over
        # every column; the judged call must remove and report rows as if the object were new (MC_Missing speaks about one call: what
        # an earlier call evaluated, kept or dropped is not among its arguments)
        m = PandasMaterializer(df, context=context)
        try:
            m.get_model_matrix(Formula("a + b + A + C(A)" + (" + C(L)" if "L" in context else "")), na_action="ignore", output=["numpy", "pandas", "sparse"][len(formula) % 3])
        except Exception:  # noqa  (what the earlier call answers is not judged here)
            pass
        return m.get_model_matrix(Formula(formula), drop_rows=drop, na_action=na, output=output)
    return PandasMaterializer(df, context=context).get_model_matrix(Formula(formula), drop_rows=drop, na_action=na, output=output)


STORAGE = ["float64", "Int64", "Float64"]       # the same numbers and the same nulls, held by numpy floats (NaN) or by pandas' nullable extension arrays (pd.NA)


def one(case, index_kind, path, output, storage="float64"):
    formula = FORMULAS[case["fid"]]
    df = frame(case["nulls"], index_kind)
    if storage != "float64":
        import pandas

        for c in ("a", "b"):
            df[c] = pandas.array([None if v != v else (int(v) if storage == "Int64" else float(v)) for v in df[c].tolist()], dtype=storage)
    before = df.copy(deep=True)
    drop = {d - 1 for d in case["drop0"]}
    base = {"formula": formula, "nulls": case["nulls"], "na": case["na"], "drop0": sorted(drop), "index": index_kind, "path": path, "output": output}
    if storage != "float64":
        base["numeric_storage"] = storage
    try:
        res = build(formula, df, path, output, case["na"], drop)
    except Exception as e:  # noqa
        if case["fails"]:
            return []
        return [{**base, "why": "unexpected-exception", "observed": type(e).__name__ + ": " + str(e)[:100]}]
    if case["fails"]:
        return [{**base, "why": "raise-policy-did-not-raise"}]
    bad = []
    exp_drop = [d - 1 for d in case["drop1"]]
    got_drop = sorted(int(x) for x in drop)
    if got_drop != exp_drop:
        bad.append({**base, "why": "caller-drop-set", "observed": got_drop, "expected": exp_drop})
    kept = [k - 1 for k in case["kept"]]
    parts = flatten_result(res)
    exp_parts = case["parts"]
    if kept and len(parts) != len(exp_parts):
        bad.append({**base, "why": "number-of-parts", "observed": len(parts), "expected": len(exp_parts)})
        return bad
    labels = list(df.index)
    for i, mm in enumerate(parts):
        names, cells, lab, index, arr = matlib.alpha_matrix(mm, output)
        if arr.shape[0] != len(kept):
            bad.append({**base, "why": f"rows-of-part-{i}", "observed": int(arr.shape[0]), "expected": len(kept)})
            continue
        if output == "pandas" and index != [labels[k] for k in kept]:
            bad.append({**base, "why": f"index-labels-of-part-{i}", "observed": [str(x) for x in index], "expected": [str(labels[k]) for k in kept]})
        if kept and case["fid"] not in OPAQUE:
            if names != exp_parts[i]["names"]:
                bad.append({**base, "why": f"names-of-part-{i}", "observed": names, "expected": exp_parts[i]["names"]})
            elif cells != exp_parts[i]["cells"]:
                bad.append({**base, "why": f"cells-of-part-{i}", "observed": cells, "expected": exp_parts[i]["cells"]})
    if not df.equals(before):
        bad.append({**base, "why": "input-frame-mutated"})
    return bad


def replay_case(case):
    h = int(jhash([case["fid"], case["nulls"], case["na"], case["drop0"]])[:8], 16)
    combos = [(INDEX_KINDS[h % 4], PATHS[(h // 4) % len(PATHS)], OUTPUTS[(h // 20) % 3])]
    if THOROUGH:
        combos += [(INDEX_KINDS[(h + 1) % 4], PATHS[(h // 4 + 2) % len(PATHS)], OUTPUTS[(h // 20 + 1) % 3]),
                   (INDEX_KINDS[(h + 3) % 4], PATHS[(h // 4 + 3) % len(PATHS)], "pandas")]
    if (case["nulls"]["a"] or case["nulls"]["A"]) and case["na"] == "drop":
        combos.append(("nonunique", PATHS[(h // 7) % len(PATHS)], "pandas"))
    if h % 3 != 1:        # (added, not dealt among PATHS: the rotation of the other entry points stays as it was)
        combos.append((INDEX_KINDS[(h // 3) % 4], "materializer_reused", OUTPUTS[(h // 12) % 3]))
    out = []
    for c in dict.fromkeys(combos):
        out += one(case, *c)
    if case["nulls"]["a"] or case["nulls"]["b"]:        # a null in a numeric column: also as pd.NA of a nullable extension array
        c = combos[0]
        out += one(case, c[0], c[1], c[2], storage=STORAGE[1 + (h // 60) % 2])
        return out, len(set(combos)) + 1
    return out, len(set(combos))


def run(ctx: Ctx) -> None:
    global THOROUGH
    THOROUGH = not ctx.quick
    ctx.rule = ("every null pattern with <= MaxNulls nulls per column over (a, b, A) of a 4-row frame x 10 formulas (one-sided, two-sided, multi-part, context-held string array, "
                "empty part, C(), hashed()) x {drop, raise, ignore} x caller sets {{}, {0}, {1,3}}; index kind, entry point and output cycled "
                "by case; non-trivial = >= 1 null in an evaluated column and >= 1 kept row")
    ctx.trusted = ["gamma/alpha of the materializer family", "TLC"]
    ctx.matchers = {}
    out = workdir("c06") / "cases.ndjson"
    out.unlink(missing_ok=True)
    maxnulls = 1 if ctx.quick else 2
    cfg = (f"SPECIFICATION Spec\nCONSTANTS\n  Emit = TRUE\n  MaxNulls = {maxnulls}\n  FormulaSet = \"c06\"\n"
           "INVARIANT DropGrows\nINVARIANT DropExact\nINVARIANT KeptIsComplement\nINVARIANT RaiseIff\nINVARIANT EmitCase\n")
    r = run_tlc("MC_Missing", cfg, tag="c06", env={"OUT_FILE": str(out)}, timeout=3400)
    if r.violated:
        ctx.model_violation(r, "MC_Missing")
    ctx.add_tlc(r, f"drop-set / kept-rows / raise theorems + emission; <= {maxnulls} nulls per column")
    cases = read_emitted(out)
    out.unlink()
    if len(cases) != r.distinct:
        raise MachineryError(f"emission incomplete: {len(cases)} of {r.distinct}")
    res = pmap("harness.props.c06", "replay_case", cases, chunk=100)
    for c, (bad, n) in zip(cases, res):
        ctx.traces += n
        ctx.evaluations += n
        if (c["nulls"]["a"] or c["nulls"]["b"] or c["nulls"]["A"]) and c["kept"] and c["drop1"] != c["drop0"]:
            ctx.nontrivial.add(jhash([c["fid"], c["nulls"], c["na"], c["drop0"]]))
        for b in bad:
            ctx.violation({k: b[k] for k in ("formula", "nulls", "na", "drop0", "index", "path", "output")}, b, kind="replay")
    ctx.require("replay: executed builds", sum(n for _, n in res), 1000)
    for c in [c for c in cases if c["nulls"]["a"] and c["nulls"]["A"] and c["na"] == "drop" and c["fid"] == 5][:2]:
        ctx.sample({"formula": FORMULAS[c["fid"]], "nulls": c["nulls"], "drop0": c["drop0"], "expected_drop": c["drop1"], "kept": c["kept"]})
    ctx.exhaustive = True
    # leg T: random frames, formulas, caller sets, index kinds, entry points validated by TLC (rows, drop set, index labels)
    from .. import mattrace

    mattrace.run(ctx, 1500 if ctx.quick else 25000, "c06",
                 judge=lambda v: v in ("caller-drop-set", "number-of-rows", "index-labels", "raise-policy-must-fail", "unexpected-exception"))


def replay(path: str) -> int:
    rec = json.load(open(path))
    print(json.dumps(rec["detail"], indent=1)[:3000])
    return 0
