"""C13 - scaling, polynomial and elementwise transforms meet their numeric contracts.

Leg M: TLC checks in exact rationals (MC_PolyScale) for every integer vector in the bound:
       centred data sums to zero, the scaled data has sum of squares n - ddof, polynomial
       columns (Gram-Schmidt on raw powers, not the code's recurrence) are orthogonal to each
       other and to the constant and monic, applying the recorded state is row-local and
       reproduces the fit on the training data.
Leg R: every vector x flags x ddof x degree is executed through scale / center / standardize /
       poly (direct calls with _state, and model_matrix + spec reuse on follow-up vectors);
       observed values are compared with (exact rational)/sqrt(exact rational); recorded state
       wins over arguments; NaN rows propagate; exp10/exp2/log10/log2 are exact on integers.
       Elementwise family (kind "elem"): TLC emits b^k (b = 10, 2) for every integer exponent k of either sign in -ElemAbs..ElemAbs as
       exact rational factors (laws: homomorphism, reciprocal, monotone, log_b inverse); replayed on columns of every numpy
       integer / float dtype that holds the exponents.
"""
from __future__ import annotations

import json
import math

import numpy

from ..common import Ctx, pmap, jhash
from ..tlc import MachineryError, read_emitted, run_tlc, workdir


def val(pair):
    """<<num (rat), den2 (rat)>> -> num / sqrt(den2)"""
    (n, d), (m, k) = pair
    return (n / d) / math.sqrt(m / k)


def close(a, b, tol=1e-9):
    a, b = numpy.asarray(a, dtype=float), numpy.asarray(b, dtype=float)
    return a.shape == b.shape and bool(numpy.allclose(a, b, rtol=tol, atol=tol, equal_nan=True))


def replay_scale(case):
    import pandas
    from formulaic import model_matrix
    from formulaic.transforms import center as t_center, scale as t_scale
    from formulaic.transforms.patsy_compat import standardize

    x = [float(v) for v in case["x"]]
    base = {"transform": "scale", "x": case["x"], "center": case["center"], "scale": case["scale"], "ddof": case["ddof"]}
    bad = []

    def chk(what, ok, obs=None, exp=None):
        if not ok:
            bad.append({**base, "why": what, "observed": str(obs)[:200], "expected": str(exp)[:200]})

    exp_fit = [val(p) for p in case["fit"]]
    try:
        st = {}
        xin = numpy.array(x, dtype="float64")
        got = t_scale(xin, center=case["center"], scale=case["scale"], ddof=case["ddof"], _state=st)
        chk("fit values", close(got, exp_fit), list(got), exp_fit)
        chk("the fitted-on vector is not written to", xin.tolist() == x, xin.tolist(), x)
        # the same numbers held in a narrow integer dtype (homogeneity, a theorem of MC_PolyScale, gives the expected values of the multiple)
        for dt, c in (("int8", 40), ("int32", 30000), ("int64", 4000000000)):
            xi = numpy.array([c * int(v) for v in case["x"]], dtype=dt)
            gi = numpy.asarray(t_scale(xi, center=case["center"], scale=case["scale"], ddof=case["ddof"], _state={}), dtype=float)
            want = numpy.array(exp_fit) * (1 if case["scale"] else c)
            chk(f"fit values on {dt} data", bool(numpy.allclose(gi, want, rtol=1e-9, atol=1e-9)), gi.tolist(), want.tolist())
        if case["center"]:
            chk("recorded center", close(st["center"], case["st_center"][0] / case["st_center"][1]), st.get("center"))
            chk("zero mean", abs(float(numpy.mean(got))) < 1e-9, float(numpy.mean(got)))
        else:
            chk("recorded center is None", st["center"] is None, st.get("center"))
        if case["scale"]:
            chk("recorded scale", close(st["scale"], math.sqrt(case["st_scale2"][0] / case["st_scale2"][1])), st.get("scale"))
            if case["center"]:
                chk("unit standard deviation for the chosen ddof", abs(float(numpy.std(got, ddof=case["ddof"])) - 1) < 1e-9, float(numpy.std(got, ddof=case["ddof"])))
        chk("recorded ddof", st["ddof"] == case["ddof"], st.get("ddof"))
        for f in case["follow"]:
            y = numpy.array([float(v) for v in f["y"]])
            exp = [val(p) for p in f["v"]]
            st2 = dict(st)
            # recorded statistics win over (different) arguments
            y0 = y.copy()
            got2 = t_scale(y, center=not case["center"], scale=not case["scale"], ddof=1 - case["ddof"], _state=st2)
            chk("recorded state applied unchanged to new data", close(got2, exp), list(got2), exp)
            chk("the follow-up vector is not written to", y.tolist() == y0.tolist(), y.tolist(), y0.tolist())
            chk("state not modified by reuse", repr(st2) == repr(st))
        # through formulas + spec reuse
        df = pandas.DataFrame({"x": x})
        forms = [f"scale(x, center={case['center']}, scale={case['scale']}, ddof={case['ddof']})"]
        if case["center"] and not case["scale"]:
            forms.append("center(x)")
        forms.append(f"standardize(x, center={case['center']}, rescale={case['scale']}, ddof={case['ddof']})")
        # the recorded state is keyed by the text of the stateful call, which is not the factor's text when the call sits inside a
        # larger python expression or names a quoted column
        forms.append(f"I(scale(x, center={case['center']}, scale={case['scale']}, ddof={case['ddof']}) + 0)")
        forms.append(f"scale(`x v`, center={case['center']}, scale={case['scale']}, ddof={case['ddof']})")
        df["x v"] = df["x"]
        for form in forms:
            mm = model_matrix("0 + " + form, df, context={})
            chk(f"model_matrix({form})", close(numpy.asarray(mm)[:, 0], exp_fit), numpy.asarray(mm)[:, 0].tolist(), exp_fit)
            for f in case["follow"]:
                m2 = mm.model_spec.get_model_matrix(pandas.DataFrame({"x": [float(v) for v in f["y"]], "x v": [float(v) for v in f["y"]]}), context={})
                chk(f"spec reuse of {form}", close(numpy.asarray(m2)[:, 0], [val(p) for p in f["v"]]), numpy.asarray(m2)[:, 0].tolist())
    except Exception as e:  # noqa
        bad.append({**base, "why": "exception", "observed": type(e).__name__ + ": " + str(e)[:150]})
    return bad, 4 + 3 * len(case["follow"])


def replay_poly(case):
    import pandas
    from formulaic import model_matrix
    from formulaic.transforms import poly

    x = [float(v) for v in case["x"]]
    k = case["degree"]
    base = {"transform": "poly", "x": case["x"], "degree": k}
    bad = []

    def chk(what, ok, obs=None, exp=None):
        if not ok:
            bad.append({**base, "why": what, "observed": str(obs)[:300], "expected": str(exp)[:300]})

    exp_fit = [[val(p) for p in row] for row in case["fit"]]
    try:
        st = {}
        xin = numpy.array(x, dtype="float64")
        got = numpy.asarray(poly(xin, degree=k, _state=st), dtype=float)
        chk("fit values", close(got, exp_fit), got.tolist(), exp_fit)
        chk("the fitted-on vector is not written to", xin.tolist() == x, xin.tolist(), x)
        chk("orthonormal columns", close(got.T @ got, numpy.eye(k)), (got.T @ got).tolist())
        chk("orthogonal to the constant", close(got.sum(axis=0), numpy.zeros(k)))
        raw = numpy.stack([numpy.power(x, j) for j in range(0, k + 1)], axis=1)
        chk("same span as the raw powers", numpy.linalg.matrix_rank(numpy.hstack([raw, got])) == k + 1)
        chk("raw=True gives the raw powers", close(numpy.asarray(poly(numpy.array(x), degree=k, raw=True), dtype=float), raw[:, 1:]))
        for dt, c in (("int8", 40), ("int32", 30000)):
            xi = numpy.array([c * int(v) for v in case["x"]], dtype=dt)
            rawi = numpy.stack([numpy.power(xi.astype(float), j) for j in range(1, k + 1)], axis=1)
            chk(f"raw=True gives the raw powers on {dt} data", bool(numpy.allclose(numpy.asarray(poly(xi, degree=k, raw=True), dtype=float), rawi, rtol=1e-12)),
                numpy.asarray(poly(xi, degree=k, raw=True), dtype=float).tolist(), rawi.tolist())
            gi = numpy.asarray(poly(xi, degree=k, _state={}), dtype=float)
            chk(f"fit values on {dt} data", bool(numpy.allclose(gi, numpy.array(exp_fit), rtol=1e-9, atol=1e-9)), gi.tolist(), exp_fit)
        for f in case["follow"]:
            y = [float(v) for v in f["y"]]
            exp = [[val(p) for p in row] for row in f["v"]]
            st2 = {kk: (dict(vv) if isinstance(vv, dict) else vv) for kk, vv in st.items()}
            got2 = numpy.asarray(poly(numpy.array(y), degree=k, _state=st2), dtype=float)
            chk("recorded polynomials applied to new data", close(got2, exp), got2.tolist(), exp)
            # missing values propagate row-wise
            got3 = numpy.asarray(poly(numpy.array(y + [float("nan")]), degree=k, _state=st2), dtype=float)
            chk("NaN row propagates (reuse)", close(got3[:-1], exp) and bool(numpy.isnan(got3[-1]).all()), got3.tolist())
        # nulls are ignored by the statistics at fit time and propagate
        st4 = {}
        got4 = numpy.asarray(poly(numpy.array([x[0], float("nan")] + x[1:]), degree=k, _state=st4), dtype=float)
        chk("NaN row propagates and is excluded from the statistics (fit)", close(numpy.delete(got4, 1, axis=0), exp_fit) and bool(numpy.isnan(got4[1]).all()), got4.tolist())
        df = pandas.DataFrame({"x": x})
        mm = model_matrix(f"0 + poly(x, {k})", df, context={})
        chk("model_matrix(poly)", close(numpy.asarray(mm), exp_fit))
        chk("poly column names", list(mm.model_spec.column_names) == [f"poly(x, {k})[{j}]" for j in range(1, k + 1)], list(mm.model_spec.column_names))
        for f in case["follow"]:
            m2 = mm.model_spec.get_model_matrix(pandas.DataFrame({"x": [float(v) for v in f["y"]]}), context={})
            chk("spec reuse of poly", close(numpy.asarray(m2), [[val(p) for p in row] for row in f["v"]]))
        # a polynomial of a centred, quoted column: inner and outer state are both keyed by sanitised call texts
        df["x v"] = df["x"]
        mmq = model_matrix(f"0 + poly(center(`x v`), {k})", df, context={})
        chk("model_matrix(poly(center(`x v`)))", close(numpy.asarray(mmq), exp_fit))
        for f in case["follow"]:
            m3 = mmq.model_spec.get_model_matrix(pandas.DataFrame({"x v": [float(v) for v in f["y"]]}), context={})
            chk("spec reuse of poly(center(`x v`))", close(numpy.asarray(m3), [[val(p) for p in row] for row in f["v"]]), numpy.asarray(m3).tolist())
    except Exception as e:  # noqa
        bad.append({**base, "why": "exception", "observed": type(e).__name__ + ": " + str(e)[:150]})
    return bad, 6 + 3 * len(case["follow"])


# numpy's own companion float of the narrow integer dtypes is float16 / float32 (numpy.exp2(int8) is a float16); the ufunc-backed functions
# (exp, exp2, log, log2, log10) are therefore replayed on the dtypes whose companion is float64 only - what precision a narrow column is
# owed is not said by the statement.  exp10 is the library's own lambda and is replayed on every dtype.
WIDE = ("float64", "int64", "int32", "uint64", "uint32")
NARROW = ("int16", "int8", "uint16", "uint8")


def replay_elem(cases):
    """the elementwise family: expected b^k is the product of the emitted rational factors, taken in unbounded integers; log_b(b^k) = k
    is a law of the model.  gamma side: the same exponents held in every integer dtype (signed: both signs; unsigned: k >= 0), as a
    pandas column through model_matrix and as a numpy vector through the preloaded function itself; and the powers 10^k / 2^k held in
    the integer dtypes that have room for them, as arguments of the logarithms."""
    from fractions import Fraction

    import pandas
    from formulaic import model_matrix
    from formulaic.transforms import TRANSFORMS

    def prod(fs):
        r = Fraction(1)
        for n, d in fs:
            r *= Fraction(int(n), int(d))
        return r

    want = {"exp10": {int(c["k"]): prod(c["exp10"]) for c in cases}, "exp2": {int(c["k"]): prod(c["exp2"]) for c in cases}}
    ks_all = sorted(want["exp10"])
    bad, n = [], 0

    def chk(base, what, col, got, exp, tol, atol):
        got, exp = numpy.asarray(got, dtype=float), numpy.asarray(exp, dtype=float)
        if not (got.shape == exp.shape and bool(numpy.allclose(got, exp, rtol=tol, atol=atol))):
            i = [j for j in range(min(len(got), len(exp))) if not numpy.isclose(got[j], exp[j], rtol=tol, atol=atol)][:4]
            bad.append({**base, "why": what, "at": [float(col[j]) for j in i], "observed": [float(got[j]) for j in i], "expected": [float(exp[j]) for j in i]})

    def both(base, form, col, exp, tol):
        """through a formula on a pandas column and (single preloaded function only) by calling the preloaded function on the vector"""
        nonlocal n
        n += 1
        atol = 0 if form.startswith("exp") else tol          # powers down to 10^-127 are compared relatively; logarithms (0 among them) absolutely as well
        try:
            chk(base, f"model_matrix({form})", col, numpy.asarray(model_matrix("0 + " + form, pandas.DataFrame({"k": col}), context={}))[:, 0], exp, tol, atol)
            if col.dtype.kind in "iu" and "exp10" in form:
                # the same integers in pandas' nullable integer column of the same width (no value missing)
                ext = pandas.array(col, dtype=("UInt" if col.dtype.kind == "u" else "Int") + str(8 * col.dtype.itemsize))
                chk(base, f"model_matrix({form}) on a pandas {ext.dtype} column", col, numpy.asarray(model_matrix("0 + " + form, pandas.DataFrame({"k": ext}), context={}))[:, 0], exp, tol, atol)
            if form.count("(") == 1:
                with numpy.errstate(all="ignore"):
                    chk(base, f"TRANSFORMS[{form.split('(')[0]!r}](ndarray)", col, TRANSFORMS[form.split("(")[0]](col), exp, tol, atol)
        except Exception as e:  # noqa
            bad.append({**base, "why": f"exception in {form}", "observed": type(e).__name__ + ": " + str(e)[:150]})

    for dt in WIDE + NARROW:
        info = numpy.finfo(dt) if dt.startswith("float") else numpy.iinfo(dt)
        ks = [k for k in ks_all if info.min <= k <= info.max]
        # all exponents of the dtype at once, and split by sign / magnitude (a column of small non-negative exponents is the easy case)
        for sub in (ks, [k for k in ks if k < 0], [k for k in ks if 0 <= k <= 2], [k for k in ks if k > 2]):
            if not sub:
                continue
            col = numpy.array(sub, dtype=dt)
            base = {"transform": "elementwise", "dtype": dt, "arg": f"k = {sub[0]}..{sub[-1]}"}
            both(base, "exp10(k)", col, [float(want["exp10"][k]) for k in sub], 1e-12)
            both(base, "log10(exp10(k))", col, sub, 1e-9)
            if dt in WIDE:
                both(base, "exp2(k)", col, [float(want["exp2"][k]) for k in sub], 1e-12)
                both(base, "log2(exp2(k))", col, sub, 1e-9)
                both(base, "exp(k)", col, [math.exp(k) for k in sub], 1e-12)          # transcendental: libm is the oracle, as in elementwise()
                both(base, "log(exp(k))", col, sub, 1e-9)
        if dt in WIDE and not dt.startswith("float"):
            # the integer powers themselves as arguments of the logarithm, as far as the dtype has room
            for fn, b, inv in (("log10", "exp10", "exp10"), ("log2", "exp2", "exp2")):
                sub = [k for k in ks if k >= 0 and want[b][k] <= info.max]
                col = numpy.array([int(want[b][k]) for k in sub], dtype=dt)
                base = {"transform": "elementwise", "dtype": dt, "arg": f"k = {b[3:]}**j, j = {sub[0]}..{sub[-1]}"}
                both(base, f"{fn}(k)", col, sub, 1e-9)
                both(base, f"{inv}({fn}(k))", col, [float(v) for v in col], 1e-9)
    return bad, n


def replay_case(case):
    return replay_scale(case) if case["kind"] == "scale" else replay_poly(case)


def elementwise(ctx: Ctx):
    """exp10(k) = 10**k, exp2(k) = 2**k, log10(10**k) = k, log2(2**k) = k exactly; each function inverts its partner on a grid."""
    import pandas
    from formulaic import model_matrix

    ks = list(range(0, 9))
    df = pandas.DataFrame({"k": [float(k) for k in ks], "p10": [10.0**k for k in ks], "p2": [2.0**k for k in ks], "g": [0.1 + 0.37 * k for k in ks]})
    exp = {"exp10(k)": [10.0**k for k in ks], "exp2(k)": [2.0**k for k in ks], "log10(p10)": [float(k) for k in ks], "log2(p2)": [float(k) for k in ks],
           "exp(k)": [math.exp(k) for k in ks], "log(p2)": [math.log(2.0**k) for k in ks]}
    for f, want in exp.items():
        ctx.traces += 1
        ctx.evaluations += 1
        try:
            got = numpy.asarray(model_matrix("0 + " + f, df, context={}))[:, 0]
            exact = f in ("exp10(k)", "exp2(k)", "log10(p10)", "log2(p2)")
            ok = list(got) == want if exact and f.startswith("exp") else close(got, want, 1e-12)
            if not ok:
                ctx.violation({"transform": f}, {"why": "elementwise function does not compute the function its name denotes", "observed": list(got), "expected": want}, kind="replay")
        except Exception as e:  # noqa
            ctx.violation({"transform": f}, {"why": "exception", "observed": type(e).__name__ + ": " + str(e)[:100]}, kind="replay")
    for f, inv in (("log(exp(g))", "g"), ("log2(exp2(g))", "g"), ("log10(exp10(g))", "g"), ("exp(log(g))", "g"), ("exp2(log2(g))", "g"), ("exp10(log10(g))", "g")):
        ctx.traces += 1
        ctx.evaluations += 1
        try:
            got = numpy.asarray(model_matrix("0 + " + f, df, context={}))[:, 0]
            if not close(got, df[inv], 1e-9):
                ctx.violation({"transform": f}, {"why": "function is not the inverse of its partner", "observed": list(got), "expected": list(df[inv])}, kind="replay")
        except Exception as e:  # noqa
            ctx.violation({"transform": f}, {"why": "exception", "observed": type(e).__name__ + ": " + str(e)[:100]}, kind="replay")


def magnitudes(ctx: Ctx):
    """harness float predicates off the exact grid: zero mean / unit standard deviation / orthonormality for data with a large offset
    or scale (integer-valued, so that centring is exact in floating point and 1e-9 is a meaningful tolerance)."""
    import pandas
    from formulaic import model_matrix
    from formulaic.transforms import poly, scale

    for off in (0.0, 1e3, 1e6, 1e8, 1e10, -1e9):
        for mult in (1.0, 1e4):
            try:
                _magnitude_case(ctx, off, mult, pandas, model_matrix, poly, scale)
            except Exception as e:  # noqa  (an exception of the library is a verdict, not a failure of the machinery)
                ctx.violation({"transform": "scale / poly", "offset": off, "multiplier": mult}, {"why": "exception", "observed": type(e).__name__ + ": " + str(e)[:200]}, kind="predicate")


def _magnitude_case(ctx, off, mult, pandas, model_matrix, poly, scale):
    x = off + mult * numpy.array([0.0, 1, 2, 3, 4, 5, 6, 7, 8, 9, 13, 21])
    tol = 1e-9 + 8 * float(numpy.spacing(numpy.abs(x).max())) / float(numpy.std(x))      # rounding of the mean itself
    for ddof in (0, 1):
        ctx.traces += 1
        ctx.evaluations += 1
        st = {}
        got = scale(x, ddof=ddof, _state=st)
        sd = float(numpy.std(got, ddof=ddof))
        if not (abs(float(numpy.mean(got))) < tol and abs(sd - 1) < tol):
            ctx.violation({"transform": "scale", "offset": off, "multiplier": mult, "ddof": ddof},
                          {"why": "not zero mean / unit standard deviation on data of large magnitude", "mean": float(numpy.mean(got)), "std": sd}, kind="predicate")
        m2 = numpy.asarray(model_matrix("0 + scale(x)", pandas.DataFrame({"x": x}), context={}))[:, 0]
        if abs(float(numpy.std(m2, ddof=1)) - 1) > tol and ddof == 1:
            ctx.violation({"transform": "scale via model_matrix", "offset": off, "multiplier": mult}, {"why": "not unit standard deviation", "std": float(numpy.std(m2, ddof=1))}, kind="predicate")
    if off == 0.0 and mult == 1.0:
        # homogeneity (a theorem of MC_PolyScale): a power-of-two multiple is exact in floating point, so the standardised
        # vector and the orthonormal polynomial columns must come out the same at every magnitude, on fit and on re-use
        for e in (-70, -40, -30, -10, 20, 60):
            c = 2.0 ** e
            for ddof in (0, 1):
                ctx.traces += 1
                ctx.evaluations += 1
                st0, st1 = {}, {}
                ref, got = numpy.asarray(scale(x, ddof=ddof, _state=st0)), numpy.asarray(scale(c * x, ddof=ddof, _state=st1))
                ref2, got2 = numpy.asarray(scale(x[:5] + 1, _state=st0)), numpy.asarray(scale(c * (x[:5] + 1), _state=st1))
                if not (numpy.allclose(got, ref, rtol=1e-12, atol=1e-12) and numpy.allclose(got2, ref2, rtol=1e-12, atol=1e-12)):
                    ctx.violation({"transform": "scale", "offset": 0.0, "multiplier": f"2**{e}", "ddof": ddof},
                                  {"why": "standardising a power-of-two multiple differs from standardising the vector", "observed": got.tolist(), "expected": ref.tolist()},
                                  kind="predicate")
            m1 = numpy.asarray(model_matrix("0 + scale(x) + center(x):scale(x, center=False)", pandas.DataFrame({"x": x}), context={}))
            mc = numpy.asarray(model_matrix("0 + scale(x) + center(x):scale(x, center=False)", pandas.DataFrame({"x": c * x}), context={}))
            if not numpy.allclose(mc[:, 0], m1[:, 0], rtol=1e-12, atol=1e-12) or not numpy.allclose(mc[:, 1], c * m1[:, 1], rtol=1e-12, atol=0):
                ctx.violation({"transform": "scale via model_matrix", "offset": 0.0, "multiplier": f"2**{e}"}, {"why": "homogeneity", "observed": mc.tolist()}, kind="predicate")
            Pc, P1 = numpy.asarray(poly(c * x, degree=3, _state={}), dtype=float), numpy.asarray(poly(x, degree=3, _state={}), dtype=float)
            if not numpy.allclose(Pc, P1, rtol=1e-9, atol=1e-12):
                ctx.violation({"transform": "poly", "offset": 0.0, "multiplier": f"2**{e}"}, {"why": "orthonormal polynomial of a power-of-two multiple differs", "observed": Pc.tolist()},
                              kind="predicate")
    if abs(off) <= 1e6:
        P = numpy.asarray(poly(x, degree=3, _state={}), dtype=float)
        ctx.traces += 1
        ctx.evaluations += 1
        if not (numpy.allclose(P.T @ P, numpy.eye(3), atol=1e-7) and numpy.allclose(P.sum(axis=0), 0, atol=1e-7)):
            ctx.violation({"transform": "poly", "offset": off, "multiplier": mult}, {"why": "columns not orthonormal / not orthogonal to the constant", "gram": (P.T @ P).tolist()}, kind="predicate")


def run(ctx: Ctx) -> None:
    ctx.rule = ("every integer vector of length 2..MaxLen over Lo..Hi (not constant) x {center, scale flags, ddof 0/1} for scale and x degree 1..3 for poly "
                "(needs > degree distinct values), 2 follow-up vectors each; elementwise functions on k = 0..8 and a grid, and on every integer exponent "
                "-127..127 in every numpy integer dtype; non-trivial = >= 3 distinct values")
    ctx.trusted = ["sqrt and a 1e-9 comparison in the harness (irrational outputs)", "magnitudes limited by 32-bit rationals: no claim for 'any magnitude'", "TLC"]
    out = workdir("c13") / "cases.ndjson"
    out.unlink(missing_ok=True)
    maxlen, lo, hi = (4, 2, 3) if ctx.quick else (5, 2, 3)
    elem = 127            # every exponent an int8 holds (bar -128): past the wrap-around of every integer dtype (10^3 > int8, 10^19 > int64, 2^64)
    r = run_tlc("MC_PolyScale", f"SPECIFICATION Spec\nCONSTANTS\n  MaxLen = {maxlen}\n  LoAbs = {lo}\n  Hi = {hi}\n  Emit = TRUE\n  ElemAbs = {elem}\nINVARIANT Laws\nINVARIANT EmitCase\n",
                tag="c13", env={"OUT_FILE": str(out)}, timeout=3400)
    if r.violated:
        ctx.model_violation(r, "MC_PolyScale")
    ctx.add_tlc(r, f"zero sum, unit variance, polynomial orthogonality, row-locality of reuse + emission; length <= {maxlen} over -{lo}..{hi}; "
                   f"b^k for b = 10, 2 and integer k in -{elem}..{elem}: homomorphism, reciprocal, monotone, log inverse")
    cases = read_emitted(out)
    out.unlink()
    elems, cases = [c for c in cases if c["kind"] == "elem"], [c for c in cases if c["kind"] != "elem"]
    if len(elems) != 2 * elem + 1:
        raise MachineryError(f"C13: {len(elems)} elementwise cases emitted, expected {2 * elem + 1}")
    bad, n = pmap("harness.props.c13", "replay_elem", [elems], chunk=1)[0]
    ctx.traces += n
    ctx.evaluations += n
    for b in bad:
        ctx.violation({k: b.get(k) for k in ("transform", "dtype", "arg", "why")}, b, kind="replay")
    res = pmap("harness.props.c13", "replay_case", cases, chunk=50)
    for c, (bad, n) in zip(cases, res):
        ctx.traces += n
        ctx.evaluations += n
        if len(set(c["x"])) >= 3:
            ctx.nontrivial.add(jhash([c["kind"], c["x"], c.get("degree"), c.get("ddof"), c.get("center"), c.get("scale")]))
        for b in bad:
            ctx.violation({k: b.get(k) for k in ("transform", "x", "center", "scale", "ddof", "degree")} | {"why": b["why"]}, b, kind="replay")
    elementwise(ctx)
    magnitudes(ctx)
    for c in [c for c in cases if c["kind"] == "poly" and c["degree"] == 2 and len(c["x"]) == 4][:1]:
        ctx.sample({"x": c["x"], "degree": 2, "expected_fit_as_(num, norm2)": c["fit"]})
    ctx.exhaustive = True


def replay(path: str) -> int:
    rec = json.load(open(path))
    print(json.dumps(rec["detail"], indent=1)[:3000])
    return 0
