"""C19 - Structured, LayeredMapping and SimpleFormula obey their container laws.

Leg M: TLC checks the laws on the specification: Structured.tla on every tree of a bounded
       shape family; LayeredMapping.tla and FormulaSeq.tla on every operation history of
       bounded length (one state per history); LayeredHeap.tla (layers are references: a heap of
       dicts and mappings holding each other) on every history of operations on the object graph,
       with the snapshotting design (Variant = "splice") refuted.
Leg R: every enumerated tree / history is replayed into the real objects and alpha(object)
       is compared with the model after the operation(s).
"""
from __future__ import annotations

import json

from ..common import Ctx, pmap, jhash
from ..tlc import MachineryError, read_emitted, run_tlc, workdir


# ------------------------------------------------------------------ Structured
def gamma(node):
    from formulaic.utils.structured import Structured

    t = node["t"]
    if t == "leaf":
        return list(node["v"])
    if t == "tup":
        return tuple(gamma(x) for x in node["items"])
    s = Structured()
    for k, v in zip(node["keys"], node["vals"]):
        s[k] = gamma(v)      # keyword construction would move "root" to the end
    return s


def alpha(obj):
    from formulaic.utils.structured import Structured

    if isinstance(obj, Structured):
        return {"t": "st", "keys": list(obj._structure), "vals": [alpha(v) for v in obj._structure.values()]}
    if isinstance(obj, tuple):
        return {"t": "tup", "items": [alpha(x) for x in obj]}
    if isinstance(obj, list):
        return {"t": "leaf", "v": list(obj)}
    return {"t": "other", "repr": repr(obj)[:80]}


def alpha_dict(d):
    if isinstance(d, dict):
        return {"t": "st", "keys": list(d), "vals": [alpha_dict(v) for v in d.values()]}
    if isinstance(d, tuple):
        return {"t": "tup", "items": [alpha_dict(x) for x in d]}
    if isinstance(d, list):
        return {"t": "leaf", "v": list(d)}
    return {"t": "other", "repr": repr(d)[:80]}


def _try(fn):
    try:
        return fn()
    except Exception as e:  # noqa
        return {"t": "err", "cls": type(e).__name__}


def _norm_err(x):
    return {"t": "err"} if isinstance(x, dict) and x.get("t") == "err" else x


def replay_tree(case):
    from formulaic.utils.structured import Structured

    bad = []
    tree = case["tree"]
    s = gamma(tree)

    def chk(name, got, exp):
        if _norm_err(got) != _norm_err(exp):
            bad.append({"op": name, "tree": tree, "observed": got, "expected": exp})

    chk("alpha(gamma(tree))", alpha(s), tree)
    chk("_flatten", _try(lambda: [list(x) if isinstance(x, list) else repr(x) for x in s._flatten()]), case["flat"])
    visits, paths = [], []

    def f(x, ctx=None):
        visits.append(list(x))
        return x + [0]

    chk("_map", _try(lambda: alpha(s._map(f))), case["mapped"])
    chk("_map visiting order = _flatten order", visits, case["flat"])

    def g(x, ctx):
        paths.append([str(c) for c in ctx])
        return x

    _try(lambda: s._map(g))
    chk("_map context paths", paths, case["paths"])
    chk("_simplify", _try(lambda: alpha(s._simplify())), case["simp"])
    chk("_simplify idempotent", _try(lambda: alpha((lambda r: r._simplify() if isinstance(r, Structured) else r)(s._simplify()))), case["simp"])
    chk("_to_dict", _try(lambda: alpha_dict(s._to_dict())), tree)
    chk("_update", _try(lambda: alpha(s._update(root=([78],), b=[77]))), case["upd"])
    chk("_update with an empty list as the new root", _try(lambda: alpha(s._update([]))), case["upd_empty"])
    chk("_update with an empty tuple as the new root", _try(lambda: alpha(s._update((), a=[]))), case["upd_empty_tuple"])
    chk("_merge(self, self)", _try(lambda: alpha(Structured._merge(s, gamma(tree)))), case["merge_self"])
    other = Structured(a=[91], c=([92],))
    chk("_merge(self, other)", _try(lambda: alpha(Structured._merge(s, other))), case["merge_other"])
    chk("_merge(self, leaf)", _try(lambda: alpha(Structured._merge(s, [93]))), case["merge_leaf"])
    keys = tree["keys"]
    if keys != ["root"] or tree["vals"][0]["t"] == "tup":
        chk("iteration", _try(lambda: [alpha(x) for x in s]), case["iter"])
        chk("len", _try(lambda: len(s)), len(case["iter"]))
    for k, v in zip(keys, tree["vals"]):
        if len(keys) > 1 or k != "root":
            chk(f"getitem[{k}]", _try(lambda: alpha(s[k])), v)
        chk(f"getattr {k}", _try(lambda: alpha(getattr(s, k))), v)
        chk(f"contains {k}", k in s, True)
    chk("contains zz", "zz" in s, False)
    chk("equality", s == gamma(tree), True)
    # inputs must not be mutated by any of the above
    chk("not mutated", alpha(s), tree)
    return bad


def structured_leg(ctx: Ctx, family: str):
    out = workdir("c19") / f"trees-{family}.ndjson"
    out.unlink(missing_ok=True)
    cfg = f"SPECIFICATION Spec\nCONSTANTS\n  Emit = TRUE\n  Family = \"{family}\"\n  Variant = \"code\"\nINVARIANT Laws\nINVARIANT EmitCase\n"
    r = run_tlc("MC_Structured", cfg, tag="c19", env={"OUT_FILE": str(out)}, timeout=3000)
    if r.violated:
        ctx.model_violation(r, "MC_Structured laws")
    ctx.add_tlc(r, f"Structured laws (map/flatten/simplify/update/merge) + emission; family={family}")
    cases = read_emitted(out)
    if len(cases) != r.distinct:
        raise MachineryError(f"emission incomplete: {len(cases)} of {r.distinct}")
    # the simplification laws are not vacuous on the family: TLC refutes the design in which the wrapper-stripping loop of _simplify
    # keeps testing the object it started from (it then walks through the root of a Structured that has other keys / a tuple root)
    v = run_tlc("MC_Structured", cfg.replace('Variant = "code"', 'Variant = "outer"').replace("Emit = TRUE", "Emit = FALSE"), tag="c19", timeout=3000)
    if "Laws" not in v.violated:
        raise MachineryError("MC_Structured variant outer does not violate the simplification laws: the family holds no wrapped structure")
    ctx.notes["structured_variant_outer"] = "violates " + ",".join(v.violated)
    res = pmap("harness.props.c19", "replay_tree", cases, chunk=200)
    for c, bad in zip(cases, res):
        ctx.traces += 1
        ctx.evaluations += 1
        if len(c["flat"]) >= 2:
            ctx.nontrivial.add(jhash(c["tree"]))
        for b in bad:
            ctx.violation({"container": "Structured", "tree": b["tree"], "op": b["op"]}, b, kind="replay")
    ctx.sample({"structured_tree": cases[len(cases) // 2]["tree"], "flatten": cases[len(cases) // 2]["flat"]})
    out.unlink()


def run(ctx: Ctx) -> None:
    ctx.rule = ("Structured: every tree of the bounded shape family (keys root/a/b, tuples, tuples nested in tuples, nested Structured); "
                "LayeredMapping / SimpleFormula: every operation history up to the bound; non-trivial = >= 2 leaves / >= 2 operations")
    ctx.trusted = ["gamma/alpha between abstract trees and Structured objects (checked: alpha(gamma(t)) = t on every case)", "TLC"]
    ctx.matchers = {}
    structured_leg(ctx, "small" if ctx.quick else "full")
    from . import c19_hist

    c19_hist.run(ctx)
    ctx.exhaustive = True


def replay(path: str) -> int:
    rec = json.load(open(path))
    print(json.dumps(rec["detail"], indent=1)[:3000])
    return 0
