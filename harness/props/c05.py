"""C05 - output types, entry points and materializers agree with one another.

Leg M: in the specification Build takes the entry point, the output type and the materializer
       as parameters that do not occur in the definition of the result; TLC evaluates that one
       definition on every enumerated (formula, frame, options) (MC_Materialize, with the C02
       layout theorems as a sanity check of the run).
Leg R: each case is executed on {sugar, Formula, ModelSpec, materializer-class} x {pandas, numpy,
       sparse} x {pandas materializer, narwhals on the pandas frame, narwhals on a pyarrow table};
       every result must equal the specification's matrix (names from the attached spec, cells),
       hence they all agree with each other.
"""
from __future__ import annotations

import json

from ..common import Ctx, pmap, jhash
from .. import matlib

FRAMES = {}
PATHS = ["sugar", "formula", "spec", "materializer", "attached", "sugar-attached", "materializer-reused", "spec-reused"]
OUTPUTS = ["pandas", "numpy", "sparse"]
MATS = ["pandas", "narwhals-pandas", "narwhals-arrow"]
ALL = [(p, o, m) for p in PATHS for o in OUTPUTS for m in MATS]
PER_CASE = 6


def build(formula, data, path, output, mat, case):
    from formulaic import Formula, ModelSpec, model_matrix
    from formulaic.materializers import FormulaMaterializer

    kw = dict(output=output, ensure_full_rank=case["full_rank"], na_action=case["na"])
    if case["cluster"]:
        kw["cluster_by"] = "numerical_factors"
    matname = "narwhals" if mat != "pandas" else "pandas"
    if path == "sugar":
        return model_matrix(formula, data, context={}, materializer=matname, **kw)
    if path == "formula":
        return Formula(formula).get_model_matrix(data, context={}, materializer=matname, **kw)
    if path == "spec":
        return ModelSpec.from_spec(Formula(formula), materializer=matname, **kw).get_model_matrix(data, context={})
    if path == "spec-reused":      # one not-yet-materialized ModelSpec object that has already been used on other data (it records nothing)
        spec = ModelSpec.from_spec(Formula(formula), materializer=matname, **kw)
        k = max(2, len(data) // 2)
        try:
            spec.get_model_matrix(data.iloc[:k] if hasattr(data, "iloc") else data.slice(0, k), context={})
        except Exception:  # noqa  (the first call is not what this combination judges)
            pass
        return spec.get_model_matrix(data, context={})
    if path in ("attached", "sugar-attached"):      # the spec attached to an earlier result, applied to the same data
        spec = model_matrix(formula, data, context={}, materializer=matname, **kw).model_spec
        return spec.get_model_matrix(data, context={}) if path == "attached" else model_matrix(spec, data, context={})
    inst = FormulaMaterializer.for_materializer(matname)(data, context={})
    if path == "materializer-reused":      # the same materializer object has already produced another output type
        other = dict(kw, output={"pandas": "sparse", "numpy": "pandas", "sparse": "numpy"}[output])
        try:
            inst.get_model_matrix(formula, **other)
        except Exception:  # noqa  (the first call is not what this combination judges)
            pass
    return inst.get_model_matrix(formula, **kw)


def replay_case(case):
    import pyarrow

    if case["fails"] or case["empty"]:
        return [], 0
    df = matlib.gamma_frame(FRAMES[case["fid"]])
    tb = None
    formula = matlib.render_formula(case["written"], case["icpt"])
    h = int(jhash([case["written"], case["icpt"], case["fid"], case["full_rank"], case["na"], case["cluster"]])[:8], 16)
    combos = ALL if PER_CASE >= len(ALL) else [ALL[(h + 7 * i) % len(ALL)] for i in range(PER_CASE)]
    bad = []
    for path, output, mat in dict.fromkeys(combos):
        base = {"formula": formula, "fid": case["fid"], "path": path, "output": output, "materializer": mat, "full_rank": case["full_rank"],
                "na": case["na"], "cluster": case["cluster"]}
        data = df
        if mat == "narwhals-arrow":
            if tb is None:
                tb = matlib.arrow_table(df, nan_not_null=bool(h % 2))       # missing floats as Arrow nulls or as NaN values
            data = tb
        try:
            mm = build(formula, data, path, output, mat, case)
        except Exception as e:  # noqa
            bad.append({**base, "why": "exception", "observed": type(e).__name__ + ": " + str(e)[:120]})
            continue
        names, cells, labels, index, _ = matlib.alpha_matrix(mm, output)
        if names != case["names"]:
            bad.append({**base, "why": "column-names", "observed": names, "expected": case["names"]})
        elif cells != case["cells"]:
            bad.append({**base, "why": "cells", "observed": cells, "expected": case["cells"]})
    n = len(set(combos))
    # "the same numbers" whatever dtype stores them: the numeric columns scaled up to the top of int8 and held as int8 (products and
    # literal scalings leave that range) must give, on every entry point x output x materializer of the rotation, the matrix that the
    # same numbers held as float64 give
    numcols = [c for c in df.columns if df[c].dtype.kind == "f"]
    if numcols and not bad and h % 3 == 0 and all(df[c].notna().all() and (df[c] == df[c].round()).all() for c in numcols):
        import numpy

        top = max(1.0, max(float(df[c].abs().max()) for c in numcols))
        if top <= 127:
            big, narrow = df.copy(), df.copy()
            for c in numcols:
                big[c] = df[c] * float(int(127 // top))
                narrow[c] = big[c].astype("int8")
            try:
                ref = numpy.asarray(build(formula, big, "sugar", "numpy", "pandas", case), dtype=float)
            except Exception:  # noqa
                ref = None
            for path, output, mat in dict.fromkeys(combos) if ref is not None else ():
                n += 1
                base = {"formula": formula, "fid": case["fid"], "path": path, "output": output, "materializer": mat, "full_rank": case["full_rank"],
                        "na": case["na"], "cluster": case["cluster"], "columns": "int8"}
                try:
                    mm = build(formula, matlib.arrow_table(narrow, nan_not_null=False) if mat == "narwhals-arrow" else narrow, path, output, mat, case)
                    arr = numpy.asarray(mm.toarray() if hasattr(mm, "toarray") else mm, dtype=float)
                    if arr.shape != ref.shape or not numpy.array_equal(arr, ref):
                        bad.append({**base, "why": "cells differ from those of the same numbers held as float64", "observed": arr.tolist(), "expected": ref.tolist()})
                except Exception as e:  # noqa
                    bad.append({**base, "why": "exception with int8 columns", "observed": type(e).__name__ + ": " + str(e)[:120]})
    return bad, n


# ------------------------------------------------------------------ contrast-coded factors (coding matrices from Contrasts.tla)
def replay_contrast(case):
    """One (contrast, options, n) of MC_Contrasts: `C(g, contr...) + x` with and without an intercept on every
    entry point x output x materializer; expected cells = [1 | coding row of the level | x] from the model's exact matrix."""
    import warnings

    import numpy
    import pandas
    import pyarrow

    from . import c11

    n = case["n"]
    if case["kind"] == "matrix":
        o = case["o"]
        levels = [f"l{i}" for i in range(1, n + 1)]
        C = c11.fl(case["coding"]) if n > 1 else numpy.zeros((n, 0))
        cexpr = c11.expr(o, levels)
        red_names = [case["prefix"] + levels[j - 1] for j in case["collevels"]]
    else:   # polynomial contrasts with the default scores
        o = {"name": "poly"}
        levels = [f"l{i}" for i in range(n)]
        M = c11.fl(case["monic"])
        C = M / numpy.sqrt(numpy.array([x[0] / x[1] for x in case["norm2"]]))
        cexpr = "contr.poly"
        red_names = [".L", ".Q", ".C", "^4", "^5", "^6"][: n - 1]
    order = [(3 * i + 1) % n for i in range(n)] + [0, n - 1]
    if sorted(set(order)) != list(range(n)):
        order = list(range(n)) + [0, n - 1]
    g = [levels[i] for i in order]
    x = [float(2 * i - 3) for i in range(len(g))]
    df = pandas.DataFrame({"g": pandas.Series(g, dtype=object), "x": x})
    tb = pyarrow.Table.from_pandas(df)
    term = f"C(g, {cexpr}, levels={levels!r})"
    rows = numpy.array([C[levels.index(v)] for v in g], dtype=float).reshape(len(g), C.shape[1])
    full = numpy.array([[1.0 if levels.index(v) == j else 0.0 for j in range(n)] for v in g])
    xs = numpy.array(x).reshape(-1, 1)
    variants = [(f"{term} + x", numpy.hstack([numpy.ones((len(g), 1)), rows, xs]), ["Intercept"] + [f"{term}[{c}]" for c in red_names] + ["x"]),
                (f"0 + {term} + x", numpy.hstack([full, xs]), [f"{term}[{v}]" for v in levels] + ["x"])]
    bad, cnt = [], 0
    for formula, exp, names in variants:
        for path, output, mat in ALL:
            cnt += 1
            base = {"formula": formula, "fid": f"contrast-n{n}", "path": path, "output": output, "materializer": mat, "full_rank": True, "na": "drop", "cluster": False,
                    "contrast": o}
            try:
                with warnings.catch_warnings():
                    warnings.simplefilter("ignore")
                    mm = build(formula, tb if mat == "narwhals-arrow" else df, path, output, mat, {"full_rank": True, "na": "drop", "cluster": False})
                arr = mm.toarray() if hasattr(mm, "toarray") else numpy.asarray(mm, dtype=float)
                got = [c.replace('"', "'") for c in mm.model_spec.column_names]
                if got != [c.replace('"', "'") for c in names]:
                    bad.append({**base, "why": "column names", "observed": got, "expected": names})
                elif arr.shape != exp.shape or not numpy.allclose(arr, exp, rtol=1e-10, atol=1e-12):
                    bad.append({**base, "why": "cells", "observed": arr.tolist(), "expected": exp.tolist()})
            except Exception as e:  # noqa
                bad.append({**base, "why": "exception", "observed": type(e).__name__ + ": " + str(e)[:200]})
    return bad, cnt


def contrast_leg(ctx: Ctx, maxn: int):
    from ..tlc import MachineryError, read_emitted, run_tlc, workdir

    out = workdir("c05") / "contrasts.ndjson"
    out.unlink(missing_ok=True)
    r = run_tlc("MC_Contrasts", f"SPECIFICATION Spec\nCONSTANTS\n  MaxN = {maxn}\n  MaxPolyN = {min(maxn, 5)}\n  Emit = TRUE\nINVARIANT Laws\nINVARIANT EmitCase\n", tag="c05c",
                env={"OUT_FILE": str(out)}, timeout=3000)
    if r.violated:
        ctx.model_violation(r, "MC_Contrasts")
    ctx.add_tlc(r, f"contrast coding matrices in exact rationals for the output/entry-point/materializer agreement leg; n <= {maxn}")
    cases = read_emitted(out)
    out.unlink()
    if len(cases) != r.distinct:
        raise MachineryError(f"emission incomplete: {len(cases)} of {r.distinct}")
    use = [c for c in cases if (c["kind"] == "matrix" and c["n"] >= 2) or
           (c["kind"] == "poly" and [tuple(s) for s in c["scores"]] == [(i, 1) for i in range(c["n"])])]
    if len(use) < 10:
        raise MachineryError("contrast leg: too few usable cases")
    res = pmap("harness.props.c05", "replay_contrast", use, chunk=2)
    for c, (bad, n) in zip(use, res):
        ctx.traces += n
        ctx.evaluations += n
        ctx.nontrivial.add(jhash(["contrast", c["kind"], c["n"], c.get("o")]))
        for b in bad:
            ctx.violation({k: b[k] for k in ("formula", "fid", "path", "output", "materializer", "full_rank", "na", "cluster")}, b, kind="replay")


# ------------------------------------------------------------------ transforms whose values are not exact: agreement relation
def replay_agreement(job):
    """The specification's result does not depend on entry point, output or materializer; for transforms the exact models do not
    cover (splines, scale, poly, lag, hashed, elementwise functions) that independence is checked as a relation: every
    combination must reproduce the matrix of the first one."""
    import random
    import warnings

    import numpy
    import pandas

    i, formula, seed = job
    rng = random.Random(seed)
    n = rng.randint(6, 10)
    df = pandas.DataFrame({"a": [round(rng.uniform(-3, 3), 2) for _ in range(n)], "b": [round(rng.uniform(0.5, 5), 2) for _ in range(n)],
                           "A": pandas.Series([["x", "y", "z"][j % 3] for j in range(n)], dtype=object)})
    if rng.random() < 0.5:
        df.loc[rng.randrange(n), "b"] = float("nan")
    tb = matlib.arrow_table(df, nan_not_null=bool(seed % 2))
    ref, bad, cnt = None, [], 0
    for path, output, mat in ALL:
        if path in ("attached", "sugar-attached", "materializer-reused", "spec-reused") and output != "numpy":
            continue
        cnt += 1
        base = {"formula": formula, "fid": f"random-{seed}", "path": path, "output": output, "materializer": mat, "full_rank": True, "na": "drop", "cluster": False}
        try:
            with warnings.catch_warnings():
                warnings.simplefilter("ignore")
                mm = build(formula, tb if mat == "narwhals-arrow" else df, path, output, mat, {"full_rank": True, "na": "drop", "cluster": False})
            arr = mm.toarray() if hasattr(mm, "toarray") else numpy.asarray(mm, dtype=float)
            got = (list(mm.model_spec.column_names), arr)
        except Exception as e:  # noqa
            got = ("EXC", type(e).__name__ + ": " + str(e)[:150])
        if ref is None:
            ref = got
            if got[0] == "EXC":
                return [{**base, "why": "agreement: the reference combination fails", "observed": got[1]}], cnt
            continue
        if got[0] == "EXC":
            bad.append({**base, "why": "agreement: fails where the reference combination succeeds", "observed": got[1]})
        elif got[0] != ref[0] or got[1].shape != ref[1].shape or not numpy.allclose(got[1], ref[1], rtol=1e-10, atol=1e-12, equal_nan=True):
            bad.append({**base, "why": "agreement: matrix differs from the reference combination", "observed": [got[0], got[1].tolist()[:3]], "expected": [ref[0], ref[1].tolist()[:3]]})
    return bad, cnt


def agreement_leg(ctx: Ctx, per: int):
    from .c04 import INEXACT

    forms = INEXACT + ["lag(a, 2) + b", "hashed(A, levels=5)", "log(b) + exp10(a)", "cs(a, df=4)", "bs(a, df=4, extrapolation='clip')", "C(A, contr.poly):scale(a)"]
    jobs = [(k + 1, f, 7919 * ctx.seed + 13 * k + r) for k, f in enumerate(forms) for r in range(per)]
    res = pmap("harness.props.c05", "replay_agreement", jobs, chunk=2)
    for (k, f, sd), (bad, n) in zip(jobs, res):
        ctx.traces += n
        ctx.evaluations += n
        ctx.nontrivial.add(jhash(["agreement", f, sd]))
        for b in bad:
            ctx.violation({kk: b[kk] for kk in ("formula", "fid", "path", "output", "materializer", "full_rank", "na", "cluster")}, b, kind="relation")
    ctx.require("agreement relation: executed combinations", sum(n for _, n in res), 500)


# ------------------------------------------------------------------ structured formulas with missing data (MC_Missing)
STRUCTURED = {4: "b ~ a", 5: "b ~ A | a", 8: "a ~ 0 | A", 9: "a | 0 + b", 13: "b ~ 0 + C(A, contr.sum) | C(A, contr.sum) + a",
              14: "C(A, contr.helmert) | 0 + C(A, contr.helmert) + C(A, contr.helmert):b", 15: "b ~ A + A:a | a + A:a", 16: "a + A:a | 0 + A:a | A + A:a"}


def replay_structured(case):
    """One (structured formula, null pattern, policy) of MC_Missing on rotating entry point x output x materializer combinations:
    every part must have the model's rows, names and cells (so the parts are dropped jointly whichever way the build is requested)."""
    import pyarrow

    from .c06 import frame
    from .c07 import shape_and_parts

    if case["fid"] not in STRUCTURED or case["drop0"] or case["fails"]:
        return [], 0
    formula = STRUCTURED[case["fid"]]
    df = frame(case["nulls"], "default")
    tb = pyarrow.Table.from_pandas(df)
    h = int(jhash([case["fid"], case["nulls"], case["na"]])[:8], 16)
    combos = [ALL[(h + 11 * i) % len(ALL)] for i in range(4)]
    kept = [k - 1 for k in case["kept"]]
    bad, n = [], 0
    for path, output, mat in dict.fromkeys(combos):
        n += 1
        base = {"formula": formula, "fid": f"missing-{case['nulls']}", "path": path, "output": output, "materializer": mat, "full_rank": True, "na": case["na"], "cluster": False}
        try:
            res = build(formula, tb if mat == "narwhals-arrow" else df, path, output, mat, {"full_rank": True, "na": case["na"], "cluster": False})
            _, parts = shape_and_parts(res)
            if kept and len(parts) != len(case["parts"]):
                bad.append({**base, "why": "number of parts", "observed": len(parts), "expected": len(case["parts"])})
                continue
            for i, mm in enumerate(parts):
                names, cells, _, _, arr = matlib.alpha_matrix(mm, output)
                exp = case["parts"][i] if kept else None
                if arr.shape[0] != len(kept):
                    bad.append({**base, "why": f"rows-of-part-{i}", "observed": int(arr.shape[0]), "expected": len(kept)})
                elif kept and names != exp["names"]:
                    bad.append({**base, "why": f"names-of-part-{i}", "observed": names, "expected": exp["names"]})
                elif kept and cells != exp["cells"]:
                    bad.append({**base, "why": f"cells-of-part-{i}", "observed": cells, "expected": exp["cells"]})
        except Exception as e:  # noqa
            bad.append({**base, "why": "exception", "observed": type(e).__name__ + ": " + str(e)[:200]})
    return bad, n


def structured_leg(ctx: Ctx, maxnulls: int):
    from ..tlc import MachineryError, read_emitted, run_tlc, workdir

    out = workdir("c05") / "structured.ndjson"
    out.unlink(missing_ok=True)
    cfg = (f"SPECIFICATION Spec\nCONSTANTS\n  Emit = TRUE\n  MaxNulls = {maxnulls}\n  FormulaSet = \"c07\"\n"
           "INVARIANT DropExact\nINVARIANT AloneEqualsJoint\nINVARIANT EmitCase\n")
    r = run_tlc("MC_Missing", cfg, tag="c05s", env={"OUT_FILE": str(out)}, timeout=3400)
    if r.violated:
        ctx.model_violation(r, "MC_Missing (C05)")
    ctx.add_tlc(r, f"structured formulas x null patterns (<= {maxnulls} nulls per column) x policy for the entry point / output / materializer agreement leg")
    cases = read_emitted(out)
    out.unlink()
    if len(cases) != r.distinct:
        raise MachineryError(f"emission incomplete: {len(cases)} of {r.distinct}")
    res = pmap("harness.props.c05", "replay_structured", cases, chunk=60)
    done = 0
    for c, (bad, n) in zip(cases, res):
        ctx.traces += n
        ctx.evaluations += n
        done += n
        if n and c["kept"] and sum(1 for k in "abA" if c["nulls"][k]) >= 1:
            ctx.nontrivial.add(jhash(["structured", c["fid"], c["nulls"], c["na"]]))
        for b in bad:
            ctx.violation({k: b[k] for k in ("formula", "fid", "path", "output", "materializer", "full_rank", "na", "cluster")}, b, kind="replay")
    if done < 100:
        raise MachineryError("structured leg: too few executed cases")


# ------------------------------------------------------------------ registry / dispatch histories (Registry.tla)
class T1:  # data objects of three distinguishable input types
    pass


class T2:
    pass


class T3:
    pass


_TYPES = {"T1": T1, "T2": T2, "T3": T3}
_POOL = {1: ("alpha", ["T1"], ["o1", "o2"], 100, []), 2: ("beta", ["T1", "T2"], ["o1"], 100, []), 3: ("gamma", [], ["o2"], 50, ["T1", "T2", "T3"]),
         4: ("alpha", ["T2"], ["o2"], 200, []), 5: ("delta", ["T1"], ["o2"], 150, ["T3"]), 6: ("", ["T3"], ["o1"], 300, ["T3"]),
         7: ("eps", ["T2"], ["o1", "o2"], 100, ["T3"])}


def _tname(t):
    c = _TYPES[t]
    return f"{c.__module__}.{c.__qualname__}"


def replay_registry(case):
    from interface_meta import override

    from formulaic.errors import FormulaMaterializerNotFoundError
    from formulaic.materializers.base import FormulaMaterializer, FormulaMaterializerMeta as Meta

    saved_names, saved_inputs = dict(Meta.REGISTERED_NAMES), {k: list(v) for k, v in Meta.REGISTERED_INPUTS.items()}
    bad = []
    try:
        Meta.REGISTERED_NAMES.clear()
        Meta.REGISTERED_INPUTS.clear()
        for n, p in enumerate(case["hist"]):
            name, ins, outs, prec, sup = _POOL[p]
            supset = tuple(_TYPES[t] for t in sup)
            ns = {"REGISTER_INPUTS": tuple(_tname(t) for t in ins), "REGISTER_OUTPUTS": tuple(outs), "REGISTER_PRECEDENCE": prec, "_vid": p,
                  "SUPPORTS_INPUT": override(classmethod(lambda cls, data, _s=supset: isinstance(data, _s)))}
            if name:
                ns["REGISTER_NAME"] = name
            type(FormulaMaterializer)(f"M{p}_{n}", (FormulaMaterializer,), ns)
        for q in case["q"]:
            if not q["det"]:
                continue
            try:
                got = FormulaMaterializer.for_data(_TYPES[q["t"]](), output=q["o"] or None)._vid
            except FormulaMaterializerNotFoundError:
                got = 0
            if got != q["r"]:
                bad.append({"why": "for_data", "type": q["t"], "output": q["o"], "observed": got, "expected": q["r"]})
        for nm, exp in case["byname"].items():
            try:
                got = FormulaMaterializer.for_materializer(nm)._vid
            except FormulaMaterializerNotFoundError:
                got = 0
            if got != exp:
                bad.append({"why": "for_materializer", "name": nm, "observed": got, "expected": exp})
    except Exception as e:  # noqa
        bad.append({"why": "exception", "observed": type(e).__name__ + ": " + str(e)[:200]})
    finally:
        Meta.REGISTERED_NAMES.clear()
        Meta.REGISTERED_NAMES.update(saved_names)
        Meta.REGISTERED_INPUTS.clear()
        Meta.REGISTERED_INPUTS.update(saved_inputs)
    return [{"registry_history": case["hist"], **b} for b in bad]


def real_dispatch(ctx: Ctx):
    """the shipped registry: input type x requested output -> materializer, as Registry.tla prescribes for the shipped declarations"""
    import numpy
    import pandas
    import pyarrow

    from formulaic.materializers import FormulaMaterializer, NarwhalsMaterializer, PandasMaterializer

    df = pandas.DataFrame({"x": [1.0, 2.0]})
    expect = [(df, None, PandasMaterializer), (df, "pandas", PandasMaterializer), (df, "sparse", PandasMaterializer), (df, "narwhals", NarwhalsMaterializer),
              (pyarrow.Table.from_pandas(df), None, NarwhalsMaterializer), (pyarrow.Table.from_pandas(df), "numpy", NarwhalsMaterializer),
              (numpy.rec.fromarrays([numpy.array([1.0, 2.0])], names=["x"]), None, PandasMaterializer),
              ({"x": [1.0, 2.0]}, None, PandasMaterializer), ({"x": [1.0, 2.0]}, "sparse", PandasMaterializer)]     # a plain dict of columns is a declared input
    for data, out, cls in expect:
        ctx.traces += 1
        ctx.evaluations += 1
        try:
            got = FormulaMaterializer.for_data(data, output=out)
        except Exception as e:  # noqa
            got = type(e)
        if got is not cls:
            ctx.violation({"formula": "", "fid": type(data).__name__, "path": "for_data", "output": out, "materializer": cls.__name__, "full_rank": True, "na": "drop",
                           "cluster": False}, {"why": "shipped dispatch", "observed": getattr(got, "__name__", str(got)), "expected": cls.__name__}, kind="replay")


def registry_leg(ctx: Ctx, maxops: int):
    from ..tlc import MachineryError, read_emitted, run_tlc, workdir

    out = workdir("c05") / "registry.ndjson"
    out.unlink(missing_ok=True)
    r = run_tlc("MC_Registry", f"SPECIFICATION Spec\nCONSTANTS\n  MaxOps = {maxops}\n  Emit = TRUE\nINVARIANT Laws\nPROPERTY Monotone\nINVARIANT EmitCase\n", tag="c05r",
                env={"OUT_FILE": str(out)}, timeout=3000)
    if r.violated:
        ctx.model_violation(r, "MC_Registry")
    ctx.add_tlc(r, f"materializer registry: every sequence of <= {maxops} class definitions; sorted input lists, dispatch sound / complete / by priority, monotone")
    cases = read_emitted(out)
    out.unlink()
    if len(cases) != r.distinct:
        raise MachineryError(f"emission incomplete: {len(cases)} of {r.distinct}")
    res = pmap("harness.props.c05", "replay_registry", cases, chunk=50)
    for c, bad in zip(cases, res):
        ctx.traces += 1
        ctx.evaluations += len(c["q"]) + len(c["byname"])
        if len(c["hist"]) >= 2:
            ctx.nontrivial.add(jhash(["registry", c["hist"]]))
        for b in bad:
            ctx.violation({"formula": "", "fid": "registry", "path": "for_data", "output": b.get("output"), "materializer": str(c["hist"]), "full_rank": True, "na": "drop",
                           "cluster": False}, b, kind="replay")
    from ..tlc import simulate_emitted

    deep = 7
    sr, srecs = simulate_emitted("MC_Registry", f"SPECIFICATION Spec\nCONSTANTS\n  MaxOps = {deep}\n  Emit = TRUE\nINVARIANT Laws\nPROPERTY Monotone\nINVARIANT EmitCase\n", "c05r",
                                 num=150 if ctx.quick else 2000, depth=deep + 2, seed=ctx.seed + 1)
    if sr.violated:
        ctx.model_violation(sr, "MC_Registry (simulation)")
    seen = set()
    uniq = [c for c in srecs if len(c["hist"]) > maxops and (k := tuple(c["hist"])) not in seen and not seen.add(k)]
    sres = pmap("harness.props.c05", "replay_registry", uniq, chunk=50)
    for c, bad in zip(uniq, sres):
        ctx.traces += 1
        ctx.evaluations += len(c["q"]) + len(c["byname"])
        ctx.nontrivial.add(jhash(["registry", c["hist"]]))
        for b in bad:
            ctx.violation({"formula": "", "fid": "registry", "path": "for_data", "output": b.get("output"), "materializer": str(c["hist"]), "full_rank": True, "na": "drop",
                           "cluster": False}, b, kind="replay")
    ctx.require("registry: simulated definition sequences longer than the exhaustive bound", len(uniq), 300)
    ctx.tlc_runs.append({"module": "MC_Registry", "what": f"-simulate: random sequences of <= {deep} class definitions", "generated": sr.generated, "distinct": len(uniq), "depth": deep,
                         "wall_s": round(sr.wall_s, 2)})
    real_dispatch(ctx)


def run(ctx: Ctx) -> None:
    global FRAMES, PER_CASE
    ctx.rule = ("the (formula, frame, options) enumeration of MC_Materialize; per case 6 (quick) or all 63 (thorough, 1/4 slice) combinations of entry "
                "point x output x materializer/data form, rotated so that every combination is exercised; every contrast coding of MC_Contrasts (n <= 4 / 6) on all 63 combinations; non-trivial = >= 2 columns, >= 2 rows")
    ctx.trusted = ["gamma (incl. pyarrow.Table.from_pandas) / alpha of the materializer family", "TLC"]
    if ctx.quick:
        PER_CASE = 6
        FRAMES, cases = matlib.run_enumeration(ctx, "c05", 2, "all", ["UnreducedLayout", "ScaleOnce"], slice_mod=3)
    else:
        PER_CASE = 63
        FRAMES, cases = matlib.run_enumeration(ctx, "c05", 2, "all", ["UnreducedLayout", "ScaleOnce"], slice_mod=2)
    res = pmap("harness.props.c05", "replay_case", cases, chunk=60)
    seen = set()
    for c, (bad, n) in zip(cases, res):
        ctx.traces += n
        ctx.evaluations += n
        if n and len(c["names"]) >= 2 and len(c["kept"]) >= 2:
            ctx.nontrivial.add(jhash([c["written"], c["icpt"], c["fid"], c["full_rank"], c["na"], c["cluster"]]))
        for b in bad:
            ctx.violation({k: b[k] for k in ("formula", "fid", "path", "output", "materializer", "full_rank", "na", "cluster")}, b, kind="replay")
    ctx.notes["combinations"] = len(ALL)
    ctx.require("replay: executed (case, combination) pairs of the materialize enumeration", sum(n for _, n in res), 1000)
    for c in [c for c in cases if len(c["names"]) >= 3][:1]:
        ctx.sample({"formula": matlib.render_formula(c["written"], c["icpt"]), "frame": c["fid"], "names": c["names"], "cells": c["cells"],
                    "executed_on": "entry points x outputs x materializers"})
    ctx.exhaustive = True
    contrast_leg(ctx, 4 if ctx.quick else 6)
    registry_leg(ctx, 4 if ctx.quick else 5)
    structured_leg(ctx, 1 if ctx.quick else 2)
    agreement_leg(ctx, 1 if ctx.quick else 6)
    # leg T: random cases on random (entry point, output, materializer) combinations, validated by TLC
    from .. import mattrace

    mattrace.run(ctx, 1200 if ctx.quick else 20000, "c05", judge=lambda v: v in ("column-names", "cells", "unexpected-exception", "number-of-rows"))


def replay(path: str) -> int:
    rec = json.load(open(path))
    print(json.dumps(rec["detail"], indent=1)[:3000])
    return 0
