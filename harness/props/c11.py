"""C11 - built-in contrast codings are valid and standard for every level count.

Leg M: TLC checks in exact rationals (MC_Contrasts) for n = 1..N and every option that the
       textbook coding matrix and the textbook interpretation are mutually inverse
       ([1 | C] . Interp = I), sizes, zero column sums, and for polynomial contrasts exact
       orthogonality of the monic polynomials of the scores (Gram-Schmidt, not the recurrence).
Leg R: coding / coefficient matrices, names, drop field, format, spans_intercept of the real
       Contrasts classes (dense and sparse, via ContrastsState too) are compared with the model
       under three labelings of the levels; data vectors over levels + {null, unseen} are encoded
       through encode_contrasts (3 outputs) and through model_matrix("C(x, contr...)").
       Order (MC_ContrastsOrder): polynomial scores in every order of writing (row i = polynomial of score i), and data
       arriving in a categorical carrier whose own category order is any arrangement of any subset of the nominated levels
       (the nominated list decides); the design errors "sorted-scores" / "trust-carrier" are refuted by TLC on the same families.
       Reuse (MC_ContrastsReuse): a state machine - ONE contrasts object used with one level list after the other (other levels, other lengths, the
       same levels in another order); every use must be the coding of its own list; the design error "memo-position" is refuted by TLC.
"""
from __future__ import annotations

import json
import math
import warnings
from fractions import Fraction

import numpy

from ..common import Ctx, pmap, jhash
from ..tlc import MachineryError, read_emitted, run_tlc, workdir


def fl(m):
    return numpy.array([[x[0] / x[1] for x in row] for row in m], dtype=float).reshape(len(m), len(m[0]) if m else 0)


def labelings(n):
    return {"strings": [f"l{i}" for i in range(1, n + 1)], "ints-mixed": [3 * v + 1 for v in [5, 2, 9, 1, 7, 3, 8, 4, 6, 10, 12, 11, 14, 13][:n]],
            "reversed": [f"z{n - i}" for i in range(n)],
            "ints-with-zero": ([5, 0, 2, 9, 4, 7, 1, 8, 3, 6, 11, 10][:n] if n >= 2 else [0])}       # a falsy label that is not the first level


def make(o, levels):
    from formulaic.transforms import contrasts as K

    name = o["name"]
    if name in ("treatment", "sas"):
        cls = K.TreatmentContrasts if name == "treatment" else K.SASContrasts
        return cls(base=levels[o["base"] - 1]) if o["base"] else cls()
    if name == "sum":
        return K.SumContrasts()
    if name == "helmert":
        return K.HelmertContrasts(reverse=o["reverse"], scale=o["scale"])
    if name == "diff":
        return K.DiffContrasts(backward=o["backward"])
    raise ValueError(name)


def expr(o, levels):
    name = o["name"]
    if name in ("treatment", "sas"):
        n = "contr.treatment" if name == "treatment" else "contr.SAS"
        return f"{n}(base={levels[o['base'] - 1]!r})" if o["base"] else n
    if name == "sum":
        return "contr.sum"
    if name == "helmert":
        return f"contr.helmert(reverse={o['reverse']}, scale={o['scale']})"
    return f"contr.diff(backward={o['backward']})"


def close(a, b):
    a, b = numpy.asarray(a, dtype=float), numpy.asarray(b, dtype=float)
    return a.shape == b.shape and bool(numpy.allclose(a, b, rtol=1e-10, atol=1e-12))


def dense(x):
    a = x.toarray() if hasattr(x, "toarray") else numpy.asarray(x, dtype=float)
    n = int(round(math.sqrt(a.size))) if a.ndim != 2 else 0
    return a.reshape(n, n) if a.ndim != 2 and n * n == a.size else a      # scipy returns an ndarray for a 1x1 inverse (interpretation 20)


def replay_matrix(case):
    from formulaic.transforms.contrasts import ContrastsState

    n, o = case["n"], case["o"]
    C = fl(case["coding"]) if n > 1 else numpy.zeros((n, 0))
    I = fl(case["interp"])
    bad = []
    for lname, levels in labelings(n).items():
        base = {"contrast": o, "n": n, "labeling": lname}

        def chk(what, ok, obs=None, exp=None):
            if not ok:
                bad.append({**base, "why": what, "observed": str(obs)[:300], "expected": str(exp)[:300]})

        try:
            k = make(o, levels)
            cm = k.get_coding_matrix(levels, reduced_rank=True)
            chk("coding matrix (dense)", close(cm.values, C), cm.values.tolist(), C.tolist())
            chk("coding matrix index = levels", list(cm.index) == levels, list(cm.index), levels)
            chk("coding matrix (sparse)", close(dense(k.get_coding_matrix(levels, reduced_rank=True, sparse=True)), C))
            chk("full coding is the identity (dense)", close(k.get_coding_matrix(levels, reduced_rank=False).values, numpy.eye(n)))
            chk("full coding is the identity (sparse)", close(dense(k.get_coding_matrix(levels, reduced_rank=False, sparse=True)), numpy.eye(n)))
            co = k.get_coefficient_matrix(levels, reduced_rank=True)
            chk("coefficient matrix (dense)", close(co.values, I), co.values.tolist(), I.tolist())
            chk("coefficient matrix (sparse)", close(dense(k.get_coefficient_matrix(levels, reduced_rank=True, sparse=True)), I))
            sp = k.get_coefficient_matrix(levels, reduced_rank=True, sparse=True)
            chk("coefficient matrix (sparse) is a sparse n x n matrix", hasattr(sp, "toarray") and tuple(sp.shape) == (n, n), type(sp).__name__ + str(getattr(sp, "shape", "")), (n, n))
            chk("coefficient matrix inverts [1|coding]", close(co.values @ numpy.hstack([numpy.ones((n, 1)), C]), numpy.eye(n)))
            chk("coefficient matrix of the full coding is the identity", close(k.get_coefficient_matrix(levels, reduced_rank=False).values, numpy.eye(n)))
            names = [levels[j - 1] for j in case["collevels"]]
            chk("coding column names", list(k.get_coding_column_names(levels, reduced_rank=True)) == names, k.get_coding_column_names(levels, reduced_rank=True), names)
            chk("full coding column names", list(k.get_coding_column_names(levels, reduced_rank=False)) == levels)
            chk("coefficient row names count", len(k.get_coefficient_row_names(levels, reduced_rank=True)) == n)
            chk("drop field", k.get_drop_field(levels, reduced_rank=False) == levels[case["drop"] - 1], k.get_drop_field(levels, reduced_rank=False), levels[case["drop"] - 1])
            chk("drop field of a reduced coding is None", k.get_drop_field(levels, reduced_rank=True) is None)
            chk("format of reduced columns", k.get_factor_format(levels, reduced_rank=True) == "{name}[" + case["prefix"] + "{field}]", k.get_factor_format(levels, reduced_rank=True))
            chk("format of full columns", k.get_factor_format(levels, reduced_rank=False) == "{name}[{field}]")
            chk("spans_intercept", k.get_spans_intercept(levels, reduced_rank=False) is True and k.get_spans_intercept(levels, reduced_rank=True) is False)
            st = ContrastsState(k, levels)
            chk("ContrastsState coding", close(st.get_coding_matrix().values, C))
            chk("ContrastsState coefficient", close(st.get_coefficient_matrix().values, I))
            chk("columns sum to zero", o["name"] in ("treatment", "sas") or n == 1 or close(cm.values.sum(axis=0), numpy.zeros(n - 1)))
        except Exception as e:  # noqa
            bad.append({**base, "why": "exception", "observed": type(e).__name__ + ": " + str(e)[:150]})
    return bad, 4


def replay_poly(case):
    from formulaic.transforms.contrasts import PolyContrasts

    n = case["n"]
    scores = [Fraction(*s) for s in case["scores"]]
    default = scores == [Fraction(i) for i in range(n)]
    M = fl(case["monic"])
    norms = [x[0] / x[1] for x in case["norm2"]]
    E = M / numpy.sqrt(numpy.array(norms))
    bad = []
    for variant in (["default"] if default else []) + ["explicit"]:
        base = {"contrast": "poly", "n": n, "scores": [str(s) for s in scores], "variant": variant}
        try:
            k = PolyContrasts() if variant == "default" else PolyContrasts(scores=[float(s) for s in scores])
            levels = [f"l{i}" for i in range(n)]
            cm = k.get_coding_matrix(levels, reduced_rank=True).values
            if not close(cm, E) or not numpy.allclose(cm, E, atol=1e-9):
                bad.append({**base, "why": "orthonormal polynomial columns", "observed": cm.tolist(), "expected": E.tolist()})
            if not numpy.allclose(dense(k.get_coding_matrix(levels, reduced_rank=True, sparse=True)), E, atol=1e-9):
                bad.append({**base, "why": "sparse form differs"})
            names = list(k.get_coding_column_names(levels, reduced_rank=True))
            exp = [".L", ".Q", ".C", "^4", "^5", "^6", "^7"][: n - 1]
            if names != exp:
                bad.append({**base, "why": "names", "observed": names, "expected": exp})
            co = k.get_coefficient_matrix(levels, reduced_rank=True).values
            if not numpy.allclose(co @ numpy.hstack([numpy.ones((n, 1)), cm]), numpy.eye(n), atol=1e-9):
                bad.append({**base, "why": "coefficient matrix is not the inverse of [1|coding]"})
            if not numpy.allclose(cm.sum(axis=0), 0, atol=1e-9) or not numpy.allclose(cm.T @ cm, numpy.eye(n - 1), atol=1e-9):
                bad.append({**base, "why": "columns not orthonormal / not summing to zero"})
            # encoding data = indicator x coding: the row of a level is the polynomial of ITS score (every level, last to first, then the first again)
            import pandas
            from formulaic.transforms import encode_contrasts
            from formulaic.model_spec import ModelSpec

            idx = list(range(n - 1, -1, -1)) + [0]
            for output in ("pandas", "numpy", "sparse"):
                enc = encode_contrasts(pandas.Series([levels[i] for i in idx], dtype=object), contrasts=k, levels=levels, reduced_rank=True, output=output,
                                       _spec=ModelSpec(formula=[], output=output))
                arr = dense(enc) if output == "sparse" else numpy.asarray(enc, dtype=float)
                if arr.shape != (n + 1, n - 1) or not numpy.allclose(arr, E[idx], atol=1e-9):
                    bad.append({**base, "output": output, "why": "encoded values (polynomial contrasts)", "observed": arr.tolist(), "expected": E[idx].tolist()})
        except Exception as e:  # noqa
            bad.append({**base, "why": "exception", "observed": type(e).__name__ + ": " + str(e)[:150]})
    return bad, 5


def replay_encode(case):
    import pandas
    from formulaic import model_matrix
    from formulaic.transforms import encode_contrasts
    from formulaic.model_spec import ModelSpec

    n, o, li = case["n"], case["o"], case["li"]
    red, full = (fl(case["reduced"]) if n > 1 else numpy.zeros((len(li), 0))), fl(case["full"])
    bad = []
    cnt = 0
    for lname, levels in list(labelings(n).items())[:2]:
        for zero_as in ("null", "unseen"):
            unseen = "UNSEEN" if isinstance(levels[0], str) else -12345
            data = [levels[l - 1] if l > 0 else (None if zero_as == "null" else unseen) for l in li]
            base = {"contrast": o, "n": n, "labeling": lname, "data": [str(d) for d in data]}
            k = make(o, levels)
            for output in ("pandas", "numpy", "sparse"):
                for reduced, exp in ((True, red), (False, full)):
                    cnt += 1
                    try:
                        with warnings.catch_warnings(record=True) as w:
                            warnings.simplefilter("always")
                            enc = encode_contrasts(pandas.Series(data, dtype=object), contrasts=k, levels=levels, reduced_rank=reduced, output=output,
                                                   _spec=ModelSpec(formula=[], output=output))
                        arr = dense(enc) if output == "sparse" else numpy.asarray(enc, dtype=float)
                        if not close(arr.reshape(exp.shape) if arr.size == exp.size else arr, exp):
                            bad.append({**base, "output": output, "reduced": reduced, "why": "encoded values", "observed": arr.tolist(), "expected": exp.tolist()})
                        warned = any(type(x.message).__name__ == "DataMismatchWarning" for x in w)
                        if zero_as == "unseen" and 0 in li and not warned:
                            bad.append({**base, "output": output, "reduced": reduced, "why": "data-mismatch warning", "observed": warned})
                    except Exception as e:  # noqa
                        bad.append({**base, "output": output, "reduced": reduced, "why": "exception", "observed": type(e).__name__ + ": " + str(e)[:150]})
            # Contrasts.apply on the indicator matrix itself, in each container its signature names
            if zero_as == "null":
                import scipy.sparse as sps

                ind = numpy.array([[1.0 if l == j + 1 else 0.0 for j in range(n)] for l in li]).reshape(len(li), n)
                for cname, dummies in (("numpy", ind), ("pandas", pandas.DataFrame(ind, columns=levels)), ("sparse", sps.csc_matrix(ind))):
                    for reduced, exp in ((True, red), (False, full)):
                        cnt += 1
                        try:
                            enc = k.apply(dummies, levels=levels, reduced_rank=reduced)
                            arr = dense(enc) if cname == "sparse" else numpy.asarray(enc, dtype=float)
                            if not close(arr.reshape(exp.shape) if arr.size == exp.size else arr, exp):
                                bad.append({**base, "output": cname, "reduced": reduced, "why": "apply(indicator matrix) = indicator . coding", "observed": arr.tolist(), "expected": exp.tolist()})
                        except Exception as e:  # noqa
                            bad.append({**base, "output": cname, "reduced": reduced, "why": "exception in apply(indicator matrix)", "observed": type(e).__name__ + ": " + str(e)[:150]})
            # through a formula on an Arrow table (narwhals materializer, its default output), complete data only
            if lname == "strings" and zero_as == "null" and 0 not in li:
                cnt += 1
                try:
                    import pyarrow
                    import narwhals.stable.v1 as nw

                    f = f"C(x, {expr(o, levels)}, levels={levels!r})"
                    with warnings.catch_warnings():
                        warnings.simplefilter("ignore")
                        mm = model_matrix(f, pyarrow.table({"x": data}), context={})
                    arr = nw.from_native(mm, eager_only=True).to_numpy().astype(float)[:, 1:]
                    if not close(arr.reshape(red.shape) if arr.size == red.size else arr, red):
                        bad.append({**base, "why": "model_matrix with C(...) on an Arrow table", "formula": f, "observed": arr.tolist(), "expected": red.tolist()})
                except Exception as e:  # noqa
                    bad.append({**base, "why": "exception in model_matrix on an Arrow table", "observed": type(e).__name__ + ": " + str(e)[:150]})
            # through a formula
            if lname == "strings":
                cnt += 1
                try:
                    df = pandas.DataFrame({"x": pandas.Series(data, dtype=object)})
                    f = f"C(x, {expr(o, levels)}, levels={levels!r})"
                    with warnings.catch_warnings():
                        warnings.simplefilter("ignore")
                        mm = model_matrix(f, df, na_action="ignore", output="numpy", context={})
                    arr = numpy.asarray(mm, dtype=float)[:, 1:]
                    if not close(arr, red):
                        bad.append({**base, "why": "model_matrix with C(...)", "formula": f, "observed": arr.tolist(), "expected": red.tolist()})
                    names = [f"{f}[{case['prefix']}{levels[j - 1]}]" for j in case["collevels"]]
                    got = list(mm.model_spec.column_names)[1:]
                    import ast as _ast
                    if [g.replace('"', "'") for g in got] != [x.replace('"', "'") for x in names]:
                        bad.append({**base, "why": "column names through a formula", "observed": got, "expected": names})
                except Exception as e:  # noqa
                    bad.append({**base, "why": "exception in model_matrix", "observed": type(e).__name__ + ": " + str(e)[:150]})
    return bad, cnt


def replay_custom(case):
    """user-supplied coding matrices (array, list and dict forms): rows of the matrix per level, zero row for null / unseen, names given or 1..k"""
    import pandas
    from formulaic import model_matrix
    from formulaic.transforms import encode_contrasts
    from formulaic.transforms.contrasts import CustomContrasts
    from formulaic.model_spec import ModelSpec

    n, li = case["n"], case["li"]
    M = fl(case["m"])
    k = M.shape[1]
    exp = fl(case["enc"]).reshape(len(li), k)
    levels = [f"l{i}" for i in range(1, n + 1)]
    bad, cnt = [], 0
    forms = {"array": (CustomContrasts(M), list(range(1, k + 1))), "list+names": (CustomContrasts(M.tolist(), names=[f"c{j}" for j in range(k)]), [f"c{j}" for j in range(k)]),
             "dict": (CustomContrasts({f"d{j}": M[:, j].tolist() for j in range(k)}), [f"d{j}" for j in range(k)])}
    for zero_as in ("null", "unseen"):
        data = [levels[l - 1] if l > 0 else (None if zero_as == "null" else "UNSEEN") for l in li]
        base = {"contrast": {"name": "custom", "matrix": case["mi"]}, "n": n, "data": [str(d) for d in data]}
        for fname, (con, names) in forms.items():
            for output in ("pandas", "numpy", "sparse"):
                for reduced in (True, False):
                    cnt += 1
                    try:
                        with warnings.catch_warnings():
                            warnings.simplefilter("ignore")
                            enc = encode_contrasts(pandas.Series(data, dtype=object), contrasts=con, levels=levels, reduced_rank=reduced, output=output,
                                                   _spec=ModelSpec(formula=[], output=output))
                        arr = dense(enc) if output == "sparse" else numpy.asarray(enc, dtype=float)
                        if not close(arr.reshape(exp.shape) if arr.size == exp.size else arr, exp):
                            bad.append({**base, "labeling": fname, "output": output, "reduced": reduced, "why": "encoded values (custom contrasts)", "observed": arr.tolist(), "expected": exp.tolist()})
                        if list(con.get_coding_column_names(levels, reduced_rank=reduced)) != names:
                            bad.append({**base, "labeling": fname, "output": output, "reduced": reduced, "why": "custom contrast column names",
                                        "observed": list(con.get_coding_column_names(levels, reduced_rank=reduced)), "expected": names})
                    except Exception as e:  # noqa
                        bad.append({**base, "labeling": fname, "output": output, "reduced": reduced, "why": "exception", "observed": type(e).__name__ + ": " + str(e)[:150]})
        if zero_as == "null":
            # through formulas: a dict literal and a context-provided matrix, with and without an intercept (the rank requested does not matter)
            df = pandas.DataFrame({"x": pandas.Series(data, dtype=object)})
            dlit = "{" + ", ".join(f"'d{j}': {[float(v) for v in M[:, j]]}" for j in range(k)) + "}"
            for f, names, ctx in ((f"C(x, {dlit}, levels={levels!r})", [f"d{j}" for j in range(k)], {}), (f"C(x, MAT, levels={levels!r})", list(range(1, k + 1)), {"MAT": M})):
                for icpt in (True, False):
                    cnt += 1
                    try:
                        with warnings.catch_warnings():
                            warnings.simplefilter("ignore")
                            mm = model_matrix(("" if icpt else "0 + ") + f, df, na_action="ignore", output="numpy", context=ctx)
                        arr = numpy.asarray(mm, dtype=float)[:, (1 if icpt else 0):]
                        got = [c.replace('"', "'") for c in mm.model_spec.column_names][(1 if icpt else 0):]
                        want = [f"{f}[{nm}]".replace('"', "'") for nm in names]
                        if not close(arr, exp):
                            bad.append({**base, "labeling": "formula", "why": "model_matrix with custom contrasts", "formula": f, "observed": arr.tolist(), "expected": exp.tolist()})
                        elif got != want:
                            bad.append({**base, "labeling": "formula", "why": "column names of custom contrasts through a formula", "observed": got, "expected": want})
                    except Exception as e:  # noqa
                        bad.append({**base, "labeling": "formula", "why": "exception in model_matrix", "formula": f, "observed": type(e).__name__ + ": " + str(e)[:150]})
    return bad, cnt


def replay_carrier(case):
    """the data arrive in a carrier with a category order of its own (categorical dtype; `own` = any arrangement of any non-empty subset of the
    nominated levels, `codes` into it, 0 = null): the explicit level list decides reference level, column order and names - not the carrier.
    Gamma side of MC_ContrastsOrder: Series of categorical dtype, bare Categorical, ordered categorical; encode_contrasts and C(...) in a formula."""
    import pandas
    from formulaic import model_matrix
    from formulaic.transforms import encode_contrasts
    from formulaic.model_spec import ModelSpec

    n, o, own, codes = case["n"], case["o"], case["own"], case["codes"]
    red, full = (fl(case["reduced"]) if n > 1 else numpy.zeros((len(codes), 0))), fl(case["full"])
    bad, cnt = [], 0
    for lname, levels in list(labelings(n).items())[:2]:
        cats = [levels[i - 1] for i in own]
        k = make(o, levels)
        base = {"contrast": o, "n": n, "labeling": lname, "data": f"categories {cats} codes {[c - 1 for c in codes]} levels {levels}"}
        for cname in ("series", "categorical", "ordered-series"):
            cat = pandas.Categorical.from_codes([c - 1 for c in codes], categories=cats, ordered=cname.startswith("ordered"))
            data = cat if cname == "categorical" else pandas.Series(cat)
            for output in ("pandas", "numpy", "sparse"):
                for reduced, exp in ((True, red), (False, full)):
                    cnt += 1
                    try:
                        with warnings.catch_warnings():
                            warnings.simplefilter("ignore")
                            enc = encode_contrasts(data, contrasts=k, levels=levels, reduced_rank=reduced, output=output, _spec=ModelSpec(formula=[], output=output))
                        arr = dense(enc) if output == "sparse" else numpy.asarray(enc, dtype=float)
                        if not close(arr.reshape(exp.shape) if arr.size == exp.size else arr, exp):
                            bad.append({**base, "output": output, "reduced": reduced, "why": f"encoded values (data in a categorical carrier: {cname})", "observed": arr.tolist(), "expected": exp.tolist()})
                    except Exception as e:  # noqa
                        bad.append({**base, "output": output, "reduced": reduced, "why": f"exception (data in a categorical carrier: {cname})", "observed": type(e).__name__ + ": " + str(e)[:150]})
        if lname == "strings":
            cnt += 1
            try:
                df = pandas.DataFrame({"x": pandas.Categorical.from_codes([c - 1 for c in codes], categories=cats)})
                f = f"C(x, {expr(o, levels)}, levels={levels!r})"
                with warnings.catch_warnings():
                    warnings.simplefilter("ignore")
                    mm = model_matrix(f, df, na_action="ignore", output="numpy", context={})
                arr = numpy.asarray(mm, dtype=float)[:, 1:]
                names = [f"{f}[{case['prefix']}{levels[j - 1]}]".replace('"', "'") for j in case["collevels"]]
                got = [g.replace('"', "'") for g in mm.model_spec.column_names][1:]
                if not close(arr, red):
                    bad.append({**base, "why": "model_matrix with C(..., levels=) on a categorical column", "formula": f, "observed": arr.tolist(), "expected": red.tolist()})
                elif got != names:
                    bad.append({**base, "why": "column names through a formula (categorical column)", "observed": got, "expected": names})
            except Exception as e:  # noqa
                bad.append({**base, "why": "exception in model_matrix (categorical column)", "observed": type(e).__name__ + ": " + str(e)[:150]})
    return bad, cnt


def replay_reuse(case):
    """ONE contrasts object used with one level list after the other (MC_ContrastsReuse: other levels, other lengths, the same levels in another
    order): every use is the coding of ITS list - reference level by label, names, drop field, coefficient matrix, encoded data - whatever the object
    was used with before.  The whole history is replayed on the same object and every use is compared (dense, sparse, ContrastsState, 3 outputs)."""
    import pandas
    from formulaic.transforms import contrasts as K
    from formulaic.transforms import encode_contrasts
    from formulaic.model_spec import ModelSpec

    o, bad, cnt = case["o"], [], 0
    if not case["hist"]:
        return bad, cnt
    U = max(max(lv) for lv in case["hist"])
    for lname in ("strings", "ints-with-zero"):
        lab = labelings(max(U, 3))[lname]
        if o["name"] in ("treatment", "sas"):       # the reference level is named by LABEL here, not by position in one list
            cls = K.TreatmentContrasts if o["name"] == "treatment" else K.SASContrasts
            k = cls(base=lab[o["base"] - 1]) if o["base"] else cls()
        else:
            k = make(o, lab)
        for step, u in enumerate(case["uses"]):
            n, levels = u["n"], [lab[i - 1] for i in u["lv"]]
            C = fl(u["coding"]) if n > 1 else numpy.zeros((n, 0))
            I = fl(u["interp"])
            red, full = (fl(u["reduced"]) if n > 1 else numpy.zeros((n + 1, 0))), fl(u["full"])
            base = {"contrast": o, "n": n, "labeling": lname,
                    "data": f"use {step + 1} of one object: levels {levels} after {[[lab[i - 1] for i in lv] for lv in case['hist'][:step]]}"}

            def chk(what, ok, obs=None, exp=None):
                if not ok:
                    bad.append({**base, "why": what + " (reused contrasts object)", "observed": str(obs)[:300], "expected": str(exp)[:300]})

            try:
                cnt += 1
                cm = k.get_coding_matrix(levels, reduced_rank=True)
                chk("coding matrix (dense)", close(cm.values, C), cm.values.tolist(), C.tolist())
                chk("coding matrix (sparse)", close(dense(k.get_coding_matrix(levels, reduced_rank=True, sparse=True)), C))
                chk("full coding is the identity", close(k.get_coding_matrix(levels, reduced_rank=False).values, numpy.eye(n)))
                co = k.get_coefficient_matrix(levels, reduced_rank=True)
                chk("coefficient matrix (dense)", close(co.values, I), co.values.tolist(), I.tolist())
                chk("coefficient matrix (sparse)", close(dense(k.get_coefficient_matrix(levels, reduced_rank=True, sparse=True)), I))
                chk("coefficient matrix inverts [1|coding]", close(co.values @ numpy.hstack([numpy.ones((n, 1)), cm.values.reshape(n, -1)]), numpy.eye(n)))
                names = [levels[j - 1] for j in u["collevels"]]
                chk("coding column names", list(k.get_coding_column_names(levels, reduced_rank=True)) == names, k.get_coding_column_names(levels, reduced_rank=True), names)
                chk("drop field", k.get_drop_field(levels, reduced_rank=False) == levels[u["drop"] - 1], k.get_drop_field(levels, reduced_rank=False), levels[u["drop"] - 1])
                st = K.ContrastsState(k, levels)
                chk("ContrastsState coding", close(st.get_coding_matrix().values, C))
                chk("ContrastsState coefficient", close(st.get_coefficient_matrix().values, I))
                data = [levels[l - 1] if l > 0 else None for l in u["li"]]
                for output in ("pandas", "numpy", "sparse"):
                    for reduced, exp in ((True, red), (False, full)):
                        cnt += 1
                        with warnings.catch_warnings():
                            warnings.simplefilter("ignore")
                            enc = encode_contrasts(pandas.Series(data, dtype=object), contrasts=k, levels=levels, reduced_rank=reduced, output=output,
                                                   _spec=ModelSpec(formula=[], output=output))
                        arr = dense(enc) if output == "sparse" else numpy.asarray(enc, dtype=float)
                        chk(f"encoded values ({output}, reduced={reduced})", close(arr.reshape(exp.shape) if arr.size == exp.size else arr, exp), arr.tolist(), exp.tolist())
                        if output == "pandas" and reduced:
                            chk("encoded column names", list(enc.__formulaic_metadata__.column_names) == names, list(enc.__formulaic_metadata__.column_names), names)
            except Exception as e:  # noqa
                bad.append({**base, "why": "exception (reused contrasts object)", "observed": type(e).__name__ + ": " + str(e)[:150]})
    return bad, cnt


def replay_case(case):
    return {"matrix": replay_matrix, "poly": replay_poly, "encode": replay_encode, "custom": replay_custom, "carrier": replay_carrier, "reuse": replay_reuse}[case["kind"]](case)


def order_cases(ctx: Ctx):
    """MC_ContrastsOrder: score sets in every order of writing, data in carriers with their own category order; the two design errors must be refuted"""
    out = workdir("c11") / "order.ndjson"
    out.unlink(missing_ok=True)
    cfg = f'SPECIFICATION Spec\nCONSTANTS\n  MaxN = 3\n  MaxPolyN = {4 if ctx.quick else 5}\n  Emit = TRUE\n  Variant = "code"\n'
    r = run_tlc("MC_ContrastsOrder", cfg + "INVARIANT PolyOrderLaws\nINVARIANT CarrierLaws\nINVARIANT EmitCase\n", tag="c11o", env={"OUT_FILE": str(out)}, timeout=3000)
    if r.violated:
        ctx.model_violation(r, "MC_ContrastsOrder")
    ctx.add_tlc(r, "polynomial rows follow the scores in every order of writing (linear column = centred scores, permutation equivariance, orthogonality); "
                   "the rows encoded from a categorical carrier depend on the labels and the nominated level list only (reference level of the nominated list) + emission")
    for variant, law in (("sorted-scores", "PolyOrderLaws"), ("trust-carrier", "CarrierLaws")):
        v = run_tlc("MC_ContrastsOrder", cfg.replace('"code"', f'"{variant}"').replace("Emit = TRUE", "Emit = FALSE").replace("MaxPolyN = 5", "MaxPolyN = 4") + f"INVARIANT {law}\n",
                    tag="c11o", timeout=3000)
        if law not in v.violated:
            raise MachineryError(f"MC_ContrastsOrder: the design error {variant!r} does not violate {law} - the family is vacuous")
    ctx.notes["contrast_order_design_errors_refuted"] = ["sorted-scores (scores silently sorted)", "trust-carrier (category order of the data's dtype instead of the nominated levels)"]
    cases = read_emitted(out)
    out.unlink()
    if len(cases) != r.distinct:
        raise MachineryError(f"emission incomplete: {len(cases)} of {r.distinct}")
    return cases


def reuse_cases(ctx: Ctx):
    """MC_ContrastsReuse: one object, a history of level lists; the design error "memo-position" must be refuted"""
    out = workdir("c11") / "reuse.ndjson"
    out.unlink(missing_ok=True)
    cfg = f'SPECIFICATION Spec\nCONSTANTS\n  MaxU = 3\n  MaxLen = {2 if ctx.quick else 3}\n  Emit = TRUE\n  Variant = "code"\n'
    r = run_tlc("MC_ContrastsReuse", cfg + "INVARIANT ReuseLaws\nINVARIANT EmitCase\n", tag="c11r", env={"OUT_FILE": str(out)}, timeout=3000)
    if r.violated:
        ctx.model_violation(r, "MC_ContrastsReuse")
    ctx.add_tlc(r, "every use of one contrasts object with one level list after the other: the reference row / dropped column is the one of the named label "
                   "(default: first / last of THAT list), columns carry the other labels in list order, [1|C].Interp = I at the size of that list + emission")
    v = run_tlc("MC_ContrastsReuse", cfg.replace('"code"', '"memo-position"').replace("Emit = TRUE", "Emit = FALSE").replace("MaxLen = 3", "MaxLen = 2") + "INVARIANT ReuseLaws\n",
                tag="c11r", timeout=3000)
    if "ReuseLaws" not in v.violated:
        raise MachineryError("MC_ContrastsReuse: the design error 'memo-position' does not violate ReuseLaws - the family is vacuous")
    ctx.notes["contrast_reuse_design_errors_refuted"] = ["memo-position (position of the reference level kept on the object from its first use)"]
    cases = read_emitted(out)
    out.unlink()
    if len(cases) != r.distinct:
        raise MachineryError(f"emission incomplete: {len(cases)} of {r.distinct}")
    return cases


def run(ctx: Ctx) -> None:
    ctx.rule = ("matrices: n = 1..MaxN x {treatment with every base, SAS, sum, Helmert x reverse x scale, difference x direction} x 3 labelings; polynomial: "
                "n = 2..5 with default and non-default scores; encoding: n = 1..3 x every option x every data vector of length <= 3 over levels + "
                "{null/unseen} x 2 labelings x 3 outputs x reduced/full, through Contrasts.apply on numpy / pandas / sparse indicator matrices, and through model_matrix on pandas frames and Arrow tables; "
                "order: n = 2..4 (thorough 5) x every score set x every order of writing; n = 1..3 x every option x every arrangement of every non-empty subset of the levels as "
                "the categories of a categorical carrier x 2 code vectors (every category and a null; descending with a repeat) x 2 labelings x 3 carriers x 3 outputs x reduced/full, and through model_matrix; "
                "reuse: every object (treatment / SAS with every label of a 3-label universe or none as reference, every other option) x every history of <= 2 (thorough 3) level lists "
                "(every arrangement of every non-empty subset of the labels holding the reference label; for label-blind codings every length) replayed on ONE object x 2 labelings, every use compared; non-trivial = n >= 3")
    ctx.trusted = ["sqrt taken by the harness for the polynomial normalisation", "float comparison at 1e-10 relative", "TLC", "Rat.tla (TLC reports integer overflow)"]
    out = workdir("c11") / "cases.ndjson"
    out.unlink(missing_ok=True)
    maxn = 8 if ctx.quick else 12
    r = run_tlc("MC_Contrasts", f"SPECIFICATION Spec\nCONSTANTS\n  MaxN = {maxn}\n  MaxPolyN = 5\n  Emit = TRUE\nINVARIANT Laws\nINVARIANT EmitCase\n", tag="c11",
                env={"OUT_FILE": str(out)}, timeout=3000)
    if r.violated:
        ctx.model_violation(r, "MC_Contrasts")
    ctx.add_tlc(r, f"[1|C].Interp = I, sizes, zero column sums, polynomial orthogonality + emission; n <= {maxn}")
    cases = read_emitted(out)
    out.unlink()
    if len(cases) != r.distinct:
        raise MachineryError(f"emission incomplete: {len(cases)} of {r.distinct}")
    cases += order_cases(ctx)
    cases += reuse_cases(ctx)
    res = pmap("harness.props.c11", "replay_case", cases, chunk=20)
    for c, (bad, n) in zip(cases, res):
        ctx.traces += n
        ctx.evaluations += n
        if c["n"] >= 3:
            ctx.nontrivial.add(jhash([c["kind"], c["n"], c.get("o"), c.get("li"), c.get("scores")] + ([c["own"], c["codes"]] if c["kind"] == "carrier" else []) + ([c["hist"]] if c["kind"] == "reuse" else [])))
        for b in bad:
            ctx.violation({k: b.get(k) for k in ("contrast", "n", "labeling", "data", "output", "reduced", "scores", "variant")} | {"why": b["why"]}, b, kind="replay")
    for c in [c for c in cases if c["kind"] == "matrix" and c["n"] == 4 and c["o"]["name"] == "helmert" and c["o"]["scale"] and c["o"]["reverse"]][:1]:
        ctx.sample({"contrast": c["o"], "n": 4, "coding": c["coding"], "interpretation": c["interp"]})
    ctx.exhaustive = True


def replay(path: str) -> int:
    rec = json.load(open(path))
    print(json.dumps(rec["detail"], indent=1)[:3000])
    return 0
