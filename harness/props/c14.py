"""C14 - any input string is parsed or rejected with the library's parsing error.

Leg M: TLC evaluates Lexer o Wilkinson on every character string in the bound: totality
       (an outcome is assigned to every string) and flag monotonicity.
Leg R: every enumerated string is parsed by the real parser under three configurations;
       violations are exactly what the statement forbids: an escaped internal exception, a
       timeout, a plain SyntaxError without an invalid python fragment, or acceptance of a
       string that (per the model) needs an operator the configuration disables.
Leg T: mutation-fuzzed strings (brackets, quotes, unicode) recorded from the real parser
       and validated by TLC (Trace_C14).
"""
from __future__ import annotations

import ast
import json
import random
import re

from ..common import Ctx, pmap
from ..tlc import MachineryError, read_emitted, run_tlc, workdir
from .. import lexalpha, palpha

CFGS: list = []


def frag_valid(fragment: str) -> bool:
    """stdlib oracle: is the python fragment syntactically valid once backtick-quoted names are aliased?"""
    out, i, n = [], 0, len(fragment)
    mode = ""
    while i < n:
        ch = fragment[i]
        if mode in ("'", '"'):
            out.append(ch)
            if ch == "\\" and i + 1 < n:
                out.append(fragment[i + 1])
                i += 1
            elif ch == mode:
                mode = ""
        elif ch in "'\"":
            mode = ch
            out.append(ch)
        elif ch == "`":
            j = fragment.find("`", i + 1)
            if j < 0:
                return False
            out.append(" _bt ")
            i = j
        else:
            out.append(ch)
        i += 1
    try:
        ast.parse("".join(out).strip(), mode="eval")
        return True
    except (SyntaxError, ValueError, MemoryError, RecursionError):
        return False


def outcome(s: str, cfg: dict) -> str:
    o = palpha.parse_formula(s, cfg)
    st = o["st"]
    law = palpha.context_law(s, o)
    if law:
        return "C:" + law
    if st in ("OK", "OTHER"):
        return "O"
    if st == "REJECT":
        return "R"
    if st == "PYSYNTAX":
        return "P"
    if st == "TIMEOUT":
        return "T"
    return "X:" + str(o.get("cls"))


def replay_case(case):
    s = "".join(case["t"])
    pyinvalid = any(not frag_valid(t["x"]) for t in case["toks"] if t["k"] == "python")
    bad = []
    for k, cfg in enumerate(CFGS):
        obs = outcome(s, cfg)
        why = None
        if obs not in ("O", "R", "P"):
            why = "escaped:" + obs
        elif obs == "P" and not pyinvalid and not case["err"]:
            why = "python-syntax-error-without-invalid-fragment"
        elif obs == "O" and case["oc"][k] == "R" and case["all"][k] == "O":
            why = "disabled-operator-accepted"
        if why:
            bad.append({"string": s, "cfg": cfg, "why": why, "model_outcome": case["oc"][k]})
    diag = sum(1 for k, cfg in enumerate(CFGS) if case["oc"][k] in "OR" and not pyinvalid and outcome(s, cfg) != case["oc"][k]) if False else 0
    return bad


def enumerated(ctx: Ctx, maxlen: int, alpha: str, slice_mod: int = 1):
    global CFGS
    out = workdir("c14") / f"lex-{alpha}-{maxlen}.ndjson"
    out.unlink(missing_ok=True)
    cfg = ("SPECIFICATION Spec\nCONSTANTS\n"
           f"  MaxLen = {maxlen}\n  AlphaName = \"{alpha}\"\n  Emit = TRUE\n  CheckWs = FALSE\n"
           "INVARIANT Total\nINVARIANT Monotone\nINVARIANT EmitCase\n")
    r = run_tlc("MC_Lexer", cfg, tag="c14", env={"OUT_FILE": str(out)}, timeout=3000)
    if r.violated:
        ctx.model_violation(r, f"MC_Lexer (C14) {alpha} <= {maxlen}")
    ctx.add_tlc(r, f"Lexer o Wilkinson totality + flag monotonicity + emission; alphabet={alpha}, len<={maxlen}")
    lines = read_emitted(out)
    hdr = [x for x in lines if "cfgs" in x]
    cases = [x for x in lines if "t" in x]
    if len(cases) != r.distinct or len(hdr) != 1:
        raise MachineryError(f"emission incomplete: {len(cases)} of {r.distinct}")
    CFGS = [{"intercept": c["intercept"], "flags": c["flags"], "avail": {"present": True, "vars": []}} for c in hdr[0]["cfgs"]]
    if slice_mod > 1:
        cases = [c for i, c in enumerate(sorted(cases, key=lambda c: c["t"])) if i % slice_mod == ctx.seed % slice_mod]
    res = pmap("harness.props.c14", "replay_case", cases, chunk=1000)
    for c, bad in zip(cases, res):
        ctx.traces += len(CFGS)
        ctx.evaluations += len(CFGS)
        if not c["err"] and len(c["toks"]) >= 2:
            ctx.nontrivial.add("".join(c["t"]))
        for b in bad:
            ctx.violation({"string": b["string"], "cfg": b["cfg"]}, b, kind="replay")
    for c in cases[:: max(1, len(cases) // 2)][:2]:
        ctx.sample({"string": "".join(c["t"]), "model_outcomes": c["oc"]})
    out.unlink()


POOL = list("()[]{}`'\"%\\~|+-*/:^.,@ ab01_") + ["é", "λ", "变", "🙂", "\t", "\n"]


def fuzz_records(seed: int, n: int) -> list:
    from .c01_trace import Gen, FLAGSETS

    rng = random.Random(104729 * seed + 11)
    g = Gen(rng)
    jobs = []
    for i in range(n):
        s = g.formula()
        for _ in range(rng.choice([0, 1, 1, 2, 3, 5])):
            p = rng.randrange(len(s) + 1)
            m = rng.random()
            digits = [k for k, ch in enumerate(s) if ch.isdigit()]
            if m < 0.08 and digits:      # a literal becomes 0: the parser rewrites it into tokens of its own (D78)
                k = rng.choice(digits)
                s = s[:k] + "0" + s[k + 1 :]
            elif m < 0.45:
                s = s[:p] + rng.choice(POOL) + s[p:]
            elif m < 0.75 and s:
                s = s[:p] + s[p + 1 :]
            elif s:
                s = s[:p] + rng.choice(POOL) + s[p + 1 :]
        if len(s) > 120:
            s = s[:120]
        jobs.append((i + 1, s, rng.random() < 0.6, rng.choice(FLAGSETS)))
    return jobs


def record(job):
    i, s, intercept, flags = job
    cfg = {"intercept": intercept, "flags": flags, "avail": {"present": True, "vars": []}}
    obs = outcome(s, cfg)
    # fragments as the REAL tokenizer delivers them (raw, before normalisation)
    try:
        from formulaic.parser.algos.tokenize import tokenize

        frs = []
        try:
            for t in tokenize(s):
                if t.kind and t.kind.value == "python":
                    frs.append(t.token)
        except Exception:
            pass
        pyinvalid = any(not frag_valid(f) for f in frs)
    except Exception:
        pyinvalid = False
    return {"id": i, "s": s, "chars": lexalpha.chars_of(s), "intercept": intercept, "flags": flags, "pyinvalid": pyinvalid, "obs": obs}


def trace_leg(ctx: Ctx, n: int):
    recs = pmap("harness.props.c14", "record", fuzz_records(ctx.seed, n))
    wd = workdir("c14")
    rejected = {}
    B = 4000
    for b in range(0, len(recs), B):
        batch = recs[b : b + B]
        tf, rf = wd / f"trace{b}.json", wd / f"rej{b}.ndjson"
        tf.write_text(json.dumps([{k: v for k, v in r.items() if k != "s"} for r in batch]))
        rf.unlink(missing_ok=True)
        r = run_tlc("Trace_C14", "SPECIFICATION Spec\nINVARIANT Check\n", tag="c14t", env={"TRACE_FILE": str(tf), "REJ_FILE": str(rf)}, timeout=1800)
        if r.violated or r.distinct != len(batch):
            raise MachineryError(f"Trace_C14 did not consume the batch ({r.distinct}/{len(batch)}) {r.violated}")
        ctx.add_tlc(r, "Trace_C14 batch")
        for x in read_emitted(rf):
            rejected[x["id"]] = x["verdict"]
        tf.unlink()
        rf.unlink(missing_ok=True)
    diag = {}
    for r in recs:
        ctx.traces += 1
        ctx.evaluations += 1
        v = rejected.get(r["id"], "")
        if v.startswith("diag:"):
            diag[v] = diag.get(v, 0) + 1
            diag.setdefault("examples", []).append(r["s"]) if len(diag.get("examples", [])) < 8 else None
            continue
        if v:
            ctx.violation({"string": r["s"], "cfg": {"intercept": r["intercept"], "flags": r["flags"]}}, {"why": v, "observed": r["obs"]}, kind="trace")
        elif r["obs"] == "R" and len(r["s"]) > 6:
            ctx.nontrivial.add(("T", r["s"]))
    ctx.notes["trace_diagnostics_model_vs_code_accept_reject"] = diag
    ctx.sample({"fuzz_record": {"string": recs[0]["s"], "observed": recs[0]["obs"]}})


# ------------------------------------------------------------------ explicit probes
PROBES = ["[[a ~ b] ~ c]", "[[a~b]~c] + d", "[[a ~ b] + [c ~ d] ~ e]", "[a ~ [b ~ c]]", "(a]", "a**(0)", "(a-a)/b", "f(``)", "a ~", "~", "[", "]", "[]", "[~]", "[a]",
          "[a ~ b", "a ~ b]", "a | | b", "a ^ b ^ c", "a %in% ", "`", "``", "'", "a'b", "{a", "a}", "{", "}", "a ~ b ~ c", "0 ~ 0", "1 | 1 ~ 1", "a:", ":a", "a::b", "a + (", "a())", "f(", "f(a))", "I(", ".",
          ". ~ .", "a ~ . | .", "-", "--1", "a - - a", "+", "a +", "()", "(())", "a()", "1()", "(a)(b)", "a b", "1 2", "a 1", "`a` `b`", "a\\", "\\",
          "{(a + b).abs()} ~ a", "f(a)[0](b) ~ a", "{a[0].z} ~ b", "a ~ {(a + b).abs()}", "{(a).b} ~ .", "{f(a)(b)} + .", "{[a][0].real} ~ b", "{a if b else c} ~ a",
          "{(lambda q: q)(a)} ~ b", "{-a.b} ~ c", "{a.b.c()} ~ d", "{a[b](c).d} | e ~ f",
          "a ** (b + .)", "a ^ (b:.)", "a ** (-.)", "1 ** (  + - -. ) *2.5", "a ** (. - 1)",
          "a**(2+0)", "a^(2-0)", "(a+b)**(1+0)", "a**(0+2)", "y ~ a**(2+0)", "a**((0))", "(0+a) b", "a (0)", "a**(2+0) + b | c",
          "a ** {{[]}}", "a ** {{[]: 1}}", "a ^ {{{}}}", "a ** 99999999999999999999", "a ^ 9223372036854775808", "a ** 1e3", "a ** 2.0", "a ** -1",
          "f(\ud800)", "{\ud800}", "f('\udfff')", "{" + "+".join(f"x{i}" for i in range(600)) + "}", "f(" + "-" * 3000 + "a)", "a" + "[0]" * 3000,
          'f("a\\\\", `b c`, "d")', "f('C:\\\\', `my col`, 'x')", "pick(`it's`, 'q')", 'pick(`5" pipe`, "q")']


def probe_leg(ctx: Ctx):
    """The strings the property statement itself names plus bracket/multistage corner cases, under every flag subset."""
    fl = ["TWOSIDED", "MULTIPART", "MULTISTAGE"]
    subsets = [[f for i, f in enumerate(fl) if m >> i & 1] for m in range(8)]
    for s in PROBES:
        for flags in subsets:
            for intercept in (True, False):
                cfg = {"intercept": intercept, "flags": flags, "avail": {"present": True, "vars": []}}
                obs = outcome(s, cfg)
                ctx.traces += 1
                ctx.evaluations += 1
                if obs not in ("O", "R", "P"):
                    ctx.violation({"string": s, "cfg": cfg}, {"why": "escaped:" + obs, "string": s}, kind="probe")
                elif obs == "P":
                    try:
                        from formulaic.parser.algos.tokenize import tokenize

                        frs = [t.token for t in tokenize(s) if t.kind and t.kind.value == "python"]
                    except Exception:  # noqa
                        frs = []
                    if not any(not frag_valid(f) for f in frs):
                        ctx.violation({"string": s, "cfg": cfg}, {"why": "python-syntax-error-without-invalid-fragment", "string": s}, kind="probe")


def _m_nested_multistage(match, case, detail):
    """D33: the specific call site - tilde's nested-multistage branch raising NotImplementedError with its own message."""
    s, cfg = case.get("string"), case.get("cfg")
    if s is None or cfg is None or "MULTISTAGE" not in cfg.get("flags", []):
        return False
    cfg = dict(cfg)
    cfg.setdefault("avail", {"present": True, "vars": []})
    o = palpha.parse_formula(s, cfg)
    return o["st"] == "ESCAPED" and o.get("cls") == "NotImplementedError" and str(o.get("msg", "")).startswith(match["message_prefix"])


MATCHERS = {"notimplemented_nested_multistage_structured_lhs": _m_nested_multistage}


# ------------------------------------------------------------------ parser sessions
def replay_session(case):
    """One history of public calls on (at most two) parser objects; the expected outcome of every parse step comes from the model."""
    import copy
    import pickle

    from formulaic.parser import DefaultFormulaParser

    from .c01 import res_str

    objs, bad = {}, []
    for n, st in enumerate(case["hist"]):
        op, s = st["op"], st["s"]
        if op == "new":
            objs[s] = DefaultFormulaParser(feature_flags=set(st["arg"]))
        elif op == "set_flags":
            r = objs[s].set_feature_flags(set(st["arg"]))
            if r is not objs[s]:
                bad.append({"step": n, "why": "set_feature_flags did not return the parser"})
        elif op == "toggle_intercept":
            objs[s].include_intercept = not objs[s].include_intercept
        elif op == "pickle":
            objs[int(st["arg"][0])] = pickle.loads(pickle.dumps(objs[s]))
        elif op == "deepcopy":
            objs[int(st["arg"][0])] = copy.deepcopy(objs[s])
        elif op == "parse":
            p, text = objs[s], st["arg"][0]
            obs = palpha.observe(lambda: p.get_terms(text))
            got = res_str(obs)
            if obs["st"] in ("ESCAPED", "TIMEOUT", "PYSYNTAX") or (st["out"] != "U" and got != st["out"]):
                bad.append({"step": n, "formula": text, "expected": st["out"], "observed": got,
                            "flags_now": sorted(f.name for f in type(p.feature_flags) if f.name in ("TWOSIDED", "MULTIPART", "MULTISTAGE") and f in p.feature_flags)})
    return [{"history": [[h["op"], h["s"], h["arg"]] for h in case["hist"]], **b} for b in bad]


def session_leg(ctx: Ctx, maxops: int):
    out = workdir("c14") / "sessions.ndjson"
    out.unlink(missing_ok=True)
    cfg = (f"SPECIFICATION Spec\nCONSTANTS\n  MaxOps = {maxops}\n  Emit = TRUE\n  Variant = \"code\"\n"
           "INVARIANT TypeOK\nINVARIANT CacheCoherent\nINVARIANT PureParse\nINVARIANT DisabledRejected\nINVARIANT NeedsTable\nINVARIANT EmitCase\n")
    r = run_tlc("MC_ParserSession", cfg, tag="c14s", env={"OUT_FILE": str(out)}, timeout=3000)
    if r.violated:
        ctx.model_violation(r, "MC_ParserSession")
    ctx.add_tlc(r, f"parser object histories (set_feature_flags / include_intercept / parse / pickle / deepcopy on two objects) <= {maxops} calls: "
                   "cache coherence, parse is a function of the public configuration, disabled operators rejected on every history")
    # the law is not vacuous on the bounded model: both seeded design errors are found by TLC
    for variant in ("stale", "lossy"):
        v = run_tlc("MC_ParserSession", cfg.replace('"code"', f'"{variant}"').replace("Emit = TRUE", "Emit = FALSE").replace("INVARIANT CacheCoherent\n", ""),
                    tag="c14s", timeout=3000)
        if "PureParse" not in v.violated and "DisabledRejected" not in v.violated:
            raise MachineryError(f"MC_ParserSession variant {variant} does not violate the parse laws: the bounded model is vacuous")
        ctx.notes[f"session_model_variant_{variant}"] = "violates " + ",".join(v.violated)
    cases = read_emitted(out)
    if len(cases) != r.distinct:
        raise MachineryError(f"emission incomplete: {len(cases)} of {r.distinct}")
    res = pmap("harness.props.c14", "replay_session", cases, chunk=300)
    for c, bad in zip(cases, res):
        ctx.traces += 1
        nparse = sum(1 for h in c["hist"] if h["op"] == "parse")
        ctx.evaluations += nparse
        if nparse >= 1 and len(c["hist"]) >= 3:
            ctx.nontrivial.add(("session", json.dumps(c["hist"], sort_keys=True)))
        for b in bad:
            ctx.violation({"session": b["history"], "step": b["step"]}, b, kind="replay")
    # unbounded histories (thorough tier): Apalache discharges that CacheCoherent is an inductive invariant of the object machine
    if not ctx.quick:
        from ..tlc import run_apalache

        base_case = run_apalache("Apa_ParserSession", "Init", "IndInv", 0, "c14a")
        step = run_apalache("Apa_ParserSession", "IndInit", "IndInv", 1, "c14a")
        ctx.notes["apalache_inductive_invariant_CacheCoherent"] = {"Init => IndInv": base_case, "IndInv /\\ Next => IndInv'": step}
        if not (base_case["ok"] and step["ok"]):
            raise MachineryError(f"Apalache refutes the inductive invariant of ParserSession: {base_case} {step}")
    # deep histories: random behaviours of the same specification (tlc -simulate), replayed like the enumerated ones
    from ..tlc import simulate_emitted

    deep = 10
    sr, srecs = simulate_emitted("MC_ParserSession", cfg.replace(f"MaxOps = {maxops}", f"MaxOps = {deep}").replace("INVARIANT NeedsTable\n", ""), "c14s",
                                 num=100 if ctx.quick else 1500, depth=deep + 2, seed=ctx.seed + 1)
    if sr.violated:
        ctx.model_violation(sr, "MC_ParserSession (simulation)")
    srecs = [c for c in srecs if len(c["hist"]) > maxops + 1]
    seen = set()
    uniq = [c for c in srecs if (k := json.dumps(c["hist"], sort_keys=True)) not in seen and not seen.add(k)]
    sres = pmap("harness.props.c14", "replay_session", uniq, chunk=300)
    for c, bad in zip(uniq, sres):
        ctx.traces += 1
        ctx.evaluations += sum(1 for h in c["hist"] if h["op"] == "parse")
        ctx.nontrivial.add(("session", json.dumps(c["hist"], sort_keys=True)))
        for b in bad:
            ctx.violation({"session": b["history"], "step": b["step"]}, b, kind="replay")
    ctx.require("session leg: simulated histories longer than the exhaustive bound", len(uniq), 500)
    ctx.notes["session_simulated_histories"] = len(uniq)
    ctx.tlc_runs.append({"module": "MC_ParserSession", "what": f"-simulate: random histories of <= {deep} calls", "generated": sr.generated, "distinct": len(uniq), "depth": deep, "wall_s": round(sr.wall_s, 2)})
    full = [c for c in cases if len(c["hist"]) == maxops + 1 and c["hist"][-1]["op"] == "parse"]
    if full:
        ctx.sample({"parser_session": full[len(full) // 2]["hist"]})
    out.unlink()


def run(ctx: Ctx) -> None:
    ctx.rule = ("every character string over the model alphabet up to the bound x 3 parser configurations; mutation-fuzzed formulas in the "
                "trace leg; every history of public calls on two parser objects up to the bound; non-trivial = lexes into >= 2 tokens (replay) / is rejected with the library error and is longer than 6 characters (trace)")
    ctx.trusted = ["ast.parse as the oracle of 'the fragment is itself syntactically invalid'", "lexical classes from the documented regexes", "TLC"]
    ctx.matchers = MATCHERS
    probe_leg(ctx)
    if ctx.quick:
        enumerated(ctx, 3, "c27")
        enumerated(ctx, 4, "c16")
        trace_leg(ctx, 3000)
        session_leg(ctx, 3)
    else:
        enumerated(ctx, 4, "c27")
        enumerated(ctx, 5, "c16")
        enumerated(ctx, 6, "c8")
        trace_leg(ctx, 60000)
        session_leg(ctx, 4)
    ctx.exhaustive = True


def replay(path: str) -> int:
    rec = json.load(open(path))
    c = rec["case"]
    if "session" in c:
        print(json.dumps(rec["detail"], indent=1))
        return 0
    cfg = dict(c["cfg"])
    cfg.setdefault("avail", {"present": True, "vars": []})
    print(repr(c["string"]), cfg, "->", outcome(c["string"], cfg))
    return 0
