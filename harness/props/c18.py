"""C18 - materialization is pure and deterministic across calls, histories and hash seeds.

Leg M: Session.tla: every operation is a function of its arguments; TLC checks the action
       properties Det and Frame on every history of <= MaxOps operations drawn from 9 operation
       instances (they hold by construction - the model has no hidden state) and emits the
       histories.  The context is an argument as well: the family "contexts" of Session.tla has builds and
       build + reuse operations under two contexts of one caller that bind the names the formulas call
       (center, scale, tf, ns.tf) to different kinds of callable; Indep (every call returns what it
       returns as the only call of a process) holds of the specification and TLC must refute it for
       the Variant "memo_by_name" (what a name denotes remembered per name, process-wide).  The data is an
       argument as well: the family "kinds" has builds with formula text, ONE shared Formula object and ONE
       shared un-materialised spec on two frames that hold columns of different kinds under the same names
       (the kind of a factor is decided by the frame of the call); TLC must refute Indep and Frame for the
       Variant "kind_on_formula" (the inferred kind written back onto the factor of the shared formula).
Leg R/T: every history is executed in fresh interpreters under three PYTHONHASHSEED values; after
       every step the harness fingerprints the result (bytes, column order, dropped rows) and
       every live object (frames, formula, un-materialised spec, the spec obtained earlier); TLC
       (Trace_Purity) validates every recorded history step by step against Det and Frame, with
       the canonical result of each operation taken from a single-operation run under a fourth
       hash seed.
"""
from __future__ import annotations

import json
import os
import subprocess
import sys

from ..common import Ctx, jhash
from ..tlc import MachineryError, read_emitted, run_tlc, workdir, ROOT


def run_workers(hists, seed, tag):
    wd = workdir("c18")
    shards = [hists[i::16] for i in range(16) if hists[i::16]]
    procs = []
    for i, sh in enumerate(shards):
        fi, fo = wd / f"in-{tag}-{i}.json", wd / f"out-{tag}-{i}.json"
        fi.write_text(json.dumps(sh))
        env = dict(os.environ, PYTHONHASHSEED=str(seed), PYTHONDONTWRITEBYTECODE="1")
        procs.append((subprocess.Popen(["/venv/bin/python", "-m", "harness.c18_worker", str(fi), str(fo)], cwd=ROOT, env=env,
                                       stdout=subprocess.PIPE, stderr=subprocess.STDOUT, text=True), fi, fo))
    out = []
    for p, fi, fo in procs:
        log = p.communicate()[0]
        if p.returncode != 0:
            raise MachineryError(f"history worker failed: {log[-800:]}")
        out += json.load(open(fo))
        fi.unlink()
        fo.unlink()
    return out


def run(ctx: Ctx) -> None:
    ctx.rule = ("every history of <= MaxOps operations over 12 operation instances (sugar build on two frames, Formula object, ONE shared un-materialised "
                "ModelSpec on two frames, reuse / subset / pickle / update of an obtained spec, ONE shared materializer instance used with a formula for two outputs and with an obtained spec) and every history of <= 3 operations over 6 "
                "operation instances under two contexts binding the called names to different kinds of callable (build, build + reuse) and every history of <= 3 operations over 6 operation "
                "instances on two frames holding columns of different kinds under the same names (formula text, ONE shared Formula object, ONE shared un-materialised ModelSpec), each executed under 3 hash seeds; "
                "the frames hold columns whose fitted state (spline bounds, mean) is exactly 0; non-trivial = >= 2 operations, at least one repeated or sharing an object or two contexts")
    ctx.trusted = ["structural fingerprints of frames / formulas / specs / matrices (bytes of the numeric payload)", "TLC"]
    out = workdir("c18") / "hist.ndjson"
    out.unlink(missing_ok=True)
    maxops = 3 if ctx.quick else 4
    cfg = lambda n, fam="objects", variant="pure", emit="TRUE", props=("Det", "Indep", "Frame"): (
        f'SPECIFICATION Spec\nCONSTANTS\n  MaxOps = {n}\n  Emit = {emit}\n  Family = "{fam}"\n  Variant = "{variant}"\n' + "".join(f"PROPERTY {p}\n" for p in props) + "INVARIANT EmitCase\n")
    r = run_tlc("MC_Session", cfg(maxops), tag="c18", env={"OUT_FILE": str(out)}, timeout=1800)
    if r.violated:
        ctx.model_violation(r, "MC_Session")
    ctx.add_tlc(r, f"Det, Indep and Frame action properties on all histories of <= {maxops} operations + emission")
    hists = [{"id": i + 1, "hist": x["hist"]} for i, x in enumerate(sorted(read_emitted(out), key=lambda x: x["hist"]))]
    out.unlink()
    if len(hists) != r.distinct - 1:
        raise MachineryError(f"emission incomplete: {len(hists)} of {r.distinct - 1}")
    # family "contexts": the context is an argument too - histories of builds / reuses under TWO contexts of one caller that bind the names the formulas call
    # (center, scale, tf, ns.tf) to different kinds of callable (built-in stateful transform vs the caller's plain function of that name, and the reverse)
    rc = run_tlc("MC_Session", cfg(3, "contexts"), tag="c18", env={"OUT_FILE": str(out)}, timeout=1800)
    if rc.violated:
        ctx.model_violation(rc, "MC_Session (contexts)")
    ctx.add_tlc(rc, "family contexts: Det, Indep and Frame on all histories of <= 3 operations over 6 operation instances under two contexts + emission")
    chists = sorted(x["hist"] for x in read_emitted(out))
    out.unlink()
    if len(chists) != rc.distinct - 1:
        raise MachineryError(f"emission incomplete (contexts): {len(chists)} of {rc.distinct - 1}")
    known = {tuple(x["hist"]) for x in hists}
    hists += [{"id": len(hists) + i + 1, "hist": hh} for i, hh in enumerate(hh for hh in chists if tuple(hh) not in known)]
    # the law is not vacuous on this family: TLC refutes Indep for the design error of remembering per NAME what kind of callable it denotes
    # (it cannot be refuted on the family "objects", where one context is shared by all operations - which is why this family exists)
    bad = run_tlc("MC_Session", cfg(3, "contexts", "memo_by_name", "FALSE"), tag="c18", timeout=1800)
    if not any(v.endswith("Indep") for v in bad.violated):
        raise MachineryError("MC_Session variant memo_by_name does not violate Indep on the family contexts: the family is vacuous")
    ctx.notes["session_model_variant_memo_by_name"] = "violates " + ",".join(bad.violated)
    # family "kinds": the data is an argument too - the kind of a factor (categorical / numerical) is decided by the column of the frame of THAT call; histories of builds
    # with formula text, ONE shared Formula object and ONE shared un-materialised spec on two frames whose columns A and V have opposite kinds (Session.tla: ColKind)
    rk = run_tlc("MC_Session", cfg(3, "kinds"), tag="c18", env={"OUT_FILE": str(out)}, timeout=1800)
    if rk.violated:
        ctx.model_violation(rk, "MC_Session (kinds)")
    ctx.add_tlc(rk, "family kinds: Det, Indep and Frame on all histories of <= 3 operations over 6 operation instances on two frames with columns of different kinds + emission")
    khists = sorted(x["hist"] for x in read_emitted(out))
    out.unlink()
    if len(khists) != rk.distinct - 1:
        raise MachineryError(f"emission incomplete (kinds): {len(khists)} of {rk.distinct - 1}")
    hists += [{"id": len(hists) + i + 1, "hist": hh} for i, hh in enumerate(khists)]          # the operations of this family belong to no other family
    # not vacuous: TLC refutes both laws for the design error of writing the kind inferred from the data onto the factor of the shared formula object (one law per run:
    # TLC stops at the first violated property, and Frame falls one step before Indep)
    for law in ("Indep", "Frame"):
        badk = run_tlc("MC_Session", cfg(3, "kinds", "kind_on_formula", "FALSE", (law,)), tag="c18", timeout=1800)
        if not any(v.endswith(law) for v in badk.violated):
            raise MachineryError(f"MC_Session variant kind_on_formula does not violate {law} on the family kinds: the family is vacuous")
    ctx.notes["session_model_variant_kind_on_formula"] = "violates Indep,Frame"
    # longer histories: random behaviours of Session (tlc -simulate), executed and validated like the enumerated ones
    from ..tlc import simulate_emitted

    deep = 9
    sr, srecs = simulate_emitted("MC_Session", cfg(deep), "c18s",
                                 num=12 if ctx.quick else 150, depth=deep + 1, seed=ctx.seed + 1)
    if sr.violated:
        ctx.model_violation(sr, "MC_Session (simulation)")
    seen = {tuple(x["hist"]) for x in hists}
    longer = []
    for x in srecs:
        k = tuple(x["hist"])
        if len(k) == deep and k not in seen:
            seen.add(k)
            longer.append(x["hist"])
    longer = sorted(longer)[: (80 if ctx.quick else 1500)]
    ctx.require("simulated histories longer than the exhaustive bound", len(longer), 40)
    hists += [{"id": len(hists) + i + 1, "hist": h} for i, h in enumerate(longer)]
    ctx.tlc_runs.append({"module": "MC_Session", "what": f"-simulate: random histories of {deep} operations", "generated": sr.generated, "distinct": len(longer), "depth": deep,
                         "wall_s": round(sr.wall_s, 2)})
    ops = sorted({op for x in hists for op in x["hist"]})
    canon_runs = run_workers([{"id": i, "hist": [op]} for i, op in enumerate(ops)], 424242, "canon")
    canon = {x["steps"][0]["op"]: x["steps"][0]["fp"] for x in canon_runs}
    if any(v.startswith("EXC:") for v in canon.values()):
        raise MachineryError(f"an operation fails even alone: {canon}")
    seeds = [0, 1, 7919 + ctx.seed]
    wd = workdir("c18")
    cf = wd / "canon.json"
    cf.write_text(json.dumps(canon))
    per_seed = {}
    for sd in seeds:
        recs = run_workers(hists, sd, f"s{sd}")
        per_seed[sd] = {x["id"]: x for x in recs}
        rejected = {}
        for b in range(0, len(recs), 3000):
            batch = recs[b : b + 3000]
            tf, rf = wd / "trace.json", wd / "rej.ndjson"
            tf.write_text(json.dumps(batch))
            rf.unlink(missing_ok=True)
            t = run_tlc("Trace_Purity", "SPECIFICATION Spec\nINVARIANT Check\n", tag="c18t", env={"TRACE_FILE": str(tf), "CANON_FILE": str(cf), "REJ_FILE": str(rf)}, timeout=1800)
            if t.violated:
                raise MachineryError("Trace_Purity failed")
            ctx.add_tlc(t, f"Trace_Purity (hash seed {sd})")
            for x in read_emitted(rf):
                rejected[x["id"]] = x
            tf.unlink()
            rf.unlink(missing_ok=True)
        byid = {x["id"]: x for x in hists}
        for x in recs:
            ctx.traces += 1
            ctx.evaluations += 1
            v = rejected.get(x["id"])
            hist = byid[x["id"]]["hist"]
            if len(hist) >= 2 and (len(set(hist)) < len(hist) or sum(o.startswith("U") for o in hist) >= 2 or any(o in ("R", "S", "P", "UPD", "MR", "GR", "HR") for o in hist)
                                   or sum(o.startswith("KF") for o in hist) >= 2 or sum(o.startswith("KU") for o in hist) >= 2        # one formula object / un-materialised spec, two frames
                                   or (any(o in ("H1", "HR") for o in hist) and any(o in ("B1", "R", "G1", "GR") for o in hist))):     # two contexts in one history
                ctx.nontrivial.add(jhash(hist))
            if v:
                st = x["steps"][v["step"] - 1]
                before = x["heap0"] if v["step"] == 1 else x["steps"][v["step"] - 2]["heap"]
                changed = sorted(o for o in before if o in st["heap"] and st["heap"][o] != before[o])
                ctx.violation({"history": hist, "first_bad_step": v["step"], "op": v["op"], "law": v["verdict"]},
                              {"hash_seed": sd, "law": v["verdict"], "step": v["step"], "op": v["op"], "result_fp": st["fp"], "canonical_fp": canon.get(v["op"]),
                               "objects_changed": changed}, kind="trace")
    # identical logs under all hash seeds
    for hid in per_seed[seeds[0]]:
        logs = [json.dumps(per_seed[sd][hid]["steps"], sort_keys=True) for sd in seeds]
        if len(set(logs)) != 1:
            ctx.violation({"history": next(x["hist"] for x in hists if x["id"] == hid), "law": "hash-seed independence"}, {"law": "results differ between hash seeds"}, kind="trace")
    cf.unlink()
    ctx.sample({"history": hists[len(hists) // 2]["hist"], "canonical_result_fingerprints": canon})
    ctx.exhaustive = True


def _m_hist(match, case, detail):
    return False


def replay(path: str) -> int:
    rec = json.load(open(path))
    print(json.dumps(rec, indent=1)[:3000])
    return 0
