"""C03 - rank reduction yields a structurally full-rank matrix with unchanged span.

Leg M: TLC checks (MC_RankReduce) that for every sequence of distinct terms over the whole
       31-element lattice of subsets of 3 categorical + 2 numerical factors, with or without
       intercept / clustering, the greedy algorithm's scoped terms partition the
       pure-interaction pieces P(terms) (lemma of DESIGN 5/C03: independent columns, same span).
Leg R: every enumerated sequence is built by the real code on a fully crossed design in general
       position; (i) the OBSERVED model_spec.structure is sent back to TLC (Trace_RankReduce),
       which accepts any reduced/full assignment that is a partition of the pieces; (ii)
       independently numpy checks rank(X) = ncols and rank([X | X_unreduced]) = rank(X_unreduced).
       Built-in contrasts and level counts are cycled over the cases.
"""
from __future__ import annotations

import itertools
import json
import random

import numpy

from ..common import Ctx, pmap, jhash
from ..tlc import MachineryError, read_emitted, run_tlc, workdir

KIND = {"A": "cat", "B": "cat", "D": "cat", "a": "num", "b": "num"}
CONTRASTS = [None, "contr.sum", "contr.helmert", "contr.diff", "contr.poly", "contr.SAS", "contr.treatment(base='l1')",
             "contr.helmert(reverse=False, scale=True)", "contr.diff(backward=False)"]


# The model's factors are abstract (three categorical, two numerical) and its levels are positions. Their concrete names and labels
# are the harness's choice and must not matter: the default spelling has every categorical name sorting before every numerical one
# and truthy string labels; the alternatives put the numerical names first in sort order / use labels whose first level is falsy.
NAMES = [{"A": "A", "B": "B", "D": "D", "a": "a", "b": "b"}, {"A": "sex", "B": "trt", "D": "ward", "a": "age", "b": "bmi"}]
LABELS = ["strings", "ints-from-zero", "empty-string-first"]


def label_of(scheme: str, i: int):
    if scheme == "ints-from-zero":
        return i
    if scheme == "empty-string-first":
        return "" if i == 0 else f"l{i}"
    return f"l{i}"


def crossed_frame(levels: dict, seed: int, names=None, labels: str = "strings"):
    import pandas

    if names is not None or labels != "strings":
        names = names or NAMES[0]
        base = crossed_frame(levels, seed)
        out = pandas.DataFrame({names[c]: base[c] for c in base.columns})
        for c in "ABD":
            out[names[c]] = pandas.Series([label_of(labels, int(v[1:])) for v in base[c]], dtype=object)
        return out
    rng = random.Random(seed)
    primes = [2, 3, 5, 7, 11, 13, 17, 19, 23, 29, 31, 37, 41, 43, 47, 53, 59, 61, 67, 71, 73, 79, 83, 89, 97, 101, 103, 107, 109, 113]
    rows = []
    for combo in itertools.product(*[[f"l{i}" for i in range(levels[c])] for c in "ABD"]):
        for _ in range(4):
            rows.append(dict(zip("ABD", combo), a=float(rng.choice(primes)), b=float(rng.choice(primes))))
    df = pandas.DataFrame(rows)
    for c in "ABD":
        df[c] = df[c].astype(object)
    return df


def factor_expr(f: str, contrast, names=None) -> str:
    n = (names or NAMES[0])[f]
    if KIND[f] == "cat" and contrast:
        return f"C({n}, {contrast})"
    return n


def replay_case(case):
    from formulaic import Formula, model_matrix
    from formulaic.parser.types import Factor, Term

    h = int(jhash([case["terms"], case["icpt"], case["cluster"]])[:8], 16)
    contrast = CONTRASTS[h % len(CONTRASTS)]
    levels = {"A": 1 + (h // 11) % 3, "B": 2 + (h // 37) % 2, "D": 2}
    if contrast and "l1" in contrast:
        levels["A"] = max(2, levels["A"])
    names = NAMES[(h // 5) % len(NAMES)]
    labels = LABELS[(h // 13) % len(LABELS)] if not (contrast and "l1" in contrast) else "strings"     # (that option names a level by its label)
    if labels == "ints-from-zero" and contrast is None:
        labels = "empty-string-first"       # a bare column of integers is numerical, not categorical
    df = crossed_frame(levels, h, names, labels)
    terms = []
    if case["icpt"]:
        terms.append(Term([Factor("1", eval_method="literal")]))
    for ti, t in enumerate(case["terms"]):
        # the factor order inside a term is irrelevant to the property; it is permuted per term so that the same factors
        # meet in different written orders across terms
        order = list(t)
        if (h >> (3 + ti)) & 1:
            order = order[::-1]
        elif (h >> (7 + ti)) & 1 and len(order) >= 3:
            order = order[1:] + order[:1]
        terms.append(Term([Factor(factor_expr(f, contrast, names), eval_method="python" if (KIND[f] == "cat" and contrast) else "lookup") for f in order]))
    F = Formula(terms, _ordering="none")
    kw = {"cluster_by": "numerical_factors"} if case["cluster"] else {}
    rec = {"id": 0, "formula": [str(t) for t in terms], "contrast": contrast, "levels": levels, "cluster": case["cluster"], "labels": labels}
    try:
        X = model_matrix(F, df, output="numpy", ensure_full_rank=True, context={}, **kw)
        Xf = model_matrix(F, df, output="numpy", ensure_full_rank=False, context={}, **kw)
    except Exception as e:  # noqa
        return {**rec, "exc": type(e).__name__ + ": " + str(e)[:120]}
    back = {factor_expr(f, contrast, names): f for f in KIND}
    scoped = [[[[back.get(sf.factor.expr, sf.factor.expr), "reduced" if sf.reduced else "full"] for sf in st.factors] for st in s.scoped_terms]
              for s in X.model_spec.structure]
    obs_terms = [[{"e": back.get(f.expr, f.expr), "kind": "lit" if f.eval_method.value == "literal" else KIND[back.get(f.expr, f.expr)],
                   "lit": 1} for f in s.term.factors] for s in X.model_spec.structure]
    A, Af = numpy.asarray(X, dtype=float), numpy.asarray(Xf, dtype=float)
    r, rf = numpy.linalg.matrix_rank(A) if A.shape[1] else 0, numpy.linalg.matrix_rank(Af) if Af.shape[1] else 0
    rboth = numpy.linalg.matrix_rank(numpy.hstack([A, Af])) if (A.shape[1] + Af.shape[1]) else 0
    rec.update({"terms": obs_terms, "scoped": scoped, "ncols": int(A.shape[1]), "rank": int(r), "rank_unreduced": int(rf), "rank_joint": int(rboth),
                "expected_terms": case["clustered"], "expected_scoped": case["scoped"]})
    # a sibling build (added, the case itself is as it was): some terms carry a literal scale (`2:A`). The model's terms have no scale -
    # a non-zero multiple of a column spans what the column spans - so the recorded structure must be the one of the unscaled build and
    # rank / span must hold as measured on the scaled matrices
    if case["terms"] and not case["cluster"] and (h >> 17) % 2 == 0:
        first = len(terms) - len(case["terms"])
        which = [ti for ti in range(len(case["terms"])) if (h >> (19 + ti)) & 1] or [h % len(case["terms"])]
        sterms = [Term([Factor(str(2 + (h >> (23 + i)) % 2), eval_method="literal")] + list(t.factors)) if (i - first) in which else t for i, t in enumerate(terms)]
        Fs = Formula(sterms, _ordering="none")
        srec = {"formula": [str(t) for t in sterms]}
        try:
            Xs = model_matrix(Fs, df, output="numpy", ensure_full_rank=True, context={})
            Xsf = model_matrix(Fs, df, output="numpy", ensure_full_rank=False, context={})
            As, Asf = numpy.asarray(Xs, dtype=float), numpy.asarray(Xsf, dtype=float)
            srec.update({"scoped": [[[[back.get(sf.factor.expr, sf.factor.expr), "reduced" if sf.reduced else "full"] for sf in st.factors] for st in x.scoped_terms]
                                    for x in Xs.model_spec.structure],
                         "ncols": int(As.shape[1]), "rank": int(numpy.linalg.matrix_rank(As)) if As.shape[1] else 0,
                         "rank_unreduced": int(numpy.linalg.matrix_rank(Asf)) if Asf.shape[1] else 0,
                         "rank_joint": int(numpy.linalg.matrix_rank(numpy.hstack([As, Asf]))) if (As.shape[1] + Asf.shape[1]) else 0})
        except Exception as e:  # noqa
            srec["exc"] = type(e).__name__ + ": " + str(e)[:120]
        rec["scaled"] = srec
    return rec


def run(ctx: Ctx) -> None:
    ctx.rule = ("every sequence of <= MaxTerms distinct terms over all 31 non-empty subsets of {A,B,D (categorical), a,b (numerical)}, in the "
                "order given, x intercept x clustering; crossed frames with 1-3 / 2-3 / 2 levels and prime-valued numerics; 9 contrast "
                "options cycled; non-trivial = some categorical factor occurs in >= 2 terms")
    ctx.trusted = ["numpy.linalg.matrix_rank on small integer-valued matrices", "the lemma of DESIGN 5/C03 (cross-checked numerically on every case)", "TLC"]
    out = workdir("c03") / "cases.ndjson"
    out.unlink(missing_ok=True)
    maxterms, mod = (3, 12) if ctx.quick else (3, 1)
    cfg = (f"SPECIFICATION Spec\nCONSTANTS\n  MaxTerms = {maxterms}\n  Emit = TRUE\n  Slice = {ctx.seed % mod}\n  SliceMod = {mod}\n"
           + ("INVARIANT PartitionOK\nINVARIANT WellScoped\n" if not ctx.quick else "") + "INVARIANT EmitCase\n")
    if ctx.quick:   # the partition theorem exhaustively for <= 2 terms; 3-term sequences are emitted (1/12 slice) and validated per case below
        r0 = run_tlc("MC_RankReduce", "SPECIFICATION Spec\nCONSTANTS\n  MaxTerms = 2\n  Emit = FALSE\n  Slice = 0\n  SliceMod = 1\nINVARIANT PartitionOK\nINVARIANT WellScoped\n",
                     tag="c03", timeout=1200)
        if r0.violated:
            ctx.model_violation(r0, "MC_RankReduce partition theorem")
        ctx.add_tlc(r0, "partition theorem, all sequences of <= 2 terms")
    r = run_tlc("MC_RankReduce", cfg, tag="c03", env={"OUT_FILE": str(out)}, timeout=3400)
    if r.violated:
        ctx.model_violation(r, "MC_RankReduce partition theorem")
    ctx.add_tlc(r, f"{'partition theorem + ' if not ctx.quick else ''}emission, sequences of <= {maxterms} terms (slice 1/{mod})")
    cases = read_emitted(out)
    out.unlink()
    if not cases:
        raise MachineryError("no cases emitted")
    recs = pmap("harness.props.c03", "replay_case", cases, chunk=60)
    for i, rec in enumerate(recs):
        rec["id"] = i + 1
    good = [r for r in recs if "exc" not in r]
    wd = workdir("c03")
    rejected = {}
    for b in range(0, len(good), 4000):
        batch = good[b : b + 4000]
        tf, rf = wd / f"trace{b}.json", wd / f"rej{b}.ndjson"
        tf.write_text(json.dumps([{"id": r["id"], "terms": r["terms"], "scoped": r["scoped"]} for r in batch]))
        rf.unlink(missing_ok=True)
        t = run_tlc("Trace_RankReduce", "SPECIFICATION Spec\nINVARIANT Check\n", tag="c03t", env={"TRACE_FILE": str(tf), "REJ_FILE": str(rf)}, timeout=3000)
        if t.violated or t.distinct != len(batch):
            raise MachineryError(f"Trace_RankReduce did not consume the batch ({t.distinct}/{len(batch)})")
        ctx.add_tlc(t, "Trace_RankReduce batch (observed structures)")
        for x in read_emitted(rf):
            rejected[x["id"]] = x["verdict"]
        tf.unlink()
        rf.unlink(missing_ok=True)
    diag = scaled_builds = 0
    for rec in recs:
        ctx.traces += 1
        ctx.evaluations += 1
        case = {"formula": rec["formula"], "contrast": rec["contrast"], "levels": rec["levels"], "cluster": rec["cluster"], "labels": rec.get("labels", "strings")}
        if "exc" in rec:
            ctx.violation(case, {"why": "exception", "observed": rec["exc"]}, kind="replay")
            continue
        v = rejected.get(rec["id"], "")
        numeric_ok = rec["rank"] == rec["ncols"] and rec["rank_joint"] == rec["rank_unreduced"] == rec["rank"]
        if v.startswith("model:"):
            raise MachineryError(f"model inconsistent on {rec['formula']}")
        if v.startswith("diag:"):
            diag += 1
            v = ""
        # The lemma is an equivalence when every categorical factor has >= 2 levels (a one-level factor has an empty
        # reduced coding, so a piece spanned twice adds no column); in that case a disagreement between the structural
        # and the numerical verdict means the machinery is wrong, not the library.
        # and the machinery is wrong, not the library, when a structure that is NOT a partition comes with a matrix of full rank and
        # unchanged span. The other disagreement - a valid recorded structure whose columns are rank deficient or span less - is the
        # property's own predicate failing as measured: the library did not encode the factors the way its structure says
        # (e.g. a reduced coding served from a cache where the structure says full).
        if v and numeric_ok and min(rec["levels"].values()) >= 2:
            raise MachineryError(f"lemma and numpy disagree on {rec['formula']} ({v}; ranks {rec['rank']}/{rec['ncols']}, "
                                 f"unreduced {rec['rank_unreduced']}, joint {rec['rank_joint']})")
        if v or not numeric_ok:
            ctx.violation(case, {"why": v or "rank/span (the recorded structure is a valid partition: the columns do not realise it)", "ncols": rec["ncols"], "rank": rec["rank"], "rank_unreduced": rec["rank_unreduced"],
                                 "rank_joint": rec["rank_joint"], "observed_structure": rec["scoped"], "model_structure": rec["expected_scoped"]}, kind="replay")
        sc = rec.get("scaled")
        if sc is not None:
            ctx.traces += 1
            ctx.evaluations += 1
            scaled_builds += 1
            scase = {**case, "formula": sc["formula"]}
            if "exc" in sc:
                ctx.violation(scase, {"why": "exception (terms with a literal scale)", "observed": sc["exc"]}, kind="replay")
            elif sc["scoped"] != rec["scoped"]:
                ctx.violation(scase, {"why": "a literal scale on a term changed the recorded structure", "observed_structure": sc["scoped"], "structure_without_scale": rec["scoped"]}, kind="replay")
            elif not (sc["rank"] == sc["ncols"] and sc["rank_joint"] == sc["rank_unreduced"] == sc["rank"]):
                ctx.violation(scase, {"why": "rank/span with a literal scale on a term", "ncols": sc["ncols"], "rank": sc["rank"], "rank_unreduced": sc["rank_unreduced"],
                                      "rank_joint": sc["rank_joint"], "observed_structure": sc["scoped"]}, kind="replay")
        cats = [f["e"] for t in rec["terms"] for f in t if f["kind"] == "cat"]
        if len(cats) != len(set(cats)):
            ctx.nontrivial.add(jhash(case))
    ctx.notes["structures_differing_from_greedy_model_but_valid"] = diag
    ctx.require("replay: sibling builds with a literal scale on some terms", scaled_builds, 200)
    for rec in [r for r in good if r["ncols"] >= 6][:2]:
        ctx.sample({"formula": rec["formula"], "levels": rec["levels"], "structure": rec["scoped"], "ncols": rec["ncols"], "rank": rec["rank"]})
    ctx.exhaustive = not ctx.quick


def replay(path: str) -> int:
    rec = json.load(open(path))
    print(json.dumps(rec, indent=1)[:3000])
    return 0
