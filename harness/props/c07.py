"""C07 - multi-part formulas give row-aligned parts equal to separate builds.

Leg M: TLC checks (MC_Missing) for every structured formula x null pattern x policy x caller set
       that all parts share the kept rows and that each part equals the part built alone with the
       jointly dropped rows supplied (AloneEqualsJoint), together with the row theorems of C06.
Leg R: every case is built by the real code for the three outputs; observed: nested shape of the
       result and of result.model_spec, rows and cells of each part (against the model), the
       separately built part with the joint drop set, and the regeneration of each part by its
       own spec.
"""
from __future__ import annotations

import json

import numpy

from ..common import Ctx, pmap, jhash
from ..tlc import MachineryError, read_emitted, run_tlc, workdir
from .. import matlib
from .c06 import frame

OUTPUTS = ["pandas", "numpy", "sparse"]


def spec_for(fid):
    """mirror of MC_Missing!Formulas 4,5,8..16,18,19 -> (formula spec, kwargs, expected shape, per-part term strings)"""
    from formulaic import Formula

    if fid == 4:
        return (lambda: Formula("b ~ a")), {"lhs": 0, "rhs": 1}
    if fid == 5:
        return (lambda: Formula("b ~ A | a")), {"lhs": 0, "rhs": (1, 2)}
    if fid == 8:
        return (lambda: Formula("a ~ 0 | A")), {"lhs": 0, "rhs": (1, 2)}
    if fid == 9:
        return (lambda: Formula("a | 0 + b")), {"root": (0, 1)}
    if fid == 10:
        return (lambda: Formula(("a", "A"))), {"root": (0, 1)}
    if fid == 11:
        return (lambda: Formula(lhs="b", rhs="a + A")), {"lhs": 0, "rhs": 1}
    if fid == 12:
        return (lambda: Formula(x="b ~ a", y=("A", "a"))), {"x": {"lhs": 0, "rhs": 1}, "y": (2, 3)}
    if fid == 13:
        return (lambda: Formula("b ~ 0 + C(A, contr.sum) | C(A, contr.sum) + a")), {"lhs": 0, "rhs": (1, 2)}
    if fid == 14:
        return (lambda: Formula("C(A, contr.helmert) | 0 + C(A, contr.helmert) + C(A, contr.helmert):b")), {"root": (0, 1)}
    if fid == 15:
        return (lambda: Formula("b ~ A + A:a | a + A:a")), {"lhs": 0, "rhs": (1, 2)}
    if fid == 16:
        return (lambda: Formula("a + A:a | 0 + A:a | A + A:a")), {"root": (0, 1, 2)}
    if fid == 18:
        return (lambda: Formula("b ~ a + A | 2:a")), {"lhs": 0, "rhs": (1, 2)}
    if fid == 19:
        return (lambda: Formula("b ~ a:A | A:a")), {"lhs": 0, "rhs": (1, 2)}
    raise ValueError(fid)


def shape_and_parts(obj):
    """nested structure of a Structured result -> (shape with part indexes, list of parts) in structure order lhs/rhs/x/y"""
    from formulaic.utils.structured import Structured

    parts = []

    def walk(x):
        if isinstance(x, Structured):
            keys = [k for k in ("root", "lhs", "rhs", "x", "y") if k in x._structure] + [k for k in x._structure if k not in ("root", "lhs", "rhs", "x", "y")]
            return {k: walk(x._structure[k]) for k in keys}
        if isinstance(x, tuple):
            return tuple(walk(v) for v in x)
        parts.append(x)
        return len(parts) - 1

    return walk(obj), parts


def norm(shape):
    if isinstance(shape, dict):
        return {k: norm(v) for k, v in shape.items()}
    if isinstance(shape, (tuple, list)):
        return [norm(v) for v in shape]
    return shape


def replay_case(case):
    from formulaic.formula import SimpleFormula

    mk, shape = spec_for(case["fid"])
    h = int(jhash([case["fid"], case["nulls"], case["na"], case["drop0"]])[:8], 16)
    output = OUTPUTS[h % 3]
    index_kind = ["default", "strings", "nonunique"][(h // 3) % 3]
    df = frame(case["nulls"], index_kind)
    drop = {d - 1 for d in case["drop0"]}
    base = {"fid": case["fid"], "nulls": case["nulls"], "na": case["na"], "drop0": sorted(drop), "output": output, "index": index_kind}
    try:
        F = mk()
        res = F.get_model_matrix(df, na_action=case["na"], output=output, drop_rows=drop, context={})
    except Exception as e:  # noqa
        return [] if case["fails"] else [{**base, "why": "unexpected-exception", "observed": type(e).__name__ + ": " + str(e)[:100]}]
    if case["fails"]:
        return [{**base, "why": "raise-policy-did-not-raise"}]
    bad = []
    got_shape, parts = shape_and_parts(res)
    if norm(got_shape) != norm(shape):
        bad.append({**base, "why": "shape-of-result", "observed": norm(got_shape), "expected": norm(shape)})
        return bad
    spec_shape, specs = shape_and_parts(res.model_spec)
    if norm(spec_shape) != norm(shape):
        bad.append({**base, "why": "shape-of-model_spec", "observed": norm(spec_shape), "expected": norm(shape)})
        return bad
    fshape, fparts = shape_and_parts(F)
    kept = [k - 1 for k in case["kept"]]
    joint = {d - 1 for d in case["drop1"]}
    if sorted(int(x) for x in drop) != sorted(joint):
        bad.append({**base, "why": "caller-drop-set", "observed": sorted(int(x) for x in drop), "expected": sorted(joint)})
    arrs = []
    for i, mm in enumerate(parts):
        names, cells, lab, index, arr = matlib.alpha_matrix(mm, output)
        arrs.append(arr)
        if arr.shape[0] != len(kept):
            bad.append({**base, "why": f"rows-of-part-{i}", "observed": int(arr.shape[0]), "expected": len(kept)})
            continue
        if not kept:
            continue
        exp = case["parts"][i]
        if names != exp["names"]:
            bad.append({**base, "why": f"names-of-part-{i}", "observed": names, "expected": exp["names"]})
        elif cells != exp["cells"]:
            bad.append({**base, "why": f"cells-of-part-{i}", "observed": cells, "expected": exp["cells"]})
        # the part built alone from its terms with the joint drop set supplied
        try:
            alone = SimpleFormula(list(fparts[i]), _ordering="none").get_model_matrix(df, na_action=case["na"], output=output, drop_rows=set(joint), context={})
            n2, c2, _, _, a2 = matlib.alpha_matrix(alone, output)
            if n2 != names or c2 != cells:
                bad.append({**base, "why": f"part-{i}-differs-from-separate-build", "observed": [n2, c2], "expected": [names, cells]})
            # the part's spec is as good as the spec of the separate build: on follow-up data that lacks a level both replay alike
            sub = df[df["A"] != "z"] if "A" in df.columns and not case["nulls"]["A"] else None
            if sub is not None and len(sub) and len(sub) < len(df):
                import warnings

                with warnings.catch_warnings():
                    warnings.simplefilter("ignore")
                    r1 = matlib.alpha_matrix(alone.model_spec.get_model_matrix(sub, context={}), output)
                    r2 = matlib.alpha_matrix(specs[i].get_model_matrix(sub, context={}), output)
                if r1[0] != r2[0] or r1[1] != r2[1]:
                    bad.append({**base, "why": f"spec-of-part-{i}-replays-differently-from-the-spec-of-the-separate-build-on-follow-up-data", "observed": [r2[0], r2[1]], "expected": [r1[0], r1[1]]})
        except Exception as e:  # noqa
            bad.append({**base, "why": f"separate-build-of-part-{i}-failed", "observed": type(e).__name__ + ": " + str(e)[:100]})
        # the part's own spec regenerates it
        try:
            again = specs[i].get_model_matrix(df, drop_rows=set(joint), context={})
            n3, c3, _, _, a3 = matlib.alpha_matrix(again, output)
            if n3 != names or c3 != cells:
                bad.append({**base, "why": f"spec-of-part-{i}-does-not-regenerate-it", "observed": [n3, c3], "expected": [names, cells]})
        except Exception as e:  # noqa
            bad.append({**base, "why": f"spec-of-part-{i}-failed", "observed": type(e).__name__ + ": " + str(e)[:100]})
    # the structured spec attached to the result regenerates all parts at once, with one drop set (the model-spec entry point of
    # "equals the part built alone": ModelSpecs.get_model_matrix / model_matrix(result, data))
    if kept and not bad:
        from formulaic import model_matrix

        try:
            d2 = {d - 1 for d in case["drop0"]}
            regen = res.model_spec.get_model_matrix(df, drop_rows=d2, context={}) if h % 2 else model_matrix(res, df, drop_rows=d2, context={})
            rshape, rparts = shape_and_parts(regen)
            if norm(rshape) != norm(shape):
                bad.append({**base, "why": "shape-of-the-result-regenerated-from-the-attached-specs", "observed": norm(rshape), "expected": norm(shape)})
            else:
                for i, mm in enumerate(rparts):
                    n4, c4, _, _, a4 = matlib.alpha_matrix(mm, output)
                    if n4 != case["parts"][i]["names"] or c4 != case["parts"][i]["cells"]:
                        bad.append({**base, "why": f"part-{i}-regenerated-from-the-attached-specs-differs", "observed": [n4, c4], "expected": [case["parts"][i]["names"], case["parts"][i]["cells"]]})
                if sorted(int(x) for x in d2) != sorted(joint):
                    bad.append({**base, "why": "caller-drop-set-after-regenerating-from-the-attached-specs", "observed": sorted(int(x) for x in d2), "expected": sorted(joint)})
        except Exception as e:  # noqa
            bad.append({**base, "why": "regenerating-from-the-attached-specs-failed", "observed": type(e).__name__ + ": " + str(e)[:100]})
        # (added) the same regeneration with call-time option overrides that repeat the recorded options: the structured specs are rebuilt
        # from the overrides, the one drop set of the caller still serves all parts
        if not bad:
            try:
                d3 = {d - 1 for d in case["drop0"]}
                over = [{"output": output}, {"na_action": case["na"]}, {"output": output, "na_action": case["na"]}][(h // 2) % 3]
                regen = res.model_spec.get_model_matrix(df, drop_rows=d3, context={}, **over)
                rshape, rparts = shape_and_parts(regen)
                if norm(rshape) != norm(shape):
                    bad.append({**base, "why": "shape-of-the-result-regenerated-with-option-overrides", "overrides": over, "observed": norm(rshape), "expected": norm(shape)})
                else:
                    for i, mm in enumerate(rparts):
                        n5, c5, _, _, a5 = matlib.alpha_matrix(mm, output)
                        if n5 != case["parts"][i]["names"] or c5 != case["parts"][i]["cells"]:
                            bad.append({**base, "why": f"part-{i}-regenerated-with-option-overrides-differs", "overrides": over, "observed": [n5, c5], "expected": [case["parts"][i]["names"], case["parts"][i]["cells"]]})
                    if sorted(int(x) for x in d3) != sorted(joint):
                        bad.append({**base, "why": "caller-drop-set-after-regenerating-with-option-overrides", "overrides": over, "observed": sorted(int(x) for x in d3), "expected": sorted(joint)})
            except Exception as e:  # noqa
                bad.append({**base, "why": "regenerating-with-option-overrides-failed", "observed": type(e).__name__ + ": " + str(e)[:100]})
    return bad


# ------------------------------------------------------------------ specification forms (FormulaForms.tla)
def gamma_form(f):
    if f["k"] == "str":
        return f["i"]
    if f["k"] == "lst":
        return list(f["items"])
    if f["k"] == "tup":
        return tuple(gamma_form(x) for x in f["items"])
    return {k: gamma_form(v) for k, v in zip(f["keys"], f["items"])}


def replay_form(case):
    """One specification form (string / list / tuple / keywords, nested): Formula(spec) must denote the model's tree of term lists."""
    from formulaic import Formula
    from formulaic.errors import FormulaInvalidError, FormulaParsingError

    from .. import palpha

    spec = gamma_form(case["form"])
    base = {"fid": "form", "nulls": {}, "na": "", "drop0": [], "output": "", "index": "", "spec": repr(spec)[:200]}
    try:
        F = Formula(**spec) if isinstance(spec, dict) else Formula(spec)
    except (FormulaParsingError, FormulaInvalidError) as e:
        return [] if case["err"] else [{**base, "why": "form rejected", "observed": type(e).__name__ + ": " + str(e)[:100], "expected": case["tree"]}]
    except Exception as e:  # noqa
        return [{**base, "why": "form: unexpected exception type", "observed": type(e).__name__ + ": " + str(e)[:100], "expected": case["err"] or case["tree"]}]
    if case["err"]:
        return [{**base, "why": "form accepted although the model rejects it", "observed": palpha.tree_str(palpha._simplify(F)), "expected": case["err"]}]
    got = palpha.tree_str(palpha._simplify(F))
    bad = []
    if got != case["tree"]:
        bad.append({**base, "why": "denotation of the specification form", "observed": got, "expected": case["tree"]})
    # the same specification installed by mutation of an existing formula denotes the same member
    if isinstance(spec, dict) and "x" in spec and not bad:
        G = Formula(**{k: v for k, v in spec.items() if k != "x"}) if len(spec) > 1 else Formula(y="a")
        if not isinstance(G, palpha.Structured):       # a root-only specification simplifies to a plain formula
            G = Formula(y="a")
        G.x = spec["x"]
        gx = palpha.tree_str(palpha._simplify(G.x))
        fx = palpha.tree_str(palpha._simplify(F.x))
        if gx != fx:
            bad.append({**base, "why": "member installed by attribute assignment differs from the constructed one", "observed": gx, "expected": fx})
    return bad


def forms_leg(ctx: Ctx):
    out = workdir("c07") / "forms.ndjson"
    out.unlink(missing_ok=True)
    r = run_tlc("MC_FormulaForms", "SPECIFICATION Spec\nCONSTANTS\n  Emit = TRUE\nINVARIANT Laws\nINVARIANT EmitCase\n", tag="c07f", env={"OUT_FILE": str(out)}, timeout=1800)
    if r.violated:
        ctx.model_violation(r, "MC_FormulaForms")
    ctx.add_tlc(r, "specification forms (string, list, tuple, keywords, nested): denotation through the main / nested parser, wrap law, keyword sides without intercept")
    cases = read_emitted(out)
    out.unlink()
    if len(cases) != r.distinct:
        raise MachineryError(f"emission incomplete: {len(cases)} of {r.distinct}")
    res = pmap("harness.props.c07", "replay_form", cases, chunk=40)
    for c, bad in zip(cases, res):
        ctx.traces += 1
        ctx.evaluations += 1
        if c["form"]["k"] in ("tup", "kw") and not c["err"]:
            ctx.nontrivial.add(jhash(["form", c["form"]]))
        for b in bad:
            ctx.violation({k: b[k] for k in ("fid", "nulls", "na", "drop0", "output", "index")} | {"spec": b["spec"]}, b, kind="replay")


def run(ctx: Ctx) -> None:
    ctx.rule = ("9 structured formulas (two-sided, multi-part on either side, an empty part, tuple, keyword and nested keyword/tuple structure) x every "
                "null pattern with <= MaxNulls nulls per column x policy x caller set; output and index kind cycled; non-trivial = nulls in the "
                "variables of different parts and >= 1 kept row")
    ctx.trusted = ["gamma/alpha of the materializer family", "TLC"]
    out = workdir("c07") / "cases.ndjson"
    out.unlink(missing_ok=True)
    maxnulls = 1 if ctx.quick else 2
    cfg = (f"SPECIFICATION Spec\nCONSTANTS\n  Emit = TRUE\n  MaxNulls = {maxnulls}\n  FormulaSet = \"c07\"\n"
           "INVARIANT DropExact\nINVARIANT KeptIsComplement\nINVARIANT RaiseIff\nINVARIANT AloneEqualsJoint\nINVARIANT EmitCase\n")
    r = run_tlc("MC_Missing", cfg, tag="c07", env={"OUT_FILE": str(out)}, timeout=3400)
    if r.violated:
        ctx.model_violation(r, "MC_Missing (C07)")
    ctx.add_tlc(r, f"joint-vs-alone theorem, row theorems + emission; structured formulas, <= {maxnulls} nulls per column")
    cases = read_emitted(out)
    out.unlink()
    if len(cases) != r.distinct:
        raise MachineryError(f"emission incomplete: {len(cases)} of {r.distinct}")
    res = pmap("harness.props.c07", "replay_case", cases, chunk=60)
    for c, bad in zip(cases, res):
        ctx.traces += 1
        ctx.evaluations += 1
        if sum(1 for k in "abA" if c["nulls"][k]) >= 2 and c["kept"]:
            ctx.nontrivial.add(jhash([c["fid"], c["nulls"], c["na"], c["drop0"]]))
        for b in bad:
            ctx.violation({k: b[k] for k in ("fid", "nulls", "na", "drop0", "output", "index")}, b, kind="replay")
    for c in [c for c in cases if c["fid"] == 12 and c["nulls"]["a"] and c["nulls"]["A"] and c["na"] == "drop"][:1]:
        ctx.sample({"formula": "Formula(x='b ~ a', y=('A', 'a'))", "nulls": c["nulls"], "kept": c["kept"], "parts": c["parts"]})
    forms_leg(ctx)
    ctx.exhaustive = True


def replay(path: str) -> int:
    rec = json.load(open(path))
    print(json.dumps(rec["detail"], indent=1)[:3000])
    return 0
