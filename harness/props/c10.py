"""C10 - model-spec metadata indexes the generated columns truthfully.

Leg M: TLC checks (MC_Materialize) that per-term column ranges are contiguous, disjoint, in
       term order and cover all columns (SlicesOK) on every enumerated case.
Leg R: for every enumerated case the real spec's accessors (column_names, column_indices,
       term_indices, term_slices, get_slice, get_term_indices, get_column_indices,
       variable_indices, subset) are queried with Term objects, printed forms and column names
       and compared with the ranges the specification derives from the structure.
Leg M2/R2 (MC_Metadata over Metadata.tla): formulas whose factors are PYTHON EXPRESSIONS - a data column reaches the cells as operand,
       positional argument, keyword argument or method receiver; stateful calls (center) nested inside a larger factor.  TLC proves
       that "the columns of the terms that read v" is truthful (NonInterference: no other column moves when v changes) and that a subset
       regenerates the parent's columns on the training data AND on follow-up data (SubsetRegenerates: the recorded statistics are keyed by
       the stateful call, not by the factor), and refutes the two design errors "the walk skips keyword arguments" / "a subset keeps only
       the state keyed by its factors".  Every emitted case is replayed: all accessors, variable_indices for every data column (used and
       unused), every subset of the pick family rebuilt on both data sets.
"""
from __future__ import annotations

import json

import numpy

from ..common import Ctx, pmap, jhash
from .. import matlib

FRAMES = {}
DATA_VARS = {"a": "a", "b": "b", "A": "A", "B": "B", "C(A, contr.sum)": "A", "C(B, contr.helmert)": "B", "C(B, contr.SAS)": "B", "n 1": "n 1", "I(`n 1`)": "n 1"}


def accessors(spec, mm, out, names, ranges, case_terms, chk, tr):
    """every index accessor of the spec against the names / per-term ranges the specification derives (shared by both families)"""
    chk("column_names", list(spec.column_names), names)
    if out == "pandas":
        chk("frame labels", [str(c) for c in mm.columns], names)
    chk("column_indices", tr(lambda: dict(spec.column_indices)), {n: i for i, n in enumerate(names)})
    terms = [s_.term for s_ in spec.structure]        # structure order (clustered order when clustering is on)
    chk("structure terms", [[f.expr for f in t.factors] for t in terms], case_terms)
    chk("spec.terms is the same set of terms", sorted(str(t) for t in spec.terms), sorted(str(t) for t in terms))
    chk("term_indices (in order)", tr(lambda: [list(v) for v in spec.term_indices.values()]), ranges)
    chk("term_indices keys", tr(lambda: [[f.expr for f in t.factors] for t in spec.term_indices]), case_terms)
    for t, rng in zip(terms, ranges):
        printed = str(t)
        sl = [rng[0], rng[-1] + 1] if rng else [0, 0]
        chk(f"term_indices[Term {printed}]", tr(lambda: list(spec.term_indices[t])), rng)
        chk(f"term_indices['{printed}']", tr(lambda: list(spec.term_indices[printed])), rng)
        chk(f"term_slices[Term {printed}]", tr(lambda: [spec.term_slices[t].start, spec.term_slices[t].stop]), sl)
        chk(f"term_slices['{printed}']", tr(lambda: [spec.term_slices[printed].start, spec.term_slices[printed].stop]), sl)
        chk(f"get_slice(Term {printed})", tr(lambda: [spec.get_slice(t).start, spec.get_slice(t).stop]), sl)
        if printed not in names or [names.index(printed)] == rng:
            chk(f"get_slice('{printed}')", tr(lambda: [spec.get_slice(printed).start, spec.get_slice(printed).stop]), sl)
        written = ":".join(matlib.quote(f.expr) for f in t.factors)        # a formula specification, not a printed form
        chk(f"get_term_indices(['{written}'])", tr(lambda: list(spec.get_term_indices([written]))), rng)
    for i, n in enumerate(names):
        if names.count(n) == 1 and n not in [str(t) for t in terms]:
            chk(f"get_slice(column '{n}')", tr(lambda: [spec.get_slice(n).start, spec.get_slice(n).stop]), [i, i + 1])
        if names.count(n) == 1:
            chk(f"get_column_indices('{n}')", tr(lambda: list(spec.get_column_indices(n))), [i])
    chk("get_slice(int)", tr(lambda: [spec.get_slice(0).start, spec.get_slice(0).stop]), [0, 1])
    return terms


def replay_case(case):
    from formulaic import model_matrix

    if case["fails"] or case["empty"]:
        return []
    df = matlib.gamma_frame(FRAMES[case["fid"]])
    formula = matlib.render_formula(case["written"], case["icpt"])
    out = "pandas" if int(jhash(case["written"])[:4], 16) % 3 else ("numpy" if case["fid"] % 2 else "sparse")
    base = {"formula": formula, "fid": case["fid"], "output": out, "full_rank": case["full_rank"], "na": case["na"], "cluster": case["cluster"]}
    bad = []

    def chk(what, got, exp):
        if got != exp:
            bad.append({**base, "why": what, "observed": got if not isinstance(got, Exception) else repr(got), "expected": exp})

    def tr(fn):
        try:
            return fn()
        except Exception as e:  # noqa
            return "EXC:" + type(e).__name__

    o = matlib.observe_build(formula, df, output=out, full_rank=case["full_rank"], na=case["na"], cluster=case["cluster"])
    if o["st"] != "OK":
        return [{**base, "why": "exception", "observed": o.get("cls")}]
    mm = o["mm"]
    spec = mm.model_spec
    names = case["names"]
    ranges, start = [], 0
    for n in case["slices"]:
        ranges.append(list(range(start, start + n)))
        start += n
    terms = accessors(spec, mm, out, names, ranges, case["terms"], chk, tr)
    # variables: columns of the terms that read the data variable
    vi = tr(lambda: {str(k): list(v) for k, v in spec.variable_indices.items()})
    if isinstance(vi, str):
        chk("variable_indices", vi, "a mapping")
    else:
        for var in ("a", "b", "A", "B", "n 1"):
            exp = sorted({i for t, rng in zip(case["terms"], ranges) for i in rng if any(DATA_VARS.get(f) == var for f in t)})
            used = any(DATA_VARS.get(f) == var for t in case["terms"] for f in t)
            chk(f"variable_indices['{var}']", vi.get(var) if used else vi.get(var, []), exp if used else vi.get(var, []))
            if used:
                chk(f"get_variable_indices(['{var}'])", tr(lambda: list(spec.get_variable_indices([var]))), exp)
    # subset: regenerates exactly the parent's columns for the chosen terms
    arr = matlib.alpha_matrix(mm, out)[4]
    picks = [[i] for i in range(len(terms))]
    if len(terms) >= 2:
        picks += [[len(terms) - 1, 0], list(range(len(terms)))]
    for pick in picks[:5]:
        sub_terms = [":".join(matlib.quote(f.expr) for f in terms[i].factors) for i in pick]
        cols = [j for i in pick for j in ranges[i]]

        def build():
            sub = spec.subset(sub_terms)
            order = [next(i for i in pick if terms[i] == t) for t in sub.terms]     # the subset's own term order
            cols2 = [j for i in order for j in ranges[i]]
            m2 = sub.get_model_matrix(df, context={}, drop_rows={d - 1 for d in case["drop"]})   # same rows as the parent
            n2, c2, _, _, a2 = matlib.alpha_matrix(m2, out)
            same = bool(numpy.array_equal(numpy.nan_to_num(numpy.asarray(a2, dtype=float), nan=-7.5),
                                          numpy.nan_to_num(numpy.asarray(arr[:, cols2], dtype=float), nan=-7.5)))
            return [sorted(order) == sorted(pick), n2 == [names[j] for j in cols2], same]

        chk(f"subset({sub_terms})", tr(build), [True, True, True])
    return bad


def replay_meta(case):
    """one case of MC_Metadata: python-expression factors (which columns they read is the model's Reads), fitted on the training frame;
    accessors, variable indices, and every subset of the pick family rebuilt on the training frame and on the follow-up frame"""
    formula = matlib.render_formula(case["written"], case["icpt"])
    out = "pandas" if int(jhash(case["written"])[:4], 16) % 3 else ("numpy" if case["tid"] % 2 else "sparse")
    base = {"formula": formula, "tid": case["tid"], "output": out, "full_rank": case["full_rank"]}
    bad = []

    def chk(what, got, exp):
        if got != exp:
            bad.append({**base, "why": what, "observed": got if not isinstance(got, Exception) else repr(got), "expected": exp})

    def tr(fn):
        try:
            return fn()
        except Exception as e:  # noqa
            return "EXC:" + type(e).__name__

    # follow-up data arrives under other row labels (the columns of a subset do not depend on them)
    dfs = [matlib.gamma_frame(d["frame"], index_kind="default" if u == 0 else ["unsorted", "strings"][case["tid"] % 2]) for u, d in enumerate(case["datas"])]
    o = matlib.observe_build(formula, dfs[0], output=out, full_rank=case["full_rank"])
    if o["st"] != "OK":
        return [{**base, "why": "exception", "observed": [o.get("cls"), o.get("msg")]}], 1
    mm = o["mm"]
    spec = mm.model_spec
    names = case["names"]
    ranges, start = [], 0
    for n in case["slices"]:
        ranges.append(list(range(start, start + n)))
        start += n
    terms = accessors(spec, mm, out, names, ranges, case["terms"], chk, tr)
    # variables: for EVERY column of the data, exactly the columns of the terms whose factors read it (Metadata!VarIdx) - wherever in the
    # expression the read happens; a column no term reads indexes nothing
    vi = tr(lambda: {str(k): list(v) for k, v in spec.variable_indices.items()})
    if isinstance(vi, str):
        chk("variable_indices", vi, "a mapping")
    else:
        read = {v for t in case["reads"] for v, _ in t}
        for rec in case["var_idx"]:
            var, exp = rec["v"], rec["idx"]
            if var in read:
                how = sorted({pos for t in case["reads"] for v, pos in t if v == var})
                chk(f"variable_indices['{var}'] (read as {', '.join(how)})", vi.get(var), exp)
                chk(f"get_variable_indices(['{var}'])", tr(lambda: list(spec.get_variable_indices([var]))), exp)
            else:
                chk(f"variable_indices['{var}'] (read by no term)", vi.get(var, []), [])
    # subset: regenerates exactly the parent's columns for the chosen terms, on the data of the fit and on new data.  Expected cells are the
    # model's (TLC: SubsetRegenerates makes them the parent's columns); the real parent is replayed too, so a subset is never judged against
    # a parent that itself left the model.
    n_exec = 1
    for u, (d, df) in enumerate(zip(case["datas"], dfs)):
        where = "training data" if u == 0 else "new data"
        exp = numpy.asarray(d["cells"], dtype=float).reshape(len(d["cells"]), len(names))

        def same(m, cols):          # "same" or what differs: the columns a matrix should consist of are the parent's columns `cols`
            n2, _, _, _, a2 = matlib.alpha_matrix(m, out)
            if n2 != [names[j] for j in cols]:
                return {"names": n2, "parent's": [names[j] for j in cols]}
            if not numpy.array_equal(numpy.asarray(a2, dtype=float), exp[:, cols]):
                return {"columns": n2, "cells": numpy.asarray(a2, dtype=float).tolist(), "parent's": exp[:, cols].tolist()}
            return "same"

        n_exec += 1
        par = tr(lambda: same(spec.get_model_matrix(df, context={}), list(range(len(names)))))
        chk(f"parent spec replayed on {where}", par, "same")
        if par != "same":
            continue
        for pick in case["picks"]:
            pick = [i - 1 for i in pick]
            sub_terms = [":".join(matlib.quote(f.expr) for f in terms[i].factors) for i in pick]

            def build():
                sub = spec.subset(sub_terms)
                order = [next(i for i in pick if terms[i] == t) for t in sub.terms]     # the subset's own term order
                if sorted(order) != sorted(pick):
                    return {"terms of the subset": [str(t) for t in sub.terms]}
                return same(sub.get_model_matrix(df, context={}), [j for i in order for j in ranges[i]])

            n_exec += 1
            chk(f"subset({sub_terms}) on {where}", tr(build), "same")
    return bad, n_exec


def meta_leg(ctx: Ctx) -> None:
    """MC_Metadata: theorems, refutation of the two design errors, emission, replay"""
    from ..tlc import MachineryError, read_emitted, run_tlc, workdir

    maxterms, slice_mod = (2, 3) if ctx.quick else (3, 12)      # the theorems are checked on every state; the replay takes the seed's slice
    out = workdir("c10") / "metadata.ndjson"
    out.unlink(missing_ok=True)
    invs = ["SlicesOK", "NamesDistinct", "StatsIntegral", "NonInterference", "SubsetRegenerates"]
    base = f'SPECIFICATION Spec\nCONSTANTS\n  MaxTerms = {maxterms}\n  Emit = TRUE\n  Variant = "code"\n  Slice = {ctx.seed % slice_mod}\n  SliceMod = {slice_mod}\n'
    r = run_tlc("MC_Metadata", base + "".join(f"INVARIANT {i}\n" for i in invs) + "INVARIANT EmitCase\n", tag="c10", env={"OUT_FILE": str(out)}, timeout=3400)
    if r.violated:
        ctx.model_violation(r, "MC_Metadata")
    ctx.add_tlc(r, f"metadata of python-expression factors ({', '.join(invs)}) + emission; <= {maxterms} terms")
    # the design errors must be refuted on the family, otherwise it cannot tell them from the implementation (1 term suffices, and is fast)
    for variant, inv in (("skip-keywords", "NonInterference"), ("prune-state", "SubsetRegenerates")):
        v = run_tlc("MC_Metadata", base.replace('"code"', f'"{variant}"').replace("Emit = TRUE", "Emit = FALSE").replace(f"MaxTerms = {maxterms}", "MaxTerms = 1")
                    + f"INVARIANT {inv}\n", tag="c10", timeout=3000)
        if inv not in v.violated:
            raise MachineryError(f"MC_Metadata: variant {variant} does not violate {inv} - the family of python factors is vacuous")
    ctx.notes["metadata_design_errors_refuted"] = ["skip-keywords (NonInterference)", "prune-state (SubsetRegenerates)"]
    cases = read_emitted(out)
    out.unlink()
    if not cases:
        raise MachineryError("MC_Metadata emitted nothing")
    res = pmap("harness.props.c10", "replay_meta", cases, chunk=50)
    seen = {"keyword": 0, "receiver": 0, "positional": 0, "operand": 0, "stateful-nested": 0}
    for c, (bad, n) in zip(cases, res):
        ctx.traces += n
        ctx.evaluations += n
        for pos in {pos for t in c["reads"] for _, pos in t} & set(seen):
            seen[pos] += 1
        if any(s_["key"] != f and s_["key"] in f for s_ in c["state"] for t in c["terms"] for f in t):      # a recorded call inside a larger factor
            seen["stateful-nested"] += 1
        if len(c["terms"]) >= 2 and len(c["names"]) >= 3:
            ctx.nontrivial.add(jhash(["meta", c["written"], c["icpt"], c["tid"], c["full_rank"]]))
        for b in bad:
            ctx.violation({k: b[k] for k in ("formula", "tid", "output", "full_rank")} | {"accessor": b["why"]}, b, kind="replay")
    for k, n in seen.items():
        ctx.require(f"metadata replay: cases with a {k} read", n, 20)
    for c in [c for c in cases if len(c["names"]) >= 4 and c["state"]][:1]:
        ctx.sample({"formula": matlib.render_formula(c["written"], c["icpt"]), "terms": c["terms"], "reads": c["reads"], "state": c["state"], "names": c["names"]})


def run(ctx: Ctx) -> None:
    global FRAMES
    ctx.rule = ("the (formula, frame, options) enumeration of MC_Materialize (interactions in both factor orders, zero-column terms, multi-column "
                "contrasts); every accessor queried per term by object, by printed form, per column by name; non-trivial = >= 2 terms and >= 3 columns")
    ctx.trusted = ["gamma/alpha of the materializer family", "TLC"]
    FRAMES, cases = matlib.run_enumeration(ctx, "c10", 2 if ctx.quick else 3, "all", ["SlicesOK"], slice_mod=1 if ctx.quick else 4)
    res = pmap("harness.props.c10", "replay_case", cases, chunk=100)
    for c, bad in zip(cases, res):
        if c["fails"] or c["empty"]:
            continue
        ctx.traces += 1
        ctx.evaluations += 1
        if len(c["terms"]) >= 2 and len(c["names"]) >= 3:
            ctx.nontrivial.add(jhash([c["written"], c["icpt"], c["fid"], c["full_rank"], c["na"], c["cluster"]]))
        for b in bad:
            ctx.violation({k: b[k] for k in ("formula", "fid", "output", "full_rank", "na", "cluster")} | {"accessor": b["why"]}, b, kind="replay")
    ctx.require("replay: cases the model builds", sum(1 for c in cases if not (c["fails"] or c["empty"])), 1000)
    for c in [c for c in cases if len(c["names"]) >= 4 and len(c["terms"]) >= 3][:2]:
        ctx.sample({"formula": matlib.render_formula(c["written"], c["icpt"]), "terms": c["terms"], "slices": c["slices"], "names": c["names"]})
    meta_leg(ctx)
    ctx.exhaustive = True


def replay(path: str) -> int:
    rec = json.load(open(path))
    print(json.dumps(rec["detail"], indent=1)[:3000])
    return 0
