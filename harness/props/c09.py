"""C09 - reusing a spec on incompatible data fails loudly and never reshapes columns.

Leg M: TLC checks (MC_Reuse) that on every (training frame, follow-up frame, formula) a factor whose
       kind differs from the recorded one is an encoding error, that the names of a reuse are the
       names recorded in the spec (absent levels keep their all-zero columns, unseen levels add,
       remove or rename nothing) and that unseen levels are announced.
Leg R: every case is executed: fit, then spec.get_model_matrix / model_matrix(spec, ...) on the
       follow-up data (also with the pickled spec); observed exception class, warning
       categories, names and cells are compared with the model.
       ModelSpec.subset: every restriction of the recorded spec to some of its terms keeps the structure, levels and kinds recorded
       for them (SubsetMatchesParent: the parent's columns for those terms, on every row both keep; SubsetIdentity; TLC refutes the
       restriction that derives its structure afresh and the one that re-discovers levels); every restriction is replayed.
Leg S: the object that carries out a replay has a past (MC_ReuseSession): one materializer over the follow-up data is
       first asked for fresh formulas / the recorded spec, then for the recorded spec; TLC proves the outcome independent
       of the past when every call starts from empty caches (and refutes the design that keeps the evaluated factors:
       the recorded kind is compared where a factor is evaluated, a cache hit is never compared), every history is
       replayed on one materializer object and the last outcome judged like a replay by a new object.
"""
from __future__ import annotations

import json

from ..common import Ctx, pmap, jhash
from ..tlc import MachineryError, read_emitted, run_tlc, workdir
from .. import matlib, reuselib


def replay_session(group):
    """One (training frame, follow-up frame, formula) with every history TLC emitted for it: the spec is recorded once, every history
    gets its own materializer object over the follow-up data (ModelSpec.get_materializer - the object spec.get_model_matrix builds and
    throws away), the calls before the last one are carried out whatever they answer, the last one (the recorded spec) is judged."""
    import warnings
    from formulaic import model_matrix

    first = group[0]
    base = {"formula": first["formula"], "t": first["t"], "u": first["u"]}
    Tdf = matlib.gamma_frame(first["train"])
    Udf = matlib.gamma_frame(first["follow"], index_kind=["default", "unsorted", "strings"][(first["t"] + first["u"] + len(first["formula"])) % 3])
    try:
        spec = model_matrix(first["formula"], Tdf, context={}).model_spec
    except Exception as e:  # noqa
        return [{**base, "clause": "session:fit-failed", "observed": type(e).__name__ + ": " + str(e)[:100]}], 0, 0
    bad, n, prior_ok = [], 1, 0

    class _Past:            # reuselib.reuse() calls `.get_model_matrix(data, context=...)` on what it is given: the used materializer answers for the spec
        def __init__(self, m):
            self.m = m

        def get_model_matrix(self, data, context=None):
            return self.m.get_model_matrix(spec)

    for c in group:
        m = spec.get_materializer(Udf, context={})
        for call in c["hist"][:-1]:
            with warnings.catch_warnings():
                warnings.simplefilter("ignore")
                try:            # what an earlier call answers is not this leg's matter (a fresh formula may well fail on the follow-up frame)
                    m.get_model_matrix(spec if call == "<spec>" else call)
                    prior_ok += 1
                except Exception:  # noqa
                    pass
            n += 1
        bad += reuselib.judge(c["last"], reuselib.reuse(_Past(m), Udf, "spec.get_model_matrix"), {**base, "spec": "spec", "path": "used materializer.get_model_matrix(spec) after " + json.dumps(c["hist"][:-1])}, "session:")
        n += 1
    return bad, n, prior_ok


def session_leg(ctx: Ctx) -> None:
    maxprior = 1 if ctx.quick else 2
    out = workdir("c09s") / "sessions.ndjson"
    out.unlink(missing_ok=True)
    cfg = (f'SPECIFICATION SSpec\nCONSTANTS\n  Emit = TRUE\n  MaxSel = 0\n  MaxPrior = {maxprior}\n  Variant = "cleared"\n'
           "INVARIANT SessionFree\nINVARIANT GuardOnUsedObject\nINVARIANT EmitSession\n")
    r = run_tlc("MC_ReuseSession", cfg, tag="c09s", env={"OUT_FILE": str(out)}, timeout=3000)
    if r.violated:
        ctx.model_violation(r, "MC_ReuseSession")
    ctx.add_tlc(r, f"one materializer object over the follow-up frame asked for <= {maxprior} matrices (fresh formulas, the recorded spec) before the recorded spec: "
                   "the outcome of the replay does not depend on the past of the object, a kind change is an encoding error on a used object too")
    # the law is not vacuous on the bounded family: TLC refutes the design in which evaluated factors survive a call
    v = run_tlc("MC_ReuseSession", cfg.replace('"cleared"', '"kept"').replace("Emit = TRUE", "Emit = FALSE"), tag="c09s", timeout=3000)
    if "SessionFree" not in v.violated:
        raise MachineryError("MC_ReuseSession variant kept does not violate SessionFree: the bounded family is vacuous")
    ctx.notes["session_model_variant_kept"] = "violates " + ",".join(v.violated)
    cases = read_emitted(out)
    out.unlink()
    if len(cases) != r.distinct:
        raise MachineryError(f"emission incomplete: {len(cases)} of {r.distinct}")
    groups = {}
    for c in cases:
        if c["final"]:          # the other states are the prefixes of these
            groups.setdefault((c["t"], c["u"], c["formula"]), []).append(c)
    res = pmap("harness.props.c09", "replay_session", list(groups.values()), chunk=5)
    judged = prior_ok = 0
    for g, (bad, n, ok) in zip(groups.values(), res):
        ctx.traces += n
        ctx.evaluations += n
        judged += len(g)
        prior_ok += ok
        if g[0]["u"] in (3, 4):
            ctx.nontrivial.update(jhash(["session", c["t"], c["u"], c["formula"], c["hist"]]) for c in g if len(c["hist"]) > 1)
        for b in bad:
            ctx.violation({k: b.get(k) for k in ("formula", "t", "u", "spec", "path")} | {"clause": b["clause"]}, b, kind="replay")
    ctx.require("C09 sessions: histories judged on one materializer object", judged, 330)
    ctx.require("C09 sessions: earlier calls that answered with a matrix (a past that filled the caches)", prior_ok, 330)


def run(ctx: Ctx) -> None:
    ctx.rule = ("3 training frames x 6 follow-up frames (self, level absent, unseen level, categorical column arriving numeric, numeric column arriving "
                "as text, nulls) x 9 formulas (factors alone, in interactions, C() with sum/helmert contrasts, center(), literal scale); "
                "non-trivial = follow-up differs from training in kind or level set")
    ctx.trusted = ["gamma/alpha of the materializer family", "TLC"]
    cases = [c for c in reuselib.run_model(ctx, "c09", 1, ["NamesFromSpecAlone", "KindChangeIsAnError", "UnseenAnnounced", "SubsetMatchesParent", "SubsetIdentity"]) if not c["sel"]]
    # the subset law is not vacuous on the family: TLC refutes the restriction that derives its structure afresh and the one that forgets the recorded levels
    for inv in ("SubsetRescoped", "SubsetRelevelled"):
        v = run_tlc("MC_Reuse", f"SPECIFICATION Spec\nCONSTANTS\n  Emit = FALSE\n  MaxSel = 0\nINVARIANT {inv}\n", tag="c09v", timeout=3000)
        if inv not in v.violated:
            raise MachineryError(f"MC_Reuse: {inv} is not violated: the bounded family does not tell a restricted spec from a rebuilt one")
        ctx.notes["subset_variant_" + inv] = "violated (as it must be)"
    ctx.require("replay: restrictions of a recorded spec (ModelSpec.subset) judged on follow-up data", sum(len(c.get("subsets") or []) for c in cases), 500)
    res = pmap("harness.reuselib", "replay_case", cases, chunk=20)
    for c, (bad, n) in zip(cases, res):
        ctx.traces += n
        ctx.evaluations += n
        if c["u"] in (1, 2, 3, 4):
            ctx.nontrivial.add(jhash([c["t"], c["u"], c["formula"]]))
        for b in bad:
            ctx.violation({k: b.get(k) for k in ("formula", "t", "u", "spec", "path")} | {"clause": b["clause"]}, b, kind="replay")
    for c in [c for c in cases if c["u"] == 2 and c["formula"] == "A + a"][:1]:
        ctx.sample({"formula": c["formula"], "training_levels": c["levels"], "follow_up": c["follow"]["cols"]["A"]["cat"], "expected": c["whole"]})
    session_leg(ctx)
    ctx.exhaustive = True


def replay(path: str) -> int:
    rec = json.load(open(path))
    print(json.dumps(rec["detail"], indent=1)[:3000])
    return 0
