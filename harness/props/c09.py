"""C09 - reusing a spec on incompatible data fails loudly and never reshapes columns.

Leg M: TLC checks (MC_Reuse) that on every (training frame, follow-up frame, formula) a factor whose
       kind differs from the recorded one is an encoding error, that the names of a reuse are the
       names recorded in the spec (absent levels keep their all-zero columns, unseen levels add,
       remove or rename nothing) and that unseen levels are announced.
Leg R: every case is executed: fit, then spec.get_model_matrix / model_matrix(spec, ...) on the
       follow-up data (also with the pickled spec); observed exception class, warning
       categories, names and cells are compared with the model.
"""
from __future__ import annotations

import json

from ..common import Ctx, pmap, jhash
from .. import reuselib


def run(ctx: Ctx) -> None:
    ctx.rule = ("3 training frames x 6 follow-up frames (self, level absent, unseen level, categorical column arriving numeric, numeric column arriving "
                "as text, nulls) x 9 formulas (factors alone, in interactions, C() with sum/helmert contrasts, center(), literal scale); "
                "non-trivial = follow-up differs from training in kind or level set")
    ctx.trusted = ["gamma/alpha of the materializer family", "TLC"]
    cases = [c for c in reuselib.run_model(ctx, "c09", 1, ["NamesFromSpecAlone", "KindChangeIsAnError", "UnseenAnnounced"]) if not c["sel"]]
    res = pmap("harness.reuselib", "replay_case", cases, chunk=20)
    for c, (bad, n) in zip(cases, res):
        ctx.traces += n
        ctx.evaluations += n
        if c["u"] in (1, 2, 3, 4):
            ctx.nontrivial.add(jhash([c["t"], c["u"], c["formula"]]))
        for b in bad:
            ctx.violation({k: b.get(k) for k in ("formula", "t", "u", "spec", "path")} | {"clause": b["clause"]}, b, kind="replay")
    for c in [c for c in cases if c["u"] == 2 and c["formula"] == "A + a"][:1]:
        ctx.sample({"formula": c["formula"], "training_levels": c["levels"], "follow_up": c["follow"]["cols"]["A"]["cat"], "expected": c["whole"]})
    ctx.exhaustive = True


def replay(path: str) -> int:
    rec = json.load(open(path))
    print(json.dumps(rec["detail"], indent=1)[:3000])
    return 0
