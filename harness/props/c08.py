"""C08 - text and categorical columns are dummy-coded; the matrix is always numeric.

Leg M: TLC evaluates the dtype table (MC_Dtypes): text and categorical dtype tags are categorical
       factors (sorted level order for text, declared order - including unobserved levels - for
       a categorical dtype), numeric tags pass through; typing invariant: every cell of every
       expected matrix is an integer; a text/categorical column never appears as a raw column.
Leg R: every (tag, formula, nulls, rank reduction) case is realised with every constructor the
       installed pandas / pyarrow offer for that tag, on the pandas materializer, narwhals on the
       same frame and narwhals on a pyarrow table, for the three outputs; names and cells are
       compared with the model and every observed cell must be a number.
       Rows: the model addresses rows by position; a pandas frame also carries row LABELS, so the pandas frame is realised a
       second time with labels that are not 0..n-1.  Known levels: formula `v + v:w` codes the column twice in one call, and the
       specification every top-level call returns is applied again to the tail slice of the same data (recorded levels, recorded
       structure, labels starting at 1, the null row inside) - TLC derives that second matrix too (ReuseNumeric, reuse_*).
"""
from __future__ import annotations

import json
import numbers

import numpy

from ..common import Ctx, pmap, jhash
from ..tlc import MachineryError, read_emitted, run_tlc, workdir
from .. import matlib

OUTPUTS = ["pandas", "numpy", "sparse"]


def constructors(tag, case):
    """-> list of (label, builder(values_with_None) -> pandas.Series or None if not constructible)"""
    import pandas
    import pyarrow as pa

    nulls = set(case["nulls"])
    if case["kind"] == "cat":
        vals = [None if i + 1 in nulls else v for i, v in enumerate(case["catvals"])]
    else:
        vals = [None if i + 1 in nulls else v for i, v in enumerate(case["numvals"])]
    lv = case["declared_levels"]
    out = []

    def add(label, fn):
        try:
            s = fn()
            if s is not None:
                out.append((label, s))
        except Exception:  # dtype not available in this installation / not constructible with nulls
            pass

    if tag == "object_str":
        add("Series(dtype=object)", lambda: pandas.Series(vals, dtype=object))
        add("numpy object array", lambda: pandas.Series(numpy.array(vals, dtype=object)))
    elif tag == "str":
        add("Series(dtype='str')", lambda: pandas.Series(vals, dtype="str"))
        add("Series(list) default inference", lambda: pandas.Series(vals))
    elif tag == "string_python":
        add("string[python]", lambda: pandas.Series(vals, dtype="string[python]"))
        add("string", lambda: pandas.Series(vals, dtype="string"))
    elif tag == "string_pyarrow":
        add("string[pyarrow]", lambda: pandas.Series(vals, dtype="string[pyarrow]"))
    elif tag == "arrow_string":
        add("ArrowDtype(string)", lambda: pandas.Series(vals, dtype=pandas.ArrowDtype(pa.string())))
    elif tag == "arrow_large_string":
        add("ArrowDtype(large_string)", lambda: pandas.Series(vals, dtype=pandas.ArrowDtype(pa.large_string())))
    elif tag == "category":
        add("Categorical", lambda: pandas.Series(pandas.Categorical(vals, categories=lv)))
        add("astype(CategoricalDtype)", lambda: pandas.Series(vals, dtype=object).astype(pandas.CategoricalDtype(lv)))
    elif tag == "category_ordered":
        add("Categorical(ordered)", lambda: pandas.Series(pandas.Categorical(vals, categories=lv, ordered=True)))
    elif tag == "arrow_dictionary":
        add("Categorical -> arrow dictionary (table only)", lambda: pandas.Series(pandas.Categorical(vals, categories=lv)))
        add("pandas column of ArrowDtype(dictionary)",
            lambda: pa.table({"v": pa.DictionaryArray.from_arrays(pa.array([None if v is None else lv.index(v) for v in vals], type=pa.int8()), pa.array(lv))})
            .to_pandas(types_mapper=pandas.ArrowDtype)["v"])
    elif tag in ("float64", "float32"):
        add(tag, lambda: pandas.Series([float("nan") if v is None else float(v) for v in vals], dtype=tag))
    elif tag in ("int64", "int32", "int8", "uint8", "uint64"):
        if not nulls:
            add(tag, lambda: pandas.Series(vals, dtype=tag))
    elif tag == "bool":
        if not nulls:
            add("bool", lambda: pandas.Series([bool(v) for v in vals], dtype=bool))
    elif tag == "boolean":
        add("boolean (nullable)", lambda: pandas.Series([None if v is None else bool(v) for v in vals], dtype="boolean"))
    elif tag in ("Int64", "Float64"):
        add(tag + " (nullable)", lambda: pandas.Series(vals, dtype=tag))
    elif tag == "arrow_int64":
        add("ArrowDtype(int64)", lambda: pandas.Series(vals, dtype=pandas.ArrowDtype(pa.int64())))
    elif tag == "arrow_double":
        add("ArrowDtype(float64)", lambda: pandas.Series([None if v is None else float(v) for v in vals], dtype=pandas.ArrowDtype(pa.float64())))
    return out


def is_number(x) -> bool:
    return isinstance(x, (numbers.Number, numpy.number, numpy.bool_)) and not isinstance(x, str)


def all_numeric(mm, output) -> bool:
    import pandas

    if output == "sparse":
        return mm.dtype.kind in "biuf"
    # a matrix is numeric when its storage is: an object array of python numbers is not something a numeric consumer can take
    if output == "pandas":
        return all(getattr(mm[c].dtype, "kind", "O") in "biuf" for c in mm.columns)
    return numpy.asarray(mm).dtype.kind in "biuf"


def replay_case(case):
    import pandas
    import pyarrow as pa
    from formulaic import model_matrix

    bad = []
    n = 0
    for label, series in constructors(case["tag"], case):
        df = pandas.DataFrame({"v": series, "w": pandas.Series([float(x) for x in case["wvals"]])})
        forms = [("pandas", df, "pandas"), ("narwhals-pandas", df, "narwhals")]
        # gamma: the same columns under row labels that are not the positions (the abstract frame has positions only; which labels a
        # pandas frame carries must not reach the cells - indicator columns are built per factor and assembled afterwards)
        forms.append(("pandas, row labels r0..r4", df.set_axis(matlib.index_for(len(df), "strings"), axis=0), "pandas"))
        try:
            forms.append(("narwhals-arrow", pa.Table.from_pandas(df, preserve_index=False), "narwhals"))
        except Exception:
            pass
        if case["tag"] == "arrow_dictionary" and label.startswith("Categorical"):
            forms = [f for f in forms if f[0] == "narwhals-arrow"]
        # (added) a specification recorded where the column `v` held numbers, applied to this frame, where it holds text / categories: whether
        # that is an error is C09's matter - AllNumeric speaks about every matrix that is returned, so if one is returned it is numeric
        if not (case["tag"] == "arrow_dictionary" and label.startswith("Categorical")):
            numdf = pandas.DataFrame({"v": pandas.Series(list(range(len(df))), dtype="int64"), "w": df["w"]})
            for output in OUTPUTS:
                try:
                    nspec = model_matrix(case["formula"], numdf, output=output, ensure_full_rank=case["full_rank"], context={}).model_spec
                except Exception:  # noqa  (the preparation is not judged)
                    continue
                n += 1
                try:
                    mm3 = nspec.get_model_matrix(df, context={})
                except Exception:  # noqa  (a refusal returns no matrix)
                    continue
                if not all_numeric(mm3, output):
                    bad.append({"values": case["vset"], "tag": case["tag"], "constructor": label, "dtype": str(series.dtype), "data": "pandas", "output": output, "formula": case["formula"],
                                "nulls": case["nulls"], "full_rank": case["full_rank"], "entry": "a specification recorded on a frame whose column v held integers, applied to this frame",
                                "why": "non-numeric-cells",
                                "observed": (str(numpy.asarray(mm3).tolist()) if output == "numpy" else str(mm3.dtypes.to_dict()) if output == "pandas" else str(mm3.dtype))[:200]})
        for form, data, mat in forms:
            # every output through the top-level function, then every output again through ONE materializer object (each call
            # after the first comes after a call for another output type: what one call encoded is not what the next may hand out)
            inst = None
            # (the relabelled frame goes through the top-level function only: the one-object round is about the outputs, not the rows)
            for k, output in enumerate(OUTPUTS + (["sparse", "pandas", "numpy"] if "row labels" not in form else [])):
                n += 1
                base = {"values": case["vset"], "tag": case["tag"], "constructor": label, "dtype": str(series.dtype), "data": form, "output": output, "formula": case["formula"],
                        "nulls": case["nulls"], "full_rank": case["full_rank"]}
                try:
                    if k < len(OUTPUTS):
                        mm = model_matrix(case["formula"], data, output=output, ensure_full_rank=case["full_rank"], materializer=mat, context={})
                    else:
                        base["entry"] = "one materializer object used for every output in turn"
                        if inst is None:
                            from formulaic.materializers import FormulaMaterializer

                            inst = FormulaMaterializer.for_materializer(mat)(data, context={})
                        mm = inst.get_model_matrix(case["formula"], output=output, ensure_full_rank=case["full_rank"])
                except Exception as e:  # noqa
                    bad.append({**base, "why": "exception", "observed": type(e).__name__ + ": " + str(e)[:140]})
                    continue
                if not all_numeric(mm, output):
                    bad.append({**base, "why": "non-numeric-cells",
                                "observed": (str(numpy.asarray(mm).tolist()) if output == "numpy" else str(mm.dtypes.to_dict()) if output == "pandas" else str(mm.dtype))[:200]})
                    continue
                names, cells, _, _, _ = matlib.alpha_matrix(mm, output)
                if names != case["names"]:
                    bad.append({**base, "why": "column-names", "observed": names, "expected": case["names"]})
                elif cells != case["cells"]:
                    bad.append({**base, "why": "cells", "observed": cells, "expected": case["cells"]})
                if k >= len(OUTPUTS):
                    continue
                # the specification just fitted, applied to the tail slice of the same data: the levels are known beforehand now
                n += 1
                base = {**base, "entry": f"model_spec.get_model_matrix(rows {case['reuse_from']}.. of the same data)"}
                try:
                    lo = case["reuse_from"] - 1
                    mm2 = mm.model_spec.get_model_matrix(data.slice(lo) if isinstance(data, pa.Table) else data.iloc[lo:])
                except Exception as e:  # noqa
                    bad.append({**base, "why": "exception", "observed": type(e).__name__ + ": " + str(e)[:140]})
                    continue
                if not all_numeric(mm2, output):
                    bad.append({**base, "why": "non-numeric-cells",
                                "observed": (str(numpy.asarray(mm2).tolist()) if output == "numpy" else str(mm2.dtypes.to_dict()) if output == "pandas" else str(mm2.dtype))[:200]})
                    continue
                names, cells, _, _, _ = matlib.alpha_matrix(mm2, output)
                if names != case["reuse_names"]:
                    bad.append({**base, "why": "column-names", "observed": names, "expected": case["reuse_names"]})
                elif cells != case["reuse_cells"]:
                    bad.append({**base, "why": "cells", "observed": cells, "expected": case["reuse_cells"]})
    return bad, n


def run(ctx: Ctx) -> None:
    ctx.rule = ("22 dtype tags (text: object, str, string[python], string[pyarrow], Arrow string / large_string; categorical: category, ordered "
                "category, Arrow dictionary; numeric: float32/64, int8/32/64, uint8/64, bool, nullable Int64/Float64/boolean, Arrow int64/double) x "
                "6 formulas (one coding the column twice) x nulls/no nulls x rank reduction x every available constructor x 4 data forms (pandas "
                "also under non-positional row labels) x 3 outputs, each fitted specification applied again to the tail slice of the data; "
                "non-trivial = categorical tag or null present")
    ctx.trusted = ["the constructor list (what pandas/pyarrow can build is probed at run time)", "numbers.Number / numpy.number as 'a number'", "TLC"]
    ctx.matchers = MATCHERS
    out = workdir("c08") / "cases.ndjson"
    out.unlink(missing_ok=True)
    r = run_tlc("MC_Dtypes", "SPECIFICATION Spec\nCONSTANTS\n  Emit = TRUE\nINVARIANT AllNumeric\nINVARIANT DummyCoded\nINVARIANT ReuseNumeric\nINVARIANT EmitCase\n", tag="c08",
                env={"OUT_FILE": str(out)}, timeout=1200)
    if r.violated:
        ctx.model_violation(r, "MC_Dtypes")
    ctx.add_tlc(r, "dtype table: typing invariant + dummy coding + the fitted specification on a slice + emission")
    cases = read_emitted(out)
    out.unlink()
    if len(cases) != r.distinct:
        raise MachineryError(f"emission incomplete: {len(cases)} of {r.distinct}")
    res = pmap("harness.props.c08", "replay_case", cases, chunk=10)
    built = {}
    for c, (bad, n) in zip(cases, res):
        ctx.traces += n
        ctx.evaluations += n
        built[c["tag"]] = built.get(c["tag"], 0) + n
        if c["kind"] == "cat" or c["nulls"]:
            ctx.nontrivial.add(jhash([c["tag"], c["formula"], c["nulls"], c["full_rank"], c["vset"]]))
        for b in bad:
            ctx.violation({k: b[k] for k in ("tag", "constructor", "dtype", "data", "output", "formula", "nulls", "full_rank")} | {"values": b.get("values")}, b, kind="replay")
    ctx.notes["executions_per_tag"] = built
    ctx.notes["tags_not_constructible_here"] = sorted(t for t, n in built.items() if n == 0)
    for c in [c for c in cases if c["tag"] == "category" and c["formula"] == "v + w" and not c["nulls"] and c["full_rank"]][:1]:
        ctx.sample({"tag": c["tag"], "formula": c["formula"], "names": c["names"], "cells": c["cells"]})
    ctx.exhaustive = True


MATCHERS = {}


def replay(path: str) -> int:
    rec = json.load(open(path))
    print(json.dumps(rec["detail"], indent=1)[:3000])
    return 0
