"""C20 - formula differentiation is the term-wise partial derivative.

Leg M: TLC checks on every formula in the bound (MC_Calculus): term count/order preserved,
       the exact finite-difference law of every multilinear term on integer rows for h = 1, 2,
       and compositionality of successive differentiation.
Leg R: every enumerated (formula, variable tuple) goes through Formula.differentiate and
       ModelSpec.differentiate; term lists are compared; derivative terms are materialised on
       the model's integer rows and compared with the model's exact columns and with the
       finite difference of the materialised original term.
Leg R (shadow alphabet): the same replay for the formulas over factors the formula does NOT report among its required variables -
       a column called like a transform (scale), a python factor (I(x1)), a quoted name (`my var`) - which the calculus treats like any other;
       TLC refutes the design error "required" (all terms 0 unless every variable is a required variable) on this family.
Leg R (ordering modes): the same replay for the formulas built with _ordering="none" and _ordering="sort" (Formula(text, _ordering=...) and
       SimpleFormula(terms, _ordering=...)): the mode decides the order of the formula's terms, the derivative is term-wise IN THAT ORDER,
       compared position by position.  TLC refutes the design error "reordered" (the derivative is ordered anew by the formula's mode).
Leg R (structured): formulas of up to 3 parts; every part is differentiated with respect to the same tuple and the structure is kept.
       One abstract sequence of parts is replayed through its realisations: `a ~ b`, `a | b`, keyword parts, lhs=/rhs=, and
       ModelSpecs.differentiate.  TLC refutes the design error "consumed" (the tuple is used up by the part visited first).
"""
from __future__ import annotations

import json

import numpy

from ..common import Ctx, pmap, jhash
from ..tlc import MachineryError, read_emitted, run_tlc, workdir

ROWS = [dict(x1=2, yy=3, z=-1, w=5, v0=7), dict(x1=0, yy=-2, z=4, w=1, v0=1), dict(x1=3, yy=3, z=2, w=-3, v0=0)]
MATERIALISE_MOD = 1
# gamma of the other alphabets of MC_Calculus: the model's rows give the value of each FACTOR; a factor is realised by a data column
# (COLUMN: I(x1) takes its value from the column x1, so shifting x1 by h shifts the factor by h) and written in a formula string as
# SPELL says (a name with a space must be quoted; the factor of the parsed formula is the bare name, which is also how it is named in
# differentiate()).  The `orig` columns the model emits are compared with the materialised original terms, which ties these tables
# to the Rows of the model.
ALPHA_ROWS = {
    "plain": ROWS,
    "shadow": [{"scale": 2, "x1": -1, "my var": 5, "C": 7}, {"scale": 0, "x1": 4, "my var": 1, "C": 1}, {"scale": 3, "x1": 2, "my var": -3, "C": 0}],
    "pair": [dict(x1=2, scale=3, v0=7), dict(x1=0, scale=-2, v0=1), dict(x1=3, scale=5, v0=0)],
}
COLUMN = {"I(x1)": "x1"}
SPELL = {"my var": "`my var`"}


def _frame(shift=None, alphabet="plain"):
    import pandas

    rows = ALPHA_ROWS[alphabet]
    d = {k: [float(r[k]) for r in rows] for k in rows[0]}
    if shift:
        d[COLUMN.get(shift[0], shift[0])] = [a + shift[1] for a in d[COLUMN.get(shift[0], shift[0])]]
    return pandas.DataFrame(d)


def _source(terms, icpt, implicit=True):
    """implicit: the intercept is the one the parser adds (a simple formula / a right-hand side); a left-hand side gets none, so there it is written"""
    body = " + ".join(":".join(SPELL.get(e, e) for e in t) for t in terms)
    if icpt and not implicit:
        return "1 + " + body if body else "1"
    return (body if body else "1") if icpt else ("0 + " + body if body else "0")


def _terms(f):
    return [[fac.expr for fac in t.factors] for t in f]


def _col(term, df):
    from formulaic.formula import SimpleFormula

    mm = SimpleFormula([term], _ordering="none").get_model_matrix(df, output="numpy")
    a = numpy.asarray(mm)
    if a.shape[1] != 1:
        return None
    return [float(v) for v in a[:, 0]]


def replay_case(case):
    from formulaic import Formula, ModelSpec

    s = _source(case["terms"], case["icpt"])
    alphabet = case.get("alphabet", "plain")
    ordering = case.get("ordering", "degree")
    bad = []
    try:
        F = Formula(s) if ordering == "degree" else Formula(s, _ordering=ordering)
        if ordering != "degree":
            s = f"Formula({s!r}, _ordering={ordering!r})"
        if _terms(F) != case["f"]:
            return [{"formula": s, "why": "setup: formula terms differ from the model", "observed": _terms(F), "expected": case["f"]}]
        D = F.differentiate(*case["wrt"])
        got = _terms(D)
        if got != case["d"]:
            bad.append({"formula": s, "wrt": case["wrt"], "why": "derivative-terms-differ", "observed": got, "expected": case["d"]})
        D2 = ModelSpec(formula=F).differentiate(*case["wrt"]).formula
        if _terms(D2) != case["d"]:
            bad.append({"formula": s, "wrt": case["wrt"], "why": "ModelSpec.differentiate-differs", "observed": _terms(D2), "expected": case["d"]})
        # compositionality (a theorem of MC_Calculus): differentiating successively is differentiating with respect to the tuple;
        # the intermediate formula holds repeated terms (several 0s), and a formula is a list: term i of the result belongs to term i
        if len(case["wrt"]) == 2:
            step = F.differentiate(case["wrt"][0]).differentiate(case["wrt"][1])
            if _terms(step) != case["d"]:
                bad.append({"formula": s, "wrt": case["wrt"], "why": "successive-differentiation-differs", "observed": _terms(step), "expected": case["d"]})
        if ordering != "degree":
            # the same formula built from its terms as written: SimpleFormula(terms, _ordering=...) puts them in the order of the mode
            from formulaic.formula import SimpleFormula

            G = SimpleFormula(list(Formula(_source(case["terms"], case["icpt"]), _ordering="none")), _ordering=ordering)
            if _terms(G) != case["f"]:
                bad.append({"formula": s, "why": "setup: SimpleFormula(terms, _ordering) differs from the model", "observed": _terms(G), "expected": case["f"]})
            elif _terms(G.differentiate(*case["wrt"])) != case["d"]:
                bad.append({"formula": s, "wrt": case["wrt"], "why": "derivative-terms-of-SimpleFormula(terms, _ordering)-differ (term i of the derivative belongs to term i of the formula)",
                            "observed": _terms(G.differentiate(*case["wrt"])), "expected": case["d"]})
        if case["wrt"] and len(F) >= 2:
            from formulaic.formula import SimpleFormula

            dup = SimpleFormula(list(F) + [F[0], F[len(F) - 1]], _ordering="none").differentiate(*case["wrt"])
            if _terms(dup) != case["d"] + [case["d"][0], case["d"][-1]]:
                bad.append({"formula": s + " (+ first and last term repeated)", "wrt": case["wrt"], "why": "derivative-of-a-formula-with-repeated-terms-differs",
                            "observed": _terms(dup), "expected": case["d"] + [case["d"][0], case["d"][-1]]})
        if not bad and int(jhash([case["terms"], case["wrt"], case["icpt"]])[:6], 16) % MATERIALISE_MOD == 0:
            df = _frame(alphabet=alphabet)
            if alphabet != "plain":     # the frame of this alphabet is the model's Rows: the original terms materialize to the model's columns
                for i, t in enumerate(F):
                    if _col(t, df) != [float(v) for v in case["orig"][i]]:
                        bad.append({"formula": s, "wrt": case["wrt"], "why": "setup: the column of an original term differs from the model", "term": case["f"][i],
                                    "observed": _col(t, df), "expected": case["orig"][i]})
            # the spec attached to a materialized matrix differentiates like the formula: its metadata follows the new formula
            import numpy
            from formulaic import model_matrix

            if case["wrt"] and len(F) >= 1:
                ms = model_matrix(F, df, context={}).model_spec
                dms = ms.differentiate(*case["wrt"])
                if _terms(dms.formula) != case["d"]:
                    bad.append({"formula": s, "wrt": case["wrt"], "why": "materialized-ModelSpec.differentiate-differs", "observed": _terms(dms.formula), "expected": case["d"]})
                else:
                    for fr in (False, True):        # purely numeric terms: rank reduction has nothing to reduce
                        try:
                            got_m = numpy.asarray(dms.get_model_matrix(df, context={}, ensure_full_rank=fr, output="numpy"), dtype=float)
                            want_m = numpy.array([[float(case["cols"][i][r]) for i in range(len(case["d"]))] for r in range(len(case["cols"][0]))]) if case["d"] else numpy.zeros((3, 0))
                            if fr:      # with rank reduction repeated zero terms share one zero column: every NON-ZERO derivative term must have its column
                                missing = [case["d"][i] for i in range(len(case["d"])) if case["d"][i] != ["0"]
                                           and not any(numpy.array_equal(got_m[:, j], want_m[:, i]) for j in range(got_m.shape[1]))]
                                if got_m.shape[0] != want_m.shape[0] or missing:
                                    bad.append({"formula": s, "wrt": case["wrt"], "why": "a non-zero derivative term has no column under the default options (ensure_full_rank=True)",
                                                "terms_without_column": missing, "observed": got_m.tolist(), "expected": want_m.tolist()})
                            elif got_m.shape != want_m.shape or not numpy.array_equal(got_m, want_m):
                                bad.append({"formula": s, "wrt": case["wrt"], "why": f"matrix-of-the-differentiated-materialized-spec-differs (ensure_full_rank={fr})",
                                            "observed": got_m.tolist(), "expected": want_m.tolist()})
                        except Exception as e:  # noqa
                            bad.append({"formula": s, "wrt": case["wrt"], "why": "materializing-the-differentiated-spec-fails", "observed": type(e).__name__ + ": " + str(e)[:150]})
            for i, t in enumerate(D):
                if case["d"][i] == ["0"]:
                    continue
                col = _col(t, df)
                if col != [float(v) for v in case["cols"][i]]:
                    bad.append({"formula": s, "wrt": case["wrt"], "why": "derivative-column-differs", "term": case["d"][i], "observed": col, "expected": case["cols"][i]})
                if len(case["wrt"]) == 1 and case["wrt"][0] in case["f"][i]:
                    v = case["wrt"][0]
                    for h in (1.0, 2.0):
                        c0, c1 = _col(F[i], df), _col(F[i], _frame((v, h), alphabet))
                        fd = [(b - a) / h for a, b in zip(c0, c1)]
                        if fd != col:
                            bad.append({"formula": s, "wrt": case["wrt"], "why": "finite-difference-differs", "term": case["f"][i], "h": h, "observed": col, "expected": fd})
    except Exception as e:  # noqa
        bad.append({"formula": s, "wrt": case["wrt"], "why": "exception:" + type(e).__name__, "msg": str(e)[:200]})
    return bad


def _sig(x):
    """A structured formula / structured model spec as nested dicts and tuples with the term lists at the leaves."""
    from formulaic.utils.structured import Structured

    if isinstance(x, Structured):
        return {k: _sig(v) for k, v in x._to_dict(recurse=False).items()}
    if isinstance(x, tuple):
        return tuple(_sig(v) for v in x)
    return _terms(getattr(x, "formula", x))


def _walk(shape, x):
    """(part number, leaf) pairs of a structured object along the structure `shape`."""
    if isinstance(shape, dict):
        d = x._to_dict(recurse=False)
        for k, v in shape.items():
            yield from _walk(v, d[k])
    elif isinstance(shape, tuple):
        for v, xv in zip(shape, x):
            yield from _walk(v, xv)
    else:
        yield shape, x


def replay_structured(case):
    """A sequence of parts of MC_Calculus (MaxParts > 1).  The model has the abstract class - a sequence of term lists, each
    differentiated with respect to the same tuple; the ways the library writes such a sequence are realisations added here."""
    from formulaic import Formula, ModelSpec

    parts, wrt = case["parts"], case["wrt"]
    if len(parts) == 1:     # one part: a simple formula over this alphabet
        return replay_case({**parts[0], "icpt": case["icpt"], "wrt": wrt, "alphabet": case["alphabet"]})
    ss = [_source(p["terms"], case["icpt"], implicit=False) for p in parts]
    a, b, c = (ss + [None])[:3]
    # (name, constructor, the structure as nested dicts/tuples of part numbers)
    if len(parts) == 2:
        shapes = [(f"{a} ~ {b}", lambda: Formula(f"{a} ~ {b}"), {"lhs": 0, "rhs": 1}),
                  (f"{a} | {b}", lambda: Formula(f"{a} | {b}"), {"root": (0, 1)}),
                  (f"Formula({a!r}, extra={b!r})", lambda: Formula(a, extra=b), {"root": 0, "extra": 1}),
                  (f"Formula(lhs={a!r}, rhs={b!r})", lambda: Formula(lhs=a, rhs=b), {"lhs": 0, "rhs": 1})]
    else:
        shapes = [(f"{a} ~ {b} | {c}", lambda: Formula(f"{a} ~ {b} | {c}"), {"lhs": 0, "rhs": (1, 2)}),
                  (f"{a} | {b} | {c}", lambda: Formula(f"{a} | {b} | {c}"), {"root": (0, 1, 2)}),
                  (f"Formula({a!r}, extra={b!r}, more={c!r})", lambda: Formula(a, extra=b, more=c), {"root": 0, "extra": 1, "more": 2}),
                  (f"Formula(lhs={a!r}, rhs=({b!r}, {c!r}))", lambda: Formula(lhs=a, rhs=(b, c)), {"lhs": 0, "rhs": (1, 2)})]

    def fill(shape, key):
        if isinstance(shape, dict):
            return {k: fill(v, key) for k, v in shape.items()}
        if isinstance(shape, tuple):
            return tuple(fill(v, key) for v in shape)
        return parts[shape][key]

    bad = []
    materialise = int(jhash([[p["terms"] for p in parts], wrt, case["icpt"]])[:6], 16) % MATERIALISE_MOD == 0
    for name, make, shape in shapes:
        try:
            S = make()
            if _sig(S) != fill(shape, "f"):
                bad.append({"formula": name, "why": "setup: the parts of the structured formula differ from the model", "observed": _sig(S), "expected": fill(shape, "f")})
                continue
            want = fill(shape, "d")
            D = S.differentiate(*wrt)
            if _sig(D) != want:
                bad.append({"formula": name, "wrt": wrt, "why": "derivative-of-a-structured-formula-differs (every part is differentiated with respect to the same variables)",
                            "observed": _sig(D), "expected": want})
                continue
            D2 = ModelSpec.from_spec(S).differentiate(*wrt)
            if _sig(D2) != want:
                bad.append({"formula": name, "wrt": wrt, "why": "ModelSpecs.differentiate-differs", "observed": _sig(D2), "expected": want})
            # (not replayed: differentiating the result once more - StructuredFormula.differentiate returns a bare Structured of simple
            #  formulas, which has no differentiate(); "successively" in the property is about the tuple, which the model applies step by step)
            if materialise and shape is shapes[0][2]:
                # the non-zero derivative terms of every part materialize to the model's columns; for one variable that is the finite difference
                df = _frame(alphabet=case["alphabet"])
                for (k, Dk), (_, Sk) in zip(_walk(shape, D), _walk(shape, S)):
                    for i, t in enumerate(Dk):
                        if parts[k]["d"][i] == ["0"]:
                            continue
                        col = _col(t, df)
                        if col != [float(v) for v in parts[k]["cols"][i]]:
                            bad.append({"formula": name, "wrt": wrt, "why": "derivative-column-differs", "part": k, "term": parts[k]["d"][i], "observed": col, "expected": parts[k]["cols"][i]})
                        if len(wrt) == 1:
                            for h in (1.0, 2.0):
                                c0, c1 = _col(Sk[i], df), _col(Sk[i], _frame((wrt[0], h), case["alphabet"]))
                                fd = [(y - x) / h for x, y in zip(c0, c1)]
                                if c0 != [float(v) for v in parts[k]["orig"][i]] or fd != col:
                                    bad.append({"formula": name, "wrt": wrt, "why": "finite-difference-differs", "part": k, "term": parts[k]["f"][i], "h": h, "observed": col, "expected": fd,
                                                "original_column": c0, "model_original_column": parts[k]["orig"][i]})
        except Exception as e:  # noqa
            bad.append({"formula": name, "wrt": wrt, "why": "exception:" + type(e).__name__, "msg": str(e)[:200]})
    return bad


def run(ctx: Ctx) -> None:
    global MATERIALISE_MOD
    ctx.rule = ("every formula of <= MaxTerms distinct terms over {x1,yy,z,w} (each optionally scaled by the literal 2, with or without intercept; built with each ordering mode degree/none/sort - the modes none and sort with <= 1 variable in the quick tier) x "
                "every tuple of <= 2 differentiation variables from {x1,yy,z,w,v0}; the same over the factors {scale, I(x1), `my var`} (unscaled) and {C}; "
                "every structured formula of <= 3 parts (<= 3 terms in all, quick) over {x1, scale} x every tuple of <= 2 variables from {x1,scale,v0}, in four spellings; "
                "non-trivial = some derivative term is neither 0 nor 1 (structured: a part after the first has a non-zero derivative term)")
    ctx.trusted = ["materialisation of a single numeric term (C02 decides that separately)", "TLC"]
    maxterms = 2 if ctx.quick else 3
    MATERIALISE_MOD = 4 if ctx.quick else 16
    out = workdir("c20") / "cases.ndjson"
    out.unlink(missing_ok=True)

    def cfg_of(mt, alphabet, mp, variant, ordering="degree", maxwrt=2):
        return (f"SPECIFICATION Spec\nCONSTANTS\n  MaxTerms = {mt}\n  Emit = TRUE\n  Alphabet = \"{alphabet}\"\n  MaxParts = {mp}\n  Variant = \"{variant}\"\n"
                f"  Ordering = \"{ordering}\"\n  MaxWrt = {maxwrt}\n"
                "INVARIANT Laws\nINVARIANT EmitCase\n")

    r = run_tlc("MC_Calculus", cfg_of(maxterms, "plain", 1, "spec"), tag="c20", env={"OUT_FILE": str(out)}, timeout=3400)
    if r.violated:
        ctx.model_violation(r, "MC_Calculus")
    ctx.add_tlc(r, f"finite-difference and compositionality laws + emission; <= {maxterms} terms")
    cases = read_emitted(out)
    if len(cases) != r.distinct:
        raise MachineryError(f"emission incomplete: {len(cases)} of {r.distinct}")
    res = pmap("harness.props.c20", "replay_case", cases, chunk=400)
    for c, bad in zip(cases, res):
        ctx.traces += 1
        ctx.evaluations += 1
        if any(d not in (["0"], ["1"]) for d in c["d"]):
            ctx.nontrivial.add(jhash([c["terms"], c["wrt"], c["icpt"]]))
        for b in bad:
            ctx.violation({"formula": b["formula"], "wrt": b.get("wrt")}, b, kind="replay")
    for c in [c for c in cases if len(c["terms"]) == maxterms and len(c["wrt"]) == 2][:2]:
        ctx.sample({"terms": c["f"], "wrt": c["wrt"], "derivative": c["d"], "columns": c["cols"]})
    out.unlink()

    def family(alphabet, mt, mp, what, ordering="degree", maxwrt=2):
        out.unlink(missing_ok=True)
        r = run_tlc("MC_Calculus", cfg_of(mt, alphabet, mp, "spec", ordering, maxwrt), tag="c20", env={"OUT_FILE": str(out)}, timeout=3400)
        if r.violated:
            ctx.model_violation(r, f"MC_Calculus ({alphabet}, ordering {ordering})")
        ctx.add_tlc(r, what)
        cs = read_emitted(out)
        out.unlink()
        if len(cs) != r.distinct:
            raise MachineryError(f"emission incomplete ({alphabet}): {len(cs)} of {r.distinct}")
        for c in cs:
            c["alphabet"] = alphabet
        return cs

    def refuted(alphabet, mt, mp, variant, why, ordering="degree"):
        v = run_tlc("MC_Calculus", cfg_of(mt, alphabet, mp, variant, ordering).replace("Emit = TRUE", "Emit = FALSE"), tag="c20", timeout=3400)
        if "Laws" not in v.violated:
            raise MachineryError(f"MC_Calculus: the design error {variant!r} does not violate Laws on the {alphabet!r} family - {why}")
        ctx.notes.setdefault("design_errors_refuted", []).append(f"{variant} ({alphabet} alphabet" + (f", ordering {ordering})" if ordering != "degree" else ")"))

    # factors the formula does not report as required variables (a column called like a transform, a python factor, a quoted name):
    # to the calculus they are factors like any other.  The family must tell the fast path over required_variables from the calculus.
    shadow = family("shadow", maxterms, 1, f"the laws + emission over the factors {{scale, I(x1), `my var`}} (not among the required variables of the formula); <= {maxterms} terms")
    refuted("shadow", 1, 1, "required", "no factor of the family is missing from the required variables")
    res = pmap("harness.props.c20", "replay_case", shadow, chunk=400)
    for c, bad in zip(shadow, res):
        ctx.traces += 1
        ctx.evaluations += 1
        if any(d not in (["0"], ["1"]) for d in c["d"]):
            ctx.nontrivial.add(jhash(["shadow", c["terms"], c["wrt"], c["icpt"]]))
        for b in bad:
            ctx.violation({"formula": b["formula"], "wrt": b.get("wrt")}, b, kind="replay")
    # the ordering mode of the formula: the derivative is term-wise in the formula's own order, whatever the mode
    owrt = 1        # (both tiers: successive differentiation is the default family's matter; two more variables would triple the thorough tier)
    for mode in ("none", "sort"):
        ordered = family("plain", maxterms, 1, f"the laws + emission for the formulas built with _ordering={mode!r}; <= {maxterms} terms, <= {owrt} differentiation variables",
                         ordering=mode, maxwrt=owrt)
        if any(c.get("ordering") != mode for c in ordered):
            raise MachineryError(f"the cases of the ordering family {mode!r} do not carry the mode")
        res = pmap("harness.props.c20", "replay_case", ordered, chunk=400)
        for c, bad in zip(ordered, res):
            ctx.traces += 1
            ctx.evaluations += 1
            if any(d not in (["0"], ["1"]) for d in c["d"]):
                ctx.nontrivial.add(jhash(["ordering", mode, c["terms"], c["wrt"], c["icpt"]]))
            for b in bad:
                ctx.violation({"formula": b["formula"], "wrt": b.get("wrt")}, b, kind="replay")
    refuted("plain", 2, 1, "reordered", "no formula of the family has a derivative out of the order of its mode", ordering="sort")
    # structured formulas: the parts are differentiated independently, each with respect to the whole tuple
    sterms, sparts = (3, 3) if ctx.quick else (4, 3)
    structured = family("pair", sterms, sparts, f"the laws of every part + emission; structured formulas of <= {sparts} parts, <= {sterms} terms in all, over {{x1, scale}}")
    refuted("pair", 2, 2, "consumed", "no formula of the family has a second part holding a variable")
    res = pmap("harness.props.c20", "replay_structured", structured, chunk=100)
    for c, bad in zip(structured, res):
        ctx.traces += 1
        ctx.evaluations += 1
        if len(c["parts"]) > 1 and any(d != ["0"] for p in c["parts"][1:] for d in p["d"]):
            ctx.nontrivial.add(jhash(["pair", [p["terms"] for p in c["parts"]], c["wrt"], c["icpt"]]))
        for b in bad:
            ctx.violation({"formula": b["formula"], "wrt": b.get("wrt")}, b, kind="replay")
    for c in [c for c in structured if len(c["parts"]) == 3 and len(c["wrt"]) == 1 and c["wrt"][0] == "scale"][:1]:
        ctx.sample({"parts": [p["f"] for p in c["parts"]], "wrt": c["wrt"], "derivative": [p["d"] for p in c["parts"]]})
    ctx.exhaustive = True


def replay(path: str) -> int:
    from formulaic import Formula

    rec = json.load(open(path))
    c = rec["case"]
    src = c["formula"].split(" (+ ")[0]
    F = eval(src, {"Formula": Formula}) if src.startswith("Formula(") else Formula(src)    # the keyword spellings of a structured formula / an ordering mode are written as the call
    print(c["formula"], c["wrt"], "->", _sig(F.differentiate(*(c["wrt"] or []))))
    print("detail:", rec["detail"])
    return 0
