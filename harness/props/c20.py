"""C20 - formula differentiation is the term-wise partial derivative.

Leg M: TLC checks on every formula in the bound (MC_Calculus): term count/order preserved,
       the exact finite-difference law of every multilinear term on integer rows for h = 1, 2,
       and compositionality of successive differentiation.
Leg R: every enumerated (formula, variable tuple) goes through Formula.differentiate and
       ModelSpec.differentiate; term lists are compared; derivative terms are materialised on
       the model's integer rows and compared with the model's exact columns and with the
       finite difference of the materialised original term.
"""
from __future__ import annotations

import json

import numpy

from ..common import Ctx, pmap, jhash
from ..tlc import MachineryError, read_emitted, run_tlc, workdir

ROWS = [dict(x1=2, yy=3, z=-1, w=5, v0=7), dict(x1=0, yy=-2, z=4, w=1, v0=1), dict(x1=3, yy=3, z=2, w=-3, v0=0)]
MATERIALISE_MOD = 1


def _frame(shift=None):
    import pandas

    d = {k: [float(r[k]) for r in ROWS] for k in ROWS[0]}
    if shift:
        d[shift[0]] = [a + shift[1] for a in d[shift[0]]]
    return pandas.DataFrame(d)


def _terms(f):
    return [[fac.expr for fac in t.factors] for t in f]


def _col(term, df):
    from formulaic.formula import SimpleFormula

    mm = SimpleFormula([term], _ordering="none").get_model_matrix(df, output="numpy")
    a = numpy.asarray(mm)
    if a.shape[1] != 1:
        return None
    return [float(v) for v in a[:, 0]]


def replay_case(case):
    from formulaic import Formula, ModelSpec

    body = " + ".join(":".join(t) for t in case["terms"])
    s = (body if body else "1") if case["icpt"] else ("0 + " + body if body else "0")
    bad = []
    try:
        F = Formula(s)
        if _terms(F) != case["f"]:
            return [{"formula": s, "why": "setup: formula terms differ from the model", "observed": _terms(F), "expected": case["f"]}]
        D = F.differentiate(*case["wrt"])
        got = _terms(D)
        if got != case["d"]:
            bad.append({"formula": s, "wrt": case["wrt"], "why": "derivative-terms-differ", "observed": got, "expected": case["d"]})
        D2 = ModelSpec(formula=F).differentiate(*case["wrt"]).formula
        if _terms(D2) != case["d"]:
            bad.append({"formula": s, "wrt": case["wrt"], "why": "ModelSpec.differentiate-differs", "observed": _terms(D2), "expected": case["d"]})
        # compositionality (a theorem of MC_Calculus): differentiating successively is differentiating with respect to the tuple;
        # the intermediate formula holds repeated terms (several 0s), and a formula is a list: term i of the result belongs to term i
        if len(case["wrt"]) == 2:
            step = F.differentiate(case["wrt"][0]).differentiate(case["wrt"][1])
            if _terms(step) != case["d"]:
                bad.append({"formula": s, "wrt": case["wrt"], "why": "successive-differentiation-differs", "observed": _terms(step), "expected": case["d"]})
        if case["wrt"] and len(F) >= 2:
            from formulaic.formula import SimpleFormula

            dup = SimpleFormula(list(F) + [F[0], F[len(F) - 1]], _ordering="none").differentiate(*case["wrt"])
            if _terms(dup) != case["d"] + [case["d"][0], case["d"][-1]]:
                bad.append({"formula": s + " (+ first and last term repeated)", "wrt": case["wrt"], "why": "derivative-of-a-formula-with-repeated-terms-differs",
                            "observed": _terms(dup), "expected": case["d"] + [case["d"][0], case["d"][-1]]})
        if not bad and int(jhash([case["terms"], case["wrt"], case["icpt"]])[:6], 16) % MATERIALISE_MOD == 0:
            df = _frame()
            # the spec attached to a materialized matrix differentiates like the formula: its metadata follows the new formula
            import numpy
            from formulaic import model_matrix

            if case["wrt"] and len(F) >= 1:
                ms = model_matrix(F, df, context={}).model_spec
                dms = ms.differentiate(*case["wrt"])
                if _terms(dms.formula) != case["d"]:
                    bad.append({"formula": s, "wrt": case["wrt"], "why": "materialized-ModelSpec.differentiate-differs", "observed": _terms(dms.formula), "expected": case["d"]})
                else:
                    for fr in (False, True):        # purely numeric terms: rank reduction has nothing to reduce
                        try:
                            got_m = numpy.asarray(dms.get_model_matrix(df, context={}, ensure_full_rank=fr, output="numpy"), dtype=float)
                            want_m = numpy.array([[float(case["cols"][i][r]) for i in range(len(case["d"]))] for r in range(len(case["cols"][0]))]) if case["d"] else numpy.zeros((3, 0))
                            if fr:      # with rank reduction repeated zero terms share one zero column: every NON-ZERO derivative term must have its column
                                missing = [case["d"][i] for i in range(len(case["d"])) if case["d"][i] != ["0"]
                                           and not any(numpy.array_equal(got_m[:, j], want_m[:, i]) for j in range(got_m.shape[1]))]
                                if got_m.shape[0] != want_m.shape[0] or missing:
                                    bad.append({"formula": s, "wrt": case["wrt"], "why": "a non-zero derivative term has no column under the default options (ensure_full_rank=True)",
                                                "terms_without_column": missing, "observed": got_m.tolist(), "expected": want_m.tolist()})
                            elif got_m.shape != want_m.shape or not numpy.array_equal(got_m, want_m):
                                bad.append({"formula": s, "wrt": case["wrt"], "why": f"matrix-of-the-differentiated-materialized-spec-differs (ensure_full_rank={fr})",
                                            "observed": got_m.tolist(), "expected": want_m.tolist()})
                        except Exception as e:  # noqa
                            bad.append({"formula": s, "wrt": case["wrt"], "why": "materializing-the-differentiated-spec-fails", "observed": type(e).__name__ + ": " + str(e)[:150]})
            for i, t in enumerate(D):
                if case["d"][i] == ["0"]:
                    continue
                col = _col(t, df)
                if col != [float(v) for v in case["cols"][i]]:
                    bad.append({"formula": s, "wrt": case["wrt"], "why": "derivative-column-differs", "term": case["d"][i], "observed": col, "expected": case["cols"][i]})
                if len(case["wrt"]) == 1 and case["wrt"][0] in case["f"][i]:
                    v = case["wrt"][0]
                    for h in (1.0, 2.0):
                        c0, c1 = _col(F[i], df), _col(F[i], _frame((v, h)))
                        fd = [(b - a) / h for a, b in zip(c0, c1)]
                        if fd != col:
                            bad.append({"formula": s, "wrt": case["wrt"], "why": "finite-difference-differs", "term": case["f"][i], "h": h, "observed": col, "expected": fd})
    except Exception as e:  # noqa
        bad.append({"formula": s, "wrt": case["wrt"], "why": "exception:" + type(e).__name__, "msg": str(e)[:200]})
    return bad


def run(ctx: Ctx) -> None:
    global MATERIALISE_MOD
    ctx.rule = ("every formula of <= MaxTerms distinct terms over {x1,yy,z,w} (each optionally scaled by the literal 2, with or without intercept) x "
                "every tuple of <= 2 differentiation variables from {x1,yy,z,w,v0}; non-trivial = some derivative term is neither 0 nor 1")
    ctx.trusted = ["materialisation of a single numeric term (C02 decides that separately)", "TLC"]
    maxterms = 2 if ctx.quick else 3
    MATERIALISE_MOD = 4 if ctx.quick else 16
    out = workdir("c20") / "cases.ndjson"
    out.unlink(missing_ok=True)
    cfg = f"SPECIFICATION Spec\nCONSTANTS\n  MaxTerms = {maxterms}\n  Emit = TRUE\nINVARIANT Laws\nINVARIANT EmitCase\n"
    r = run_tlc("MC_Calculus", cfg, tag="c20", env={"OUT_FILE": str(out)}, timeout=3400)
    if r.violated:
        ctx.model_violation(r, "MC_Calculus")
    ctx.add_tlc(r, f"finite-difference and compositionality laws + emission; <= {maxterms} terms")
    cases = read_emitted(out)
    if len(cases) != r.distinct:
        raise MachineryError(f"emission incomplete: {len(cases)} of {r.distinct}")
    res = pmap("harness.props.c20", "replay_case", cases, chunk=400)
    for c, bad in zip(cases, res):
        ctx.traces += 1
        ctx.evaluations += 1
        if any(d not in (["0"], ["1"]) for d in c["d"]):
            ctx.nontrivial.add(jhash([c["terms"], c["wrt"], c["icpt"]]))
        for b in bad:
            ctx.violation({"formula": b["formula"], "wrt": b.get("wrt")}, b, kind="replay")
    for c in [c for c in cases if len(c["terms"]) == maxterms and len(c["wrt"]) == 2][:2]:
        ctx.sample({"terms": c["f"], "wrt": c["wrt"], "derivative": c["d"], "columns": c["cols"]})
    ctx.exhaustive = True
    out.unlink()


def replay(path: str) -> int:
    from formulaic import Formula

    rec = json.load(open(path))
    c = rec["case"]
    print(c["formula"], c["wrt"], "->", _terms(Formula(c["formula"]).differentiate(*(c["wrt"] or []))))
    print("detail:", rec["detail"])
    return 0
