"""C04 - a model spec replays the recorded encoding row by row on any data.

Leg M: TLC checks (MC_Reuse) self-replay, that names are a function of the spec alone and
       row-locality: for every selection / duplication / reordering of follow-up rows the rebuilt
       rows are the corresponding rows of the whole rebuild (exact sub-domain: treatment / sum /
       helmert codings, center(), literal scales, integer data).
Leg R: every case (incl. every row selection of length <= MaxSel) is executed with the attached
       spec and with its pickled copy, through spec.get_model_matrix and model_matrix(spec, ...),
       and compared with the model.
Leg T: for the transforms whose values are not exact (scale, standardize, poly, bs, cr, cc,
       C(..., contr.poly), nested per-level state) histories (train, follow-up, row sequence,
       pickled or not) are executed and logged with a row-correspondence witness; TLC
       (Trace_Session) checks that the witnesses contain the correspondence the model requires.
"""
from __future__ import annotations

import json
import pickle
import random

import numpy

from ..common import Ctx, pmap, jhash
from ..tlc import MachineryError, read_emitted, run_tlc, workdir
from .. import reuselib

INEXACT = ["scale(a)", "scale(a, ddof=0)", "center(a) + scale(b)", "poly(a, 2)", "poly(a, 3):A", "bs(a, df=4)", "bs(a, df=5, degree=2, include_intercept=True)",
           "cr(a, df=3)", "cc(a, df=3)", "cr(a, df=4, constraints='center')", "C(A, contr.poly)", "C(A, contr.diff) + scale(a)", "C(A, contr.helmert(scale=True)):b",
           "standardize(a)", "bs(a, df=4):A", "np.log(b) + exp2(a)", "I(a * b) + {a + 1}", "lag(a) + a",
           "hashed(A, levels=4) + a", "hashed(b, levels=3):a", "I(scale(a) * scale(a))", "I(poly(a, 1) + poly(a, 1))", "I(scale(a) * scale(b)) + scale(a)", "I(center(scale(a)) - scale(a))"]
NOT_ROW_LOCAL = {"lag(a) + a"}   # lag is defined across rows: excluded by the property


def session_record(job):
    """one history: fit on training data, reuse on follow-up data and on a row sequence of it, optionally pickled."""
    import pandas
    from formulaic import model_matrix

    i, formula, seed, pickled = job
    rng = random.Random(seed)
    n = rng.randint(6, 12)
    lv = ["x", "y", "z"]
    T = pandas.DataFrame({"a": [round(rng.uniform(-3, 3), 2) for _ in range(n)], "b": [round(rng.uniform(0.5, 5), 2) for _ in range(n)],
                          "A": pandas.Series([lv[j % 3] for j in range(n)], dtype=object)})
    m = rng.randint(3, 8)
    lo, hi = min(T["a"]), max(T["a"])
    U = pandas.DataFrame({"a": [round(rng.uniform(lo, hi), 2) for _ in range(m)], "b": [round(rng.uniform(0.5, 5), 2) for _ in range(m)],
                          "A": pandas.Series([rng.choice(lv[: rng.randint(1, 3)]) for _ in range(m)], dtype=object)})
    r = [rng.randrange(m) for _ in range(rng.randint(1, 5))]
    rec = {"id": i, "formula": formula, "pickled": pickled, "sel": r, "m": m}
    try:
        fit = model_matrix(formula, T, context={})
        spec = fit.model_spec
        if pickled:
            spec = pickle.loads(pickle.dumps(spec))
        again = spec.get_model_matrix(T, context={})
        whole = spec.get_model_matrix(U, context={})
        part = spec.get_model_matrix(U.iloc[r].reset_index(drop=True), context={})
        # the empty selection of follow-up rows is a selection: no rows, the recorded columns
        none = spec.get_model_matrix(U.iloc[[]], context={})
        rec["empty_ok"] = (numpy.asarray(none, dtype=float).shape == (0, len(spec.column_names))) and list(none.model_spec.column_names) == list(spec.column_names)
    except Exception as e:  # noqa
        rec["exc"] = type(e).__name__ + ": " + str(e)[:120]
        return rec
    A0, A1, W, P = (numpy.asarray(x, dtype=float) for x in (fit, again, whole, part))

    def close(u, v):
        return u.shape == v.shape and bool(numpy.allclose(u, v, rtol=1e-9, atol=1e-9, equal_nan=True))

    rec["self_replay"] = close(A0, A1)
    rec["names_fit"] = list(fit.model_spec.column_names)
    rec["names_whole"] = list(whole.model_spec.column_names)
    rec["names_part"] = list(part.model_spec.column_names)
    rec["rows_whole"] = int(W.shape[0])
    rec["rows_part"] = int(P.shape[0])
    # witness: for each output row of the selected build, the rows of the whole build it equals (within 1e-9)
    rec["witness"] = [[j for j in range(W.shape[0]) if close(P[k], W[j])] for k in range(P.shape[0])] if P.shape[1] == W.shape[1] else []
    return rec


def run(ctx: Ctx) -> None:
    ctx.rule = ("exact leg: 3 training frames x 10 follow-up frames x 11 formulas (incl. one stateful call used twice inside one python factor) x every row sequence of length <= MaxSel over the follow-up rows, spec and "
                "pickled spec, two entry points; relation leg: 18 formulas over the inexact built-in transforms x random histories; non-trivial = "
                "row sequence with a duplicate or a reordering")
    ctx.trusted = ["gamma/alpha of the materializer family", "numpy.allclose(rtol=atol=1e-9) as the row-equality predicate of the relation leg", "TLC"]
    maxsel = 2 if ctx.quick else 3
    cases = reuselib.run_model(ctx, "c04", maxsel, ["SelfReplay", "NamesFromSpecAlone", "RowLocal"])
    res = pmap("harness.reuselib", "replay_case", cases, chunk=40)
    for c, (bad, n) in zip(cases, res):
        ctx.traces += n
        ctx.evaluations += n
        if len(c["sel"]) >= 2 and (len(set(c["sel"])) < len(c["sel"]) or c["sel"] != sorted(c["sel"])):
            ctx.nontrivial.add(jhash([c["t"], c["u"], c["formula"], c["sel"]]))
        for b in bad:
            ctx.violation({k: b.get(k) for k in ("formula", "t", "u", "sel", "spec", "path")} | {"clause": b["clause"]}, b, kind="replay")
    for c in [c for c in cases if c["u"] == 1 and c["sel"] == [3, 1] and c["formula"] == "A:a"][:1]:
        ctx.sample({"formula": c["formula"], "row_sequence": c["sel"], "whole": c["whole"]["cells"], "selected": c["picked"]["cells"]})
    # ---- relation leg
    rng = random.Random(97 * ctx.seed + 1)
    per = 12 if ctx.quick else 150
    jobs = [(k + 1, f, rng.randrange(10**9), bool(k % 2)) for k, f in enumerate([f for f in INEXACT for _ in range(per)])]
    recs = pmap("harness.props.c04", "session_record", jobs, chunk=20)
    good = [r for r in recs if "exc" not in r]
    for r in recs:
        if "exc" in r:
            ctx.violation({"formula": r["formula"], "history": "fit/reuse"}, {"clause": "exception", "observed": r["exc"]}, kind="trace")
    tf, rf = workdir("c04") / "session.json", workdir("c04") / "rej.ndjson"
    tf.write_text(json.dumps([{**r, "row_local": r["formula"] not in NOT_ROW_LOCAL} for r in good]))
    rf.unlink(missing_ok=True)
    t = run_tlc("Trace_Session", "SPECIFICATION Spec\nINVARIANT Check\n", tag="c04t", env={"TRACE_FILE": str(tf), "REJ_FILE": str(rf)}, timeout=1800)
    if t.violated or t.distinct != len(good):
        raise MachineryError(f"Trace_Session did not consume the batch ({t.distinct}/{len(good)})")
    ctx.add_tlc(t, "Trace_Session: reuse histories of the inexact transforms")
    rejected = {x["id"]: x["verdict"] for x in read_emitted(rf)}
    byid = {r["id"]: r for r in good}
    for r in good:
        ctx.traces += 1
        ctx.evaluations += 1
        v = rejected.get(r["id"], "")
        if v:
            ctx.violation({"formula": r["formula"], "pickled": r["pickled"], "sel": r["sel"]}, {"clause": v, "witness": r["witness"], "names": r["names_whole"]}, kind="trace")
        elif r.get("empty_ok") is False:
            ctx.violation({"formula": r["formula"], "pickled": r["pickled"], "sel": []}, {"clause": "the empty selection of rows does not give a 0-row matrix with the recorded columns"}, kind="trace")
        elif len(set(r["sel"])) < len(r["sel"]):
            ctx.nontrivial.add(("T", r["id"]))
    ctx.notes["relation_leg_histories"] = len(good)
    ctx.require("relation leg: histories judged by Trace_Session", len(good), len(jobs) // 2)
    tf.unlink()
    rf.unlink(missing_ok=True)
    ctx.exhaustive = True


def replay(path: str) -> int:
    rec = json.load(open(path))
    print(json.dumps(rec["detail"], indent=1)[:3000])
    return 0
