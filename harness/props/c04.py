"""C04 - a model spec replays the recorded encoding row by row on any data.

Leg M: TLC checks (MC_Reuse) self-replay, that names are a function of the spec alone and
       row-locality: for every selection / duplication / reordering of follow-up rows the rebuilt
       rows are the corresponding rows of the whole rebuild (exact sub-domain: treatment / sum /
       helmert codings, center(), literal scales, integer data).
Leg R: every case (incl. every row selection of length <= MaxSel) is executed with the attached
       spec and with its pickled copy, through spec.get_model_matrix and model_matrix(spec, ...),
       and compared with the model.
Leg T: for the transforms whose values are not exact (scale, standardize, poly, bs, cr, cc,
       C(..., contr.poly), nested per-level state) histories (train, follow-up, row sequence,
       pickled or not) are executed and logged with a row-correspondence witness; TLC
       (Trace_Session) checks that the witnesses contain the correspondence the model requires.
Leg H: histories of calls on ONE spec object ("any sequence of follow-up data sets"): TLC (ReuseHistory) enumerates
       training frames whose recorded statistic is exactly zero (minimum / maximum / mean; and a frame with none) x
       transform families (which recorded components they read) x every sequence of MaxCalls follow-up frames (row
       sequences of the training frame: whole, without the rows at a bound, interior, only the bounds, one level,
       reordered with a duplicate) x the call before which the spec is pickled, proves that no call depends on the
       calls before it and that the spec is never written, refutes two seeded design errors (a zero statistic taken
       for a missing one and refreshed in the shared spec; state relearned per call), and emits per call the rows of
       the fit each output row equals; every spelling of the family is executed through the history and compared.
"""
from __future__ import annotations

import json
import pickle
import random

import numpy

from ..common import Ctx, pmap, jhash
from ..tlc import MachineryError, read_emitted, run_tlc, workdir
from .. import reuselib

INEXACT = ["scale(a)", "scale(a, ddof=0)", "center(a) + scale(b)", "poly(a, 2)", "poly(a, 3):A", "bs(a, df=4)", "bs(a, df=5, degree=2, include_intercept=True)",
           "cr(a, df=3)", "cc(a, df=3)", "cr(a, df=4, constraints='center')", "C(A, contr.poly)", "C(A, contr.diff) + scale(a)", "C(A, contr.helmert(scale=True)):b",
           "standardize(a)", "bs(a, df=4):A", "np.log(b) + exp2(a)", "I(a * b) + {a + 1}", "lag(a) + a",
           "hashed(A, levels=4) + a", "hashed(b, levels=3):a", "I(scale(a) * scale(a))", "I(poly(a, 1) + poly(a, 1))", "I(scale(a) * scale(b)) + scale(a)", "I(center(scale(a)) - scale(a))"]
NOT_ROW_LOCAL = {"lag(a) + a"}   # lag is defined across rows: excluded by the property


def session_record(job):
    """one history: fit on training data, reuse on follow-up data and on a row sequence of it, optionally pickled."""
    import pandas
    from formulaic import model_matrix

    i, formula, seed, pickled = job
    rng = random.Random(seed)
    n = rng.randint(6, 12)
    lv = ["x", "y", "z"]
    T = pandas.DataFrame({"a": [round(rng.uniform(-3, 3), 2) for _ in range(n)], "b": [round(rng.uniform(0.5, 5), 2) for _ in range(n)],
                          "A": pandas.Series([lv[j % 3] for j in range(n)], dtype=object)})
    m = rng.randint(3, 8)
    lo, hi = min(T["a"]), max(T["a"])
    U = pandas.DataFrame({"a": [round(rng.uniform(lo, hi), 2) for _ in range(m)], "b": [round(rng.uniform(0.5, 5), 2) for _ in range(m)],
                          "A": pandas.Series([rng.choice(lv[: rng.randint(1, 3)]) for _ in range(m)], dtype=object)})
    r = [rng.randrange(m) for _ in range(rng.randint(1, 5))]
    rec = {"id": i, "formula": formula, "pickled": pickled, "sel": r, "m": m}
    try:
        fit = model_matrix(formula, T, context={})
        spec = fit.model_spec
        if pickled:
            spec = pickle.loads(pickle.dumps(spec))
        again = spec.get_model_matrix(T, context={})
        whole = spec.get_model_matrix(U, context={})
        part = spec.get_model_matrix(U.iloc[r].reset_index(drop=True), context={})
        # the empty selection of follow-up rows is a selection: no rows, the recorded columns
        none = spec.get_model_matrix(U.iloc[[]], context={})
        rec["empty_ok"] = (numpy.asarray(none, dtype=float).shape == (0, len(spec.column_names))) and list(none.model_spec.column_names) == list(spec.column_names)
    except Exception as e:  # noqa
        rec["exc"] = type(e).__name__ + ": " + str(e)[:120]
        return rec
    A0, A1, W, P = (numpy.asarray(x, dtype=float) for x in (fit, again, whole, part))

    def close(u, v):
        return u.shape == v.shape and bool(numpy.allclose(u, v, rtol=1e-9, atol=1e-9, equal_nan=True))

    rec["self_replay"] = close(A0, A1)
    rec["names_fit"] = list(fit.model_spec.column_names)
    rec["names_whole"] = list(whole.model_spec.column_names)
    rec["names_part"] = list(part.model_spec.column_names)
    rec["rows_whole"] = int(W.shape[0])
    rec["rows_part"] = int(P.shape[0])
    # witness: for each output row of the selected build, the rows of the whole build it equals (within 1e-9)
    rec["witness"] = [[j for j in range(W.shape[0]) if close(P[k], W[j])] for k in range(P.shape[0])] if P.shape[1] == W.shape[1] else []
    return rec


# gamma of the transform families of ReuseHistory: every spelling reads exactly the recorded components the family names
HIST_GAMMA = {
    "bounds": ["bs(a, df=4)", "bs(a, df=4, extrapolation='clip')", "bs(a, df=5, degree=2, include_intercept=True, extrapolation='extend')",
               "cr(a, df=3)", "cc(a, df=3)", "cr(a, df=4, constraints='center')"],
    "centre": ["center(a)", "scale(a)", "standardize(a)", "poly(a, 2)"],
    "levels": ["A", "C(A, contr.poly)", "0 + C(A, contr.sum)"],
    "bounds+levels": ["bs(a, df=4):A", "cr(a, df=3, extrapolation='clip'):C(A, contr.helmert)"],
    "centre+levels": ["center(a):A", "C(A, contr.diff) + scale(a)"],
    "bounds+centre": ["bs(a, df=4) + center(a)", "cc(a, df=3):scale(a)"],
}


def spec_fingerprint(spec) -> str:
    return repr(sorted((k, repr(v)) for k, v in spec.transform_state.items())) + repr(spec.column_names) + repr(sorted((k, repr(v)) for k, v in spec.encoder_state.items()))


def replay_history(case):
    """one emitted history, once per spelling of its family: fit, then the calls in order on the SAME spec object (pickled and restored
    before call pk); every call must succeed and give, row by row, the rows of the matrix of the fit the model names; the spec is never written."""
    import pandas
    from formulaic import model_matrix

    T = pandas.DataFrame({"a": [float(v) for v in case["a"]], "A": pandas.Series(case["A"], dtype=object)})
    bad, n = [], 0

    def close(u, v):
        return u.shape == v.shape and bool(numpy.allclose(u, v, rtol=1e-9, atol=1e-9, equal_nan=True))

    for formula in HIST_GAMMA["+".join(case["family"])]:
        base = {"formula": formula, "tr": case["tr"], "a": case["a"], "history": [c["sel"] for c in case["calls"]], "pickled_before_call": case["pk"]}
        try:
            fit = model_matrix(formula, T, context={})
            spec = fit.model_spec
            F, names, fp = numpy.asarray(fit, dtype=float), list(spec.column_names), spec_fingerprint(spec)
        except Exception as e:  # noqa
            bad.append({**base, "clause": "history:fit-failed", "observed": type(e).__name__ + ": " + str(e)[:120]})
            continue
        n += 1
        for k, call in enumerate(case["calls"], start=1):
            if case["pk"] == k:
                spec = pickle.loads(pickle.dumps(spec))
            D = T.iloc[[i - 1 for i in call["sel"]]]          # keeps the (repeated, unordered) row labels of the selection ...
            if (k + case["tr"]) % 2:
                D = D.reset_index(drop=True)                  # ... half of the time
            b = {**base, "call": k, "sel": call["sel"]}
            n += 1
            try:
                mm = spec.get_model_matrix(D, context={}) if (k + len(call["sel"])) % 2 else model_matrix(spec, D, context={})
                G = numpy.asarray(mm, dtype=float)
            except Exception as e:  # noqa
                if call["st"] == "OK":
                    bad.append({**b, "clause": "history:unexpected-error", "observed": type(e).__name__ + ": " + str(e)[:120]})
                continue
            if list(mm.model_spec.column_names) != names or G.shape != (len(call["sel"]), len(names)):
                bad.append({**b, "clause": "history:column-names-or-shape", "observed": [list(mm.model_spec.column_names), list(G.shape)], "expected": [names, [len(call["sel"]), len(names)]]})
                continue
            wrong = [[i + 1, j] for i, js in enumerate(call["eq"]) for j in js if not close(G[i], F[j - 1])]
            if wrong:
                i, j = wrong[0]
                bad.append({**b, "clause": "history:row-differs-from-the-row-of-the-fit", "pairs(output row, row of the fit)": wrong[:6],
                            "observed": G[i - 1].tolist(), "expected": F[j - 1].tolist()})
        if spec_fingerprint(spec) != fp:
            bad.append({**base, "clause": "history:reuse-changed-the-spec"})
    return bad, n


def history_leg(ctx: Ctx, maxcalls: int) -> None:
    out = workdir("c04") / "histories.ndjson"
    out.unlink(missing_ok=True)
    cfg = (f'SPECIFICATION Spec\nCONSTANTS\n  Variant = "recorded"\n  MaxCalls = {maxcalls}\n  PkMin = {2 if ctx.quick else 1}\n  Emit = TRUE\n'
           "INVARIANT Frozen\nINVARIANT HistoryFree\nINVARIANT RowsOfTheFit\nINVARIANT Covering\nINVARIANT EmitCase\n")
    r = run_tlc("ReuseHistory", cfg, tag="c04h", env={"OUT_FILE": str(out)}, timeout=3000)
    if r.violated:
        ctx.model_violation(r, "ReuseHistory")
    ctx.add_tlc(r, f"histories of <= {maxcalls} replays of one spec object (zero-valued recorded statistics, follow-up frames lacking a bound / a level, "
                   "pickling between calls): the spec is never written, no call depends on the calls before it, output rows are rows of the fit")
    # the laws are not vacuous on the bounded family: TLC finds both seeded design errors
    for variant in ("refresh-falsy", "relearn"):
        v = run_tlc("ReuseHistory", cfg.replace('"recorded"', f'"{variant}"').replace("Emit = TRUE", "Emit = FALSE").replace("INVARIANT Frozen\n", ""), tag="c04h", timeout=3000)
        if "HistoryFree" not in v.violated:
            raise MachineryError(f"ReuseHistory variant {variant} does not violate HistoryFree: the bounded family is vacuous")
        ctx.notes[f"history_model_variant_{variant}"] = "violates " + ",".join(v.violated)
    cases = read_emitted(out)
    out.unlink()
    if len(cases) != r.distinct:
        raise MachineryError(f"emission incomplete: {len(cases)} of {r.distinct}")
    full = [c for c in cases if len(c["calls"]) == maxcalls]       # every shorter history is a prefix of these
    res = pmap("harness.props.c04", "replay_history", full, chunk=40)
    for c, (bad, n) in zip(full, res):
        ctx.traces += n
        ctx.evaluations += n
        if any(len(x["sel"]) != len(c["a"]) for x in c["calls"][:-1]):
            ctx.nontrivial.add(("H", jhash([c["tr"], c["family"], c["pk"], [x["sel"] for x in c["calls"]]])))
        for b in bad:
            ctx.violation({k: b.get(k) for k in ("formula", "tr", "history", "pickled_before_call", "call")} | {"clause": b["clause"]}, b, kind="replay")
    ctx.notes["history_leg_histories"] = len(full)
    ctx.require("history leg: histories replayed", len(full), 100)


def run(ctx: Ctx) -> None:
    ctx.rule = ("exact leg: 3 training frames x 10 follow-up frames x 11 formulas (incl. one stateful call used twice inside one python factor) x every row sequence of length <= MaxSel over the follow-up rows, spec and "
                "pickled spec, two entry points; relation leg: 18 formulas over the inexact built-in transforms x random histories; non-trivial = "
                "row sequence with a duplicate or a reordering; history leg: 4 training frames (minimum / maximum / mean exactly zero, none) x 6 transform families (21 spellings) x every sequence of "
                "MaxCalls of 7 follow-up frames x pickling between the calls (thorough: also before the first)")
    ctx.trusted = ["gamma/alpha of the materializer family", "numpy.allclose(rtol=atol=1e-9) as the row-equality predicate of the relation leg", "TLC"]
    maxsel = 2 if ctx.quick else 3
    cases = reuselib.run_model(ctx, "c04", maxsel, ["SelfReplay", "NamesFromSpecAlone", "RowLocal"])
    res = pmap("harness.reuselib", "replay_case", cases, chunk=40)
    for c, (bad, n) in zip(cases, res):
        ctx.traces += n
        ctx.evaluations += n
        if len(c["sel"]) >= 2 and (len(set(c["sel"])) < len(c["sel"]) or c["sel"] != sorted(c["sel"])):
            ctx.nontrivial.add(jhash([c["t"], c["u"], c["formula"], c["sel"]]))
        for b in bad:
            ctx.violation({k: b.get(k) for k in ("formula", "t", "u", "sel", "spec", "path")} | {"clause": b["clause"]}, b, kind="replay")
    for c in [c for c in cases if c["u"] == 1 and c["sel"] == [3, 1] and c["formula"] == "A:a"][:1]:
        ctx.sample({"formula": c["formula"], "row_sequence": c["sel"], "whole": c["whole"]["cells"], "selected": c["picked"]["cells"]})
    # ---- history leg
    history_leg(ctx, 2 if ctx.quick else 3)
    # ---- relation leg
    rng = random.Random(97 * ctx.seed + 1)
    per = 12 if ctx.quick else 150
    jobs = [(k + 1, f, rng.randrange(10**9), bool(k % 2)) for k, f in enumerate([f for f in INEXACT for _ in range(per)])]
    recs = pmap("harness.props.c04", "session_record", jobs, chunk=20)
    good = [r for r in recs if "exc" not in r]
    for r in recs:
        if "exc" in r:
            ctx.violation({"formula": r["formula"], "history": "fit/reuse"}, {"clause": "exception", "observed": r["exc"]}, kind="trace")
    tf, rf = workdir("c04") / "session.json", workdir("c04") / "rej.ndjson"
    tf.write_text(json.dumps([{**r, "row_local": r["formula"] not in NOT_ROW_LOCAL} for r in good]))
    rf.unlink(missing_ok=True)
    t = run_tlc("Trace_Session", "SPECIFICATION Spec\nINVARIANT Check\n", tag="c04t", env={"TRACE_FILE": str(tf), "REJ_FILE": str(rf)}, timeout=1800)
    if t.violated or t.distinct != len(good):
        raise MachineryError(f"Trace_Session did not consume the batch ({t.distinct}/{len(good)})")
    ctx.add_tlc(t, "Trace_Session: reuse histories of the inexact transforms")
    rejected = {x["id"]: x["verdict"] for x in read_emitted(rf)}
    byid = {r["id"]: r for r in good}
    for r in good:
        ctx.traces += 1
        ctx.evaluations += 1
        v = rejected.get(r["id"], "")
        if v:
            ctx.violation({"formula": r["formula"], "pickled": r["pickled"], "sel": r["sel"]}, {"clause": v, "witness": r["witness"], "names": r["names_whole"]}, kind="trace")
        elif r.get("empty_ok") is False:
            ctx.violation({"formula": r["formula"], "pickled": r["pickled"], "sel": []}, {"clause": "the empty selection of rows does not give a 0-row matrix with the recorded columns"}, kind="trace")
        elif len(set(r["sel"])) < len(r["sel"]):
            ctx.nontrivial.add(("T", r["id"]))
    ctx.notes["relation_leg_histories"] = len(good)
    ctx.require("relation leg: histories judged by Trace_Session", len(good), len(jobs) // 2)
    tf.unlink()
    rf.unlink(missing_ok=True)
    ctx.exhaustive = True


def replay(path: str) -> int:
    rec = json.load(open(path))
    print(json.dumps(rec["detail"], indent=1)[:3000])
    return 0
