"""C15 - lexing is whitespace-insensitive, quote-faithful, normalises Python, spans are faithful.

Leg M: TLC checks on every character string in the bound (MC_Lexer): spans ordered /
       well-formed / faithful, whitespace insensitivity at every operator/grouping boundary,
       and the exact law of verbatim backtick content.
Leg R: every enumerated string is tokenized by the real tokenize() and compared token for
       token (text, kind, start, end) with the model.
Leg T: recorded tokenizer executions on random formulas with Unicode names, brace/call
       fragments and re-spacings are validated by TLC (Trace_Lexer).
"""
from __future__ import annotations

import ast
import json
import random

from ..common import Ctx, pmap
from ..tlc import MachineryError, read_emitted, run_tlc, workdir
from .. import lexalpha


def _cfg(maxlen, alpha, emit, ws, invs):
    return ("SPECIFICATION Spec\nCONSTANTS\n"
            f"  MaxLen = {maxlen}\n  AlphaName = \"{alpha}\"\n  Emit = {'TRUE' if emit else 'FALSE'}\n  CheckWs = {'TRUE' if ws else 'FALSE'}\n"
            + "".join(f"INVARIANT {i}\n" for i in invs))


def replay_case(case):
    s = "".join(case["t"])
    obs = lexalpha.observe_tokens(s)
    if case["err"]:
        ok = obs["err"] == "REJECT"
    else:
        ok = obs["err"] == "" and obs["toks"] == case["toks"]
    if ok:
        return None
    return {"string": s, "expected": {"err": case["err"], "toks": case["toks"]}, "observed": obs}


def enumerated(ctx: Ctx, maxlen: int, alpha: str, ws: bool = True):
    out = workdir("c15") / f"lex-{alpha}-{maxlen}.ndjson"
    if out.exists():
        out.unlink()
    r = run_tlc("MC_Lexer", _cfg(maxlen, alpha, True, ws, ["SpansOK", "WsInsensitive", "VerbatimLaw", "FragmentLaw", "EmitCase"]),
                tag="c15", env={"OUT_FILE": str(out)}, timeout=3000)
    if r.violated:
        ctx.model_violation(r, f"MC_Lexer {alpha} <= {maxlen}")
    ctx.add_tlc(r, f"lexer theorems (spans, whitespace insensitivity, verbatim law) + emission; alphabet={alpha}, len<={maxlen}")
    cases = [c for c in read_emitted(out) if "t" in c]
    if len(cases) != r.distinct:
        raise MachineryError(f"emission incomplete: {len(cases)} of {r.distinct}")
    res = pmap("harness.props.c15", "replay_case", cases, chunk=2000)
    for c, m in zip(cases, res):
        ctx.traces += 1
        ctx.evaluations += 1
        if not c["err"] and len(c["toks"]) >= 2:
            ctx.nontrivial.add("".join(c["t"]))
        if m:
            ctx.violation({"string": m["string"]}, m, kind="replay")
    for c in cases[:: max(1, len(cases) // 2)][:2]:
        ctx.sample({"string": "".join(c["t"]), "model_tokens": c["toks"], "model_error": c["err"]})
    out.unlink()
    return cases


# ------------------------------------------------------------------ trace leg
UNI = ["é", "ß", "λ", "变量", "٣", "x̄", "🙂", "a b", "my|special$column!", "1a", "a.b", "x+y", "p(q)", "{z}", "'q'", '"w"', "%", "~", "a\\\\b",
       "\\\\", "c:d", " lead", "trail ", "a  b", "(", "]"]
PY = ["a+b", "np.log(a)", "f(a, b=1)", "a ** 2", "g('x)y')", "a[b]", "h(`x y`)", "(a+b)*c", "a if b else c", "[a, b][0]", "a<b", "d['k']"]


def reformat(expr: str, rng) -> list:
    """formatting variants of a python expression (same ast)."""
    outs = {expr, " " + expr + " ", expr.replace("+", " + ").replace("*", " * "), expr.replace(",", " , "),
            expr.replace("(", "( ").replace(")", " )"), expr.replace("  ", " ")}
    return [o for o in outs if _astclass(o) == _astclass(expr)]


def _astclass(fragment: str):
    """stdlib oracle for 'differ only in formatting': dump of the parsed fragment (backtick names aliased)."""
    import re

    aliased = re.sub(r"`([^`]*)`", lambda m: "_bt_" + "".join(ch if ch.isalnum() else "_%x_" % ord(ch) for ch in m.group(1)), fragment)
    try:
        return ast.dump(ast.parse(aliased.strip(), mode="eval"))
    except SyntaxError:
        return None


def build_records(seed: int, n: int) -> list:
    from .c01_trace import Gen
    from formulaic.parser.algos.sanitize_tokens import sanitize_tokens
    from formulaic.parser.algos.tokenize import tokenize

    rng = random.Random(7919 * seed + 3)
    g = Gen(rng)
    recs = []
    i = 0

    def add(r):
        nonlocal i
        i += 1
        r["id"] = i
        recs.append(r)

    for _ in range(n):
        s = g.formula()
        if rng.random() < 0.4:  # splice exotic quoted names / fragments
            name = rng.choice(UNI)
            s = s.replace("a", "`" + name + "`", 1) if rng.random() < 0.6 else s + " + {" + rng.choice(PY) + "}"
        o = lexalpha.observe_tokens(s)
        add({"kind": "lex", "s": s, "chars": lexalpha.chars_of(s), **o})
        if o["err"] == "" and s:
            for p in rng.sample(range(len(s) + 1), min(4, len(s) + 1)):
                s2 = s[:p] + " " + s[p:]
                o2 = lexalpha.observe_tokens(s2)
                add({"kind": "ws", "s": s, "p": p, "chars": lexalpha.chars_of(s), "toks": o["toks"], "err2": o2["err"], "toks2": o2["toks"]})
    # verbatim: random unicode names
    pool = UNI + ["".join(rng.choice("aé~+( )]{}'\"%\\|:.1 _^") for _ in range(rng.randint(1, 7))) for _ in range(n // 4)]
    for name in pool:
        if "`" in name:
            continue
        o = lexalpha.observe_tokens("`" + name + "`")
        add({"kind": "vb", "s": name, "chars": lexalpha.chars_of(name), **o})
    # python normalisation: fragments in several formattings -> factor expressions produced by the library
    for _ in range(max(3, n // 60)):
        exprs = rng.sample(PY, 4)
        frags = [v for e in exprs for v in reformat(e, rng)]
        cls_ids, outs = [], []
        classes = {}
        for fr in frags:
            for form in ("{" + fr + "}",):
                try:
                    toks = list(sanitize_tokens(tokenize(form)))
                except Exception:
                    continue
                if len(toks) != 1:
                    continue
                c = _astclass(fr)
                if c is None:
                    continue
                cls_ids.append(classes.setdefault(c, len(classes) + 1))
                outs.append(toks[0].token)
        if cls_ids:
            add({"kind": "py", "s": "|".join(frags), "cls": cls_ids, "exprs": outs})
    return recs


def trace_leg(ctx: Ctx, n: int):
    recs = build_records(ctx.seed, n)
    wd = workdir("c15")
    rejected = {}
    B = 5000
    for b in range(0, len(recs), B):
        batch = recs[b : b + B]
        tf, rf = wd / f"trace{b}.json", wd / f"rej{b}.ndjson"
        tf.write_text(json.dumps([{k: v for k, v in r.items() if k != "s"} for r in batch]))
        if rf.exists():
            rf.unlink()
        r = run_tlc("Trace_Lexer", "SPECIFICATION Spec\nINVARIANT Check\n", tag="c15t",
                    env={"TRACE_FILE": str(tf), "REJ_FILE": str(rf)}, timeout=1800)
        if r.violated or r.distinct != len(batch):
            raise MachineryError(f"Trace_Lexer did not consume the batch ({r.distinct}/{len(batch)}) {r.violated}")
        ctx.add_tlc(r, "Trace_Lexer batch")
        for x in read_emitted(rf):
            rejected[x["id"]] = x["verdict"]
        tf.unlink()
        rf.unlink(missing_ok=True)
    byid = {r["id"]: r for r in recs}
    kinds = {}
    for r in recs:
        v = rejected.get(r["id"], "")
        kinds[r["kind"]] = kinds.get(r["kind"], 0) + 1
        if v == "skip":
            continue
        ctx.traces += 1
        ctx.evaluations += 1
        if v == "":
            if r["kind"] in ("ws", "lex") and len(r.get("toks", [])) >= 3:
                ctx.nontrivial.add((r["kind"], r["s"], r.get("p")))
            continue
        if v.startswith("model:"):
            raise MachineryError(f"lexer model inconsistent on {r['s']!r}: {v}")
        case = {"string": r["s"], "kind": r["kind"]}
        if r["kind"] == "ws":
            case["p"] = r["p"]
        ctx.violation(case, {"verdict": v, "observed": {k: r.get(k) for k in ("err", "toks", "err2", "toks2", "exprs") if k in r}}, kind="trace")
    ctx.notes["trace_records_by_kind"] = kinds
    judged = {}
    for r in recs:
        if rejected.get(r["id"], "") != "skip":
            judged[r["kind"]] = judged.get(r["kind"], 0) + 1
    for kind in ("lex", "ws", "vb", "py"):
        ctx.require(f"trace leg: judged records of kind {kind}", judged.get(kind, 0), 3 if kind == "py" else 20)
    ctx.sample({"trace_record": {k: v for k, v in recs[0].items() if k != "chars"}})


def _m_backslash(match, case, detail):
    s = case.get("string", "")
    n = len(s) - len(s.rstrip("\\"))
    return case.get("kind") == "vb" and n % 2 == 1 and detail.get("verdict") == "not-referable"


MATCHERS = {"backtick_content_trailing_odd_backslashes": _m_backslash}


# ------------------------------------------------------------------ python normalisation (PyNorm.tla)
EXOTIC = ["\u00b5g", "\ufb01eld", "x\u00b2", "\u2460", "\u00aa", "\U0001d431", "\u00e9", "\u53d8\u91cf",
          "e\u0301t\u0065\u0301", "\u0301a", "A\u030a", "x_\u0301"]        # decomposed sequences: stable character by character, composed by Python as a whole
# further realisations of the model's class 'quoted name holding a backslash' (MC_PyNorm has a\b, a\\b, x\1, a\+b; variant "template" of
# PyNorm.tla is the design error they refute): what follows the backslash is, to a regex replacement template, a control character (t),
# a bad escape (d), a numbered / named group (1, g<0>), an octal code (0) - to the property it is a character of a column name
BACKSLASHED = ["tab\\there", "dir\\data", "x\\1", "p\\g<0>q", "n\\0", "\\\\srv\\c$", "\\a"]


def replay_pynorm(case):
    """One expression of MC_PyNorm: its canonical text and re-spacings of it, call-style and brace-quoted, must normalise to the
    model's normal form (quoted names verbatim), as one python token and as a factor of a parsed formula."""
    from formulaic import Formula
    from formulaic.parser.algos.sanitize_tokens import sanitize_tokens
    from formulaic.parser.algos.tokenize import tokenize

    import re

    text0, tight0 = case["text"], case.get("tight", case["text"])
    # the model's character classes are concretised further: one quoted name at a time is respelt with characters that Python's own
    # identifier rules treat specially (not NFKC-stable: micro sign, ligature, mathematical bold; word characters that are not identifier
    # characters: superscript, circled digit; plain non-ASCII letters)
    qnames = list(dict.fromkeys(case["qn"])) if "'`" not in text0 else []       # (a literal holding a backtick: no textual respelling)
    variants = [(text0, tight0, True)]
    for k, ex in enumerate(EXOTIC):
        if qnames and ex not in qnames:
            q = qnames[k % len(qnames)]
            variants.append((text0.replace("`" + q + "`", "`" + ex + "`"), tight0.replace("`" + q + "`", "`" + ex + "`"), False))
    for k, ex in enumerate(BACKSLASHED):
        if qnames and ex not in qnames:
            q = qnames[(k + len(text0)) % len(qnames)]
            variants.append((text0.replace("`" + q + "`", "`" + ex + "`"), tight0.replace("`" + q + "`", "`" + ex + "`"), False))
    bad, n = [], 0
    for text, tight, allforms in variants:
        spaced = text.replace("(", "( ").replace(")", " )").replace(",", " ,")
        forms = [(f, text) for f in ((text, spaced, "{" + text + "}", "{ " + spaced + "  }") if allforms else (text, "{ " + spaced + "  }"))]
        # the model's TIGHT spelling (keyword operators: no blank where a backtick delimits - not`a b`, x if`a b`else y): the same fragment
        # in another formatting, so the same normal form; also as the whole brace-quoted fragment, where the keyword opens the fragment
        if tight != text:
            forms += [(tight, text), ("{" + tight + "}", text)]
            if allforms and tight.startswith("g(") and text.startswith("g("):       # the operand of g( ) on its own
                forms.append(("{" + tight[2:-1] + "}", text[2:-1]))
        for form, want in forms:
            n += 1
            try:
                toks = list(sanitize_tokens(tokenize(form)))
                got = [t.token for t in toks]
                if got != [want] or toks[0].kind.value != "python":
                    bad.append({"string": form, "why": "python-normal-form", "observed": got, "expected": [want]})
                    continue
                f = Formula(form + " + zz", _ordering="none")
                exprs = [[fac.expr for fac in t.factors] for t in f]
                if exprs != [["1"], [want], ["zz"]]:
                    bad.append({"string": form, "why": "python-normal-form (factor of the parsed formula)", "observed": exprs, "expected": [["1"], [want], ["zz"]]})
            except Exception as e:  # noqa
                bad.append({"string": form, "why": "python-normal-form", "observed": type(e).__name__ + ": " + str(e)[:120], "expected": [want]})
    return bad, n


def pynorm_leg(ctx: Ctx, depth: int):
    out = workdir("c15") / "pynorm.ndjson"
    out.unlink(missing_ok=True)
    base = f'SPECIFICATION Spec\nCONSTANTS\n  Emit = TRUE\n  Variant = "fixed"\n  Depth = {depth}\n'
    cfg = base + "INVARIANT Faithful\nINVARIANT ScanOK\nINVARIANT ScanLossless\nINVARIANT SanitizeLexOK\nINVARIANT EmitCase\n"
    r = run_tlc("MC_PyNorm", cfg, tag="c15p", env={"OUT_FILE": str(out)}, timeout=3000)
    if r.violated:
        ctx.model_violation(r, "MC_PyNorm")
    ctx.add_tlc(r, f"python normalisation: scan / alias / format / restore is faithful (the scanner finds exactly the quoted names, loses no character; normal form = canonical formatting with quoted names verbatim); call expressions of depth <= {depth}")
    v = run_tlc("MC_PyNorm", (base + "INVARIANT Faithful\n").replace('"fixed"', '"pinned"').replace("Emit = TRUE", "Emit = FALSE"), tag="c15p", timeout=3000)
    if "Faithful" not in v.violated:
        raise MachineryError("MC_PyNorm: the pinned alias algorithm does not violate Faithful - the expression family is vacuous")
    v = run_tlc("MC_PyNorm", (base + "INVARIANT ScanOK\n").replace('"fixed"', '"pinned-scan"').replace("Emit = TRUE", "Emit = FALSE"), tag="c15p", timeout=3000)
    if "ScanOK" not in v.violated:
        raise MachineryError("MC_PyNorm: the pinned scanner does not violate ScanOK - no expression of the family tells the scanners apart")
    # restoring the names through a replacement TEMPLATE: TLC must refute it, and show that it fails exactly on the expressions holding a
    # quoted name with a backslash in front of a letter, a digit or a backslash (TemplateLaw) - so the family holds such names
    v = run_tlc("MC_PyNorm", (base + "INVARIANT Faithful\n").replace('"fixed"', '"template"').replace("Emit = TRUE", "Emit = FALSE"), tag="c15p", timeout=3000)
    if "Faithful" not in v.violated:
        raise MachineryError("MC_PyNorm: restoring the quoted names through a replacement template does not violate Faithful - no name of the family holds a backslash")
    v = run_tlc("MC_PyNorm", (base + "INVARIANT TemplateLaw\n").replace('"fixed"', '"template"').replace("Emit = TRUE", "Emit = FALSE"), tag="c15p", timeout=3000)
    if v.violated:
        ctx.model_violation(v, "MC_PyNorm TemplateLaw")
    ctx.add_tlc(v, "python normalisation: restoration through a replacement template is unfaithful exactly on quoted names holding an escape")
    # a format step that collapses runs of blanks: TLC must refute it, and show that it fails exactly on the expressions holding a string
    # literal with a run of blanks (SqueezeLaw) - so the family holds such literals
    v = run_tlc("MC_PyNorm", (base + "INVARIANT Faithful\n").replace('"fixed"', '"squeeze"').replace("Emit = TRUE", "Emit = FALSE"), tag="c15p", timeout=3000)
    if "Faithful" not in v.violated:
        raise MachineryError("MC_PyNorm: a formatter that collapses runs of blanks does not violate Faithful - no string literal of the family holds one")
    v = run_tlc("MC_PyNorm", (base + "INVARIANT SqueezeLaw\n").replace('"fixed"', '"squeeze"').replace("Emit = TRUE", "Emit = FALSE"), tag="c15p", timeout=3000)
    if v.violated:
        ctx.model_violation(v, "MC_PyNorm SqueezeLaw")
    ctx.add_tlc(v, "python normalisation: a formatter that collapses runs of blanks is unfaithful exactly on string literals holding one")
    # placeholders put into the source text without blanks around them: TLC must refute it - so the family holds quoted names that touch a
    # word (keyword operators in their tight spelling)
    v = run_tlc("MC_PyNorm", (base + "INVARIANT SanitizeLexOK\n").replace('"fixed"', '"unpadded"').replace("Emit = TRUE", "Emit = FALSE"), tag="c15p", timeout=3000)
    if "SanitizeLexOK" not in v.violated:
        raise MachineryError("MC_PyNorm: unpadded placeholders do not violate SanitizeLexOK - no quoted name of the family touches a word")
    ctx.notes["pynorm_design_errors_refuted"] = ["pinned (aliases)", "pinned-scan (string pattern, quote characters inside names)",
                                                 "template (quoted names restored as a regex replacement template: backslashes)",
                                                 "squeeze (format step collapses runs of blanks: string literals)",
                                                 "unpadded (placeholder fuses with the word next to a quoted name)"]
    cases = read_emitted(out)
    out.unlink()
    if len(cases) != r.distinct:
        raise MachineryError(f"emission incomplete: {len(cases)} of {r.distinct}")
    res = pmap("harness.props.c15", "replay_pynorm", cases, chunk=100)
    for c, (bad, n) in zip(cases, res):
        ctx.traces += n
        ctx.evaluations += n
        if c["nq"] >= 1:
            ctx.nontrivial.add(("py", c["text"]))
        for b in bad:
            ctx.violation({"string": b["string"], "kind": "pynorm"}, b, kind="replay")
    ctx.sample({"python_fragment": cases[len(cases) // 2]["text"]})


def quoted_leg(ctx: Ctx, maxlen: int):
    """'taken verbatim ... so any column name can be referenced' at the level of the parsed formula: token strings over quoted names that
    print like literals (`0`, `1`, {0}) next to the literals themselves, parsed by the real parser and compared with Wilkinson.tla."""
    from . import c01

    c01._enumerated(ctx, maxlen, "quoted", "default")


def run(ctx: Ctx) -> None:
    ctx.rule = ("every character string over the model alphabet up to the bound (replay: token-for-token equality with tokenize()); "
                "every call expression of MC_PyNorm (identifiers, quoted names, string literals that overlap textually, keyword operators) x 4 spellings (+ tight); "
                "trace: random formulas with unicode quoted names and python fragments, single-space insertions, verbatim names; "
                "non-trivial = lexes without error into >= 2 (replay) / >= 3 (trace) tokens")
    ctx.trusted = ["lexical classes of characters computed with the regexes tokenize() documents", "ast.parse/ast.dump as the oracle of 'differ only in formatting'",
                   "TLC", "CommunityModules Json/CSV"]
    ctx.matchers = MATCHERS
    if ctx.quick:
        enumerated(ctx, 4, "c20")
        trace_leg(ctx, 600)
        pynorm_leg(ctx, 1)
        quoted_leg(ctx, 4)
    else:
        enumerated(ctx, 5, "c16")
        enumerated(ctx, 4, "c27")
        enumerated(ctx, 6, "c8", ws=False)
        trace_leg(ctx, 8000)
        pynorm_leg(ctx, 2)
        quoted_leg(ctx, 5)
    ctx.exhaustive = True


def replay(path: str) -> int:
    rec = json.load(open(path))
    s = rec["case"]["string"]
    print(repr(s), "->", lexalpha.observe_tokens(s if rec["case"].get("kind") != "vb" else "`" + s + "`"))
    print("expected/verdict:", rec["detail"].get("expected", rec["detail"].get("verdict")))
    return 0
