"""./check <Cxx|setup|selftest|all> [--tier quick|thorough] [--seed N] [--replay FILE]"""
from __future__ import annotations

import argparse
import importlib
import json
import os
import shutil
import sys
import traceback
import warnings

from .common import Ctx, assert_repo_import
from .tlc import SPEC, WORK, MachineryError, sany

PROPS = [f"C{i:02d}" for i in range(1, 21)]


def have(prop: str) -> bool:
    return os.path.exists(os.path.join(os.path.dirname(__file__), "props", prop.lower() + ".py"))


def setup() -> int:
    WORK.mkdir(exist_ok=True)
    mods = sorted(p.stem for p in SPEC.glob("*.tla"))
    bad = 0
    for m in mods:
        try:
            sany(m)
        except MachineryError as e:
            print(e)
            bad += 1
    import formulaic  # noqa

    assert_repo_import()
    print(f"setup: {len(mods)} TLA+ modules parsed, {bad} failed")
    return 2 if bad else 0


def main(argv=None) -> int:
    ap = argparse.ArgumentParser()
    ap.add_argument("target")
    ap.add_argument("--tier", default=os.environ.get("VERIF_TIER", "quick"))
    ap.add_argument("--seed", type=int, default=int(os.environ.get("VERIF_SEED", "0") or 0))
    ap.add_argument("--replay")
    a = ap.parse_args(argv)
    warnings.simplefilter("ignore")
    if a.tier not in ("quick", "thorough"):
        a.tier = "quick"
    if a.target == "setup":
        return setup()
    if a.target == "selftest":
        from . import selftest

        return selftest.main(a.tier, a.seed)
    targets = [p for p in PROPS if have(p)] if a.target == "all" else [a.target.upper()]
    rc = 0
    for t in targets:
        if not have(t):
            print(f"no check for {t}")
            return 2
        mod = importlib.import_module(f"harness.props.{t.lower()}")
        try:
            assert_repo_import()
            if a.replay:
                r = mod.replay(a.replay)
            else:
                ctx = Ctx(prop=t, tier=a.tier, seed=a.seed)
                mod.run(ctx)
                r = ctx.finish()
        except MachineryError as e:
            print(f"MACHINERY-ERROR {t}: {e}")
            r = 2
        except Exception:
            traceback.print_exc()
            print(f"MACHINERY-ERROR {t}: unexpected exception in harness")
            r = 2
        rc = max(rc, r)
    return rc


if __name__ == "__main__":
    sys.exit(main())
