"""Copy finished sub-agent mutants from /tmp/mut/Cxx/MUTANTk into /verif/seeded/Cxx-mk (patch.diff, demo.py, meta.json)."""
import json, shutil, sys
from pathlib import Path
src = Path("/tmp/mut")
dst = Path("/verif/seeded")
for pdir in sorted(src.glob("C??")):
    for m in sorted(pdir.glob("MUTANT*")):
        if not ((m / "patch.diff").exists() and (m / "meta.json").exists()):
            continue
        name = f"{pdir.name}-m{m.name[-1]}"
        out = dst / name
        if out.exists():
            continue
        out.mkdir(parents=True)
        for f in ("patch.diff", "demo.py", "meta.json"):
            if (m / f).exists():
                shutil.copy(m / f, out / f)
        meta = json.loads((out / "meta.json").read_text())
        meta["property"] = pdir.name
        meta["origin"] = "written by an independent sub-agent that saw only the property text and a scratch worktree"
        (out / "meta.json").write_text(json.dumps(meta, indent=1) + "\n")
        print("imported", name)
