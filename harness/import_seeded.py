"""Copy finished sub-agent mutants from <src>/Cxx/MUTANTk into /verif/seeded/Cxx-m(k+offset) (patch.diff, demo.py, meta.json).
usage: python -m harness.import_seeded [src-dir [offset]]"""
import json, shutil, sys
from pathlib import Path
src = Path(sys.argv[1] if len(sys.argv) > 1 else "/tmp/mut")
offset = int(sys.argv[2]) if len(sys.argv) > 2 else 0
dst = Path("/verif/seeded")
for pdir in sorted(src.glob("C??")):
    for m in sorted(pdir.glob("MUTANT*")):
        if not ((m / "patch.diff").exists() and (m / "meta.json").exists()):
            continue
        name = f"{pdir.name}-m{int(m.name[-1]) + offset}"
        out = dst / name
        if out.exists():
            continue
        out.mkdir(parents=True)
        for f in ("patch.diff", "demo.py", "meta.json"):
            if (m / f).exists():
                shutil.copy(m / f, out / f)
        meta = json.loads((out / "meta.json").read_text())
        meta["property"] = pdir.name
        meta["origin"] = "written by an independent sub-agent that saw only the property text and a scratch worktree"
        (out / "meta.json").write_text(json.dumps(meta, indent=1) + "\n")
        print("imported", name)
