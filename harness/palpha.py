"""alpha for parser results: Structured[OrderedSet[Term]] / Formula -> abstract outcome."""
from __future__ import annotations

import signal

from formulaic import Formula
from formulaic.errors import FormulaParsingError
from formulaic.parser import DefaultFormulaParser
from formulaic.utils.structured import Structured

_PARSERS = {}


def parser_for(cfg: dict, route: int = 0) -> DefaultFormulaParser:
    """The parser of a configuration.  A configuration is a configuration however it was reached: route 0 constructs the parser with
    it, route 1 reaches it by reconfiguring a parser that has already parsed under the complementary flags and the other intercept
    setting (so a stale cache of the first configuration would show)."""
    key = (cfg["intercept"], tuple(sorted(cfg["flags"])), route)
    if key not in _PARSERS:
        if route == 0:
            _PARSERS[key] = DefaultFormulaParser(include_intercept=cfg["intercept"], feature_flags=set(cfg["flags"]))
        else:
            other = {"TWOSIDED", "MULTIPART", "MULTISTAGE"} - set(cfg["flags"])
            p = DefaultFormulaParser(include_intercept=not cfg["intercept"], feature_flags=other)
            for s in ("a + b", "a ~ b", "a | b", "[a ~ b]"):
                try:
                    p.get_terms(s)
                except Exception:  # noqa
                    pass
            p.set_feature_flags(set(cfg["flags"]))
            p.include_intercept = cfg["intercept"]
            _PARSERS[key] = p
    return _PARSERS[key]


def _route(s: str) -> int:
    return (sum(map(ord, s)) + len(s)) % 2


def context_for(cfg: dict):
    if cfg["avail"]["present"]:
        return {"__formulaic_variables_available__": list(cfg["avail"]["vars"])}
    return None


def _terms(os_) -> list:
    return [[f.expr for f in t.factors] for t in os_]


def _meths(os_) -> list:
    return [[f.eval_method.value for f in t.factors] for t in os_]


def _parts(x, fn) -> list:
    if isinstance(x, tuple):
        return [fn(p) for p in x]
    return [fn(x)]


def _simplify(x):
    """Structured._simplify() on any value: a Structured holding only a non-tuple root is that root."""
    if isinstance(x, Structured):
        st = x._structure
        if set(st) == {"root"} and not isinstance(st["root"], tuple):
            return _simplify(st["root"])
        return {k: _simplify(v) for k, v in st.items()}
    if isinstance(x, tuple):
        return tuple(_simplify(v) for v in x)
    return x


def tree_str(x) -> str:
    """canonical rendering of a simplified value; mirrors Wilkinson!TreeStr (keys in alphabetical order)"""
    if isinstance(x, dict):
        return "<" + ", ".join(f"{k}={tree_str(x[k])}" for k in sorted(x)) + ">"
    if isinstance(x, tuple):
        return "(" + ", ".join(tree_str(v) for v in x) + ")"
    return "[" + " + ".join(" & ".join(f.expr for f in t.factors) for t in x) + "]"


def _is_parts(x) -> bool:
    if isinstance(x, (dict, Structured)):
        return False
    if isinstance(x, tuple):
        return all(not isinstance(v, (dict, tuple, Structured)) for v in x)
    return True


def alpha_structured(res) -> dict:
    """res: Structured[OrderedSet[Term]] from get_terms, or Formula."""
    if not isinstance(res, Structured):  # SimpleFormula
        return {"st": "OK", "shape": "root", "lhs": [], "rhs": [_terms(res)], "m_lhs": [], "m_rhs": [_meths(res)]}
    simp = _simplify(res)
    top = simp["root"] if isinstance(simp, dict) and set(simp) == {"root"} else simp
    if _is_parts(top):
        return {"st": "OK", "shape": "root", "lhs": [], "rhs": _parts(top, _terms), "m_lhs": [], "m_rhs": _parts(top, _meths)}
    if isinstance(top, dict) and set(top) == {"lhs", "rhs"}:
        unroot = lambda v: v["root"] if isinstance(v, dict) and set(v) == {"root"} else v  # noqa
        l, r = unroot(top["lhs"]), unroot(top["rhs"])
        if _is_parts(l) and _is_parts(r):
            return {"st": "OK", "shape": "two", "lhs": _parts(l, _terms), "rhs": _parts(r, _terms),
                    "m_lhs": _parts(l, _meths), "m_rhs": _parts(r, _meths)}
    return {"st": "OK", "shape": "tree", "tree": tree_str(simp), "lhs": [], "rhs": [], "m_lhs": [], "m_rhs": []}


class _Timeout(Exception):
    pass


def _alarm(signum, frame):
    raise _Timeout()


def observe(fn, timeout: int = 20) -> dict:
    """Run fn() and classify the outcome: OK(value) / REJECT / PYSYNTAX / ESCAPED(type) / TIMEOUT."""
    signal.signal(signal.SIGALRM, _alarm)
    signal.alarm(timeout)
    try:
        return alpha_structured(fn())
    except FormulaParsingError as e:
        full = str(e)
        return {"st": "REJECT", "cls": type(e).__name__, "msg": full.split("\n")[0][:120], "context": full.split("\n\n", 1)[1] if "\n\n" in full else ""}
    except SyntaxError as e:
        return {"st": "PYSYNTAX", "msg": str(e)[:120]}
    except _Timeout:
        return {"st": "TIMEOUT"}
    except RecursionError:
        return {"st": "ESCAPED", "cls": "RecursionError"}
    except BaseException as e:  # noqa
        return {"st": "ESCAPED", "cls": type(e).__name__, "msg": str(e)[:120]}
    finally:
        signal.alarm(0)


def context_law(s: str, obs: dict):
    """The source context a rejection carries marks a token of the input: without its markers it is the input string itself and the
    marked stretch is not empty (C15: 'each token's recorded source span delimits its text in the original string').  None if it holds."""
    import re

    c = obs.get("context", "")
    if obs.get("st") != "REJECT" or not c:
        return None
    plain = re.sub(r"\x1b\[[0-9;]*m", "", c)
    if plain.count("⧛") != 1 or plain.count("⧚") != 1 or plain.index("⧛") > plain.index("⧚"):
        return "malformed markers in the error context: " + repr(plain[:80])
    inner = plain[plain.index("⧛") + 1 : plain.index("⧚")]
    if plain.replace("⧛", "").replace("⧚", "") != s:
        return "the error context is not the input string: " + repr(plain[:80])
    if inner == "":
        return "the error context marks an empty stretch: " + repr(plain[:80])
    return None


def parse_terms(s: str, cfg: dict) -> dict:
    return observe(lambda: parser_for(cfg, _route(s)).get_terms(s, context=context_for(cfg)))


def parse_formula(s: str, cfg: dict) -> dict:
    return observe(lambda: Formula(s, _parser=parser_for(cfg, 1 - _route(s)), _context=context_for(cfg)))
