"""alpha for parser results: Structured[OrderedSet[Term]] / Formula -> abstract outcome."""
from __future__ import annotations

import signal

from formulaic import Formula
from formulaic.errors import FormulaParsingError
from formulaic.parser import DefaultFormulaParser
from formulaic.utils.structured import Structured

_PARSERS = {}


def parser_for(cfg: dict) -> DefaultFormulaParser:
    key = (cfg["intercept"], tuple(sorted(cfg["flags"])))
    if key not in _PARSERS:
        _PARSERS[key] = DefaultFormulaParser(include_intercept=cfg["intercept"], feature_flags=set(cfg["flags"]))
    return _PARSERS[key]


def context_for(cfg: dict):
    if cfg["avail"]["present"]:
        return {"__formulaic_variables_available__": list(cfg["avail"]["vars"])}
    return None


def _terms(os_) -> list:
    return [[f.expr for f in t.factors] for t in os_]


def _meths(os_) -> list:
    return [[f.eval_method.value for f in t.factors] for t in os_]


def _parts(x, fn) -> list:
    if isinstance(x, tuple):
        return [fn(p) for p in x]
    return [fn(x)]


def alpha_structured(res) -> dict:
    """res: Structured[OrderedSet[Term]] from get_terms, or Formula."""
    if not isinstance(res, Structured):  # SimpleFormula
        return {"st": "OK", "shape": "root", "lhs": [], "rhs": [_terms(res)], "m_lhs": [], "m_rhs": [_meths(res)]}
    keys = set(res._structure)
    if keys == {"root"}:
        root = res._structure["root"]
        if isinstance(root, Structured):
            return {"st": "OTHER", "shape": "nested"}
        return {"st": "OK", "shape": "root", "lhs": [], "rhs": _parts(root, _terms), "m_lhs": [], "m_rhs": _parts(root, _meths)}
    if keys == {"lhs", "rhs"}:
        l, r = res._structure["lhs"], res._structure["rhs"]
        if isinstance(l, Structured) or isinstance(r, Structured):
            return {"st": "OTHER", "shape": "nested"}
        return {"st": "OK", "shape": "two", "lhs": _parts(l, _terms), "rhs": _parts(r, _terms),
                "m_lhs": _parts(l, _meths), "m_rhs": _parts(r, _meths)}
    return {"st": "OTHER", "shape": "keys:" + ",".join(sorted(keys))}


class _Timeout(Exception):
    pass


def _alarm(signum, frame):
    raise _Timeout()


def observe(fn, timeout: int = 20) -> dict:
    """Run fn() and classify the outcome: OK(value) / REJECT / PYSYNTAX / ESCAPED(type) / TIMEOUT."""
    signal.signal(signal.SIGALRM, _alarm)
    signal.alarm(timeout)
    try:
        return alpha_structured(fn())
    except FormulaParsingError as e:
        return {"st": "REJECT", "cls": type(e).__name__, "msg": str(e).split("\n")[0][:120]}
    except SyntaxError as e:
        return {"st": "PYSYNTAX", "msg": str(e)[:120]}
    except _Timeout:
        return {"st": "TIMEOUT"}
    except RecursionError:
        return {"st": "ESCAPED", "cls": "RecursionError"}
    except BaseException as e:  # noqa
        return {"st": "ESCAPED", "cls": type(e).__name__, "msg": str(e)[:120]}
    finally:
        signal.alarm(0)


def parse_terms(s: str, cfg: dict) -> dict:
    return observe(lambda: parser_for(cfg).get_terms(s, context=context_for(cfg)))


def parse_formula(s: str, cfg: dict) -> dict:
    return observe(lambda: Formula(s, _parser=parser_for(cfg), _context=context_for(cfg)))
