"""Regenerates the catch matrix of the seeded changes in DESIGN.md (between the CATCH-MATRIX markers) from seeded/*/meta.json.
usage: python -m harness.catch_matrix"""
import json
import re
from pathlib import Path

ROOT = Path(__file__).resolve().parent.parent


def short(s, n):
    s = " ".join(str(s).split())
    return s if len(s) <= n else s[: n - 1] + "…"


def main():
    rows = []
    for d in sorted((ROOT / "seeded").glob("C??-m*")):
        m = json.loads((d / "meta.json").read_text())
        runs = m.get("runs", [])
        if not runs:
            continue
        last = runs[-1]
        caught = last.get("caught_by", [])
        first_missed = any(not r.get("caught_by") for r in runs[:-1]) and bool(caught)
        ex = ""
        for c in caught:
            e = last["checks"][c].get("example") or []
            if e:
                try:
                    j = json.loads(e[0])
                    ex = j.get("why") or j.get("law") or j.get("verdict") or ""
                    if not ex:
                        ex = ", ".join(f"{k}={short(v, 30)}" for k, v in list(j.items())[:2])
                except Exception:
                    ex = short(e[0], 60)
                break
        if m.get("neutralised"):
            rows.append((d.name, m["property"], short(m.get("summary", ""), 150), short(m.get("needs", ""), 140),
                         "(no longer a violation)", short(m["neutralised"], 110), ""))
            continue
        rows.append((d.name, m["property"], short(m.get("summary", ""), 150), short(m.get("needs", ""), 140),
                     ", ".join(caught) if caught else "**missed**", short(ex, 70), "yes" if first_missed else ""))
    out = ["| id | what the change does | what it needs to manifest | caught by | first disagreement reported | caught only after strengthening |", "|---|---|---|---|---|---|"]
    for r in rows:
        out.append(f"| {r[0]} | {r[2]} | {r[3]} | {r[4]} | {r[5]} | {r[6]} |")
    live = [r for r in rows if r[4] != "(no longer a violation)"]
    n, hit = len(live), sum(1 for r in live if r[4] != "**missed**")
    out.append("")
    out.append(f"{hit} of {n} seeded changes are reported by the check of their own property on the current machinery"
               + (f" ({len(rows) - n} further changes were made harmless by later repairs of the library and are listed for the record)." if len(rows) != n else "."))
    text = "\n".join(out)
    p = ROOT / "DESIGN.md"
    s = p.read_text()
    s, k = re.subn(r"(<!-- CATCH-MATRIX-BEGIN -->\n).*?(<!-- CATCH-MATRIX-END -->)", lambda mo: mo.group(1) + text + "\n" + mo.group(2), s, flags=re.S)
    if k != 1:
        raise SystemExit("CATCH-MATRIX markers not found exactly once in DESIGN.md")
    p.write_text(s)
    print(f"{hit}/{n}")


if __name__ == "__main__":
    main()
