"""Re-derives the commit hashes of the "fixed" entries of known_findings.jsonl from the fix commits' subjects
(needed after a fix commit was amended).  Never touches "finding" entries."""
import json, subprocess
PREFIX = {
 "D1": "fix: collapse sign runs", "D25": "fix: record left-hand-side", "D20": "fix: reject bracket pairs", "D5a": "fix: a closing bracket",
 "D26": "fix: the right operand", "D5c": "fix: nesting operators", "D24": "fix: an empty quoted token", "D18": "fix: python fragments keep",
 "D27": "fix: ** / ^ reject exponents", "D5d": "fix: an empty backtick-quoted name", "D21": "fix: Structured._flatten recurses",
 "D2": "fix: literal scaling is applied", "D3": "fix: recombined scoped terms", "D10": "fix: a model matrix without columns", "D12": "fix: term_indices / term_slices",
 "D6": "fix: rows are dropped by position", "D7": "fix: structured model specs honour", "D8": "fix: ModelSpec.get_model_matrix forwards", "D9": "fix: hashed() drops the rows",
 "D28": "fix: the narwhals materializer keeps declared", "D4": "fix: the pandas materializer treats dedicated", "D16": "fix: the narwhals materializer passes boolean",
 "D11": "fix: the kind guard sees", "D13": "fix: exp10(x) is 10**x", "D14": "fix: Formula.required_variables handles", "D17": "fix: materializing never writes state",
 "D22": "fix: B-splines propagate missing", "D23": "fix: cyclic cubic splines on three knots", "D29": "fix: natural cubic splines without inner knots", "D32": "fix: pickling or deep-copying an operator resolver", "D34": "fix: multistage formulas yield an ordered set", "D35": "fix: backtick-quoted names inside python fragments", "D36": "fix: a stateful transform called twice in one factor", "D38": "fix: a method call on a column counts", "D39": "fix: a materializer instance can be used for more than one", "D40": "fix: required variables of python factors that quote", "D41": "fix: '.' leaves out a column the left-hand side reads", "D42": "fix: scale and center compute in floating point", "D43": "fix: poly(raw=True) computes the powers", "D44": "fix: cyclic cubic splines wrap integer data", "D45": "fix: the centering constraint of cubic splines is taken over", "D46": "fix: a slice of a formula can be replaced", "D47": "fix: differentiating a materialized model spec", "D48": "fix: a term scaled by zero does not stand in", "D49": "fix: indicator columns of string-dtype categories", "D50": "fix: the pandas materializer treats Arrow dictionary", "D51": "fix: NaN in a float column of a narwhals frame", "D52": "fix: a dict of columns is dispatched", "D53": "fix: a quoted column named like a python keyword", "D54": "fix: a quoted `.` names a column", "D55": "fix: the exponent of ** and ^ is an integer literal", "D56": "fix: a quoted `~` is a column name", "D57": "fix: constraint specifications may put a sign", "D58": "fix: an empty mapping of constraints", "D59": "fix: every part of a structured spec records", "D60": "fix: lag() works under the narwhals materializer", "D61": "fix: integer columns enter the model matrix", "D62": "fix: a quoted name used twice in one expression", "D63": "fix: transform state is recorded under the call", "D64": "fix: hashed() can be applied to an empty column", "D65": "fix: an exponent that is not a readable literal", "D66": "fix: an exponent larger than the number of terms", "D67": "fix: a Python fragment that Python cannot read", "D68": "fix: a string literal ending in an escaped backslash", "D69": "fix: quote characters inside a quoted name", "D70": "fix: the source of a quoted column whose name contains a dot", "D71": "fix: the narwhals materializer keeps the index labels", "D72": "fix: nulls are found in arrays of strings and objects", "D73": "fix: a one-level factor with explicit contrasts contributes no columns", "D74": "fix: contrasts other than treatment can be applied to a numpy", "D75": "fix: the sparse coefficient matrix of a one-level factor", "D76": "fix: a quoted column whose name starts like a transform", "D77": "fix: placeholders of quoted names are made of characters", "D78": "fix: an error about an expression that contains rewritten tokens", "D79": "fix: placeholders of quoted names survive Python", "D80": "fix: an error about an expression that contains the wildcard",
}
subj = {}
for l in subprocess.run(["git", "-C", "/repo", "log", "--format=%h %s"], capture_output=True, text=True).stdout.strip().split("\n"):
    h, s = l.split(" ", 1)
    subj[s] = h
out = []
for line in open("/verif/known_findings.jsonl"):
    r = json.loads(line)
    if r["status"] == "fixed":
        hs = [v for k, v in subj.items() if k.startswith(PREFIX[r["id"]])]
        assert len(hs) == 1, (r["id"], hs)
        r["commit"] = hs[0]
        r["text"] = f"fixed: property={r['property']} {hs[0]} {r['what']}"
    out.append(json.dumps(r))
open("/verif/known_findings.jsonl", "w").write("\n".join(out) + "\n")
print(len(out), "entries")
